#!/bin/sh
# usage: check.sh <property> [quick|thorough]
# Decides the structural clauses of one property from /repo's current source.
# Exit 0: held; 1: VIOLATION lines printed; 2: the check itself is broken.
set -u
V="$(cd "$(dirname "$0")" && pwd)"
export GOFLAGS=-mod=mod GOPROXY=off GOSUMDB=off GOTOOLCHAIN=local CGO_ENABLED=0
unset GOWORK
prop="$1"; tier="${2:-${VERIF_TIER:-quick}}"
# rebuild the checker when its sources are newer than the binary
if [ ! -x "$V/bin/ctylint" ] || [ -n "$(find "$V/ctylint" -newer "$V/bin/ctylint" \( -name '*.go' -o -name '*.txt' -o -name go.mod \) -print -quit 2>/dev/null)" ]; then
  (cd "$V/ctylint" && go build -o "$V/bin/ctylint" .) || { echo "BROKEN property=$prop cannot build ctylint"; exit 2; }
fi
mkdir -p "$V/evidence"
exec "$V/bin/ctylint" -prop "$prop" -tier "$tier" -seed "${VERIF_SEED:-0}" -verif "$V" -evidence "$V/evidence/$prop.json"
