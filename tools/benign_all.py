#!/usr/bin/env python3
"""Runs all rules (one process per patch, -prop all) on /repo with each benign refactoring applied in memory;
prints VIOLATION/BROKEN lines. Any line is a false alarm (or a rule that cannot cope with the refactoring).
usage: benign_all.py [dirs...]  (default: every directory under benign/)"""
import os, subprocess, sys, concurrent.futures as cf
V = os.path.dirname(os.path.dirname(os.path.abspath(__file__)))
exe = os.path.join(V, "bin/ctylint")
dirs = sys.argv[1:] or sorted(os.path.join(V, "benign", d) for d in os.listdir(os.path.join(V, "benign")) if os.path.isdir(os.path.join(V, "benign", d)))
import json
known_open = set()
try:
    for f in json.load(open(os.path.join(V, "known_findings.json")))["findings"]:
        if f.get("status") == "open":
            known_open.add((f["rule"], f["construct"]))
except Exception:
    pass
def is_known(l):
    return any(("rule=" + r + " construct=" + c + " at ") in l for r, c in known_open)
def cell(d):
    p = subprocess.run([exe, "-prop", "all", "-overlaypatch", os.path.join(d, "patch.diff"), "-nocontrols", "-verif", V], capture_output=True, text=True, errors="replace")
    moved = []
    try:
        moved = json.load(open(os.path.join(d, "meta.json"))).get("moves_known_finding", [])
    except Exception:
        pass
    return d, [l for l in (p.stdout + p.stderr).splitlines() if (l.startswith(("VIOLATION", "BROKEN")) or "stale" in l) and not is_known(l)
               and not any(("rule=" + r + " ") in l for r in moved)]
bad = 0
with cf.ThreadPoolExecutor(max_workers=8) as ex:
    for d, lines in ex.map(cell, dirs):
        print("==", os.path.basename(d), "ALARMS:", len(lines))
        for l in lines:
            bad += 1
            print("   ", l[:400])
print("total alarm lines:", bad)
sys.exit(1 if bad else 0)
