#!/usr/bin/env python3
"""Regenerates /verif/MANIFEST.json from the claim table below.
A property is listed under checks only when ctylint has rules for it
(`ctylint -list`); everything else goes to not_applicable with its reason."""
import json, subprocess, os, sys
V = os.path.dirname(os.path.dirname(os.path.abspath(__file__)))

TB = ("Trusted: go/types, x/tools v0.29.0 go/packages+go/cfg+go/ssa, the checker's symbol-keyed tables (each row with a reason; a stale row makes the check exit 2), "
      "third-party libraries and reflect behave as documented. Sites whose origin the analysis cannot resolve are 'assumed' and listed in the evidence. ")

CLAIMS = {
 "C01": dict(tech="typestate (relational guard worlds over go/cfg) + return-expression classification on the typed AST",
   text="Decides structural necessary conditions only: in every operation method each payload assertion on an operand is dominated by a guard establishing it is known; mustTypeCheck short-circuits are forced to the documented result kind before every return; every return of the never-null family is non-null by construction or guarded. Level 'other': code-path quantification, not input sampling.",
   note="Not decided: that definite answers derived from refinement ranges are justified, numeric soundness of range arithmetic, equality of known parts. "),
 "C02": dict(tech="typed-AST return-kind classification + sibling agreement (Index/HasIndex) + nil-on-infinity contradiction rule",
   text="Decides: every return of each operation method has the documented result kind; Index and HasIndex dispatch on the same receiver kinds and Go-map lookups producing a Value are presence-checked; (*big.Float).Int results are dereferenced only under an infinity/exactness guard on the same float.",
   note="Not decided: every numeric clause (agreement with exact rational arithmetic, precision, truth tables on runtime values). "),
 "C03": dict(tech="kind-dispatch coverage + who-may-write (set buckets) + must-pass-through in set.Add/Remove/Has + map-range order classification",
   text="Decides: Equals/RawEquals/hash cover all ten kinds with a panicking residual; Set.vals is written only by the four owning methods, Add appends only after a completed equivalence scan of the hash bucket, set algebra is built only through Add/Has; Equivalent answers true only from a known true Equals; Values() iterates via sorted keys.",
   note="Not decided: reflexivity/symmetry/transitivity of number equality, hash/equality coherence for numbers, trichotomy (value-level). "),
 "C04": dict(tech="AST shape rule on 21 operation methods (mark prologue) + typestate for payload access + who-may-construct markers + Spec-driven typestate for AllowMarked parameters",
   text="Decides: every operation method tests, unmarks and re-marks ALL its operands (or purely delegates); payload assertions in package cty happen only on unmarked values; the convert wrapper and function.Call re-apply the marks they strip on every success return; SetVal hoists element marks; marker values are only built by the three mark constructors.",
   note="Not decided: value equality of marked and unmarked runs, mark handling inside AllowMarked implementations (exempted by the property). "),
}

NA = {
 "C13": "Differential agreement of collection/set/sequence functions with a reference over all argument lists: every clause is about computed runtime values (index arithmetic, orderings); no structural necessary condition beyond the guard discipline claimed under C11/C12.",
 "C14": "Agreement of numeric/string/encoding/date functions with math/big, strings, encoding/*, time and grapheme segmentation over all inputs, incl. a generated FSM: value-level throughout; the only static proxy would match generated table contents (a frozen fragment).",
}
NOT_BUILT = "rules for this property are designed in DESIGN.md but not built yet; not claimed until they run"

def main():
    out = subprocess.run([os.path.join(V, "bin/ctylint"), "-list"], capture_output=True, text=True).stdout
    have = set()
    for l in out.splitlines():
        f = l.split("\t")
        if len(f) >= 2 and f[0].startswith("C"):
            have.add(f[0])
    props = [json.loads(l)["id"] for l in open(os.path.join(V, "properties.jsonl"))]
    checks, na = [], []
    for p in props:
        if p in CLAIMS and p in have:
            c = CLAIMS[p]
            checks.append({
              "property_id": p,
              "quick_cmd": f"./check.sh {p} quick",
              "thorough_cmd": f"./check.sh {p} thorough",
              "evidence_file": f"/verif/evidence/{p}.json",
              "replay_cmd_template": "./bin/ctylint -replay {path}",
              "engine": "ctylint",
              "level_claimed": {"category": "other", "text": c["text"], "design_ref": f"DESIGN.md §2 {p}"},
              "level_note": c["note"] + TB,
              "technique": "static analysis: " + c["tech"],
            })
        elif p in NA:
            na.append({"property_id": p, "reason": NA[p]})
        else:
            na.append({"property_id": p, "reason": NOT_BUILT})
    m = {
      "version": 1,
      "setup_cmd": "cd /verif/ctylint && GOFLAGS=-mod=mod GOPROXY=off GOSUMDB=off GOTOOLCHAIN=local GOWORK=off CGO_ENABLED=0 go build -o /verif/bin/ctylint .",
      "hooks": {
        "guard": "verif",
        "enable": "none needed: static analysis reads /repo's source as it is; the build tag 'verif' is reserved and unused",
        "baseline_off_cmd": "cd /repo && GOFLAGS=-mod=mod GOPROXY=off GOSUMDB=off go test -json -vet=off -count=1 -timeout 25m ./...",
        "source_commits": [],
        "add_only": True
      },
      "engines": [{"name": "ctylint", "path": "/verif/ctylint", "serves_properties": [c["property_id"] for c in checks],
                   "kind_free_text": "custom static analyser for go-cty: go/packages typed AST, go/cfg typestate and dominance, go/ssa ownership/taint, sibling and table agreement; never executes go-cty"}],
      "checks": checks,
      "not_applicable": na,
      "notes": "All claims are at level 'other': each check decides structural necessary conditions of its property (named in level_claimed.text and in the evidence 'explanation'), not the behaviour. Exit 2 / 'BROKEN' lines mean the check could not decide (stale table, unresolved anchor, floor not met, positive control not flagged). Known findings: /verif/known_findings.json."
    }
    json.dump(m, open(os.path.join(V, "MANIFEST.json"), "w"), indent=1)
    print("claimed:", [c["property_id"] for c in checks], "na:", len(na))

main()
