#!/usr/bin/env python3
"""Regenerates /verif/MANIFEST.json from the claim table below.
A property is listed under checks only when ctylint has rules for it
(`ctylint -list`); everything else goes to not_applicable with its reason."""
import json, subprocess, os, sys
V = os.path.dirname(os.path.dirname(os.path.abspath(__file__)))

TB = ("Trusted: go/types, x/tools v0.29.0 go/packages+go/cfg+go/ssa, the checker's symbol-keyed tables (each row with a reason; a stale row makes the check exit 2), "
      "third-party libraries and reflect behave as documented. Sites whose origin the analysis cannot resolve are 'assumed' and listed in the evidence. ")

CLAIMS = {
 "C01": dict(rules=["C01.unknown-before-payload","C01.typed-shortcircuit","C01.never-null","C01.mirror","C01.range-corners","C03.operand-symmetry"],
   tech="typestate (relational guard worlds over go/cfg) + return-expression classification on the typed AST",
   text="Decides structural necessary conditions only: in every operation method each payload assertion on an operand is dominated by a guard establishing it is known; mustTypeCheck short-circuits are forced to the documented result kind before every return; every return of the never-null family is non-null by construction or guarded. Level 'other': code-path quantification, not input sampling. Arms of Equals whose conditions are operand-swapped images of each other have operand-swapped bodies.",
   note="Not decided: that definite answers derived from refinement ranges are justified, numeric soundness of range arithmetic, equality of known parts. "),
 "C02": dict(rules=["C01.typed-shortcircuit","C01.mirror","C02.index-agrees-with-hasindex","C02.map-lookup-presence","C06.normalise-before-lookup","C16.narrowing-exact"],
   tech="typed-AST return-kind classification + sibling agreement (Index/HasIndex key validation; LessThan/GreaterThan mirror) + dominance of presence tests over payload-map lookups",
   text="Decides: every return of each operation method has the documented result kind; Index and HasIndex reject the same key conditions per receiver kind and the list/tuple branches agree; LessThan and GreaterThan are exact mirror images; every payload-map lookup that produces a member is an iteration, keyed by the object type's attribute names, comma-ok, or dominated by a presence test (missing keys are rejected, never a null member). Attribute names are normalised before any map lookup; a narrowed big.Float is used (or turned back into a number) only under an exactness test.",
   note="Not decided: every numeric clause (agreement with exact rational arithmetic, precision selection, truth tables on runtime values). "),
 "C03": dict(rules=["C03.kind-total","C03.set-protocol","C20.set-storage","C02.map-lookup-presence","C20.order-free-results","C03.operand-symmetry","C03.equivalence-uses-equals"],
   tech="kind-dispatch coverage of the equality / hashing / ordering entry points + who-may-write and must-pass-through rules in package set + go/ssa storage-independence of returned sets + presence-test dominance and map-range order classification in Equals",
   text="Decides: Equals, RawEquals and the set hash cover every kind of type with a panicking residual and the set ordering covers the three primitive kinds; in package set only Add/Remove write buckets, buckets are chosen by rules.Hash and members compared with rules.Equivalent, Add appends only after the equivalence scan; every set-returning function returns fresh bucket storage; equality reads map members only under presence tests (differing key sets are noticed) and does not depend on map iteration order. Swapped-condition arms of Equals have swapped bodies (symmetry); set equivalence is decided by Equals, never RawEquals, and Remove deletes only after an equivalence comparison.",
   note="Not decided: reflexivity/symmetry/transitivity of number equality, hash/equality coherence for numbers, trichotomy (value-level). "),
 "C04": dict(rules=["C04.op-prologue","C04.convert-wrapper","C04.call-marks","C04.stdlib-mark-tolerance","C04.rebuild-keeps-marks","C06.single-mark-layer","C19.rebuild-preserves-marks"],
   tech="AST shape rule on 21 operation methods (mark prologue) + typestate for payload access + must-pass-through of WithMarks in the convert wrapper and Function.Call",
   text="Decides: every operation method tests, unmarks and re-marks ALL its operands (or purely delegates); payload assertions in operation methods happen only after the prologue; the convert wrapper and function.Call re-apply the marks they strip on every success return.",
   note="Not decided: value equality of marked and unmarked runs, mark handling inside AllowMarked implementations (exempted by the property). "),
 "C05": dict(rules=["C05.mirror","C05.builder-discipline","C05.safe-prefix-route","C05.collapse-needs-nullness","C20.builder-copy"],
   tech="mirror (sibling) agreement of the lower/upper bound code + must-facts dominance of keep-tighter / known-value conditions over every store into the working refinement + must-pass-through of the consistency assertion + go/ssa alias check that builder and value never share a refinement record",
   text="Decides: every builder mutator first returns unchanged for a non-refineable (dynamic) value; every store of a bound or prefix is dominated by a condition consulting the existing bound of the same family and by one consulting the value being refined, and is followed by the consistency assertion on all paths; the number lower/upper bound setters and getters are exact mirror images; the safe prefix constructor and every truncation of a prefix go through SafeKnownPrefix; Refine() works on a copy and NewValue publishes a copy; NewValue collapses to a known value only under decided nullness.",
   note="Not decided: that the reported range is exactly what the constraints imply for tie cases, that every contradiction with a known value is caught, Unicode continuation safety of SafeKnownPrefix itself (needs the UAX #15/#29 tables). "),
 "C06": dict(rules=["C06.single-mark-layer","C06.literal-payload-kind","C08.optional-taint","C08.partial-constructors","C20.set-storage","C06.normalise-before-lookup"],
   tech="must-facts over go/cfg for the unwrap-before-wrap idiom of marker construction + static payload typing of every Value literal + optional-attribute taint to value constructors (shared with C08)",
   text="Decides: wherever a marker is built its payload is another marker's realV or was tested not to be a marker (at most one layer of marks); every Value literal whose type names a kind carries the Go payload type of that kind; requested types reach null/unknown/empty-collection constructors in package convert only stripped of optional-attribute annotations; collection constructors in convert are guarded by emptiness and Can*Val tests. String parameters are NFC-normalised before they index name-keyed maps.",
   note="Not decided: that dynamic payloads satisfy the invariants on every path (tuple length equals type length, object attribute sets), NFC normalisation of every string reaching a payload — only construction sites are checked. "),
 "C07": dict(rules=["C07.kind-total","C07.equals-field-coverage","C07.json-tags","C07.strip-rebuilds-everything","C07.conformance-structure","C07.conformance-ignores-optional","C20.no-alias-out","C07.json-names-encoded"],
   tech="kind-dispatch coverage + field-coverage of the eight typeImpl.Equals implementations + writer/reader tag-table agreement for type JSON",
   text="Decides: each typeImpl.Equals asserts the other side to its own concrete type and compares every field from both sides; HasDynamicTypes / WithoutOptionalAttributesDeep / MarshalJSON cover all kinds with a panicking residual; testConformance recurses given-vs-want per compound kind and its residual appends an error; the type names written by MarshalJSON equal those accepted by UnmarshalJSON; stripping rebuilds every compound kind and never constructs optional attributes. MarshalJSON produces names through encoding/json only.",
   note="Not decided: the equivalence laws and the conformance characterisation over all type pairs as value facts. "),
 "C08": dict(rules=["C08.optional-taint","C08.partial-constructors","C08.safe-implies-unsafe","C08.safe-primitives-cannot-fail","C08.kind-total","C08.result-depends-on-target","C08.dynamic-replace-fallback","C19.kind-contradiction","C09.composition"],
   tech="information-flow (optional-attribute taint to value constructors) + dominance of partial constructors + monotone-flag shape rule for 'unsafe'",
   text="Decides: a requested type reaches NullVal/UnknownVal/empty-collection constructors only through WithoutOptionalAttributesDeep; every ListVal/SetVal/MapVal in package convert is dominated by an emptiness exit and a Can*Val exit; the unsafe flag only ever enables conversions and is passed unchanged to nested lookups; safe primitive conversions return a nil error on all paths; getConversionKnown considers every source and target kind.",
   note="Not decided: idempotence, information preservation, refinement admission, 'safe never fails for any value' beyond the primitive table (value-level). "),
 "C09": dict(rules=["C09.composition","C09.slot-assigned","C09.loopvar-capture","C09.unify-result-checked","C20.no-param-write"],
   tech="liveness of conversion results on the success path over go/cfg + definite assignment of per-iteration result slots + escaping closures over loop variables + guard dominance over uses of unification results",
   text="Decides: a conversion's result is used on the success path wherever conversions are composed (the second stage receives the first stage's output); inside unify's retry loop every inner iteration assigns its conversions slot on every path (nothing is left over from a rejected candidate); no stored or returned closure refers to a loop variable under the module's pre-1.22 loop semantics; conversions returned by a unification helper are indexed only after its type result was tested. Exported unification/conversion entry points do not write into the slices they are given.",
   note="Not decided: that the returned conversions succeed on all values, that the chosen type is the most general, that safe mode never fails — value-level. "),
 "C10": dict(rules=["C10.loop-agreement","C10.arg-index","C10.impl-after-typecheck","C10.conformance-assert","C10.refine-applied"],
   tech="sibling agreement of the positional/variadic loops + dominance (must-pass-through) in Function.Call + who-may-call Spec.Impl/Spec.Type",
   text="Decides: both argument loops of returnTypeForValues and Call read the same Parameter flags with the same exits; variadic argument errors carry the adjusted index; Spec.Impl runs only in Call, dominated by a successful returnTypeForValues on the same args, by the unknown short-circuit exit and by a recovering defer; the implementation's result is returned only after TestConformance; the RefineResult defer is registered unconditionally for typed results.",
   note="Not decided: behaviour for all flag combinations at run time; panics inside the refinement defer itself. "),
 "C11": dict(rules=["C11.accessor-guards","C12.unknown-guards","C04.stdlib-mark-tolerance","C11.req-table","C11.nil-on-infinity","C11.float-nan","C11.negative-count","C11.compare-by-identity","C11.type-accessor-kinds","C19.kind-contradiction"],
   tech="Spec-driven typestate: relational guard worlds over go/cfg for every Type/Impl callback of the function.Spec literals, entry states taken from the Parameter declarations, preconditions of partial accessors tabled and cross-checked against the accessors' own guards",
   text="Decides a necessary condition of 'never a Go panic / never an internal-panic error': in every Type and Impl callback of the standard functions, each partial accessor (AsString, AsBigFloat, True, LengthInt, ElementIterator, AsValueSlice/Map/Set, ...) called on an argument or on an element of an argument is dominated by guards excluding every state (null, unknown, marked) that the parameter declaration — or the nature of elements — admits; (*big.Float).Int results are dereferenced only under a finiteness test; floats that can be NaN reach NumberFloatVal only through IsNaN; counts decoded from arguments reach strings.Repeat/make/slice bounds only after a sign test; cty values and types are compared with == only against package singletons.",
   note="Not decided: totality against Go run-time panics that need value ranges (index arithmetic, format state machine, datetime); agreement of the static and dynamic return type predictions (needs evaluation of the Type callbacks); helpers that receive values through parameters of their own are analysed only where the subject can be attributed to args. "),
 "C12": dict(rules=["C12.unknown-guards","C11.req-table"],
   tech="Spec-driven typestate (known-bit): guard dominance over go/cfg in Type callbacks (unknown by contract), AllowUnknown parameters and elements of arguments",
   text="Decides a necessary condition of 'replacing arguments or nested parts by unknowns cannot turn success into failure': every known-only accessor in a Type callback, on an AllowUnknown parameter in an Impl callback, or on an element of any argument is dominated by IsKnown/IsWhollyKnown on the subject or its container (including the 'exit unless wholly known for every argument' loop idiom).",
   note="Not decided: that refined results admit the concrete results (length bounds, prefixes) and that known parts agree — value-level. "),
 "C15": dict(rules=["C15.kind-total","C15.dynamic-first","C16.reject-first","C17.partial-constructors","C17.object-completion"],
   tech="kind-dispatch coverage of encoder and decoder + statement-order (dominance) rule for the dynamic-constraint branch + guard dominance for panicking constructors in the decoder",
   text="Decides: the JSON encoder and decoder each have a branch for every capsule-free kind with an error/panic residual; the encoder rejects marked values first and routes a dynamic constraint to the type-tagging wrapper before the null shortcut (typed nulls keep their type); the decoder completes objects from the requested type and guards ListVal/SetVal/MapVal with the Can*Val test.",
   note="Not decided: round-trip equality (number text, normalisation), agreement with encoding/json on the produced bytes, the structural-type claim of ImpliedType — value-level. "),
 "C16": dict(rules=["C16.kind-total","C16.dynamic-first","C16.reject-first","C16.narrowing-exact","C16.refinement-keys","C17.partial-constructors","C17.object-completion"],
   tech="kind-dispatch coverage + statement-order rule (dynamic before null and unknown) + must-facts dominance of big.Exact tests over every use of a narrowed number + writer/reader table agreement for the refinement keys and the dynamic wrapper",
   text="Decides: encoder and decoder cover every capsule-free kind; marked values are rejected first; a dynamic constraint is handled before the null shortcut and before the unknown-value branch (typed unknowns keep their type and refinements); a number is written as int or float64 only where the accuracy of that very narrowing was compared with big.Exact; every refinement key the encoder can write has a decoder case and vice versa, and the dynamic wrapper has the length the decoder requires.",
   note="Not decided: value equality after the round trip, that decoded ranges are never narrower than the originals (rounding direction of bounds) — value-level. "),
 "C18": dict(rules=["C18.width-table","C18.range-test-before-set","C18.unknown-null-first","C16.narrowing-exact"],
   tech="constant-table check of per-width integer bounds through go/types constants + must-facts dominance of exactness and range tests over reflect setters",
   text="Decides: the bounds for 8/16/32/64-bit signed and unsigned targets are exactly the type's range with a panicking residual; SetInt/SetUint are dominated by big.Exact and by the comparisons with both bounds; SetFloat is protected by an infinity test conditioned on nothing but inexactness and by a float32 range test; unknown values are rejected before the kind dispatch.",
   note="Not decided: exact round trip for all Go values; freedom from reflect panics (no model of reflect); math/big's own Uint64 accuracy report for fractions (trusted as documented). "),
 "C17": dict(rules=["C17.error-checked","C17.result-depends-on-type","C17.length-taint","C17.partial-constructors","C17.object-completion","C17.path-arithmetic","C11.float-nan"],
   tech="taint tracking of input-supplied lengths to allocation sizes over go/ssa (dominating bound checks as sanitisers) + forward may-analysis of unread errors over go/cfg + data/control dependence of successful returns on the requested type + guard dominance for panicking constructors",
   text="Decides, for every function reachable from the five decoder entry points: no length read from the input sizes an allocation without a dominating bound; no error variable is overwritten or dropped unread; every successful return of a type-directed decoder depends on the requested type; ListVal/SetVal/MapVal are dominated by the Can*Val test, ObjectWithOptionalAttrs by a validation of the optional names, refinement-builder replays by a recovering defer; structural values are returned only after the member count was compared with the type (distinct members for by-name decoding) or completed from it. Path trimming/indexing by len-1 happens only on a path that was extended by append on the way.",
   note="Not decided: panics needing value ranges inside the third-party JSON/msgpack tokenizers, stack depth on deeply nested input, the exact memory multiple. "),
 "C19": dict(rules=["C19.kind-total","C19.kind-contradiction","C19.rebuild-preserves-marks","C19.transformer-purity","C20.order-free-results"],
   tech="kind-dispatch coverage of walk/transform/iterators + belief-contradiction typestate on type kinds (relational worlds over go/cfg) + AST rule on every value handed to Transformer.Exit + go/ssa effect analysis of the transformers + map-range order classification",
   text="Decides: walk, transform, UnknownAsNull and the element iterators have a branch for each of the five compound kinds; path steps call kind-specific type accessors only for kinds their own guards admit; transform hands Exit either the original marked value or a rebuilt container re-marked with the peeled marks; the path-marks transformers never write the caller's slice and retain paths only as copies; no map range in the traversal code invokes callbacks or exits differently depending on iteration order.",
   note="Not decided: exactly-once visiting and that each reported path leads back to the visited member as value facts; path-set algebra beyond storage independence (C20.set-storage). "),
 "C20": dict(rules=["C20.no-payload-write","C20.no-global-write","C20.closure-state","C20.builder-copy","C20.set-storage","C20.no-alias-out","C20.no-retention-in","C20.order-free-results","C09.loopvar-capture","C20.no-param-write"],
   tech="ownership / alias / effect analysis over go/ssa (origin tracing with field-sensitive callee summaries): who may write payload memory, what escapes through results, what is retained from parameters, which escaping closures write captured state",
   text="Decides: no function writes memory reached through Value.v, marker.realV/marks, unknownType.refinement or a typeImpl record of anything it did not allocate; nothing writes package-level state after init; no escaping closure writes a captured variable; a refinement record is never shared between a value and the mutable builder; every function returning a set returns a fresh bucket map and buckets are not shared while Add appends in place; exported accessors returning Go references return copies; exported constructors do not retain caller-owned slices/maps/pointers (documented transfers tabled). Exported functions of cty, convert and function do not write into slice or map arguments.",
   note="Not decided: actual schedules and the race detector's view; purity of application-supplied capsule operations; aliases laundered through interface-typed fields beyond the summaries' depth (recorded as assumed). "),

 "C13": dict(rules=["C11.accessor-guards","C11.type-accessor-kinds","C11.negative-count","C11.shadowed-case","C17.error-branch-exits","C08.error-not-dropped","C19.kind-contradiction","C20.no-payload-write"],
   tech="the Spec-driven typestate and the error / dead-branch / payload-write rules of C11 and C20, restricted by the anchor filter to the collection, set and sequence function files",
   text="Decides only the clauses of this property that are visible in the shape of the functions' code, all of them necessary conditions of 'return what the reference returns and fail only outside the documented domain': no partial accessor is reached on a null argument or element the declarations admit (the call would fail with an internal panic inside the domain); counts handed to make / Repeat / slicing are tested for sign; no case of a tagless switch is shadowed by an earlier one (its dedicated result or error is dead); an error branch does not fall through and no constructed or stored error is dropped (a failure does not become a silent wrong result); type accessors are called only for the kinds the function's own guards admit; no function writes into the payload of its argument (a later call on the same value would differ). Reported only for constructs in the files this property is anchored in.",
   note="Not decided — and this is most of the property: agreement of the computed values with a reference implementation (index arithmetic, ordering conventions, element selection, result type selection as a value fact). No rule here evaluates a function. "),
 "C14": dict(rules=["C11.accessor-guards","C11.float-nan","C11.nil-on-infinity","C11.negative-count","C11.shadowed-case","C17.error-branch-exits","C08.error-not-dropped","C16.narrowing-exact","C18.bigfloat-exact-init"],
   tech="the totality rules of C11 plus the exactness rules for math/big narrowing and initialisation, restricted by the anchor filter to the number, string, encoding and date function files",
   text="Decides only structural necessary conditions of 'agree with the reference and fail only outside the documented domain': a float64 that can be NaN does not reach NumberFloatVal, (*big.Float).Int is not dereferenced for an infinity, counts are tested for sign before Repeat / make / slicing (each would be an internal panic for an in-domain argument); a number narrowed to a machine type is used only where the narrowing was tested exact, and a big.Float that receives an integer has no fixed 53-bit precision (silent rounding of an in-domain number); no switch case is shadowed; no error branch falls through and no error is dropped. Reported only for constructs in the files this property is anchored in.",
   note="Not decided — and this is most of the property: numerical agreement with math/big / float64 references, grapheme-cluster counting, the printf verb grammar (a generated state machine), RFC 3339 parsing, agreement with encoding/json, encoding/csv and time. No rule here evaluates a function. "),
}

NA = {
}
NOT_BUILT = "rules for this property are designed in DESIGN.md but not built yet; not claimed until they run"

def further(p, c, runs, docs):
    """Rules that run under the property but are not spelled out in the hand-written claim text: named with
    the first clause of their own description, so that the claim always lists exactly what the check runs."""
    extra = [r for r in runs.get(p, []) if r not in c.get("rules", [])]
    if not extra:
        return ""
    parts = []
    for r in sorted(extra):
        d = docs.get(r, "")
        d = d.split(": ")[0] if len(d.split(": ")[0]) > 60 else d
        d = d[:220].rsplit(" ", 1)[0] + ("…" if len(docs.get(r, "")) > 220 else "")
        parts.append(f"[{r}] {d}")
    return " Further structural clauses decided by the same check (full statements in DESIGN.md §2A and `ctylint -list`): " + "; ".join(parts) + "."

def main():
    out = subprocess.run([os.path.join(V, "bin/ctylint"), "-list"], capture_output=True, text=True).stdout
    have = set(); ruleids = set(); runs = {}; docs = {}
    for l in out.splitlines():
        f = l.split("\t")
        if len(f) >= 2 and f[0].startswith("C"):
            have.add(f[0]); ruleids.add(f[1])
            docs[f[1]] = f[3] if len(f) > 3 else ""
            also = f[4][5:].split(",") if len(f) > 4 and f[4].startswith("also=") and f[4][5:] else []
            for p in [f[0]] + also:
                runs.setdefault(p, []).append(f[1])
    props = [json.loads(l)["id"] for l in open(os.path.join(V, "properties.jsonl"))]
    checks, na = [], []
    for p in props:
        if p in CLAIMS and (p in have or p in runs):
            c = CLAIMS[p]
            missing = [r for r in c.get("rules", []) if r not in ruleids]
            if missing:
                sys.exit(f"claim for {p} names rules that ctylint does not have: {missing}")
            checks.append({
              "property_id": p,
              "quick_cmd": f"./check.sh {p} quick",
              "thorough_cmd": f"./check.sh {p} thorough",
              "evidence_file": f"/verif/evidence/{p}.json",
              "replay_cmd_template": "./bin/ctylint -replay {path}",
              "engine": "ctylint",
              "level_claimed": {"category": "other", "text": c["text"] + further(p, c, runs, docs), "design_ref": f"DESIGN.md §2 {p} and §2A"},
              "level_note": c["note"] + TB,
              "technique": "static analysis: " + c["tech"],
            })
        elif p in NA:
            na.append({"property_id": p, "reason": NA[p]})
        else:
            na.append({"property_id": p, "reason": NOT_BUILT})
    m = {
      "version": 1,
      "setup_cmd": "cd /verif/ctylint && GOFLAGS=-mod=mod GOPROXY=off GOSUMDB=off GOTOOLCHAIN=local GOWORK=off CGO_ENABLED=0 go build -o /verif/bin/ctylint .",
      "hooks": {
        "guard": "verif",
        "enable": "none needed: static analysis reads /repo's source as it is; the build tag 'verif' is reserved and unused",
        "baseline_off_cmd": "cd /repo && GOFLAGS=-mod=mod GOPROXY=off GOSUMDB=off go test -json -vet=off -count=1 -timeout 25m ./...",
        "source_commits": [],
        "add_only": True
      },
      "engines": [{"name": "ctylint", "path": "/verif/ctylint", "serves_properties": [c["property_id"] for c in checks],
                   "kind_free_text": "custom static analyser for go-cty: go/packages typed AST, go/cfg typestate and dominance, go/ssa ownership/taint, sibling and table agreement; never executes go-cty"}],
      "checks": checks,
      "not_applicable": na,
      "notes": "All claims are at level 'other': each check decides structural necessary conditions of its property (named in level_claimed.text and in the evidence 'explanation'), not the behaviour. Exit 2 / 'BROKEN' lines mean the check could not decide (stale table, unresolved anchor, floor not met, positive control not flagged). Known findings: /verif/known_findings.json."
    }
    json.dump(m, open(os.path.join(V, "MANIFEST.json"), "w"), indent=1)
    print("claimed:", [c["property_id"] for c in checks], "na:", len(na))

main()
