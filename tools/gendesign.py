#!/usr/bin/env python3
"""Regenerates the generated sections of DESIGN.md in place:
  §2A  rules that actually run            (from `ctylint -list`)
  §7   table of genuine defects           (from known_findings.json)
  §8   detection summary per seed series  (from seeded/EXPECT.json)
Everything between '<!-- GEN:x -->' and '<!-- /GEN:x -->' markers is replaced."""
import json, os, re, subprocess, sys
V = os.path.dirname(os.path.dirname(os.path.abspath(__file__)))
out = subprocess.run([os.path.join(V, "bin/ctylint"), "-list"], capture_output=True, text=True).stdout
rules = []
for l in out.splitlines():
    f = l.split("\t")
    if len(f) >= 4 and f[0].startswith("C"):
        also = f[4][5:] if len(f) > 4 and f[4].startswith("also=") else ""
        rules.append((f[0], f[1], f[3], also))
byprop = {}
for p, r, d, a in rules:
    byprop.setdefault(p, []).append((r, d, a))
g2a = [f"{len(rules)} rules. Each rule belongs to one property and may also run under others (`also:`), because the file it inspects is anchored in several properties. One line per rule: what it decides.\n"]
for p in sorted(byprop):
    g2a.append(f"**{p}**\n")
    for r, d, a in sorted(byprop[p]):
        g2a.append(f"* `{r}`" + (f" (also: {a})" if a else "") + f" — {d}")
    g2a.append("")
kf = json.load(open(os.path.join(V, "known_findings.json")))["findings"]
g7 = ["| status | property | rule | construct | failing input / history |", "|---|---|---|---|---|"]
for f in kf:
    st = f["status"].replace("fixed: ", "fixed `") + ("`" if f["status"].startswith("fixed") else "")
    g7.append(f"| {st} | {f['property']} | `{f['rule']}` | `{f['construct']}` | {f['fails_with'][:330].replace('|', '/')} |")
ex = json.load(open(os.path.join(V, "seeded", "EXPECT.json")))
series = {}
for s, e in ex.items():
    k = "reverted fixes" if s.startswith("fix-") else "series " + s.split("-")[1][0]
    t = series.setdefault(k, [0, 0, 0, []])
    t[0] += 1
    if e["property"] in e["detected"]:
        t[1] += 1
    elif e["detected"]:
        t[2] += 1
    else:
        t[3].append(s)
g8 = ["| series | seeds | detected by own property's check | only by another property's check | missed |", "|---|---|---|---|---|"]
for k in sorted(series):
    n, own, other, missed = series[k]
    g8.append(f"| {k} | {n} | {own} | {other} | {', '.join(sorted(missed)) or '—'} |")
byrule = {}
for s, e in ex.items():
    for p, rs in e["detected"].items():
        if p == e["property"]:
            for r in rs:
                byrule.setdefault(r, set()).add(s)
g8.append("")
g8.append("Seeds caught under their own property, by rule: " + "; ".join(f"`{r}`: {', '.join(sorted(v))}" for r, v in sorted(byrule.items())) + ".")
path = os.path.join(V, "DESIGN.md")
s = open(path).read()
for tag, body in (("2A", "\n".join(g2a)), ("7", "\n".join(g7)), ("8", "\n".join(g8))):
    a, b = f"<!-- GEN:{tag} -->", f"<!-- /GEN:{tag} -->"
    if a not in s or b not in s:
        sys.exit(f"markers for {tag} missing in DESIGN.md")
    s = s[:s.index(a) + len(a)] + "\n" + body + "\n" + s[s.index(b):]
open(path, "w").write(s)
print("DESIGN.md regenerated:", len(rules), "rules,", len(kf), "findings,", len(ex), "seeds")
