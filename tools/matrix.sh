#!/bin/bash
# usage: matrix.sh [seed ids...] — for each seed: apply to /repo, run the quick check of every claimed property, revert.
# Prints one line per seed: which properties' checks reported a violation.
cd /verif
claimed=$(python3 -c "import json;print(' '.join(c['property_id'] for c in json.load(open('/verif/MANIFEST.json'))['checks']))")
seeds="$@"; [ -z "$seeds" ] && seeds=$(ls /verif/seeded | grep -v MATRIX)
for s in $seeds; do
  d=/verif/seeded/$s
  git -C /repo apply "$d/patch.diff" 2>/dev/null || { echo "$s APPLY-FAILED"; continue; }
  hit=""; rules=""
  for p in $claimed; do
    out=$(./check.sh $p quick 2>&1 | grep -v '^WARNING')
    if echo "$out" | grep -q '^VIOLATION'; then hit="$hit $p"; rules="$rules $(echo "$out" | grep '^VIOLATION' | sed 's/.*rule=\([^ ]*\).*/\1/' | sort -u | tr '\n' ',')"; fi
    if echo "$out" | grep -q '^BROKEN'; then hit="$hit $p(BROKEN)"; fi
  done
  git -C /repo checkout -- .
  own=${s%%-*}
  if echo " $hit " | grep -q " $own "; then st=DETECTED; elif [ -n "$hit" ]; then st=DETECTED-ELSEWHERE; else st=missed; fi
  echo "$s $st by:[$hit ] rules:[$rules ]"
done
# restore evidence for the unchanged tree
for p in $claimed; do ./check.sh $p quick >/dev/null 2>&1; done
