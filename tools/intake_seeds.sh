#!/bin/bash
# usage: intake_seeds.sh <series-dir> <letter> <Cxx>...   verifies out_<Cxx>/<letter>N with verify_seed.sh (3 at a time)
dir="$1"; letter="$2"; shift 2
for p in "$@"; do
  for n in 1 2 3; do
    src="$dir/out_$p/$letter$n"
    [ -f "$src/patch.diff" ] || { echo "SEED $p-$letter$n: no patch"; continue; }
    /verif/tools/verify_seed.sh "$src" "$p-$letter$n" 2>&1 | grep "^SEED" &
  done
  wait
done
