#!/bin/bash
# usage: verify_seed.sh <dir with patch.diff, meta.json, demo test file> <seed-id>
# Confirms in a scratch worktree: demo passes on the clean tree, fails with the patch, existing suite passes with the patch.
# On success copies the seed to /verif/seeded/<seed-id>/ (patch.diff, demo, meta.json + verified block).
set -u
export GOFLAGS=-mod=mod GOPROXY=off GOSUMDB=off GOTOOLCHAIN=local; unset GOWORK
src="$1"; id="$2"; wt=/tmp/vseed_$id
demo_path=$(python3 -c "import json;print(json.load(open('$src/meta.json'))['demo_path'])")
demo_file=$(ls "$src"/*_test.go | head -1)
git -C /repo worktree add --detach "$wt" HEAD -q 2>/dev/null || { echo "worktree failed"; exit 3; }
cleanup() { git -C /repo worktree remove --force "$wt" 2>/dev/null; }
trap cleanup EXIT
pkgdir=$(dirname "$demo_path")
cp "$demo_file" "$wt/$demo_path"
r1=$(cd "$wt" && go test -count=1 ./$pkgdir/ 2>&1 | tail -3); c1=$?
(cd "$wt" && go test -count=1 ./$pkgdir/ >/dev/null 2>&1); c1=$?
git -C "$wt" apply "$src/patch.diff" || { echo "SEED $id: patch does not apply"; exit 3; }
(cd "$wt" && go test -count=1 ./$pkgdir/ >/dev/null 2>&1); c2=$?
rm "$wt/$demo_path"
(cd "$wt" && go build ./... && go test -count=1 ./... >/tmp/vseed_$id.log 2>&1); c3=$?
echo "SEED $id: demo-clean=$c1 (want 0) demo-patched=$c2 (want !=0) suite-patched=$c3 (want 0)"
if [ $c1 -eq 0 ] && [ $c2 -ne 0 ] && [ $c3 -eq 0 ]; then
  mkdir -p /verif/seeded/$id
  cp "$src/patch.diff" /verif/seeded/$id/patch.diff
  cp "$demo_file" /verif/seeded/$id/$(basename "$demo_file").txt
  python3 - "$src/meta.json" /verif/seeded/$id/meta.json <<'P'
import json,sys
m=json.load(open(sys.argv[1]))
m['verified']={'demo_passes_on_clean_tree':True,'demo_fails_with_patch':True,'existing_suite_passes_with_patch':True,
  'ran':'scratch worktree of /repo HEAD: go test ./<pkg>/ with demo (clean: pass; patched: fail); go build ./... && go test -count=1 ./... without the demo (patched: pass)'}
m['demo_file']=m.get('demo_path','').split('/')[-1]+'.txt (renamed so it is not compiled; place it at demo_path to run)'
json.dump(m,open(sys.argv[2],'w'),indent=1)
P
  echo "SEED $id: KEPT"
else
  tail -5 /tmp/vseed_$id.log 2>/dev/null
  echo "SEED $id: REJECTED"
fi
rm -f /tmp/vseed_$id.log
