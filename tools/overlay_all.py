#!/usr/bin/env python3
"""usage: overlay_all.py <patch.diff>... — runs every claimed property's quick rules on /repo with each patch
applied in memory; prints VIOLATION/BROKEN lines (used to test benign refactorings for false alarms)."""
import json, os, subprocess, sys, concurrent.futures as cf
V = os.path.dirname(os.path.dirname(os.path.abspath(__file__)))
exe = os.path.join(V, "bin/ctylint")
claimed = [c["property_id"] for c in json.load(open(os.path.join(V, "MANIFEST.json")))["checks"]]
def cell(a):
    patch, prop = a
    p = subprocess.run([exe, "-prop", prop, "-overlaypatch", patch, "-nocontrols", "-verif", V], capture_output=True, text=True, errors="replace")
    return patch, prop, [l for l in p.stdout.splitlines() if l.startswith(("VIOLATION", "BROKEN"))]
with cf.ThreadPoolExecutor(max_workers=10) as ex:
    res = {}
    for patch, prop, lines in ex.map(cell, [(p, pr) for p in sys.argv[1:] for pr in claimed]):
        res.setdefault(patch, []).extend((prop, l) for l in lines)
for patch in sys.argv[1:]:
    ls = res.get(patch, [])
    seen = set()
    print("==", patch, "ALARMS:", len(ls))
    for prop, l in ls:
        k = l.split(" at ")[0][:200]
        k = k.split("rule=")[-1] if "rule=" in k else k
        if k in seen: continue
        seen.add(k); print("   ", prop, l[:420])
