#!/usr/bin/env python3
"""usage: mkseedprompt.py <Cxx> <series-letter> <worktree> <outdir> [kinds-file]
Prints the prompt for one seed sub-agent: the property text (statement, quantifier, anchors — nothing from the
checker) substituted into tools/seed_prompt_template.txt, with the series letter in the file names."""
import json, os, sys
V = os.path.dirname(os.path.dirname(os.path.abspath(__file__)))
pid, letter, wt, out = sys.argv[1:5]
extra = open(sys.argv[5]).read() if len(sys.argv) > 5 else ""
p = next(json.loads(l) for l in open(os.path.join(V, "properties.jsonl")) if json.loads(l)["id"] == pid)
text = f"{p['id']} — {p['title']}\n\n{p['statement']}\n\nQuantified over: {p['quantifier']['text']}\n\nWhy the existing tests cannot settle it: {p['why_tests_cant']}\n\nAnchored in these files: {', '.join(p['anchors']['files'])}\nMechanisms: " + "; ".join(f"{m['name']} ({m['where']})" for m in p['anchors'].get('mechanism', []))
t = open(os.path.join(V, "tools", "seed_prompt_template.txt")).read()
t = t.replace("PROPTEXT", text).replace("WT", wt).replace("OUTDIR", out)
L = letter.upper()
t = t.replace("zz_demo_kN_test.go", f"zz_demo_{letter}N_test.go").replace("TestDemoKN", f"TestDemo{L}N").replace("OUTDIR/kN/", f"{out}/{letter}N/")
t = t.replace("/kN/", f"/{letter}N/").replace("zz_demo_k1_test.go", f"zz_demo_{letter}1_test.go").replace("TestDemoK1", f"TestDemo{L}1")
if extra:
    t = t.replace("For each mutation N in 1..3", extra.strip() + "\n\nFor each mutation N in 1..3")
print(t)
