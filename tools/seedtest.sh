#!/bin/bash
# usage: seedtest.sh <seed-dir> [props...]  — applies patch.diff to /repo, runs the quick checks, reverts.
d="$1"; shift
props="$@"; [ -z "$props" ] && props=$(python3 -c "import json;print(json.load(open('$d/meta.json'))['property'])")
git -C /repo apply "$d/patch.diff" || { echo "APPLY FAILED $d"; exit 3; }
for p in $props; do
  out=$(/verif/check.sh $p quick 2>&1 | grep -v '^WARNING')
  echo "== $(basename $d) $p: $(echo "$out" | grep -c '^VIOLATION') violations; $(echo "$out" | grep -c '^BROKEN') broken"
  echo "$out" | grep '^VIOLATION\|^BROKEN' | cut -c1-330
done
git -C /repo checkout -- . ; git -C /repo status --short | head -3
