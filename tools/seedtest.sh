#!/bin/sh
# usage: seedtest.sh <seed-dir> [props...]  — applies patch.diff to /repo, runs the checks, reverts.
d="$1"; shift
git -C /repo apply "$d/patch.diff" || { echo "APPLY FAILED $d"; exit 3; }
for p in "$@"; do
  out=$(/verif/check.sh $p quick 2>&1 | grep -v '^WARNING'); code=$?
  echo "== $(basename $d) $p: $(echo "$out" | grep -c '^VIOLATION') violations; $(echo "$out" | grep -c '^BROKEN') broken"
  echo "$out" | grep '^VIOLATION\|^BROKEN' | cut -c1-400
done
git -C /repo checkout -- . ; git -C /repo status --short | head -3
