#!/usr/bin/env python3
"""Validates MANIFEST.json and every evidence file against the schemas (run with python3-vt)."""
import json, jsonschema, sys, glob
m = json.load(open('/verif/MANIFEST.json'))
jsonschema.validate(m, json.load(open('/root/.vp/MANIFEST.schema.json')))
es = json.load(open('/root/.vp/EVIDENCE.schema.json'))
bad = 0
for c in m['checks']:
    try:
        e = json.load(open(c['evidence_file']))
        jsonschema.validate(e, es)
        assert e['property_id'] == c['property_id'] and e['level'] == c['level_claimed']['category']
    except Exception as x:
        bad += 1; print('BAD', c['property_id'], str(x)[:200])
print('manifest ok; evidence bad =', bad, 'claimed =', [c['property_id'] for c in m['checks']])
sys.exit(1 if bad else 0)
