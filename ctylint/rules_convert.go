package main

import (
	"fmt"
	"go/ast"
	"go/token"
	"go/types"
	"strings"
)

func init() {
	register(&Rule{
		ID: "C08.optional-taint", Prop: "C08", Floor: 15, Controls: 1, Also: []string{"C06"},
		Doc: "information flow in package convert: a target type that may carry optional-attribute annotations (any cty.Type parameter of an exported function, and what is derived from it) reaches the type argument of NullVal/UnknownVal/ListValEmpty/SetValEmpty/MapValEmpty/prepareUnknownResult only through WithoutOptionalAttributesDeep()",
		Run: runOptionalTaint,
	})
	register(&Rule{
		ID: "C04.convert-wrapper", Prop: "C04", Floor: 3, Also: []string{"C08"},
		Doc: "convert.getConversion's wrapper: the marked branch is the first statement, unmarks, re-enters the wrapper itself (not the raw conversion) and re-applies the input marks to every non-nil result; the raw conversion runs only on known, non-null, unmarked input after the dynamic pass-through",
		Run: runConvertWrapper,
	})
	register(&Rule{
		ID: "C08.partial-constructors", Prop: "C08", Floor: 4, Also: []string{"C06"},
		Doc: "every ListVal/SetVal/MapVal call in package convert is dominated by an emptiness exit and a CanListVal/CanSetVal/CanMapVal exit on the same operand",
		Run: runConvertPartialCtors,
	})
	register(&Rule{
		ID: "C08.safe-implies-unsafe", Prop: "C08", Floor: 10, Also: []string{"C09"},
		Doc: "the unsafe flag is monotone: it is only tested as '!unsafe ⇒ give up' or 'unsafe && …' / 'if unsafe', and every nested getConversion/unify/conversion builder call passes the same flag (or the literal a tabled exception allows)",
		Run: runSafeImpliesUnsafe,
	})
	register(&Rule{
		ID: "C08.safe-primitives-cannot-fail", Prop: "C08", Floor: 2,
		Doc: "every function literal in primitiveConversionsSafe returns a nil error on all paths",
		Run: runSafePrimitives,
	})
}

// ---------------------------------------------------------------------------
// taint engine for types with optional attributes

type tri int

const (
	triClean tri = iota
	triUnknown
	triTainted
)

func (t tri) String() string { return [...]string{"clean", "unknown", "tainted"}[t] }

func triMax(a, b tri) tri {
	if a > b {
		return a
	}
	return b
}

type taintCtx struct {
	c        *Ctx
	info     *types.Info
	pkg      string
	paramTri map[types.Object]tri // summary for parameters of package functions
	funcOf   map[types.Object]*ast.FuncDecl
	// per function body (decl or literal): must-facts "clean(obj)"
	facts map[*ast.BlockStmt]*FactResult
}

func (t *taintCtx) bodyFacts(body *ast.BlockStmt) *FactResult {
	if r, ok := t.facts[body]; ok {
		return r
	}
	f := t.c.CFG(body, t.info)
	spec := &FactSpec{
		Atom: func(ast.Expr, bool) []Fact { return nil },
		Effects: func(n ast.Node) []Effect {
			as, ok := n.(*ast.AssignStmt)
			if !ok || len(as.Lhs) != len(as.Rhs) {
				return nil
			}
			var out []Effect
			for i, l := range as.Lhs {
				o := objOf(t.info, l)
				if o == nil || !isCtyType(o.Type()) {
					continue
				}
				// only the sanitiser establishes cleanliness flow-sensitively
				if call, ok := ast.Unparen(as.Rhs[i]).(*ast.CallExpr); ok && isCall(t.info, call, "cty.Type.WithoutOptionalAttributesDeep") {
					out = append(out, Effect{Assert: &Fact{"clean", objKey(o)}})
				}
			}
			return out
		},
	}
	r := f.MustFacts(spec)
	t.facts[body] = r
	return r
}

// enclosingBody finds the innermost function body (literal or declaration) containing n.
func (t *taintCtx) enclosingBody(n ast.Node) *ast.BlockStmt {
	for cur := t.c.Parent(n); cur != nil; cur = t.c.Parent(cur) {
		switch x := cur.(type) {
		case *ast.FuncLit:
			return x.Body
		case *ast.FuncDecl:
			return x.Body
		}
	}
	return nil
}

func (t *taintCtx) enclosingDecl(n ast.Node) *ast.FuncDecl {
	for cur := t.c.Parent(n); cur != nil; cur = t.c.Parent(cur) {
		if fd, ok := cur.(*ast.FuncDecl); ok {
			return fd
		}
	}
	return nil
}

// eval classifies a cty.Type-valued (or container-of-Type) expression at node `at`.
func (t *taintCtx) eval(e ast.Expr, at ast.Node, depth int) tri {
	e = ast.Unparen(e)
	if depth > 8 {
		return triUnknown
	}
	info := t.info
	switch x := e.(type) {
	case *ast.Ident:
		o := objOf(info, x)
		if o == nil {
			return triUnknown
		}
		if v, ok := o.(*types.Var); ok && v.Pkg() != nil && v.Parent() == v.Pkg().Scope() {
			return triClean // package-level singletons
		}
		// flow-sensitive cleanliness
		if body := t.enclosingBody(at); body != nil {
			if fs, ok := t.bodyFacts(body).At(at); ok && fs.has("clean", objKey(o)) {
				return triClean
			}
		}
		if p, ok := t.paramTri[o]; ok {
			return p
		}
		// local: join over all its definitions / assignments / range bindings
		fd := t.enclosingDecl(at)
		if fd == nil {
			return triUnknown
		}
		res, found := triClean, false
		ast.Inspect(fd, func(n ast.Node) bool {
			switch s := n.(type) {
			case *ast.AssignStmt:
				for i, l := range s.Lhs {
					if objOf(info, l) != o {
						continue
					}
					found = true
					var r ast.Expr
					if len(s.Rhs) == len(s.Lhs) {
						r = s.Rhs[i]
					} else if len(s.Rhs) == 1 {
						r = s.Rhs[0]
					}
					if r == nil {
						res = triMax(res, triUnknown)
					} else if call, ok := ast.Unparen(r).(*ast.CallExpr); ok && len(s.Rhs) == 1 && len(s.Lhs) > 1 {
						res = triMax(res, t.evalCallResult(call, i, s, depth+1))
					} else {
						res = triMax(res, t.eval(r, s, depth+1))
					}
				}
				// element stores x[k] = v taint the container x
				for i, l := range s.Lhs {
					if ix, ok := l.(*ast.IndexExpr); ok && objOf(info, ix.X) == o && i < len(s.Rhs) {
						found = true
						res = triMax(res, t.eval(s.Rhs[i], s, depth+1))
					}
				}
			case *ast.ValueSpec:
				for i, id := range s.Names {
					if info.Defs[id] == o {
						found = true
						if i < len(s.Values) {
							res = triMax(res, t.eval(s.Values[i], s, depth+1))
						}
					}
				}
			case *ast.RangeStmt:
				for _, kv := range []ast.Expr{s.Key, s.Value} {
					if kv != nil && objOf(info, kv) == o {
						found = true
						res = triMax(res, t.eval(s.X, s, depth+1))
					}
				}
			}
			return true
		})
		if !found {
			return triUnknown
		}
		return res
	case *ast.SelectorExpr:
		if isPkgVar(info, x, "cty", "String", "Number", "Bool", "DynamicPseudoType", "EmptyObject", "EmptyTuple", "NilType") {
			return triClean
		}
		return triUnknown
	case *ast.IndexExpr:
		return t.eval(x.X, at, depth+1)
	case *ast.CompositeLit:
		res := triClean
		for _, el := range x.Elts {
			if kv, ok := el.(*ast.KeyValueExpr); ok {
				res = triMax(res, t.eval(kv.Value, at, depth+1))
			} else {
				res = triMax(res, t.eval(el, at, depth+1))
			}
		}
		return res
	case *ast.CallExpr:
		return t.evalCallResult(x, 0, at, depth)
	}
	return triUnknown
}

func (t *taintCtx) evalCallResult(call *ast.CallExpr, resultIdx int, at ast.Node, depth int) tri {
	info := t.info
	if isBuiltin(info, call, "make") || isBuiltin(info, call, "new") {
		return triClean
	}
	if isBuiltin(info, call, "append") {
		res := triClean
		for _, a := range call.Args {
			res = triMax(res, t.eval(a, at, depth+1))
		}
		return res
	}
	f := callee(info, call)
	if f == nil {
		return triUnknown
	}
	k := funcKey(f)
	recv := func() ast.Expr {
		if se, ok := ast.Unparen(call.Fun).(*ast.SelectorExpr); ok {
			return se.X
		}
		return nil
	}
	switch k {
	case "cty.Type.WithoutOptionalAttributesDeep":
		return triClean
	case "cty.Value.Type":
		return triClean // values never carry optional-attribute annotations (C06)
	case "cty.Type.ElementType", "cty.Type.AttributeType", "cty.Type.AttributeTypes", "cty.Type.TupleElementTypes", "cty.Type.TupleElementType":
		return t.eval(recv(), at, depth+1)
	case "cty.List", "cty.Set", "cty.Map", "cty.Object", "cty.Tuple":
		res := triClean
		for _, a := range call.Args {
			res = triMax(res, t.eval(a, at, depth+1))
		}
		return res
	case "cty.ObjectWithOptionalAttrs":
		return triTainted
	case "cty/convert.dynamicReplace":
		if len(call.Args) == 2 {
			return t.eval(call.Args[1], at, depth+1)
		}
	case "cty/convert.unify":
		if resultIdx == 0 && len(call.Args) >= 1 {
			return t.eval(call.Args[0], at, depth+1)
		}
	}
	return triUnknown
}

var taintSinks = map[string]int{
	"cty.NullVal": 0, "cty.UnknownVal": 0, "cty.ListValEmpty": 0, "cty.SetValEmpty": 0, "cty.MapValEmpty": 0,
	"cty/convert.prepareUnknownResult": 1,
}

func runOptionalTaint(rr *RuleRun) {
	c := rr.Ctx
	pkg := "cty/convert"
	info := c.Info(pkg)
	t := &taintCtx{c: c, info: info, pkg: pkg, paramTri: map[types.Object]tri{}, funcOf: map[types.Object]*ast.FuncDecl{}, facts: map[*ast.BlockStmt]*FactResult{}}
	installFindFuncDecl(c)
	// parameter summaries: exported ⇒ tainted; unexported ⇒ join over call sites (fixpoint, optimistic start)
	type psite struct {
		fd  *ast.FuncDecl
		idx int
		obj types.Object
	}
	var params []psite
	for _, fd := range c.SortedDecls(pkg) {
		i := 0
		for _, fl := range fd.Type.Params.List {
			for _, nm := range fl.Names {
				o := info.Defs[nm]
				ty := o.Type()
				isTy := isCtyType(ty)
				if sl, ok := ty.Underlying().(*types.Slice); ok && isCtyType(sl.Elem()) {
					isTy = true
				}
				if mp, ok := ty.Underlying().(*types.Map); ok && isCtyType(mp.Elem()) {
					isTy = true
				}
				if isTy {
					if fd.Name.IsExported() && fd.Recv == nil {
						t.paramTri[o] = triTainted
					} else {
						t.paramTri[o] = triClean
						params = append(params, psite{fd, i, o})
					}
				}
				i++
			}
		}
	}
	// call sites per function
	type csite struct {
		call *ast.CallExpr
	}
	sites := map[*ast.FuncDecl][]*ast.CallExpr{}
	for _, fd := range c.SortedDecls(pkg) {
		ast.Inspect(fd.Body, func(n ast.Node) bool {
			if call, ok := n.(*ast.CallExpr); ok {
				if f := callee(info, call); f != nil {
					if cd := findFuncDecl(f); cd != nil && c.ShortOf(cd.Pos()) == pkg {
						sites[cd] = append(sites[cd], call)
					}
				}
			}
			return true
		})
	}
	for iter := 0; iter < 10; iter++ {
		changed := false
		for _, p := range params {
			cur := t.paramTri[p.obj]
			nw := cur
			if len(sites[p.fd]) == 0 {
				nw = triMax(nw, triUnknown) // referenced as a value only (function tables): origin unknown
			}
			for _, call := range sites[p.fd] {
				if p.idx < len(call.Args) {
					nw = triMax(nw, t.eval(call.Args[p.idx], call, 0))
				}
			}
			if nw != cur {
				t.paramTri[p.obj] = nw
				changed = true
			}
		}
		if !changed {
			break
		}
	}
	// sinks
	for _, fd := range c.SortedDecls(pkg) {
		ast.Inspect(fd.Body, func(n ast.Node) bool {
			call, ok := n.(*ast.CallExpr)
			if !ok {
				return true
			}
			f := callee(info, call)
			if f == nil {
				return true
			}
			idx, isSink := taintSinks[funcKey(f)]
			if !isSink || idx >= len(call.Args) {
				return true
			}
			arg := call.Args[idx]
			key := fmt.Sprintf("%s.%s/%s(%s)", pkg, declName(fd), f.Name(), trunc(exprStr(arg), 50))
			switch t.eval(arg, call, 0) {
			case triClean:
				rr.OK(key, call.Pos(), "type argument is sanitised or comes from a value's own type")
			case triUnknown:
				rr.Assumed(key, call.Pos(), "origin of the type argument not resolvable; assumed free of optional-attribute annotations")
			case triTainted:
				rr.Violation(key, call.Pos(), fmt.Sprintf("the requested target type reaches %s(%s) without WithoutOptionalAttributesDeep(): the returned value's type can carry optional-attribute annotations", f.Name(), exprStr(arg)))
			}
			return true
		})
	}
}

// ---------------------------------------------------------------------------
// C04.convert-wrapper

func runConvertWrapper(rr *RuleRun) {
	c := rr.Ctx
	info := c.Info("cty/convert")
	fd := rr.MustDecl("cty/convert", "getConversion")
	if fd == nil {
		return
	}
	// ret = func(in cty.Value, path cty.Path) (cty.Value, error) {...}
	var lit *ast.FuncLit
	var wrapperVar types.Object
	ast.Inspect(fd.Body, func(n ast.Node) bool {
		if as, ok := n.(*ast.AssignStmt); ok && len(as.Lhs) == 1 && len(as.Rhs) == 1 {
			if fl, ok := as.Rhs[0].(*ast.FuncLit); ok && lit == nil {
				lit = fl
				wrapperVar = objOf(info, as.Lhs[0])
			}
		}
		return true
	})
	key := "cty/convert.getConversion/wrapper"
	if lit == nil || wrapperVar == nil {
		rr.Violation(key, fd.Pos(), "getConversion does not wrap the raw conversion in a closure: marks, unknown and null inputs reach the raw conversion")
		return
	}
	in := info.Defs[lit.Type.Params.List[0].Names[0]]
	// raw conversion variable: conv := getConversionKnown(...)
	var rawVar types.Object
	ast.Inspect(fd.Body, func(n ast.Node) bool {
		if as, ok := n.(*ast.AssignStmt); ok && len(as.Rhs) == 1 && len(as.Lhs) == 1 {
			if call, ok := as.Rhs[0].(*ast.CallExpr); ok && isCall(info, call, "cty/convert.getConversionKnown") {
				rawVar = objOf(info, as.Lhs[0])
			}
		}
		return true
	})
	// 1. first statement: if in.IsMarked() {...}
	okMarked := false
	why := "the first statement of the wrapper is not `if in.IsMarked()`"
	if len(lit.Body.List) > 0 {
		first, _ := lit.Body.List[0].(*ast.IfStmt)
		// the same chain written as a tagless switch: its first case is the first test
		if sw, ok := lit.Body.List[0].(*ast.SwitchStmt); ok && sw.Tag == nil && sw.Init == nil && len(sw.Body.List) > 0 {
			if cc, ok := sw.Body.List[0].(*ast.CaseClause); ok && len(cc.List) == 1 {
				first = &ast.IfStmt{If: cc.Pos(), Cond: cc.List[0], Body: &ast.BlockStmt{Lbrace: cc.Colon, List: cc.Body, Rbrace: cc.End()}}
			}
		}
		if ifs := first; ifs != nil && ifs.Init == nil {
			if call, ok := ast.Unparen(ifs.Cond).(*ast.CallExpr); ok && isCall(info, call, "cty.Value.IsMarked", "cty.Value.ContainsMarked") && objOf(info, call.Fun.(*ast.SelectorExpr).X) == in {
				okMarked, why = checkMarkedBranch(info, ifs, in, wrapperVar)
			}
		}
	}
	if okMarked {
		rr.OK(key+"/marked-branch", lit.Pos(), "unmark → wrapper → WithMarks(inMarks) on every non-nil result")
	} else {
		rr.Violation(key+"/marked-branch", lit.Pos(), why)
	}
	// 2. raw conversion call: only on known, non-null, unmarked input
	f := c.CFG(lit.Body, info)
	spec := valueFacts(info, lit)
	res := f.Worlds(spec, []Fact{{"known", objKey(in)}, {"notnull", objKey(in)}, {"unmarked", objKey(in)}}, nil, []string{objKey(in)})
	n := 0
	inspectNoLit(lit.Body, func(nd ast.Node) bool {
		call, ok := nd.(*ast.CallExpr)
		if !ok || rawVar == nil || objOf(info, call.Fun) != rawVar {
			return true
		}
		n++
		var miss []string
		sk := objKey(in)
		if len(call.Args) >= 1 {
			if k := subjKey(info, call.Args[0]); k != "" {
				sk = k // the value actually passed (the unmarked rebinding inside the marked branch)
			}
		}
		for _, ft := range []Fact{{"known", sk}, {"notnull", sk}, {"unmarked", sk}} {
			if ok, reach := res.Established(call, ft); !ok && reach {
				miss = append(miss, ft.Pred)
			}
		}
		k2 := key + "/raw-conversion-guarded"
		if len(miss) > 0 {
			rr.Violation(k2, call.Pos(), "the raw conversion can run on input that is not "+strings.Join(miss, ", not ")+" (states: "+res.Describe(call, objKey(in))+")")
		} else {
			rr.OK(k2, call.Pos(), "raw conversion only on known, non-null, unmarked input")
		}
		return true
	})
	if n == 0 {
		rr.Violation(key+"/raw-conversion-guarded", lit.Pos(), "the wrapper never calls the raw conversion")
	}
	// 3. the dynamic pass-through precedes the unknown/null handling
	var dynRet, unkSink ast.Node
	inspectNoLit(lit.Body, func(nd ast.Node) bool {
		isDynTest := func(e ast.Expr) bool {
			be, ok := ast.Unparen(e).(*ast.BinaryExpr)
			return ok && be.Op == token.EQL && (kindOfTypeExpr(info, be.Y) == "Dynamic" || kindOfTypeExpr(info, be.X) == "Dynamic")
		}
		switch x := nd.(type) {
		case *ast.IfStmt:
			if isDynTest(x.Cond) && dynRet == nil {
				dynRet = x.Cond
			}
		case *ast.CaseClause:
			// a case of a tagless switch
			if sw, ok := c.Parent(c.Parent(x)).(*ast.SwitchStmt); ok && sw.Tag == nil && len(x.List) == 1 && isDynTest(x.List[0]) && dynRet == nil {
				dynRet = x.List[0]
			}
		case *ast.CallExpr:
			if isCall(info, x, "cty/convert.prepareUnknownResult", "cty.NullVal") && unkSink == nil {
				unkSink = x
			}
		}
		return true
	})
	if dynRet != nil && unkSink != nil && f.Dominates(dynRet, unkSink) {
		rr.OK(key+"/dynamic-first", dynRet.Pos(), "target-dynamic pass-through dominates the unknown/null results")
	} else {
		rr.Violation(key+"/dynamic-first", lit.Pos(), "the target-is-dynamic pass-through does not precede the unknown/null handling: unknown or null input converted 'to any' changes type")
	}
}

func checkMarkedBranch(info *types.Info, ifs *ast.IfStmt, in, wrapperVar types.Object) (bool, string) {
	var unIn, marks, v types.Object
	var ret *ast.ReturnStmt
	remarked := false
	for _, st := range ifs.Body.List {
		switch s := st.(type) {
		case *ast.AssignStmt:
			if len(s.Rhs) != 1 {
				continue
			}
			call, ok := s.Rhs[0].(*ast.CallExpr)
			if !ok {
				continue
			}
			if isCall(info, call, "cty.Value.Unmark", "cty.Value.UnmarkDeep") && len(s.Lhs) == 2 {
				if objOf(info, call.Fun.(*ast.SelectorExpr).X) == in {
					unIn, marks = objOf(info, s.Lhs[0]), objOf(info, s.Lhs[1])
				}
			} else if objOf(info, call.Fun) == wrapperVar && len(s.Lhs) == 2 {
				if len(call.Args) < 1 || objOf(info, call.Args[0]) != unIn || unIn == nil {
					return false, "the wrapper is re-entered with a value other than the unmarked input"
				}
				v = objOf(info, s.Lhs[0])
			} else if len(s.Lhs) == 2 && isCtyValue(info.TypeOf(s.Lhs[0])) {
				return false, "the marked branch calls " + exprStr(call.Fun) + " instead of re-entering the wrapper: unknown/null handling is skipped for marked input"
			}
		case *ast.IfStmt:
			// if v != cty.NilVal { v = v.WithMarks(inMarks) }
			be, ok := ast.Unparen(s.Cond).(*ast.BinaryExpr)
			if !ok || be.Op != token.NEQ || !(isPkgVar(info, be.Y, "cty", "NilVal") || isPkgVar(info, be.X, "cty", "NilVal")) {
				return false, "marks are re-applied only under an unexpected condition: " + exprStr(s.Cond)
			}
			for _, st2 := range s.Body.List {
				if as, ok := st2.(*ast.AssignStmt); ok && len(as.Lhs) == 1 && len(as.Rhs) == 1 && objOf(info, as.Lhs[0]) == v && v != nil {
					if call, ok := as.Rhs[0].(*ast.CallExpr); ok && isCall(info, call, "cty.Value.WithMarks") && len(call.Args) == 1 && objOf(info, call.Args[0]) == marks && marks != nil {
						if objOf(info, call.Fun.(*ast.SelectorExpr).X) == v {
							remarked = true
						}
					}
				}
			}
		case *ast.ReturnStmt:
			ret = s
		}
	}
	switch {
	case unIn == nil || marks == nil:
		return false, "the marked branch does not unmark the input keeping its marks"
	case v == nil:
		return false, "the marked branch does not re-enter the wrapper"
	case !remarked:
		return false, "the marks of the input are not re-applied to the converted value"
	case ret == nil || len(ret.Results) != 2 || objOf(info, ret.Results[0]) != v:
		return false, "the marked branch does not return the re-marked value"
	}
	return true, ""
}

// ---------------------------------------------------------------------------
// C08.partial-constructors

func runConvertPartialCtors(rr *RuleRun) {
	c := rr.Ctx
	pkg := "cty/convert"
	info := c.Info(pkg)
	canOf := map[string]string{"cty.ListVal": "cty.CanListVal", "cty.SetVal": "cty.CanSetVal", "cty.MapVal": "cty.CanMapVal"}
	for _, fd := range c.SortedDecls(pkg) {
		ast.Inspect(fd.Body, func(n ast.Node) bool {
			call, ok := n.(*ast.CallExpr)
			if !ok {
				return true
			}
			k := funcKey(callee(info, call))
			can, isCtor := canOf[k]
			if !isCtor || len(call.Args) != 1 {
				return true
			}
			arg := objOf(info, call.Args[0])
			key := fmt.Sprintf("%s.%s/%s(%s)", pkg, declName(fd), strings.TrimPrefix(k, "cty."), exprStr(call.Args[0]))
			if arg == nil {
				rr.Assumed(key, call.Pos(), "constructor argument is not a plain variable")
				return true
			}
			body := enclosingFuncBody(c, call)
			f := c.CFG(body, info)
			spec := &FactSpec{Atom: func(cond ast.Expr, truth bool) []Fact {
				cond = ast.Unparen(cond)
				if cl, ok := cond.(*ast.CallExpr); ok && isCall(info, cl, can) && len(cl.Args) == 1 && objOf(info, cl.Args[0]) == arg && truth {
					return []Fact{{"homogeneous", objKey(arg)}}
				}
				if be, ok := cond.(*ast.BinaryExpr); ok {
					isLen := func(e ast.Expr) bool {
						cl, ok := ast.Unparen(e).(*ast.CallExpr)
						return ok && isBuiltin(info, cl, "len") && len(cl.Args) == 1 && objOf(info, cl.Args[0]) == arg
					}
					zero := func(e ast.Expr) bool { v, ok := constInt(info, e); return ok && v == 0 }
					if be.Op == token.EQL && isLen(be.X) && zero(be.Y) && !truth {
						return []Fact{{"nonempty", objKey(arg)}}
					}
					if (be.Op == token.GTR || be.Op == token.NEQ) && isLen(be.X) && zero(be.Y) && truth {
						return []Fact{{"nonempty", objKey(arg)}}
					}
				}
				return nil
			}}
			// append/element stores after the checks would invalidate them; they are assignments to arg and kill the facts
			// automatically. Re-binding through a length-preserving helper keeps non-emptiness (tabled).
			spec.Effects = func(n ast.Node) []Effect {
				as, ok := n.(*ast.AssignStmt)
				if !ok || len(as.Rhs) != 1 || len(as.Lhs) < 1 || objOf(info, as.Lhs[0]) != arg {
					return nil
				}
				if cl, ok := as.Rhs[0].(*ast.CallExpr); ok && len(cl.Args) >= 1 && objOf(info, cl.Args[0]) == arg {
					if _, ok := lengthPreserving[funcKey(callee(info, cl))]; ok {
						return []Effect{{Keep: &Fact{"nonempty", objKey(arg)}}}
					}
				}
				return nil
			}
			facts, reach := f.MustFacts(spec).At(call)
			if !reach {
				rr.Assumed(key, call.Pos(), "unreachable")
				return true
			}
			var miss []string
			nonempty := facts.has("nonempty", objKey(arg))
			if !nonempty && builderHasEmptyTypeExit(c, info, fd, body) {
				nonempty = true // one element per member of a structural type whose emptiness the builder already handled
			}
			if !nonempty {
				miss = append(miss, "a dominating emptiness exit (the constructor panics on an empty collection)")
			}
			if !facts.has("homogeneous", objKey(arg)) {
				miss = append(miss, "a dominating "+strings.TrimPrefix(can, "cty.")+" exit (the constructor panics on inconsistent element types)")
			}
			if len(miss) > 0 {
				rr.Violation(key, call.Pos(), "missing "+strings.Join(miss, " and "))
			} else {
				rr.OK(key, call.Pos(), "dominated by len==0 exit and "+strings.TrimPrefix(can, "cty.")+" exit")
			}
			return true
		})
	}
}

// lengthPreserving: helpers that return a collection with exactly the keys/length of their first argument.
var lengthPreserving = map[string]string{
	"cty/convert.conversionUnifyCollectionElements": "stores one converted value per input key",
	"cty/convert.conversionUnifyListElements":       "stores one converted value per input index",
}

// builderHasEmptyTypeExit: the conversion builder (or the closure) exits early on a zero-length
// structural type (`len(tupleEtys) == 0`, `len(objectAtys) == 0`): the closure then produces one
// element per member.
func builderHasEmptyTypeExit(c *Ctx, info *types.Info, fd *ast.FuncDecl, body *ast.BlockStmt) bool {
	found := false
	ast.Inspect(fd.Body, func(n ast.Node) bool {
		ifs, ok := n.(*ast.IfStmt)
		if !ok {
			return true
		}
		be, ok := ast.Unparen(ifs.Cond).(*ast.BinaryExpr)
		if !ok || be.Op != token.EQL {
			return true
		}
		cl, ok := ast.Unparen(be.X).(*ast.CallExpr)
		if !ok || !isBuiltin(info, cl, "len") {
			return true
		}
		if v, ok := constInt(info, be.Y); !ok || v != 0 {
			return true
		}
		// the length of a type-derived container ([]cty.Type / map[string]cty.Type)
		t := info.TypeOf(cl.Args[0])
		isTypeContainer := false
		if sl, ok := t.Underlying().(*types.Slice); ok && isCtyType(sl.Elem()) {
			isTypeContainer = true
		}
		if mp, ok := t.Underlying().(*types.Map); ok && isCtyType(mp.Elem()) {
			isTypeContainer = true
		}
		if !isTypeContainer {
			return true
		}
		for _, st := range ifs.Body.List {
			if _, ok := st.(*ast.ReturnStmt); ok {
				found = true
			}
		}
		return true
	})
	return found
}

func enclosingFuncBody(c *Ctx, n ast.Node) *ast.BlockStmt {
	for cur := c.Parent(n); cur != nil; cur = c.Parent(cur) {
		switch x := cur.(type) {
		case *ast.FuncLit:
			return x.Body
		case *ast.FuncDecl:
			return x.Body
		}
	}
	return nil
}

// ---------------------------------------------------------------------------
// C08.safe-implies-unsafe

// unsafeLiteralExceptions: calls that may pass a literal instead of the flag.
var unsafeLiteralExceptions = map[string]string{
	"cty/convert.dynamicReplace→cty/convert.unify":              "computes a type only; the conversions are discarded (second result must be _)",
	"cty/convert.GetConversion→cty/convert.getConversion":       "public entry point fixing safe mode",
	"cty/convert.GetConversionUnsafe→cty/convert.getConversion": "public entry point fixing unsafe mode",
	"cty/convert.Unify→cty/convert.unify":                       "public entry point fixing safe mode",
	"cty/convert.UnifyUnsafe→cty/convert.unify":                 "public entry point fixing unsafe mode",
}

func runSafeImpliesUnsafe(rr *RuleRun) {
	c := rr.Ctx
	pkg := "cty/convert"
	info := c.Info(pkg)
	installFindFuncDecl(c)
	for _, fd := range c.SortedDecls(pkg) {
		// the bool parameter named unsafe, if any
		var flag types.Object
		for _, fl := range fd.Type.Params.List {
			for _, nm := range fl.Names {
				if nm.Name == "unsafe" && types.Identical(info.Defs[nm].Type(), types.Typ[types.Bool]) {
					flag = info.Defs[nm]
				}
			}
		}
		caller := pkg + "." + declName(fd)
		ast.Inspect(fd.Body, func(n ast.Node) bool {
			switch x := n.(type) {
			case *ast.CallExpr:
				f := callee(info, x)
				if f == nil {
					return true
				}
				cd := findFuncDecl(f)
				if cd == nil || c.ShortOf(cd.Pos()) != pkg {
					// public API used internally: GetConversion vs GetConversionUnsafe
					return true
				}
				// which parameter of the callee is its unsafe flag?
				idx, i := -1, 0
				for _, fl := range cd.Type.Params.List {
					for _, nm := range fl.Names {
						if nm.Name == "unsafe" {
							idx = i
						}
						i++
					}
				}
				if idx < 0 || idx >= len(x.Args) {
					return true
				}
				key := fmt.Sprintf("%s→%s", caller, funcKey(f))
				a := ast.Unparen(x.Args[idx])
				switch {
				case flag != nil && objOf(info, a) == flag:
					rr.OK(key, x.Pos(), "passes its own unsafe flag through")
				default:
					if flag == nil && returnsOnlyString(info, fd) {
						rr.Info(key, x.Pos(), "error-message builder: the conversion is only tested for existence, never returned")
					} else if as, ok := c.Parent(x).(*ast.AssignStmt); ok && len(as.Lhs) == 2 && len(as.Rhs) == 1 && isBlank(as.Lhs[1]) && isCtyType(info.TypeOf(as.Lhs[0])) {
						rr.OKTrivial(key, x.Pos(), "the call computes a type only: its conversions are discarded, so the flag cannot leak an unsafe conversion")
					} else if why, ok := unsafeLiteralExceptions[key]; ok {
						rr.OKTrivial(key, x.Pos(), "tabled exception: "+why)
					} else if id, ok := a.(*ast.Ident); ok && id.Name == "false" {
						rr.OK(key, x.Pos(), "passes literal false (never less safe than requested)")
					} else {
						rr.Violation(key, x.Pos(), fmt.Sprintf("nested call passes %s as the unsafe flag instead of the caller's own flag: a safe request can obtain an unsafe conversion", exprStr(a)))
					}
				}
			}
			return true
		})
		// GetConversionUnsafe used inside a function that has an unsafe flag must be dominated by unsafe==true
		if flag != nil {
			ast.Inspect(fd.Body, func(n ast.Node) bool {
				call, ok := n.(*ast.CallExpr)
				if !ok || !isCall(info, call, "cty/convert.GetConversionUnsafe") {
					return true
				}
				body := enclosingFuncBody(c, call)
				f := c.CFG(body, info)
				spec := &FactSpec{Atom: func(cond ast.Expr, truth bool) []Fact {
					if objOf(info, cond) == flag && truth {
						return []Fact{{"unsafe", objKey(flag)}}
					}
					return nil
				}}
				facts, _ := f.MustFacts(spec).At(call)
				key := caller + "→GetConversionUnsafe"
				if facts.has("unsafe", objKey(flag)) {
					rr.OK(key, call.Pos(), "dominated by unsafe == true")
				} else {
					rr.Violation(key, call.Pos(), "GetConversionUnsafe is used on a path where the caller did not ask for unsafe conversions")
				}
				return true
			})
			// every test of the flag must be monotone: the flag may only ENABLE more conversions
			ast.Inspect(fd.Body, func(n ast.Node) bool {
				ifs, ok := n.(*ast.IfStmt)
				if !ok {
					return true
				}
				// if unsafe { return nil }   — unsafe DISABLES something
				if objOf(info, ifs.Cond) == flag {
					if len(ifs.Body.List) == 1 {
						if r, ok := ifs.Body.List[0].(*ast.ReturnStmt); ok && len(r.Results) >= 1 && isNilIdent(info, r.Results[len(r.Results)-1]) && isConversionType(info.TypeOf(r.Results[len(r.Results)-1])) {
							rr.Violation(caller+"/flag-monotone", ifs.Pos(), "`if unsafe { return nil }`: a conversion offered as safe is withheld in unsafe mode")
						}
					}
				}
				return true
			})
		}
	}
}

func returnsOnlyString(info *types.Info, fd *ast.FuncDecl) bool {
	if fd.Type.Results == nil || len(fd.Type.Results.List) != 1 {
		return false
	}
	return types.Identical(info.TypeOf(fd.Type.Results.List[0].Type), types.Typ[types.String])
}

func isConversionType(t types.Type) bool {
	n := namedType(t)
	return n == "cty/convert.conversion" || n == "cty/convert.Conversion"
}

// ---------------------------------------------------------------------------
// C08.safe-primitives-cannot-fail

func runSafePrimitives(rr *RuleRun) {
	c := rr.Ctx
	pkg := "cty/convert"
	info := c.Info(pkg)
	var lit *ast.CompositeLit
	for _, f := range c.Pkg(pkg).Syntax {
		ast.Inspect(f, func(n ast.Node) bool {
			vs, ok := n.(*ast.ValueSpec)
			if !ok {
				return true
			}
			for i, nm := range vs.Names {
				if nm.Name == "primitiveConversionsSafe" && i < len(vs.Values) {
					lit, _ = vs.Values[i].(*ast.CompositeLit)
				}
			}
			return true
		})
	}
	if lit == nil {
		rr.Broken("unresolved anchor cty/convert.primitiveConversionsSafe")
		return
	}
	n := 0
	ast.Inspect(lit, func(nd ast.Node) bool {
		fl, ok := nd.(*ast.FuncLit)
		if !ok {
			return true
		}
		n++
		key := fmt.Sprintf("cty/convert.primitiveConversionsSafe/func#%d", n)
		bad := false
		inspectNoLit(fl.Body, func(m ast.Node) bool {
			if r, ok := m.(*ast.ReturnStmt); ok && len(r.Results) == 2 && !isNilIdent(info, r.Results[1]) {
				bad = true
				rr.Violation(key, r.Pos(), "a conversion offered as safe can return an error: "+exprStr(r.Results[1]))
			}
			return true
		})
		if !bad {
			rr.OK(key, fl.Pos(), "returns a nil error on all paths")
		}
		return false
	})
	if n == 0 {
		rr.Broken("no function literals found in primitiveConversionsSafe")
	}
}

func isBlank(e ast.Expr) bool {
	id, ok := e.(*ast.Ident)
	return ok && id.Name == "_"
}
