package main

import (
	"embed"
	"encoding/json"
	"fmt"
	"go/ast"
	"go/token"
	"go/types"
	"io/fs"
	"os"
	"path/filepath"
	"sort"
	"strings"

	"golang.org/x/tools/go/packages"
	"golang.org/x/tools/go/ssa"
	"golang.org/x/tools/go/ssa/ssautil"
	"golang.org/x/tools/go/types/typeutil"
)

//go:embed controls
var controlsFS embed.FS

const ctlPrefix = "zz_verifctl_"

// ---------------------------------------------------------------------------
// Rules, obligations, reports

type Rule struct {
	ID       string
	Prop     string
	Also     []string // other properties that run this rule too
	Doc      string
	Floor    int // minimum number of instances (obligations incl. assumed/info) confirmed by hand
	Controls int // minimum number of positive-control hits expected
	Run      func(rr *RuleRun)
}

var allRules []*Rule

func register(r *Rule) { allRules = append(allRules, r) }

type Obligation struct {
	Rule       string `json:"rule"`
	Construct  string `json:"construct"`
	Pos        string `json:"pos"`
	Status     string `json:"status"` // discharged | violation | known-finding | assumed | info
	Detail     string `json:"detail"`
	NonTrivial bool   `json:"nontrivial,omitempty"`
	Arch       string `json:"arch,omitempty"`
}

type Report struct {
	Prop       string
	Ctx        *Ctx
	Obls       []*Obligation
	BrokenMsgs []string
	RuleStats  []RuleStat
	CtlHits    map[string]int
}

type RuleStat struct {
	ID         string `json:"id"`
	Instances  int    `json:"instances"`
	Discharged int    `json:"discharged"`
	Assumed    int    `json:"assumed"`
	Info       int    `json:"info"`
	Violations int    `json:"violations"`
	Floor      int    `json:"floor"`
	Controls   int    `json:"control_hits"`
	Doc        string `json:"doc"`
}

func (r *Report) Broken(rule, msg string) {
	r.BrokenMsgs = append(r.BrokenMsgs, rule+": "+msg)
}

type stats struct{ total, discharged, assumed, known, viol int }

func (r *Report) stats() stats {
	var s stats
	for _, o := range r.Obls {
		s.total++
		switch o.Status {
		case "discharged":
			s.discharged++
		case "assumed", "info":
			s.assumed++
		case "known-finding":
			s.known++
		case "violation":
			s.viol++
		}
	}
	return s
}

type RuleRun struct {
	Rule    *Rule
	Rep     *Report
	Ctx     *Ctx
	obls    []*Obligation
	ctlHits int
	seen    map[string]int
}

func (rr *RuleRun) add(status, construct string, pos token.Pos, detail string, nontrivial bool) {
	p := rr.Ctx.Fset.Position(pos)
	if strings.HasPrefix(filepath.Base(p.Filename), ctlPrefix) {
		if status == "violation" {
			rr.ctlHits++
		}
		return
	}
	if rr.seen == nil {
		rr.seen = map[string]int{}
	}
	// keep construct keys unique within a rule: append an ordinal on repeats
	rr.seen[construct]++
	if n := rr.seen[construct]; n > 1 {
		construct = fmt.Sprintf("%s#%d", construct, n)
	}
	rr.obls = append(rr.obls, &Obligation{Rule: rr.Rule.ID, Construct: construct, Pos: rr.Ctx.PosStr(pos), Status: status, Detail: detail, NonTrivial: nontrivial})
}

func (rr *RuleRun) OK(construct string, pos token.Pos, detail string) {
	rr.add("discharged", construct, pos, detail, true)
}
func (rr *RuleRun) OKTrivial(construct string, pos token.Pos, detail string) {
	rr.add("discharged", construct, pos, detail, false)
}
func (rr *RuleRun) Violation(construct string, pos token.Pos, detail string) {
	rr.add("violation", construct, pos, detail, true)
}
func (rr *RuleRun) Assumed(construct string, pos token.Pos, detail string) {
	rr.add("assumed", construct, pos, detail, false)
}
func (rr *RuleRun) Info(construct string, pos token.Pos, detail string) {
	rr.add("info", construct, pos, detail, false)
}

// Broken marks the check as undecidable (exit 2): stale table, unresolved anchor.
func (rr *RuleRun) Broken(msg string) { rr.Rep.Broken(rr.Rule.ID, msg) }

func (rr *RuleRun) finish() {
	st := RuleStat{ID: rr.Rule.ID, Floor: rr.Rule.Floor, Controls: rr.ctlHits, Doc: rr.Rule.Doc}
	sort.SliceStable(rr.obls, func(i, j int) bool { return rr.obls[i].Construct < rr.obls[j].Construct })
	for _, o := range rr.obls {
		st.Instances++
		switch o.Status {
		case "discharged":
			st.Discharged++
		case "assumed":
			st.Assumed++
		case "info":
			st.Info++
		case "violation":
			st.Violations++
		}
	}
	if st.Instances < rr.Rule.Floor {
		rr.Broken(fmt.Sprintf("rule matched %d instances, fewer than the %d confirmed by hand - refusing to pass vacuously", st.Instances, rr.Rule.Floor))
	}
	if rr.Ctx.WithControls && rr.ctlHits < rr.Rule.Controls {
		rr.Broken(fmt.Sprintf("positive control not flagged (%d hits, want >= %d)", rr.ctlHits, rr.Rule.Controls))
	}
	rr.Rep.Obls = append(rr.Rep.Obls, rr.obls...)
	rr.Rep.RuleStats = append(rr.Rep.RuleStats, st)
}

// mergeArch folds the GOARCH=386 report into the main one: a violation seen only
// under 386 is added; everything else is only counted.
func mergeArch(main, other *Report) {
	have := map[string]*Obligation{}
	for _, o := range main.Obls {
		have[o.Rule+"|"+o.Construct] = o
	}
	for _, o := range other.Obls {
		k := o.Rule + "|" + o.Construct
		if m, ok := have[k]; ok {
			if m.Status != "violation" && o.Status == "violation" {
				o.Arch = "386"
				main.Obls = append(main.Obls, o)
			} else {
				m.Arch = "amd64+386"
			}
			continue
		}
		o.Arch = "386"
		main.Obls = append(main.Obls, o)
	}
	for _, b := range other.BrokenMsgs {
		main.BrokenMsgs = append(main.BrokenMsgs, "[386] "+b)
	}
}

// ---------------------------------------------------------------------------
// Loading

type Ctx struct {
	Repo         string
	Arch         string
	Fset         *token.FileSet
	All          []*packages.Package
	Pkgs         map[string]*packages.Package // short path: "cty", "cty/set", ...
	WithControls bool

	prog      *ssa.Program
	ssaPkgs   map[string]*ssa.Package
	parents   map[*ast.File]map[ast.Node]ast.Node
	cfgs      map[*ast.BlockStmt]*FuncCFG
	decls     map[string]map[string]*ast.FuncDecl
	own       *Own
	stdlibRes *stdlibResult
}

type Variant struct {
	Name      string `json:"name"`
	Prop      string `json:"prop"`
	File      string `json:"file"` // relative to repo root
	Old       string `json:"old"`
	New       string `json:"new"`
	Rule      string `json:"rule"`
	Construct string `json:"construct"` // substring expected in the reported construct
	Note      string `json:"note"`
	Patch     string `json:"-"` // path of a unified diff applied in memory instead of File/Old/New
}

func readVariant(path string) (*Variant, error) {
	b, err := os.ReadFile(path)
	if err != nil {
		return nil, err
	}
	var v Variant
	if err := json.Unmarshal(b, &v); err != nil {
		return nil, fmt.Errorf("%s: %v", path, err)
	}
	return &v, nil
}

var errStaleVariant = fmt.Errorf("variant is stale: old text not found exactly once")

func loadCtx(repo, arch string, variant *Variant, controls bool) (*Ctx, error) {
	overlay := map[string][]byte{}
	if controls {
		fs.WalkDir(controlsFS, "controls", func(p string, d fs.DirEntry, err error) error {
			if err != nil || d.IsDir() || !strings.HasSuffix(p, ".go.txt") {
				return nil
			}
			b, _ := controlsFS.ReadFile(p)
			rel := strings.TrimPrefix(p, "controls/")
			dir, base := filepath.Split(rel)
			base = strings.TrimSuffix(base, ".txt")
			if _, err := os.Stat(filepath.Join(repo, dir)); err == nil {
				overlay[filepath.Join(repo, dir, ctlPrefix+base)] = b
			}
			return nil
		})
	}
	if variant != nil && variant.Patch != "" {
		files, err := applyPatchOverlay(repo, variant.Patch)
		if err != nil {
			return nil, fmt.Errorf("%w: %v", errStaleVariant, err)
		}
		for k, v := range files {
			overlay[k] = v
		}
	} else if variant != nil {
		p := filepath.Join(repo, variant.File)
		b, err := os.ReadFile(p)
		if err != nil {
			return nil, err
		}
		if strings.Count(string(b), variant.Old) != 1 {
			return nil, errStaleVariant
		}
		overlay[p] = []byte(strings.Replace(string(b), variant.Old, variant.New, 1))
	}
	env := []string{}
	for _, e := range os.Environ() {
		if strings.HasPrefix(e, "GOWORK=") || strings.HasPrefix(e, "GOFLAGS=") || strings.HasPrefix(e, "GOARCH=") {
			continue
		}
		env = append(env, e)
	}
	env = append(env, "GOFLAGS=-mod=mod", "GOPROXY=off", "GOSUMDB=off", "GOTOOLCHAIN=local", "GOWORK=off", "CGO_ENABLED=0")
	if arch != "" {
		env = append(env, "GOARCH="+arch)
	}
	fset := token.NewFileSet()
	cfg := &packages.Config{
		Mode:    packages.LoadAllSyntax | packages.NeedModule,
		Dir:     repo,
		Fset:    fset,
		Env:     env,
		Overlay: overlay,
		Tests:   false,
	}
	pkgs, err := packages.Load(cfg, "./...")
	if err != nil {
		return nil, fmt.Errorf("packages.Load: %v", err)
	}
	c := &Ctx{Repo: repo, Arch: arch, Fset: fset, All: pkgs, Pkgs: map[string]*packages.Package{}, WithControls: controls,
		parents: map[*ast.File]map[ast.Node]ast.Node{}, cfgs: map[*ast.BlockStmt]*FuncCFG{}, decls: map[string]map[string]*ast.FuncDecl{}}
	var errs []string
	for _, p := range pkgs {
		for _, e := range p.Errors {
			errs = append(errs, e.Error())
		}
		if !strings.HasPrefix(p.PkgPath, modPath) {
			continue
		}
		short := strings.TrimPrefix(strings.TrimPrefix(p.PkgPath, modPath), "/")
		c.Pkgs[short] = p
	}
	packages.Visit(pkgs, nil, func(p *packages.Package) {
		if len(p.Errors) > 0 && !strings.HasPrefix(p.PkgPath, modPath) {
			for _, e := range p.Errors {
				errs = append(errs, e.Error())
			}
		}
	})
	if len(errs) > 0 {
		if len(errs) > 5 {
			errs = errs[:5]
		}
		return nil, fmt.Errorf("type/load errors: %s", strings.Join(errs, "; "))
	}
	want := []string{"cty", "cty/set", "cty/ctystrings", "cty/convert", "cty/function", "cty/function/stdlib", "cty/gocty", "cty/json", "cty/msgpack"}
	for _, w := range want {
		if c.Pkgs[w] == nil {
			return nil, fmt.Errorf("package %s not loaded (%d packages loaded)", w, len(c.Pkgs))
		}
	}
	return c, nil
}

func (c *Ctx) SSA() *ssa.Program {
	if c.prog != nil {
		return c.prog
	}
	prog, pkgs := ssautil.AllPackages(c.All, ssa.InstantiateGenerics)
	prog.Build()
	c.prog = prog
	c.ssaPkgs = map[string]*ssa.Package{}
	for i, p := range c.All {
		if pkgs[i] != nil {
			short := strings.TrimPrefix(strings.TrimPrefix(p.PkgPath, modPath), "/")
			c.ssaPkgs[short] = pkgs[i]
		}
	}
	return prog
}

func (c *Ctx) SSAPkg(short string) *ssa.Package {
	c.SSA()
	return c.ssaPkgs[short]
}

// ---------------------------------------------------------------------------
// Helpers over the typed AST

func (c *Ctx) Pkg(short string) *packages.Package { return c.Pkgs[short] }

func (c *Ctx) PosStr(p token.Pos) string {
	if !p.IsValid() {
		return "-"
	}
	pos := c.Fset.Position(p)
	rel, err := filepath.Rel(c.Repo, pos.Filename)
	if err != nil {
		rel = pos.Filename
	}
	return fmt.Sprintf("%s:%d", rel, pos.Line)
}

func (c *Ctx) IsControl(p token.Pos) bool {
	return strings.HasPrefix(filepath.Base(c.Fset.Position(p).Filename), ctlPrefix)
}

func (c *Ctx) FileOf(p token.Pos) string {
	return filepath.Base(c.Fset.Position(p).Filename)
}

func recvTypeName(fd *ast.FuncDecl) string {
	if fd.Recv == nil || len(fd.Recv.List) == 0 {
		return ""
	}
	t := fd.Recv.List[0].Type
	for {
		switch x := t.(type) {
		case *ast.StarExpr:
			t = x.X
			continue
		case *ast.ParenExpr:
			t = x.X
			continue
		case *ast.IndexExpr:
			t = x.X
			continue
		case *ast.IndexListExpr:
			t = x.X
			continue
		case *ast.Ident:
			return x.Name
		}
		return ""
	}
}

func declName(fd *ast.FuncDecl) string {
	if r := recvTypeName(fd); r != "" {
		return r + "." + fd.Name.Name
	}
	return fd.Name.Name
}

// Decls returns every function declaration with a body in a package, keyed
// "Recv.Name" or "Name". Control files are included (reports there are diverted).
func (c *Ctx) Decls(short string) map[string]*ast.FuncDecl {
	if m, ok := c.decls[short]; ok {
		return m
	}
	m := map[string]*ast.FuncDecl{}
	p := c.Pkgs[short]
	for _, f := range p.Syntax {
		for _, d := range f.Decls {
			if fd, ok := d.(*ast.FuncDecl); ok && fd.Body != nil {
				n := declName(fd)
				if _, dup := m[n]; dup { // init() etc.
					n = fmt.Sprintf("%s@%s", n, c.PosStr(fd.Pos()))
				}
				m[n] = fd
			}
		}
	}
	c.decls[short] = m
	return m
}

// SortedDecls returns declarations in a deterministic order.
func (c *Ctx) SortedDecls(short string) []*ast.FuncDecl {
	m := c.Decls(short)
	names := make([]string, 0, len(m))
	for n := range m {
		names = append(names, n)
	}
	sort.Strings(names)
	out := make([]*ast.FuncDecl, 0, len(m))
	for _, n := range names {
		out = append(out, m[n])
	}
	return out
}

func (c *Ctx) Decl(short, name string) *ast.FuncDecl { return c.Decls(short)[name] }

// MustDecl resolves an anchor or marks the run broken.
func (rr *RuleRun) MustDecl(short, name string) *ast.FuncDecl {
	fd := rr.Ctx.Decl(short, name)
	if fd == nil {
		rr.Broken(fmt.Sprintf("unresolved anchor %s.%s", short, name))
	}
	return fd
}

func (c *Ctx) Info(short string) *types.Info { return c.Pkgs[short].TypesInfo }

// InfoFor returns the types.Info of the package containing pos.
func (c *Ctx) InfoFor(pos token.Pos) *types.Info {
	fn := c.Fset.Position(pos).Filename
	dir := filepath.Dir(fn)
	rel, _ := filepath.Rel(c.Repo, dir)
	if p, ok := c.Pkgs[rel]; ok {
		return p.TypesInfo
	}
	return nil
}

func (c *Ctx) ShortOf(pos token.Pos) string {
	fn := c.Fset.Position(pos).Filename
	rel, _ := filepath.Rel(c.Repo, filepath.Dir(fn))
	return rel
}

func callee(info *types.Info, call *ast.CallExpr) *types.Func {
	if f, ok := typeutil.Callee(info, call).(*types.Func); ok {
		return f
	}
	return nil
}

func shortPkg(p *types.Package) string {
	if p == nil {
		return ""
	}
	return strings.TrimPrefix(strings.TrimPrefix(p.Path(), modPath), "/")
}

// funcKey is a symbolic name: "cty.Value.Equals", "cty/convert.unify", "math/big.Float.Int".
func funcKey(f *types.Func) string {
	if f == nil {
		return ""
	}
	f = f.Origin()
	sig := f.Type().(*types.Signature)
	pk := shortPkg(f.Pkg())
	if r := sig.Recv(); r != nil {
		t := r.Type()
		if p, ok := t.(*types.Pointer); ok {
			t = p.Elem()
		}
		if n, ok := t.(*types.Named); ok {
			return pk + "." + n.Obj().Name() + "." + f.Name()
		}
		if n, ok := t.(*types.Alias); ok {
			return pk + "." + n.Obj().Name() + "." + f.Name()
		}
		return pk + ".?." + f.Name()
	}
	return pk + "." + f.Name()
}

// isCall reports whether call resolves to one of the given funcKeys.
func isCall(info *types.Info, call *ast.CallExpr, keys ...string) bool {
	k := funcKey(callee(info, call))
	if k == "" {
		return false
	}
	for _, w := range keys {
		if k == w {
			return true
		}
	}
	return false
}

func isBuiltin(info *types.Info, call *ast.CallExpr, name string) bool {
	id, ok := ast.Unparen(call.Fun).(*ast.Ident)
	if !ok {
		return false
	}
	b, ok := info.Uses[id].(*types.Builtin)
	return ok && b.Name() == name
}

// namedType returns "pkgshort.Name" for a (pointer to) named type, else "".
func namedType(t types.Type) string {
	if t == nil {
		return ""
	}
	if p, ok := t.(*types.Pointer); ok {
		t = p.Elem()
	}
	switch n := t.(type) {
	case *types.Named:
		return shortPkg(n.Obj().Pkg()) + "." + n.Obj().Name()
	case *types.Alias:
		return shortPkg(n.Obj().Pkg()) + "." + n.Obj().Name()
	}
	return ""
}

func isCtyValue(t types.Type) bool { return t != nil && namedTypeNoPtr(t) == "cty.Value" }
func isCtyType(t types.Type) bool  { return t != nil && namedTypeNoPtr(t) == "cty.Type" }

func namedTypeNoPtr(t types.Type) string {
	if _, ok := t.(*types.Pointer); ok {
		return ""
	}
	return namedType(t)
}

// objOf returns the object an identifier expression refers to (nil otherwise).
func objOf(info *types.Info, e ast.Expr) types.Object {
	if id, ok := ast.Unparen(e).(*ast.Ident); ok {
		if o := info.Uses[id]; o != nil {
			return o
		}
		return info.Defs[id]
	}
	return nil
}

// pkgVar reports whether e refers to package-level variable pkgshort.name.
func isPkgVar(info *types.Info, e ast.Expr, pkgshort string, names ...string) bool {
	var id *ast.Ident
	switch x := ast.Unparen(e).(type) {
	case *ast.Ident:
		id = x
	case *ast.SelectorExpr:
		id = x.Sel
	default:
		return false
	}
	o, ok := info.Uses[id].(*types.Var)
	if !ok || o.Pkg() == nil || o.Parent() != o.Pkg().Scope() || shortPkg(o.Pkg()) != pkgshort {
		return false
	}
	for _, n := range names {
		if o.Name() == n {
			return true
		}
	}
	return false
}

// Parents returns a child→parent map for the file containing n.
func (c *Ctx) parentMap(f *ast.File) map[ast.Node]ast.Node {
	if m, ok := c.parents[f]; ok {
		return m
	}
	m := map[ast.Node]ast.Node{}
	var stack []ast.Node
	ast.Inspect(f, func(n ast.Node) bool {
		if n == nil {
			stack = stack[:len(stack)-1]
			return true
		}
		if len(stack) > 0 {
			m[n] = stack[len(stack)-1]
		}
		stack = append(stack, n)
		return true
	})
	c.parents[f] = m
	return m
}

func (c *Ctx) fileOfNode(n ast.Node) *ast.File {
	tf := c.Fset.File(n.Pos())
	for _, p := range c.Pkgs {
		for _, f := range p.Syntax {
			if c.Fset.File(f.Pos()) == tf {
				return f
			}
		}
	}
	return nil
}

func (c *Ctx) Parent(n ast.Node) ast.Node {
	f := c.fileOfNode(n)
	if f == nil {
		return nil
	}
	return c.parentMap(f)[n]
}

// exprStr renders an expression compactly (for details and alpha-comparison).
func exprStr(e ast.Expr) string { return types.ExprString(e) }

// inspectNoLit walks n without descending into function literals.
func inspectNoLit(n ast.Node, f func(ast.Node) bool) {
	ast.Inspect(n, func(x ast.Node) bool {
		if _, ok := x.(*ast.FuncLit); ok && x != n {
			return false
		}
		if x == nil {
			return true
		}
		return f(x)
	})
}

// ---------------------------------------------------------------------------
// Known findings

type KnownFinding struct {
	Property  string `json:"property"`
	Rule      string `json:"rule"`
	Construct string `json:"construct"`
	FailsWith string `json:"fails_with"`
	Status    string `json:"status"` // "open" | "fixed: <commit>"
}

type knownSet struct{ list []KnownFinding }

func loadKnown(path string) *knownSet {
	ks := &knownSet{}
	b, err := os.ReadFile(path)
	if err != nil {
		return ks
	}
	var doc struct {
		Findings []KnownFinding `json:"findings"`
	}
	if json.Unmarshal(b, &doc) == nil {
		ks.list = doc.Findings
	}
	return ks
}

func (k *knownSet) match(prop string, o *Obligation) *KnownFinding {
	for i := range k.list {
		f := &k.list[i]
		if f.Status == "open" && f.Property == prop && f.Rule == o.Rule && f.Construct == o.Construct {
			return f
		}
	}
	return nil
}
