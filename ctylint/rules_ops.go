package main

import (
	"fmt"
	"go/ast"
	"go/token"
	"go/types"
	"sort"
	"strings"
)

// opMethod is an operation method of cty.Value discovered by signature.
type opMethod struct {
	Decl     *ast.FuncDecl
	Name     string
	Recv     *types.Var
	Operands []*types.Var // receiver first, then the Value-typed parameters
	Control  bool         // declared in a positive-control file
}

// notOperations: same signature shape, but they manage marks/refinements and are not
// operations in the sense of docs/concepts.md. Keyed by symbol, with the reason.
var notOperations = map[string]string{
	"RefineNotNull": "refinement manager: implemented through Refine()/NewValue, which unmark and re-apply marks themselves",
}

func opMethods(c *Ctx) []*opMethod {
	info := c.Info("cty")
	var out []*opMethod
	for _, fd := range c.SortedDecls("cty") {
		if fd.Recv == nil || recvTypeName(fd) != "Value" || !fd.Name.IsExported() {
			continue
		}
		if _, ok := notOperations[fd.Name.Name]; ok {
			continue
		}
		fn, _ := info.Defs[fd.Name].(*types.Func)
		if fn == nil {
			continue
		}
		sig := fn.Type().(*types.Signature)
		if sig.Variadic() || sig.Results().Len() != 1 || !isCtyValue(sig.Results().At(0).Type()) {
			continue
		}
		if _, ptr := sig.Recv().Type().(*types.Pointer); ptr {
			continue
		}
		ok := true
		m := &opMethod{Decl: fd, Name: fd.Name.Name, Recv: sig.Recv(), Control: c.IsControl(fd.Pos())}
		m.Operands = append(m.Operands, sig.Recv())
		for i := 0; i < sig.Params().Len(); i++ {
			p := sig.Params().At(i)
			switch {
			case isCtyValue(p.Type()):
				m.Operands = append(m.Operands, p)
			case types.Identical(p.Type(), types.Typ[types.String]):
			default:
				ok = false
			}
		}
		if ok {
			out = append(out, m)
		}
	}
	return out
}

func opMethodNames(ms []*opMethod) map[string]bool {
	m := map[string]bool{}
	for _, x := range ms {
		m[x.Name] = true
	}
	return m
}

func init() {
	register(&Rule{
		ID: "C04.op-prologue", Prop: "C04", Floor: 21, Controls: 2,
		Doc: "every operation method of cty.Value either starts with a mark prologue that tests every Value operand for marks, unmarks each, re-invokes the same method on the unmarked operands and re-applies the marks of ALL operands with WithMarks, or is a pure delegation to other operation methods",
		Run: runOpPrologue,
	})
	register(&Rule{
		ID: "C01.unknown-before-payload", Prop: "C01", Floor: 40, Controls: 2, Also: []string{"C04"},
		Doc: "in operation methods every assertion of an operand's payload (x.v.(T), T a concrete payload type) is dominated by a guard establishing that x is known (mustTypeCheck()==nil, IsKnown early exit, comma-ok on *unknownType) and lies after the mark prologue",
		Run: runUnknownBeforePayload,
	})
	register(&Rule{
		ID: "C01.typed-shortcircuit", Prop: "C01", Floor: 12, Controls: 1, Also: []string{"C02"},
		Doc: "a mustTypeCheck short-circuit result reaches a return only through forceShortCircuitType(·,K) with K the method's documented result kind; UnknownVal(K)/BoolVal/NumberVal constructors on return paths agree with that kind",
		Run: runTypedShortCircuit,
	})
	register(&Rule{
		ID: "C01.never-null", Prop: "C01", Floor: 17, Controls: 1,
		Doc: "arithmetic, comparison, logical, length and membership methods return only expressions that are non-null by construction (constructors, singletons, same-family calls, unknowns passed through RefineNotNull / Refine().NotNull()); a returned operand is accepted only under a not-null guard",
		Run: runNeverNull,
	})
}

// ---------------------------------------------------------------------------
// C04.op-prologue

func runOpPrologue(rr *RuleRun) {
	c := rr.Ctx
	info := c.Info("cty")
	ms := opMethods(c)
	names := opMethodNames(ms)
	for _, m := range ms {
		key := "cty.Value." + m.Name
		if ok, why := isMarkPrologue(c, info, m); ok {
			rr.OK(key, m.Decl.Pos(), "mark prologue covers operands "+operandNames(m))
			continue
		} else if why != "" && why != "no prologue" {
			rr.Violation(key, m.Decl.Pos(), "mark prologue incomplete: "+why)
			continue
		}
		if ok, why := isPureDelegation(info, m, names); ok {
			rr.OK(key, m.Decl.Pos(), "pure delegation to operation methods")
		} else {
			rr.Violation(key, m.Decl.Pos(), "operation method has neither a mark prologue nor a pure delegation body: "+why)
		}
	}
}

func operandNames(m *opMethod) string {
	var s []string
	for _, o := range m.Operands {
		s = append(s, o.Name())
	}
	return strings.Join(s, ",")
}

// isMarkPrologue checks shape (i) of C04.op-prologue.
func isMarkPrologue(c *Ctx, info *types.Info, m *opMethod) (bool, string) {
	body := m.Decl.Body.List
	if len(body) == 0 {
		return false, "no prologue"
	}
	ifs, ok := body[0].(*ast.IfStmt)
	if !ok || ifs.Init != nil {
		return false, "no prologue"
	}
	// condition: disjunction of X.IsMarked()/X.ContainsMarked() over every operand
	tested := map[types.Object]string{}
	var bad string
	var walk func(e ast.Expr)
	walk = func(e ast.Expr) {
		e = ast.Unparen(e)
		if be, ok := e.(*ast.BinaryExpr); ok && be.Op == token.LOR {
			walk(be.X)
			walk(be.Y)
			return
		}
		call, ok := e.(*ast.CallExpr)
		if !ok {
			bad = "condition term is not a mark test: " + exprStr(e)
			return
		}
		k := funcKey(callee(info, call))
		if k != "cty.Value.IsMarked" && k != "cty.Value.ContainsMarked" {
			bad = "condition term is not a mark test: " + exprStr(e)
			return
		}
		se := call.Fun.(*ast.SelectorExpr)
		o := objOf(info, se.X)
		if o == nil {
			bad = "mark test on a non-operand: " + exprStr(e)
			return
		}
		tested[o] = k
	}
	walk(ifs.Cond)
	if len(tested) == 0 {
		return false, "no prologue"
	}
	if bad != "" {
		return false, bad
	}
	for _, op := range m.Operands {
		if _, ok := tested[op]; !ok {
			return false, fmt.Sprintf("operand %s is not tested for marks in the prologue condition", op.Name())
		}
	}
	// all operands are tested at the same depth
	// (an operand the method itself treats as a set — it asserts the operand's payload to the set representation —
	// cannot carry marks below its top level, because SetVal moves its members' marks to the set: for it the
	// top-level test is a test at every depth)
	isSetOperand := func(op *types.Var) bool {
		found := false
		ast.Inspect(m.Decl.Body, func(n ast.Node) bool {
			ta, ok := n.(*ast.TypeAssertExpr)
			if !ok || ta.Type == nil {
				return true
			}
			se, ok := ast.Unparen(ta.X).(*ast.SelectorExpr)
			if !ok || se.Sel.Name != "v" {
				return true
			}
			if o := objOf(info, se.X); o != nil && o.Name() == op.Name() && isCtyValue(o.Type()) {
				if t := info.TypeOf(ta.Type); t != nil && strings.HasPrefix(namedTypeNoPtr(t), "cty/set.Set") {
					found = true
				}
			}
			return true
		})
		return found
	}
	depth := ""
	for _, op := range m.Operands {
		if tested[op] == "cty.Value.IsMarked" && isSetOperand(op) {
			continue
		}
		if depth != "" && tested[op] != depth {
			return false, fmt.Sprintf("operands are tested at different depths (%s uses %s): the method either tolerates nested marks on all operands or on none", op.Name(), strings.TrimPrefix(tested[op], "cty.Value."))
		}
		depth = tested[op]
	}
	// delegated form: return H(Value.M, operands...) with H a helper that does the
	// unmark / re-invoke / re-apply itself
	if handled, ok, why := delegatedPrologue(c, info, m, ifs, tested); handled {
		return ok, why
	}
	// body: X', m := X.Unmark()/UnmarkDeep() per operand, then return X'.M(args').WithMarks(all m)
	unmarked := map[types.Object]types.Object{} // original operand → unmarked local
	markVar := map[types.Object]types.Object{}  // original operand → marks local
	var ret *ast.ReturnStmt
	for _, st := range ifs.Body.List {
		switch s := st.(type) {
		case *ast.AssignStmt:
			if s.Tok != token.DEFINE || len(s.Lhs) != 2 || len(s.Rhs) != 1 {
				return false, "unexpected statement in prologue body: " + nodeStr(s)
			}
			call, ok := s.Rhs[0].(*ast.CallExpr)
			if !ok {
				return false, "unexpected statement in prologue body: " + nodeStr(s)
			}
			k := funcKey(callee(info, call))
			if k != "cty.Value.Unmark" && k != "cty.Value.UnmarkDeep" {
				return false, "prologue rebinding is not Unmark/UnmarkDeep: " + nodeStr(s)
			}
			src := objOf(info, call.Fun.(*ast.SelectorExpr).X)
			if src == nil {
				return false, "Unmark on non-operand"
			}
			// deep test must be paired with deep unmark
			if tested[src] == "cty.Value.ContainsMarked" && k != "cty.Value.UnmarkDeep" {
				return false, fmt.Sprintf("operand %s is tested with ContainsMarked but only shallowly unmarked", src.Name())
			}
			// ... and the converse: a deep unmark means the body cannot cope with nested marks, so the test must be deep too
			if k == "cty.Value.UnmarkDeep" && tested[src] != "cty.Value.ContainsMarked" {
				return false, fmt.Sprintf("operand %s is deep-unmarked but only tested with IsMarked: nested marks on it reach the body when no operand is marked at the top", src.Name())
			}
			l0, _ := s.Lhs[0].(*ast.Ident)
			l1, _ := s.Lhs[1].(*ast.Ident)
			if l0 == nil || l1 == nil || l1.Name == "_" {
				return false, fmt.Sprintf("marks of operand %s are discarded in the prologue", src.Name())
			}
			unmarked[src] = info.Defs[l0]
			markVar[src] = info.Defs[l1]
		case *ast.ReturnStmt:
			ret = s
		default:
			return false, "unexpected statement in prologue body: " + nodeStr(s)
		}
	}
	if ret == nil || len(ret.Results) != 1 {
		return false, "prologue does not return"
	}
	for _, op := range m.Operands {
		if unmarked[op] == nil {
			return false, fmt.Sprintf("operand %s is not unmarked in the prologue", op.Name())
		}
	}
	// return <x'>.M(<args'>).WithMarks(m...)
	wm, ok := ast.Unparen(ret.Results[0]).(*ast.CallExpr)
	if !ok || funcKey(callee(info, wm)) != "cty.Value.WithMarks" || wm.Ellipsis.IsValid() {
		return false, "prologue result is not wrapped in WithMarks(...)"
	}
	got := map[types.Object]bool{}
	for _, a := range wm.Args {
		if o := objOf(info, a); o != nil {
			got[o] = true
		}
	}
	for _, op := range m.Operands {
		if !got[markVar[op]] {
			return false, fmt.Sprintf("marks of operand %s are not re-applied by WithMarks", op.Name())
		}
	}
	inner, ok := ast.Unparen(wm.Fun.(*ast.SelectorExpr).X).(*ast.CallExpr)
	if !ok {
		return false, "WithMarks is not applied to a re-invocation of the method"
	}
	f := callee(info, inner)
	if f == nil || funcKey(f) != "cty.Value."+m.Name {
		return false, "prologue re-invokes a different method: " + funcKey(f)
	}
	if o := objOf(info, inner.Fun.(*ast.SelectorExpr).X); o == nil || o != unmarked[m.Operands[0]] {
		return false, "prologue re-invocation is not on the unmarked receiver"
	}
	// every Value argument must be the unmarked rebinding of the parameter in the same position
	sig := f.Type().(*types.Signature)
	vi := 1
	for i, a := range inner.Args {
		if i >= sig.Params().Len() {
			break
		}
		if isCtyValue(sig.Params().At(i).Type()) {
			if vi >= len(m.Operands) {
				return false, "argument count mismatch in re-invocation"
			}
			if o := objOf(info, a); o == nil || o != unmarked[m.Operands[vi]] {
				return false, fmt.Sprintf("re-invocation passes %s instead of the unmarked %s", exprStr(a), m.Operands[vi].Name())
			}
			vi++
		} else {
			// non-Value parameter must be passed through unchanged
			po := info.Defs[paramIdent(m.Decl, i)]
			if o := objOf(info, a); o == nil || o != po {
				return false, fmt.Sprintf("re-invocation changes non-value argument %d", i)
			}
		}
	}
	return true, ""
}

// delegatedPrologue recognises a prologue body of the form
//
//	return H(Value.M, a, b)      (the method expression in any argument position)
//
// where H is a package-level helper whose body unmarks every Value parameter,
// calls its function parameter on the unmarked values in the same order and
// re-applies all the marks with WithMarks. handled=false: not this form.
func delegatedPrologue(c *Ctx, info *types.Info, m *opMethod, ifs *ast.IfStmt, tested map[types.Object]string) (handled, ok bool, why string) {
	if len(ifs.Body.List) != 1 {
		return false, false, ""
	}
	ret, isRet := ifs.Body.List[0].(*ast.ReturnStmt)
	if !isRet || len(ret.Results) != 1 {
		return false, false, ""
	}
	call, isCall := ast.Unparen(ret.Results[0]).(*ast.CallExpr)
	if !isCall {
		return false, false, ""
	}
	h := callee(info, call)
	if h == nil || h.Type().(*types.Signature).Recv() != nil || h.Pkg() == nil || h.Pkg().Path() != modPath+"/cty" {
		return false, false, ""
	}
	// one argument is the method expression Value.M; the others are the operands in order
	meIdx := -1
	var valArgs []int
	for i, a := range call.Args {
		if se, isSel := ast.Unparen(a).(*ast.SelectorExpr); isSel {
			if sel, found := info.Selections[se]; found && sel.Kind() == types.MethodExpr {
				if meIdx >= 0 {
					return false, false, ""
				}
				f, _ := sel.Obj().(*types.Func)
				if f == nil || funcKey(f) != "cty.Value."+m.Name {
					return true, false, "prologue helper is given a different method: " + exprStr(a)
				}
				meIdx = i
				continue
			}
		}
		valArgs = append(valArgs, i)
	}
	if meIdx < 0 {
		return false, false, ""
	}
	if len(valArgs) != len(m.Operands) {
		return true, false, "prologue helper is not given every operand"
	}
	for j, i := range valArgs {
		if o := objOf(info, call.Args[i]); o == nil || o != types.Object(m.Operands[j]) {
			return true, false, fmt.Sprintf("prologue helper receives %s instead of operand %s (operands must be passed in order)", exprStr(call.Args[i]), m.Operands[j].Name())
		}
	}
	hd := c.Decl("cty", h.Name())
	if hd == nil || hd.Body == nil {
		return true, false, "prologue helper " + h.Name() + " has no body to check"
	}
	// helper parameters by position
	var params []types.Object
	for _, f := range hd.Type.Params.List {
		for _, n := range f.Names {
			params = append(params, info.Defs[n])
		}
	}
	if len(params) != len(call.Args) {
		return true, false, "prologue helper parameter list does not match the call"
	}
	opParam := params[meIdx]
	if sig, isSig := opParam.Type().Underlying().(*types.Signature); !isSig || sig.Params().Len() != len(valArgs) {
		return true, false, "prologue helper's function parameter does not take every operand"
	}
	var hOps []types.Object
	for _, i := range valArgs {
		hOps = append(hOps, params[i])
	}
	unmarked := map[types.Object]types.Object{}
	markVar := map[types.Object]types.Object{}
	var hret *ast.ReturnStmt
	for _, st := range hd.Body.List {
		switch s := st.(type) {
		case *ast.AssignStmt:
			if len(s.Lhs) != 2 || len(s.Rhs) != 1 {
				return true, false, "unexpected statement in prologue helper: " + nodeStr(s)
			}
			uc, isC := s.Rhs[0].(*ast.CallExpr)
			if !isC {
				return true, false, "unexpected statement in prologue helper: " + nodeStr(s)
			}
			k := funcKey(callee(info, uc))
			if k != "cty.Value.Unmark" && k != "cty.Value.UnmarkDeep" {
				return true, false, "prologue helper rebinding is not Unmark/UnmarkDeep: " + nodeStr(s)
			}
			src := objOf(info, uc.Fun.(*ast.SelectorExpr).X)
			j := -1
			for x, p := range hOps {
				if p == src {
					j = x
				}
			}
			if j < 0 {
				return true, false, "prologue helper unmarks something that is not one of its operands"
			}
			depth := tested[m.Operands[j]]
			if depth == "cty.Value.ContainsMarked" && k != "cty.Value.UnmarkDeep" {
				return true, false, fmt.Sprintf("operand %s is tested with ContainsMarked but only shallowly unmarked", m.Operands[j].Name())
			}
			if k == "cty.Value.UnmarkDeep" && depth != "cty.Value.ContainsMarked" {
				return true, false, fmt.Sprintf("operand %s is deep-unmarked but only tested with IsMarked", m.Operands[j].Name())
			}
			l0, _ := s.Lhs[0].(*ast.Ident)
			l1, _ := s.Lhs[1].(*ast.Ident)
			if l0 == nil || l1 == nil || l1.Name == "_" {
				return true, false, fmt.Sprintf("marks of operand %s are discarded in the prologue helper", m.Operands[j].Name())
			}
			lo := info.Defs[l0]
			if lo == nil {
				lo = info.Uses[l0]
			}
			mo := info.Defs[l1]
			if mo == nil {
				mo = info.Uses[l1]
			}
			unmarked[src] = lo
			markVar[src] = mo
		case *ast.ReturnStmt:
			hret = s
		default:
			return true, false, "unexpected statement in prologue helper: " + nodeStr(s)
		}
	}
	if hret == nil || len(hret.Results) != 1 {
		return true, false, "prologue helper does not return"
	}
	for j, p := range hOps {
		if unmarked[p] == nil {
			return true, false, fmt.Sprintf("operand %s is not unmarked in the prologue", m.Operands[j].Name())
		}
	}
	wm, isWM := ast.Unparen(hret.Results[0]).(*ast.CallExpr)
	if !isWM || funcKey(callee(info, wm)) != "cty.Value.WithMarks" || wm.Ellipsis.IsValid() {
		return true, false, "prologue result is not wrapped in WithMarks(...)"
	}
	got := map[types.Object]bool{}
	for _, a := range wm.Args {
		if o := objOf(info, a); o != nil {
			got[o] = true
		}
	}
	for j, p := range hOps {
		if !got[markVar[p]] {
			return true, false, fmt.Sprintf("marks of operand %s are not re-applied by WithMarks", m.Operands[j].Name())
		}
	}
	inner, isInner := ast.Unparen(wm.Fun.(*ast.SelectorExpr).X).(*ast.CallExpr)
	if !isInner || objOf(info, inner.Fun) != opParam {
		return true, false, "WithMarks is not applied to a re-invocation of the method"
	}
	if len(inner.Args) != len(hOps) {
		return true, false, "argument count mismatch in re-invocation"
	}
	for j, a := range inner.Args {
		if o := objOf(info, a); o == nil || o != unmarked[hOps[j]] {
			return true, false, fmt.Sprintf("re-invocation passes %s instead of the unmarked %s", exprStr(a), m.Operands[j].Name())
		}
	}
	return true, true, ""
}

func paramIdent(fd *ast.FuncDecl, idx int) *ast.Ident {
	i := 0
	for _, f := range fd.Type.Params.List {
		for _, n := range f.Names {
			if i == idx {
				return n
			}
			i++
		}
	}
	return nil
}

func nodeStr(n ast.Node) string {
	switch x := n.(type) {
	case ast.Expr:
		return exprStr(x)
	case *ast.AssignStmt:
		var l, r []string
		for _, e := range x.Lhs {
			l = append(l, exprStr(e))
		}
		for _, e := range x.Rhs {
			r = append(r, exprStr(e))
		}
		return strings.Join(l, ", ") + " " + x.Tok.String() + " " + strings.Join(r, ", ")
	case *ast.ExprStmt:
		return exprStr(x.X)
	case *ast.ReturnStmt:
		var r []string
		for _, e := range x.Results {
			r = append(r, exprStr(e))
		}
		return "return " + strings.Join(r, ", ")
	}
	return fmt.Sprintf("%T", n)
}

// isPureDelegation: the body is a single return whose expression is composed only
// of operation-method calls whose receivers/arguments are operands or such calls.
func isPureDelegation(info *types.Info, m *opMethod, names map[string]bool) (bool, string) {
	if len(m.Decl.Body.List) != 1 {
		return false, "body is not a single return"
	}
	ret, ok := m.Decl.Body.List[0].(*ast.ReturnStmt)
	if !ok || len(ret.Results) != 1 {
		return false, "body is not a single return"
	}
	ops := map[types.Object]bool{}
	for _, o := range m.Operands {
		ops[o] = true
	}
	used := map[types.Object]bool{}
	var check func(e ast.Expr) string
	check = func(e ast.Expr) string {
		e = ast.Unparen(e)
		if o := objOf(info, e); o != nil {
			if ops[o] {
				used[o] = true
				return ""
			}
			return "uses " + o.Name() + " which is not an operand"
		}
		call, ok := e.(*ast.CallExpr)
		if !ok {
			return "non-call expression " + exprStr(e)
		}
		f := callee(info, call)
		se, _ := ast.Unparen(call.Fun).(*ast.SelectorExpr)
		if f == nil || se == nil || !strings.HasPrefix(funcKey(f), "cty.Value.") || !names[f.Name()] {
			return "calls " + exprStr(call.Fun) + " which is not an operation method"
		}
		if w := check(se.X); w != "" {
			return w
		}
		for _, a := range call.Args {
			if isCtyValue(info.TypeOf(a)) {
				if w := check(a); w != "" {
					return w
				}
			}
		}
		return ""
	}
	if w := check(ret.Results[0]); w != "" {
		return false, w
	}
	for _, o := range m.Operands {
		if !used[o] {
			return false, "operand " + o.Name() + " does not take part in the delegation"
		}
	}
	return true, ""
}

// ---------------------------------------------------------------------------
// C01.unknown-before-payload

// concrete payload types asserted on Value.v
func payloadAssertKind(info *types.Info, ta *ast.TypeAssertExpr) string {
	if ta.Type == nil {
		return ""
	}
	t := info.TypeOf(ta.Type)
	switch ts := t.String(); {
	case ts == "bool", ts == "string", ts == "*math/big.Float", ts == "[]interface{}", ts == "[]any", ts == "map[string]interface{}", ts == "map[string]any":
		return ts
	case strings.HasPrefix(ts, modPath+"/cty/set.Set["):
		return "set.Set"
	}
	return ""
}

// isValuePayload reports whether e is <value>.v and returns the value expression.
func isValuePayload(info *types.Info, e ast.Expr) (ast.Expr, bool) {
	se, ok := ast.Unparen(e).(*ast.SelectorExpr)
	if !ok || se.Sel.Name != "v" {
		return nil, false
	}
	if sel, ok := info.Selections[se]; !ok || sel.Kind() != types.FieldVal || !isCtyValue(info.TypeOf(se.X)) {
		return nil, false
	}
	return se.X, true
}

func runUnknownBeforePayload(rr *RuleRun) {
	c := rr.Ctx
	info := c.Info("cty")
	for _, m := range opMethods(c) {
		f := c.CFG(m.Decl.Body, info)
		spec := valueFacts(info, m.Decl)
		ops := map[string]*types.Var{}
		var extra []Fact
		var focus []string
		for _, o := range m.Operands {
			ops[objKey(o)] = o
			extra = append(extra, Fact{"known", objKey(o)})
			focus = append(focus, objKey(o))
		}
		res := f.Worlds(spec, extra, nil, focus)
		prologueOK, _ := isMarkPrologue(c, info, m)
		inspectNoLit(m.Decl.Body, func(n ast.Node) bool {
			ta, ok := n.(*ast.TypeAssertExpr)
			if !ok {
				return true
			}
			k := payloadAssertKind(info, ta)
			if k == "" {
				return true
			}
			vx, ok := isValuePayload(info, ta.X)
			if !ok {
				return true
			}
			s := subjKey(info, vx)
			op, isOperand := ops[s]
			if !isOperand {
				return true // derived values (rat := val.Divide(other)) are handled by never-null / known-in-known-out
			}
			key := fmt.Sprintf("cty.Value.%s/%s.v.(%s)", m.Name, op.Name(), k)
			known, reach := res.Established(ta, Fact{"known", s})
			if !reach {
				rr.Assumed(key, ta.Pos(), "unreachable")
				return true
			}
			// comma-ok assertions cannot panic
			if as, ok := c.Parent(ta).(*ast.AssignStmt); ok && len(as.Lhs) == 2 && len(as.Rhs) == 1 {
				rr.OKTrivial(key, ta.Pos(), "comma-ok assertion")
				return true
			}
			if !known {
				rr.Violation(key, ta.Pos(), fmt.Sprintf("payload of operand %s is asserted to %s on a path where no guard established that it is known (states reaching here: %s); an unknown operand panics here instead of yielding an unknown result", op.Name(), k, res.Describe(ta, s)))
				return true
			}
			if !prologueOK {
				rr.Violation(key, ta.Pos(), "payload access in a method without a complete mark prologue")
				return true
			}
			rr.OK(key, ta.Pos(), "dominated by known("+op.Name()+")")
			return true
		})
	}
}

// ---------------------------------------------------------------------------
// C01.typed-shortcircuit / C02.result-kind

// opResultKind: documented result kind per operation method; "" = element-typed.
// Derived, not tabled: from the constructors on the method's known path; the table
// below is only the cross-check that the derivation is stable (stale ⇒ broken).
var opResultKindDoc = map[string]string{
	"Equals": "Bool", "NotEqual": "Bool", "Add": "Number", "Subtract": "Number", "Negate": "Number",
	"Multiply": "Number", "Divide": "Number", "Modulo": "Number", "Absolute": "Number",
	"HasIndex": "Bool", "HasElement": "Bool", "Length": "Number", "Not": "Bool", "And": "Bool", "Or": "Bool",
	"LessThan": "Bool", "GreaterThan": "Bool", "LessThanOrEqualTo": "Bool", "GreaterThanOrEqualTo": "Bool",
	"GetAttr": "", "Index": "",
}

// exprKind computes the static kind of a Value-typed expression when it is evident
// from its construction. "?" = not evident.
func exprKind(info *types.Info, root ast.Node, e ast.Expr, depth int) string {
	e = ast.Unparen(e)
	if depth > 6 {
		return "?"
	}
	switch {
	case isPkgVar(info, e, "cty", "True", "False"):
		return "Bool"
	case isPkgVar(info, e, "cty", "Zero", "PositiveInfinity", "NegativeInfinity"):
		return "Number"
	case isPkgVar(info, e, "cty", "DynamicVal"):
		return "Dynamic"
	}
	if st, ok := e.(*ast.StarExpr); ok {
		return exprKind(info, root, st.X, depth+1)
	}
	if id, ok := e.(*ast.Ident); ok {
		obj := objOf(info, id)
		if obj == nil {
			return "?"
		}
		// local with a single definition and only kind-preserving reassignments
		st, idx, rhs := findDefine(info, root, obj)
		if st == nil {
			return "?"
		}
		if len(rhs) == 1 && idx == 0 {
			k := exprKind(info, root, rhs[0], depth+1)
			// every later assignment must have the same kind
			ok := true
			ast.Inspect(root, func(n ast.Node) bool {
				as, isAs := n.(*ast.AssignStmt)
				if !isAs || as.Tok == token.DEFINE {
					return true
				}
				for i, l := range as.Lhs {
					if objOf(info, l) == obj && i < len(as.Rhs) && len(as.Lhs) == len(as.Rhs) {
						if exprKind(info, root, as.Rhs[i], depth+1) != k {
							ok = false
						}
					}
				}
				return true
			})
			if ok {
				return k
			}
		}
		return "?"
	}
	if fl, ok := e.(*ast.FuncLit); ok {
		// kind of a nullary closure's result
		k := ""
		ast.Inspect(fl.Body, func(n ast.Node) bool {
			if r, ok := n.(*ast.ReturnStmt); ok && len(r.Results) == 1 {
				rk := exprKind(info, fl, r.Results[0], depth+1)
				if k == "" {
					k = rk
				} else if k != rk {
					k = "?"
				}
			}
			return true
		})
		if k == "" {
			return "?"
		}
		return k
	}
	call, ok := e.(*ast.CallExpr)
	if !ok {
		return "?"
	}
	f := callee(info, call)
	if f == nil {
		// call of a local closure variable: unknownResult()
		if id, ok := ast.Unparen(call.Fun).(*ast.Ident); ok {
			if obj := objOf(info, id); obj != nil {
				if st, idx, rhs := findDefine(info, root, obj); st != nil && idx == 0 && len(rhs) == 1 {
					return exprKind(info, root, rhs[0], depth+1)
				}
			}
		}
		return "?"
	}
	switch k := funcKey(f); k {
	case "cty.BoolVal":
		return "Bool"
	case "cty.NumberVal", "cty.NumberIntVal", "cty.NumberUIntVal", "cty.NumberFloatVal", "cty.MustParseNumberVal":
		return "Number"
	case "cty.StringVal":
		return "String"
	case "cty.UnknownVal", "cty.NullVal":
		if len(call.Args) == 1 {
			if tk := kindOfTypeExpr(info, call.Args[0]); tk != "" {
				return tk
			}
		}
		return "?"
	case "cty.forceShortCircuitType":
		if len(call.Args) == 2 {
			if tk := kindOfTypeExpr(info, call.Args[1]); tk != "" {
				return tk
			}
		}
		return "?"
	case "cty.mustTypeCheck":
		// the declared short-circuit kind; the DynamicVal alternative is the business of
		// checkShortCircuitForced (forceShortCircuitType must precede every return)
		if len(call.Args) >= 2 {
			if tk := kindOfTypeExpr(info, call.Args[1]); tk != "" {
				return tk
			}
		}
		return "?"
	case "cty.Value.WithMarks", "cty.Value.RefineNotNull", "cty.Value.RefineWith", "cty.Value.Refine", "cty.Value.Mark", "cty.Value.WithSameMarks":
		return exprKind(info, root, call.Fun.(*ast.SelectorExpr).X, depth+1)
	case "cty.RefinementBuilder.NewValue":
		return exprKind(info, root, call.Fun.(*ast.SelectorExpr).X, depth+1)
	default:
		if strings.HasPrefix(k, "cty.RefinementBuilder.") {
			return exprKind(info, root, call.Fun.(*ast.SelectorExpr).X, depth+1)
		}
		if strings.HasPrefix(k, "cty.Value.") {
			if rk, ok := opResultKindDoc[f.Name()]; ok && rk != "" {
				return rk
			}
		}
	}
	return "?"
}

func runTypedShortCircuit(rr *RuleRun) {
	c := rr.Ctx
	info := c.Info("cty")
	ms := opMethods(c)
	seen := map[string]bool{}
	for _, m := range ms {
		seen[m.Name] = true
		want, tabled := opResultKindDoc[m.Name]
		if m.Control {
			want, tabled = opResultKindDoc[strings.TrimPrefix(m.Name, "Verifctl")]
		}
		if !tabled {
			rr.Broken("operation method " + m.Name + " has no documented result kind in the checker's table (new method? add it with its documented kind)")
			continue
		}
		f := c.CFG(m.Decl.Body, info)
		for _, ret := range f.Returns() {
			if len(ret.Results) != 1 {
				continue
			}
			e := ret.Results[0]
			key := fmt.Sprintf("cty.Value.%s/return %s", m.Name, trunc(exprStr(e), 60))
			if want == "" {
				// element-typed: the unknown path must use the same type expression as the known path of the same case
				checkElementTypedReturn(rr, info, m, ret, key)
				continue
			}
			k := exprKind(info, m.Decl, e, 0)
			switch {
			case k == want:
				rr.OK(key, ret.Pos(), "result kind "+k)
			case k == "?":
				// operand returned as is (Modulo's `return val`) or capsule callback result: kind follows the operand check
				if o := objOf(info, e); o != nil && isOperandObj(m, o) {
					rr.OKTrivial(key, ret.Pos(), "returns operand "+o.Name()+" (kind established by mustTypeCheck)")
				} else {
					rr.Assumed(key, ret.Pos(), "kind of returned expression not evident from construction")
				}
			default:
				rr.Violation(key, ret.Pos(), fmt.Sprintf("returns a value of kind %s but the documented result kind of %s is %s", k, m.Name, want))
			}
		}
		// every mustTypeCheck result must pass forceShortCircuitType before reaching a return
		checkShortCircuitForced(rr, info, m, want)
	}
	for n := range opResultKindDoc {
		if !seen[n] {
			rr.Broken("stale table row: operation method " + n + " no longer exists")
		}
	}
}

func isOperandObj(m *opMethod, o types.Object) bool {
	for _, op := range m.Operands {
		if op == o {
			return true
		}
	}
	return false
}

func trunc(s string, n int) string {
	if len(s) > n {
		return s[:n] + "…"
	}
	return s
}

// checkShortCircuitForced: for `sc := mustTypeCheck(req, ret, …)`, (1) the declared
// ret kind equals the documented result kind; (2) inside the sc != nil branch, every
// return that mentions sc is positioned after `sc = forceShortCircuitType(sc, K)`
// with K the documented kind, in the same block.
func checkShortCircuitForced(rr *RuleRun, info *types.Info, m *opMethod, want string) {
	ast.Inspect(m.Decl.Body, func(n ast.Node) bool {
		ifs, ok := n.(*ast.IfStmt)
		if !ok || ifs.Init == nil {
			return true
		}
		as, ok := ifs.Init.(*ast.AssignStmt)
		if !ok || len(as.Rhs) != 1 || len(as.Lhs) != 1 {
			return true
		}
		call, ok := as.Rhs[0].(*ast.CallExpr)
		if !ok || !isCall(info, call, "cty.mustTypeCheck") {
			return true
		}
		sc := objOf(info, as.Lhs[0])
		key := fmt.Sprintf("cty.Value.%s/mustTypeCheck", m.Name)
		if len(call.Args) >= 2 {
			if rk := kindOfTypeExpr(info, call.Args[1]); rk != want {
				rr.Violation(key, call.Pos(), fmt.Sprintf("mustTypeCheck is asked for short-circuit kind %s but %s is documented to return %s", rk, m.Name, want))
				return true
			}
		}
		// all operands listed?
		listed := map[types.Object]bool{}
		for _, a := range call.Args[2:] {
			if o := objOf(info, a); o != nil {
				listed[o] = true
			}
		}
		for _, op := range m.Operands {
			if !listed[op] {
				rr.Violation(key, call.Pos(), fmt.Sprintf("operand %s is not passed to mustTypeCheck: its unknown-ness and type are never checked", op.Name()))
				return true
			}
		}
		// walk the statements of the non-nil branch in order
		forced := false
		okAll := true
		for _, st := range ifs.Body.List {
			if a2, ok := st.(*ast.AssignStmt); ok && len(a2.Lhs) == 1 && len(a2.Rhs) == 1 && objOf(info, a2.Lhs[0]) == sc {
				if c2, ok := a2.Rhs[0].(*ast.CallExpr); ok && isCall(info, c2, "cty.forceShortCircuitType") && len(c2.Args) == 2 && objOf(info, c2.Args[0]) == sc {
					if kindOfTypeExpr(info, c2.Args[1]) == want {
						forced = true
					} else {
						rr.Violation(key, c2.Pos(), "forceShortCircuitType forces kind "+kindOfTypeExpr(info, c2.Args[1])+", want "+want)
						okAll = false
					}
					continue
				}
				forced = false
			}
			// any return mentioning sc (directly or via a local derived from it) before forcing?
			ast.Inspect(st, func(x ast.Node) bool {
				r, ok := x.(*ast.ReturnStmt)
				if !ok {
					return true
				}
				if mentionsObjTransitive(info, ifs.Body, r, sc) && !forced {
					rr.Violation(key, r.Pos(), "short-circuit value returned without forceShortCircuitType: a DynamicVal operand yields a dynamic result where "+want+" is documented")
					okAll = false
				}
				return true
			})
		}
		if okAll {
			rr.OK(key, call.Pos(), "short-circuit forced to "+want+" before every return that uses it")
		}
		return true
	})
}

// mentionsObjTransitive: does the return mention obj, or a local defined (in scope) from an expression mentioning obj?
func mentionsObjTransitive(info *types.Info, scope ast.Node, r *ast.ReturnStmt, obj types.Object) bool {
	tainted := map[types.Object]bool{obj: true}
	changed := true
	for changed {
		changed = false
		ast.Inspect(scope, func(n ast.Node) bool {
			as, ok := n.(*ast.AssignStmt)
			if !ok {
				return true
			}
			for i, l := range as.Lhs {
				lo := objOf(info, l)
				if lo == nil || tainted[lo] {
					continue
				}
				var rhs ast.Expr
				if len(as.Rhs) == len(as.Lhs) {
					rhs = as.Rhs[i]
				} else if len(as.Rhs) == 1 {
					rhs = as.Rhs[0]
				}
				if rhs != nil && mentions(info, rhs, tainted) {
					tainted[lo] = true
					changed = true
				}
			}
			return true
		})
	}
	for _, e := range r.Results {
		if mentions(info, e, tainted) {
			return true
		}
	}
	return false
}

func mentions(info *types.Info, n ast.Node, objs map[types.Object]bool) bool {
	found := false
	ast.Inspect(n, func(x ast.Node) bool {
		if id, ok := x.(*ast.Ident); ok {
			if o := info.Uses[id]; o != nil && objs[o] {
				found = true
			}
		}
		return !found
	})
	return found
}

// checkElementTypedReturn handles Index/GetAttr: `return UnknownVal(T)` must use a type
// expression T that also types a known-path Value{ty: T} literal of the same method,
// or DynamicVal where the type cannot be known.
func checkElementTypedReturn(rr *RuleRun, info *types.Info, m *opMethod, ret *ast.ReturnStmt, key string) {
	e := ast.Unparen(ret.Results[0])
	if isPkgVar(info, e, "cty", "DynamicVal") {
		rr.OKTrivial(key, ret.Pos(), "DynamicVal (type not yet known)")
		return
	}
	if cl, ok := e.(*ast.CompositeLit); ok && isCtyValue(info.TypeOf(cl)) {
		rr.OKTrivial(key, ret.Pos(), "known-path literal")
		return
	}
	call, ok := e.(*ast.CallExpr)
	if ok && isCall(info, call, "cty.UnknownVal") && len(call.Args) == 1 {
		want := exprStr(call.Args[0])
		// collect ty: expressions of Value literals in the method
		found := false
		ast.Inspect(m.Decl.Body, func(n ast.Node) bool {
			cl, ok := n.(*ast.CompositeLit)
			if !ok || !isCtyValue(info.TypeOf(cl)) {
				return true
			}
			for _, el := range cl.Elts {
				if kv, ok := el.(*ast.KeyValueExpr); ok {
					if id, ok := kv.Key.(*ast.Ident); ok && id.Name == "ty" && exprStr(kv.Value) == want {
						// same expression text; must also be the same object when it is an identifier
						if objOf(info, kv.Value) == objOf(info, call.Args[0]) {
							found = true
						}
					}
				}
			}
			return true
		})
		if found {
			rr.OK(key, ret.Pos(), "unknown result typed by the same expression as the known-path result ("+want+")")
		} else {
			rr.Violation(key, ret.Pos(), "unknown result is typed "+want+", which is not the type expression of any known-path result of "+m.Name)
		}
		return
	}
	if ok {
		if f := callee(info, call); f != nil && funcKey(f) == "cty.Value.WithMarks" {
			rr.OKTrivial(key, ret.Pos(), "mark prologue")
			return
		}
	}
	rr.Assumed(key, ret.Pos(), "kind of returned expression not evident from construction")
}

// ---------------------------------------------------------------------------
// C01.never-null

// never-null family: arithmetic, comparison, logical, length, membership.
var neverNullFamily = map[string]bool{
	"Equals": true, "NotEqual": true, "Add": true, "Subtract": true, "Negate": true, "Multiply": true, "Divide": true,
	"Modulo": true, "Absolute": true, "HasIndex": true, "HasElement": true, "Length": true, "Not": true, "And": true, "Or": true,
	"LessThan": true, "GreaterThan": true, "LessThanOrEqualTo": true, "GreaterThanOrEqualTo": true,
}

// nonNullExpr: is e non-null by construction? Returns (yes, reason) or (no, why-not).
func nonNullExpr(info *types.Info, root ast.Node, e ast.Expr, facts factSet, depth int) (bool, string) {
	e = ast.Unparen(e)
	if depth > 6 {
		return false, "too deep"
	}
	if isPkgVar(info, e, "cty", "True", "False", "Zero", "PositiveInfinity", "NegativeInfinity") {
		return true, "singleton"
	}
	if st, ok := e.(*ast.StarExpr); ok {
		return nonNullExpr(info, root, st.X, facts, depth+1)
	}
	if id, ok := e.(*ast.Ident); ok {
		obj := objOf(info, id)
		if obj == nil {
			return false, "unresolved identifier"
		}
		if facts != nil && facts.has("notnull", objKey(obj)) {
			return true, "guarded by a not-null test"
		}
		st, idx, rhs := findDefine(info, root, obj)
		if st != nil && idx == 0 && len(rhs) == 1 {
			if _, isParamLike := st.(*ast.AssignStmt); isParamLike || true {
				// all assignments must be non-null
				ok, why := nonNullExpr(info, root, rhs[0], nil, depth+1)
				if !ok {
					return false, why
				}
				bad := ""
				ast.Inspect(root, func(n ast.Node) bool {
					as, isAs := n.(*ast.AssignStmt)
					if !isAs || as.Tok == token.DEFINE || len(as.Lhs) != len(as.Rhs) {
						return true
					}
					for i, l := range as.Lhs {
						if objOf(info, l) == obj {
							if ok, why := nonNullExpr(info, root, as.Rhs[i], nil, depth+1); !ok {
								bad = why
							}
						}
					}
					return true
				})
				if bad != "" {
					return false, bad
				}
				return true, "local built from non-null expressions"
			}
		}
		return false, fmt.Sprintf("%s is returned as is and may be null", obj.Name())
	}
	if cl, ok := e.(*ast.CompositeLit); ok && isCtyValue(info.TypeOf(cl)) {
		return false, "raw Value literal"
	}
	call, ok := e.(*ast.CallExpr)
	if !ok {
		return false, "not a call: " + exprStr(e)
	}
	f := callee(info, call)
	if f == nil {
		if id, ok := ast.Unparen(call.Fun).(*ast.Ident); ok {
			if obj := objOf(info, id); obj != nil {
				if st, idx, rhs := findDefine(info, root, obj); st != nil && idx == 0 && len(rhs) == 1 {
					if fl, ok := rhs[0].(*ast.FuncLit); ok {
						allOK := true
						why := ""
						ast.Inspect(fl.Body, func(n ast.Node) bool {
							if r, ok := n.(*ast.ReturnStmt); ok && len(r.Results) == 1 {
								if ok, w := nonNullExpr(info, fl, r.Results[0], nil, depth+1); !ok {
									allOK, why = false, w
								}
							}
							return true
						})
						if allOK {
							return true, "closure returning non-null"
						}
						return false, why
					}
				}
			}
		}
		// capsule callback etc.
		return false, "result of a dynamic call"
	}
	k := funcKey(f)
	switch k {
	case "cty.BoolVal", "cty.NumberVal", "cty.NumberIntVal", "cty.NumberUIntVal", "cty.NumberFloatVal", "cty.StringVal", "cty.MustParseNumberVal":
		return true, "constructor " + f.Name()
	case "cty.Value.RefineNotNull":
		return true, "RefineNotNull"
	case "cty.UnknownVal", "cty.mustTypeCheck", "cty.forceShortCircuitType":
		return false, "unknown result is not refined as non-null (RefineNotNull / Refine().NotNull() missing)"
	case "cty.NullVal":
		return false, "NullVal"
	case "cty.Value.WithMarks", "cty.Value.WithSameMarks":
		return nonNullExpr(info, root, call.Fun.(*ast.SelectorExpr).X, facts, depth+1)
	case "cty.RefinementBuilder.NewValue":
		// builder chain must contain NotNull()
		x := call.Fun.(*ast.SelectorExpr).X
		for {
			c2, ok := ast.Unparen(x).(*ast.CallExpr)
			if !ok {
				break
			}
			if isCall(info, c2, "cty.RefinementBuilder.NotNull") {
				return true, "Refine().NotNull()"
			}
			se, ok := ast.Unparen(c2.Fun).(*ast.SelectorExpr)
			if !ok {
				break
			}
			x = se.X
		}
		return false, "refinement chain without NotNull()"
	case "cty.Value.RefineWith":
		// RefineWith(f): f must be a closure/func whose builder chain contains NotNull()
		if len(call.Args) == 1 {
			if refinerHasNotNull(info, root, call.Args[0]) {
				return true, "RefineWith(…NotNull…)"
			}
		}
		return false, "RefineWith without NotNull()"
	}
	if strings.HasPrefix(k, "cty.Value.") && neverNullFamily[f.Name()] {
		return true, "result of never-null operation " + f.Name()
	}
	return false, "result of " + k + " is not known to be non-null"
}

// refinerHasNotNull: e is a func literal / a call of a package function returning a
// refiner / an identifier of such, whose body chains NotNull().
func refinerHasNotNull(info *types.Info, root ast.Node, e ast.Expr) bool {
	has := func(n ast.Node) bool {
		found := false
		ast.Inspect(n, func(x ast.Node) bool {
			if c, ok := x.(*ast.CallExpr); ok && isCall(info, c, "cty.RefinementBuilder.NotNull") {
				found = true
			}
			return !found
		})
		return found
	}
	switch x := ast.Unparen(e).(type) {
	case *ast.FuncLit:
		return has(x.Body)
	case *ast.CallExpr:
		if f := callee(info, x); f != nil {
			if fd := findFuncDecl(f); fd != nil {
				return has(fd.Body)
			}
		}
	}
	return false
}

// findFuncDecl is set up by the loader so rules can go from *types.Func to its declaration.
var findFuncDecl = func(f *types.Func) *ast.FuncDecl { return nil }

func runNeverNull(rr *RuleRun) {
	c := rr.Ctx
	info := c.Info("cty")
	installFindFuncDecl(c)
	var names []string
	ms := map[string]*opMethod{}
	for _, m := range opMethods(c) {
		if neverNullFamily[m.Name] || m.Control {
			names = append(names, m.Name)
			ms[m.Name] = m
		}
	}
	sort.Strings(names)
	for n := range neverNullFamily {
		if ms[n] == nil && !strings.HasPrefix(n, "Verifctl") {
			rr.Broken("stale table row: never-null method " + n + " no longer exists")
		}
	}
	for _, n := range names {
		m := ms[n]
		f := c.CFG(m.Decl.Body, info)
		res := f.MustFacts(valueFacts(info, m.Decl))
		for _, ret := range f.Returns() {
			if len(ret.Results) != 1 {
				continue
			}
			e := ret.Results[0]
			key := fmt.Sprintf("cty.Value.%s/return %s", m.Name, trunc(exprStr(e), 60))
			facts, _ := res.At(ret)
			ok, why := nonNullExpr(info, m.Decl, e, facts, 0)
			if ok {
				rr.OK(key, ret.Pos(), "non-null: "+why)
				continue
			}
			if strings.HasPrefix(why, "result of a dynamic call") || strings.Contains(why, "not known to be non-null") {
				rr.Assumed(key, ret.Pos(), why)
				continue
			}
			rr.Violation(key, ret.Pos(), fmt.Sprintf("%s may return null: %s", m.Name, why))
		}
	}
}

func installFindFuncDecl(c *Ctx) {
	index := map[*types.Func]*ast.FuncDecl{}
	for short, p := range c.Pkgs {
		for _, fd := range c.Decls(short) {
			if fn, ok := p.TypesInfo.Defs[fd.Name].(*types.Func); ok {
				index[fn] = fd
			}
		}
	}
	findFuncDecl = func(f *types.Func) *ast.FuncDecl { return index[f.Origin()] }
}
