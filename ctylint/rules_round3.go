package main

import (
	"fmt"
	"go/ast"
	"go/token"
	"go/types"
	"golang.org/x/tools/go/ssa"
	"sort"
	"strings"
)

func init() {
	register(&Rule{
		ID: "C07.name-is-not-identity", Prop: "C07", Also: []string{"C08", "C09", "C11", "C15", "C16", "C18", "C20"}, Floor: 30, Controls: 1,
		Doc: "the display name of a type (FriendlyName, FriendlyNameForConstraint, GoString — not injective: every object type is \"object\", every tuple type \"tuple\") is used only to build messages: it is never a map / cache key, a switch tag or an operand of == / != / < (type identity is decided by Equals alone)",
		Run: runNameIsNotIdentity,
	})
}

// ---------------------------------------------------------------------------
// C07.name-is-not-identity

var typeNameFuncs = map[string]bool{
	"cty.Type.FriendlyName": true, "cty.Type.FriendlyNameForConstraint": true, "cty.Type.friendlyNameMode": true,
	"cty.Type.GoString": true, "cty.typeImpl.FriendlyName": true, "cty.typeImpl.GoString": true,
	// the printed name of a Go type is not injective either: two function-local struct types of the same name, or
	// two packages' types of the same name, print alike
	"reflect.Type.String": true, "reflect.Type.Name": true,
}

// keyUse classifies the syntactic position of expression e (already known to carry a type's display
// name): "" when it is not an identity-deciding position.
func keyUse(c *Ctx, info *types.Info, e ast.Expr) string {
	var child ast.Node = e
	for {
		p := c.Parent(child)
		switch x := p.(type) {
		case *ast.ParenExpr:
			child = x
			continue
		case *ast.BinaryExpr:
			switch x.Op {
			case token.EQL, token.NEQ, token.LSS, token.GTR, token.LEQ, token.GEQ:
				return "operand of " + x.Op.String()
			case token.ADD:
				// a longer string built from the name is still not injective
				child = x
				continue
			}
			return ""
		case *ast.IndexExpr:
			if x.Index == child {
				if _, ok := info.TypeOf(x.X).Underlying().(*types.Map); ok {
					return "key of a " + info.TypeOf(x.X).String()
				}
			}
			return ""
		case *ast.SwitchStmt:
			if x.Tag == child {
				return "switch tag"
			}
			return ""
		case *ast.CaseClause:
			return "case label"
		case *ast.KeyValueExpr:
			if x.Key == child {
				if cl, ok := c.Parent(x).(*ast.CompositeLit); ok {
					if _, ok := info.TypeOf(cl).Underlying().(*types.Map); ok {
						return "key in a map literal"
					}
				}
			}
			return ""
		case *ast.CallExpr:
			// the key argument of sync.Map methods, strings.Compare / EqualFold, delete(m, k)
			if len(x.Args) > 0 && x.Args[0] == child {
				switch funcKey(callee(info, x)) {
				case "sync.Map.Load", "sync.Map.Store", "sync.Map.LoadOrStore", "sync.Map.LoadAndDelete", "sync.Map.Delete", "sync.Map.Swap", "sync.Map.CompareAndSwap",
					"strings.Compare", "strings.EqualFold":
					return "key argument of " + funcKey(callee(info, x))
				}
			}
			if len(x.Args) > 1 && x.Args[1] == child {
				if isBuiltin(info, x, "delete") {
					return "key argument of delete"
				}
				switch funcKey(callee(info, x)) {
				case "strings.Compare", "strings.EqualFold":
					return "operand of " + funcKey(callee(info, x))
				}
			}
			return ""
		}
		return ""
	}
}

func runNameIsNotIdentity(rr *RuleRun) {
	c := rr.Ctx
	eachFuncBody(c, allPkgs, func(pkg string, fd *ast.FuncDecl, body *ast.BlockStmt) {
		info := c.Info(pkg)
		// variables that hold nothing but a display name (every assignment to them is a name call or a
		// concatenation containing one)
		nameVars := map[types.Object]ast.Expr{}
		isNameExpr := func(e ast.Expr) bool {
			found := false
			var walk func(e ast.Expr)
			walk = func(e ast.Expr) {
				switch x := ast.Unparen(e).(type) {
				case *ast.CallExpr:
					if typeNameFuncs[funcKey(callee(info, x))] {
						found = true
					}
				case *ast.BinaryExpr:
					if x.Op == token.ADD {
						walk(x.X)
						walk(x.Y)
					}
				}
			}
			walk(e)
			return found
		}
		inspectNoLit(body, func(n ast.Node) bool {
			switch x := n.(type) {
			case *ast.AssignStmt:
				if len(x.Lhs) == len(x.Rhs) {
					for i, r := range x.Rhs {
						if o := objOf(info, x.Lhs[i]); o != nil && isNameExpr(r) {
							if _, isVar := o.(*types.Var); isVar {
								nameVars[o] = r
							}
						}
					}
				}
			case *ast.ValueSpec:
				if len(x.Names) == len(x.Values) {
					for i, r := range x.Values {
						if o := info.Defs[x.Names[i]]; o != nil && isNameExpr(r) {
							nameVars[o] = r
						}
					}
				}
			}
			return true
		})
		inspectNoLit(body, func(n ast.Node) bool {
			switch x := n.(type) {
			case *ast.CallExpr:
				k := funcKey(callee(info, x))
				if !typeNameFuncs[k] {
					return true
				}
				key := fmt.Sprintf("%s.%s/%s", pkg, declName(fd), trunc(exprStr(x), 50))
				if use := keyUse(c, info, x); use != "" {
					rr.Violation(key, x.Pos(), fmt.Sprintf("the display name of a type is used as %s: names are not injective (all object types are \"object\", all tuple types \"tuple\"), so two different types are treated as the same one", use))
				} else {
					rr.OKTrivial(key, x.Pos(), "the name is not in an identity-deciding position")
				}
			case *ast.Ident:
				o := info.Uses[x]
				src, ok := nameVars[o]
				if !ok {
					return true
				}
				if use := keyUse(c, info, x); use != "" {
					key := fmt.Sprintf("%s.%s/%s=%s", pkg, declName(fd), x.Name, trunc(exprStr(src), 40))
					rr.Violation(key, x.Pos(), fmt.Sprintf("%s holds the display name of a type (%s) and is used as %s: names are not injective (all object types are \"object\", all tuple types \"tuple\"), so two different types are treated as the same one", x.Name, strings.TrimSpace(exprStr(src)), use))
				}
			}
			return true
		})
	})
}

// ---------------------------------------------------------------------------
// C01.mirror-statements — intra-function mirror siblings

func init() {
	register(&Rule{
		ID: "C01.mirror-statements", Prop: "C01", Also: []string{"C02", "C05", "C08", "C16"}, Floor: 12, Controls: 1,
		Doc: "two statements of one statement list that have the same skeleton and whose leading bound identifiers are mirror names of each other (min*/max*, lower*/upper*) are full mirror images: every min↔max, Lower↔Upper, GreaterThan↔LessThan, Negative↔Positive name and every </> between non-constant operands is swapped consistently — the lower-bound and the upper-bound side of one computation cannot disagree in one comparison or one inclusiveness test",
		Run: runMirrorStatements,
	})
}

var mirrorWords = [][2]string{
	{"min", "max"}, {"Min", "Max"}, {"lower", "upper"}, {"Lower", "Upper"}, {"Greater", "Less"}, {"greater", "less"},
	{"Negative", "Positive"}, {"negative", "positive"}, {"Floor", "Ceil"}, {"floor", "ceil"},
}

// splitWords splits an identifier into camel-case words ("minInc" → min, Inc; "NumberLowerBound" → Number, Lower, Bound).
func splitWords(s string) []string {
	var out []string
	start := 0
	for i := 1; i < len(s); i++ {
		if s[i] >= 'A' && s[i] <= 'Z' && !(s[i-1] >= 'A' && s[i-1] <= 'Z') || s[i] == '_' {
			out = append(out, s[start:i])
			start = i
		}
	}
	return append(out, s[start:])
}

// mirrorName returns the mirror image of an identifier and which side it is on ("A" lower-ish, "B" upper-ish, "" neutral).
func mirrorName(s string) (string, string) {
	ws := splitWords(s)
	side := ""
	for i, w := range ws {
		for _, p := range mirrorWords {
			if w == p[0] {
				ws[i] = p[1]
				if side == "" {
					side = "A"
				}
			} else if w == p[1] {
				ws[i] = p[0]
				if side == "" {
					side = "B"
				}
			}
		}
	}
	return strings.Join(ws, ""), side
}

type mirStmt struct {
	skeleton string // flavoured identifiers → ID, mirrorable comparison operators → CMP
	plain    string // as written
	mirrored string // with the mirror map applied
	lead     string // first flavoured identifier
	leadSide string
}

func renderMirror(info *types.Info, s ast.Stmt) mirStmt {
	var sk, pl, mi strings.Builder
	var m mirStmt
	emit := func(a, b, c string) {
		sk.WriteString(a + " ")
		pl.WriteString(b + " ")
		mi.WriteString(c + " ")
	}
	isConstOperand := func(e ast.Expr) bool {
		tv, ok := info.Types[e]
		return ok && tv.Value != nil
	}
	var visit func(n ast.Node) bool
	visit = func(n ast.Node) bool {
		switch x := n.(type) {
		case nil:
			emit(")", ")", ")")
			return true
		case *ast.Ident:
			mn, side := mirrorName(x.Name)
			if side != "" {
				if m.lead == "" {
					m.lead, m.leadSide = x.Name, side
				}
				emit("ID", x.Name, mn)
			} else {
				emit(x.Name, x.Name, x.Name)
			}
			return false
		case *ast.BasicLit:
			emit(x.Value, x.Value, x.Value)
			return false
		case *ast.BinaryExpr:
			emit("(", "(", "(")
			ast.Inspect(x.X, visit)
			if mo, ok := opMirror[x.Op]; ok && !isConstOperand(x.X) && !isConstOperand(x.Y) {
				emit("CMP", x.Op.String(), mo.String())
			} else {
				emit(x.Op.String(), x.Op.String(), x.Op.String())
			}
			ast.Inspect(x.Y, visit)
			emit(")", ")", ")")
			return false
		case *ast.ParenExpr:
			ast.Inspect(x.X, visit)
			return false
		case *ast.UnaryExpr:
			emit("u"+x.Op.String(), "u"+x.Op.String(), "u"+x.Op.String())
		case *ast.AssignStmt:
			emit("assign"+x.Tok.String(), "assign"+x.Tok.String(), "assign"+x.Tok.String())
		case *ast.BranchStmt:
			emit("branch"+x.Tok.String(), "branch"+x.Tok.String(), "branch"+x.Tok.String())
		case *ast.CommentGroup, *ast.Comment:
			return false
		default:
			t := strings.TrimPrefix(fmt.Sprintf("%T", n), "*ast.")
			emit(t, t, t)
		}
		return true
	}
	ast.Inspect(s, visit)
	m.skeleton, m.plain, m.mirrored = sk.String(), pl.String(), mi.String()
	return m
}

func runMirrorStatements(rr *RuleRun) {
	c := rr.Ctx
	eachFuncBody(c, allPkgs, func(pkg string, fd *ast.FuncDecl, body *ast.BlockStmt) {
		info := c.Info(pkg)
		var lists [][]ast.Stmt
		inspectNoLit(body, func(n ast.Node) bool {
			switch x := n.(type) {
			case *ast.BlockStmt:
				lists = append(lists, x.List)
			case *ast.CaseClause:
				lists = append(lists, x.Body)
			case *ast.CommClause:
				lists = append(lists, x.Body)
			}
			return true
		})
		for _, list := range lists {
			ms := make([]mirStmt, len(list))
			for i, s := range list {
				ms[i] = renderMirror(info, s)
			}
			for i := range list {
				if ms[i].leadSide != "A" {
					continue
				}
				wantLead, _ := mirrorName(ms[i].lead)
				var cands []int
				for j := range list {
					if j != i && ms[j].leadSide == "B" && ms[j].lead == wantLead && ms[j].skeleton == ms[i].skeleton {
						cands = append(cands, j)
					}
				}
				if len(cands) == 0 {
					continue
				}
				key := fmt.Sprintf("%s.%s/%s~%s", pkg, declName(fd), ms[i].lead, wantLead)
				ok := false
				for _, j := range cands {
					if ms[j].plain == ms[i].mirrored {
						ok = true
					}
				}
				if ok {
					rr.OK(key, list[i].Pos(), "the statement led by "+wantLead+" is the exact mirror image")
					continue
				}
				j := cands[0]
				// first differing token, for the message
				ta, tb := strings.Fields(ms[i].mirrored), strings.Fields(ms[j].plain)
				k := 0
				for k < len(ta) && k < len(tb) && ta[k] == tb[k] {
					k++
				}
				da, db := "<end>", "<end>"
				if k < len(ta) {
					da = ta[k]
				}
				if k < len(tb) {
					db = tb[k]
				}
				rr.Violation(key, list[j].Pos(), fmt.Sprintf("the statement at %s (led by %s) and this one (led by %s) have the same shape but are not mirror images: the mirror of the first has %q where this one has %q — the lower and the upper side of the computation disagree", c.PosStr(list[i].Pos()), ms[i].lead, wantLead, da, db))
			}
		}
	})
}

// ---------------------------------------------------------------------------
// C09.nil-type-checked — the type returned by a unification may be NilType

func init() {
	register(&Rule{
		ID: "C09.nil-type-checked", Prop: "C09", Also: []string{"C06", "C08", "C11"}, Floor: 15, Controls: 1,
		Doc: "the type result of a unification (unify and its helpers, Unify, UnifyUnsafe — NilType when there is no common type) is compared with cty.NilType before anything else is done with it: it is returned as the caller's own unification result, or tested with an exit, or handed to a function that tests the parameter itself before using it; an untested NilType becomes part of a result type or panics in a type accessor",
		Run: runNilTypeChecked,
	})
}

func isUnifyFamily(f *types.Func) bool {
	if f == nil || shortPkg(f.Pkg()) != "cty/convert" {
		return false
	}
	sig := f.Type().(*types.Signature)
	if sig.Results().Len() != 2 || !isCtyType(sig.Results().At(0).Type()) {
		return false
	}
	sl, ok := sig.Results().At(1).Type().Underlying().(*types.Slice)
	return ok && isConversionNamed(sl.Elem())
}

// nilTypeSubj: subject key of an expression that can hold a unification result.
func nilTypeSubj(info *types.Info, e ast.Expr) string {
	switch x := ast.Unparen(e).(type) {
	case *ast.Ident:
		if o := objOf(info, x); o != nil {
			if _, ok := o.(*types.Var); ok {
				return objKey(o)
			}
		}
	case *ast.IndexExpr:
		if o := objOf(info, x.X); o != nil {
			return objKey(o) + "[" + exprStr(x.Index) + "]"
		}
	}
	return ""
}

func nilTypeSpec(info *types.Info) *FactSpec {
	return &FactSpec{Atom: func(cond ast.Expr, truth bool) []Fact {
		if call, ok := ast.Unparen(cond).(*ast.CallExpr); ok && truth {
			// t.IsListType() etc. is false for NilType (and does not panic on it)
			if se, ok := call.Fun.(*ast.SelectorExpr); ok && kindPredicate(funcKey(callee(info, call))) != "" {
				if s := nilTypeSubj(info, se.X); s != "" {
					return []Fact{{"nonnil", s}}
				}
			}
			return nil
		}
		be, ok := ast.Unparen(cond).(*ast.BinaryExpr)
		if !ok || be.Op != token.EQL || truth {
			return nil
		}
		if isPkgVar(info, be.Y, "cty", "NilType") {
			if s := nilTypeSubj(info, be.X); s != "" {
				return []Fact{{"nonnil", s}}
			}
		}
		if isPkgVar(info, be.X, "cty", "NilType") {
			if s := nilTypeSubj(info, be.Y); s != "" {
				return []Fact{{"nonnil", s}}
			}
		}
		return nil
	}}
}

// nilTypeUse classifies a read of a possibly-NilType expression: "test" (a comparison with cty.NilType or a
// kind predicate — both decide whether the unification succeeded), "benign" (another == / != comparison,
// harmless on NilType) or "" (a real use).
func nilTypeUse(c *Ctx, info *types.Info, e ast.Expr) string {
	p := c.Parent(e)
	for {
		if pe, ok := p.(*ast.ParenExpr); ok {
			p = c.Parent(pe)
			continue
		}
		break
	}
	switch x := p.(type) {
	case *ast.BinaryExpr:
		if x.Op != token.EQL && x.Op != token.NEQ {
			return ""
		}
		if isPkgVar(info, x.X, "cty", "NilType") || isPkgVar(info, x.Y, "cty", "NilType") {
			return "test"
		}
		return "benign"
	case *ast.SelectorExpr:
		if call, ok := c.Parent(x).(*ast.CallExpr); ok && call.Fun == ast.Expr(x) && x.X == e && kindPredicate(funcKey(callee(info, call))) != "" {
			return "test"
		}
	}
	return ""
}

func isNilTypeComparison(c *Ctx, info *types.Info, e ast.Expr) bool {
	return nilTypeUse(c, info, e) == "test"
}

// paramGuardsNilType: every use of parameter #idx in fd's body (other than comparisons with NilType)
// happens after the parameter was compared with NilType with an exit.
func paramGuardsNilType(c *Ctx, pkg string, fd *ast.FuncDecl, idx int) bool {
	info := c.Info(pkg)
	id := paramIdent(fd, idx)
	if id == nil || fd.Body == nil {
		return false
	}
	obj := info.Defs[id]
	g := c.CFG(fd.Body, info)
	facts := g.MustFacts(nilTypeSpec(info))
	ok, tested := true, false
	inspectNoLit(fd.Body, func(n ast.Node) bool {
		x, isId := n.(*ast.Ident)
		if !isId || info.Uses[x] != obj {
			return true
		}
		switch nilTypeUse(c, info, x) {
		case "test":
			tested = true
			return true
		case "benign":
			return true
		}
		fs, located := facts.At(x)
		if located && !fs.has("nonnil", objKey(obj)) {
			ok = false
		}
		return true
	})
	return ok && tested
}

func runNilTypeChecked(rr *RuleRun) {
	c := rr.Ctx
	eachFuncBody(c, []string{"cty/convert", "cty/function/stdlib", "cty", "cty/json", "cty/msgpack", "cty/gocty"}, func(pkg string, fd *ast.FuncDecl, body *ast.BlockStmt) {
		info := c.Info(pkg)
		type site struct {
			as   *ast.AssignStmt
			lhs  ast.Expr
			subj string
			call *ast.CallExpr
		}
		var sites []site
		inspectNoLit(body, func(n ast.Node) bool {
			as, ok := n.(*ast.AssignStmt)
			if !ok || len(as.Lhs) != 2 || len(as.Rhs) != 1 {
				return true
			}
			call, ok := ast.Unparen(as.Rhs[0]).(*ast.CallExpr)
			if !ok || !isUnifyFamily(callee(info, call)) {
				return true
			}
			if id, ok := as.Lhs[0].(*ast.Ident); ok && id.Name == "_" {
				return true
			}
			sites = append(sites, site{as, as.Lhs[0], nilTypeSubj(info, as.Lhs[0]), call})
			return true
		})
		if len(sites) == 0 {
			return
		}
		g := c.CFG(body, info)
		// must-fact "nonnil(subj)": subj does not hold an untested unification result. It holds on entry, is
		// killed by the assignment from the unification call, and is re-established by a NilType test that
		// exits or by any other assignment to the subject.
		spec := nilTypeSpec(info)
		siteOf := map[*ast.AssignStmt]bool{}
		for _, s := range sites {
			siteOf[s.as] = true
			if s.subj != "" {
				spec.Entry = append(spec.Entry, Fact{"nonnil", s.subj})
			}
		}
		spec.Effects = func(n ast.Node) []Effect {
			var out []Effect
			switch x := n.(type) {
			case *ast.AssignStmt:
				if siteOf[x] {
					return nil
				}
				for _, l := range x.Lhs {
					if k := nilTypeSubj(info, l); k != "" {
						out = append(out, Effect{Assert: &Fact{"nonnil", k}})
					}
				}
			case *ast.ValueSpec:
				for _, id := range x.Names {
					if o := info.Defs[id]; o != nil {
						out = append(out, Effect{Assert: &Fact{"nonnil", objKey(o)}})
					}
				}
			}
			return out
		}
		facts := g.MustFacts(spec)
		selfIsUnify := false
		if fn, ok := info.Defs[fd.Name].(*types.Func); ok {
			selfIsUnify = isUnifyFamily(fn)
		}
		for _, s := range sites {
			key := fmt.Sprintf("%s.%s/%s←%s", pkg, declName(fd), exprStr(s.lhs), exprStr(s.call.Fun))
			if s.subj == "" {
				rr.Assumed(key, s.as.Pos(), "the result is stored in a place the analysis does not track")
				continue
			}
			tested, bad := false, ""
			var badPos token.Pos
			inspectNoLit(body, func(n ast.Node) bool {
				e, ok := n.(ast.Expr)
				if !ok || bad != "" {
					return true
				}
				if _, isIdx := e.(*ast.IndexExpr); !isIdx {
					if _, isId := e.(*ast.Ident); !isId {
						return true
					}
				}
				if nilTypeSubj(info, e) != s.subj {
					return true
				}
				// an identifier that is the root of the tracked index expression is visited separately
				if id, isId := e.(*ast.Ident); isId && info.Defs[id] != nil {
					return true
				}
				switch nilTypeUse(c, info, e) {
				case "test":
					tested = true
					return false
				case "benign":
					return false
				}
				// assignment target: not a use
				if p, ok := c.Parent(e).(*ast.AssignStmt); ok {
					for _, l := range p.Lhs {
						if l == e {
							return false
						}
					}
				}
				fs, located := facts.At(e)
				if !located || fs.has("nonnil", s.subj) {
					return false
				}
				// untested use: acceptable forms
				switch p := c.Parent(e).(type) {
				case *ast.ReturnStmt:
					if selfIsUnify && len(p.Results) > 0 && p.Results[0] == e {
						return false // the failure is passed on as this function's own unification result
					}
				case *ast.CallExpr:
					for i, a := range p.Args {
						if a != e {
							continue
						}
						if f := callee(info, p); f != nil && f.Pkg() != nil {
							sp := shortPkg(f.Pkg())
							if d := c.Decl(sp, funcDeclKey(f)); d != nil && paramGuardsNilType(c, sp, d, i) {
								return false
							}
						}
					}
				}
				bad = fmt.Sprintf("%s is used at %s before it was compared with cty.NilType", exprStr(e), c.PosStr(e.Pos()))
				badPos = e.Pos()
				return false
			})
			switch {
			case bad != "":
				rr.Violation(key, badPos, bad+": a failed unification returns NilType, which then becomes part of a result type or panics in a type accessor")
			case tested:
				rr.OK(key, s.as.Pos(), "every use follows a comparison with cty.NilType that exits")
			default:
				rr.OKTrivial(key, s.as.Pos(), "every use is a pass-on to a result or to a parameter its callee tests")
			}
		}
	})
}

// funcDeclKey: the key under which Ctx.Decl files a function ("Recv.Name" or "Name").
func funcDeclKey(f *types.Func) string {
	k := funcKey(f)
	if i := strings.LastIndex(k, "/"); i >= 0 {
		k = k[i+1:]
	}
	// k is now "pkg.Name" or "pkg.Recv.Name"
	if i := strings.Index(k, "."); i >= 0 {
		return k[i+1:]
	}
	return k
}

// ---------------------------------------------------------------------------
// C18.fresh-target-per-element

func init() {
	register(&Rule{
		ID: "C18.fresh-target-per-element", Prop: "C18", Also: []string{"C20"}, Floor: 5, Controls: 1,
		Doc: "where gocty decodes the elements of a collection one by one (a loop or a ForEachElement callback that calls fromCtyValue), the reflect target of each element is obtained inside that iteration (tv.Index(i), target.Field(i), reflect.New(et)): a scratch target allocated once outside the iteration is shared by all elements, so pointers reached through it alias one another",
		Run: runFreshTargetPerElement,
	})
}

func runFreshTargetPerElement(rr *RuleRun) {
	c := rr.Ctx
	pkg := "cty/gocty"
	info := c.Info(pkg)
	for _, fd := range c.SortedDecls(pkg) {
		// iteration scopes: bodies of for / range statements and of function literals passed to ForEachElement
		var scopes []ast.Node
		ast.Inspect(fd.Body, func(n ast.Node) bool {
			switch x := n.(type) {
			case *ast.ForStmt:
				scopes = append(scopes, x.Body)
			case *ast.RangeStmt:
				scopes = append(scopes, x.Body)
			case *ast.CallExpr:
				if isCall(info, x, "cty.Value.ForEachElement") && len(x.Args) == 1 {
					if fl, ok := x.Args[0].(*ast.FuncLit); ok {
						scopes = append(scopes, fl.Body)
					}
				}
			}
			return true
		})
		for _, sc := range scopes {
			ast.Inspect(sc, func(n ast.Node) bool {
				call, ok := n.(*ast.CallExpr)
				if !ok || len(call.Args) < 2 {
					return true
				}
				f := callee(info, call)
				if f == nil || shortPkg(f.Pkg()) != pkg || !strings.HasPrefix(f.Name(), "fromCty") {
					return true
				}
				if namedType(info.TypeOf(call.Args[1])) != "reflect.Value" {
					return true
				}
				// innermost scope only
				for _, other := range scopes {
					if other != sc && other.Pos() >= sc.Pos() && other.End() <= sc.End() && call.Pos() >= other.Pos() && call.End() <= other.End() {
						return true
					}
				}
				key := fmt.Sprintf("%s.%s/%s(%s)", pkg, declName(fd), f.Name(), exprStr(call.Args[1]))
				switch t := ast.Unparen(call.Args[1]).(type) {
				case *ast.Ident:
					o := info.Uses[t]
					if o == nil {
						return true
					}
					if o.Pos() >= sc.Pos() && o.Pos() <= sc.End() {
						rr.OK(key, call.Pos(), "the target is obtained inside the iteration")
					} else {
						rr.Violation(key, call.Pos(), fmt.Sprintf("the reflect target %s is declared outside the per-element iteration (at %s) and reused for every element: whatever the decoder allocates behind it (a pointer, a nested pointer field) is shared by all elements, which then alias the last one decoded", t.Name, c.PosStr(o.Pos())))
					}
				default:
					rr.OKTrivial(key, call.Pos(), "the target is computed in place")
				}
				return true
			})
		}
	}
}

// ---------------------------------------------------------------------------
// C05.safe-delimiters-nfc-stable

func init() {
	register(&Rule{
		ID: "C05.safe-delimiters-nfc-stable", Prop: "C05", Also: []string{"C12", "C16"}, Floor: 20, Controls: 0,
		Doc: "every rune that sequenceMustEndGraphemeCluster accepts as a safe end of a prefix (the constants of its case list, read from the source) is one after which Unicode normalization guarantees a boundary: no following rune can compose with it under NFC (checked against golang.org/x/text/unicode/norm), so the prefix stays a byte prefix of the normalized form of every continuation",
		Run: runSafeDelimiters,
	})
}

func runSafeDelimiters(rr *RuleRun) {
	c := rr.Ctx
	pkg := "cty/ctystrings"
	info := c.Info(pkg)
	fd := rr.MustDecl(pkg, "sequenceMustEndGraphemeCluster")
	if fd == nil {
		return
	}
	n := 0
	ast.Inspect(fd.Body, func(x ast.Node) bool {
		cc, ok := x.(*ast.CaseClause)
		if !ok {
			return true
		}
		// only clauses that answer true
		yes := false
		for _, s := range cc.Body {
			if r, ok := s.(*ast.ReturnStmt); ok && len(r.Results) == 1 {
				if tv, ok := info.Types[r.Results[0]]; ok && tv.Value != nil && tv.Value.String() == "true" {
					yes = true
				}
			}
		}
		if !yes {
			return true
		}
		for _, e := range cc.List {
			tv, ok := info.Types[e]
			if !ok || tv.Value == nil {
				rr.Assumed(fmt.Sprintf("%s.sequenceMustEndGraphemeCluster/%s", pkg, exprStr(e)), e.Pos(), "case label is not a constant rune")
				continue
			}
			v, exact := constantInt64(tv.Value)
			if !exact {
				continue
			}
			n++
			r := rune(v)
			key := fmt.Sprintf("%s.sequenceMustEndGraphemeCluster/%q", pkg, r)
			if nfcBoundaryAfter(r) {
				rr.OK(key, e.Pos(), "NFC guarantees a boundary after this rune: nothing composes with it")
			} else {
				rr.Violation(key, e.Pos(), fmt.Sprintf("%q is accepted as a safe end of a known prefix, but Unicode normalization does not guarantee a boundary after it (a following combining mark composes with it under NFC, e.g. U+0338 turns = < > into ≠ ≮ ≯): the recorded prefix is then not a byte prefix of the normalized continuation", r))
			}
		}
		return true
	})
	if n == 0 {
		rr.Broken("stale anchor: sequenceMustEndGraphemeCluster has no case list of constant runes answering true")
	}
}

// ---------------------------------------------------------------------------
// C08.set-target-caps-length

func init() {
	register(&Rule{
		ID: "C08.set-target-caps-length", Prop: "C08", Floor: 3, Controls: 0,
		Doc: "prepareUnknownResult: a length lower bound that can exceed 1 (CollectionLengthLowerBound / CollectionLength with an argument that is not a constant <= 1) is given to the unknown result only where the branch conditions establish that the target is not a set — a set target may coalesce elements whatever the source kind, so only 'at least one element' survives the conversion",
		Run: runSetTargetCapsLength,
	})
	register(&Rule{
		ID: "C01.membership-wholly-known", Prop: "C01", Also: []string{"C02", "C03"}, Floor: 1, Controls: 0,
		Doc: "Value.HasElement answers a definite False after the bucket lookup failed only where the set and the element looked for are both wholly known (IsWhollyKnown on each decided true on every path to that return, or the returned variable was replaced by the unknown result otherwise), and the set branch of Value.Equals reports a definite difference only where both sets are wholly known: an unknown value at any depth of a member or of the probe may turn out to make them equal",
		Run: runMembershipWhollyKnown,
	})
	register(&Rule{
		ID: "C18.infinity-refusal-needs-inexact", Prop: "C18", Floor: 1, Controls: 0,
		Doc: "fromCtyNumberFloat refuses a number because its float64 image is infinite only on paths where the narrowing was inexact (accuracy != big.Exact decided true): an exact infinity is a genuine infinity and must be stored",
		Run: runInfinityNeedsInexact,
	})
}

func runSetTargetCapsLength(rr *RuleRun) {
	c := rr.Ctx
	pkg := "cty/convert"
	info := c.Info(pkg)
	fd := rr.MustDecl(pkg, "prepareUnknownResult")
	if fd == nil {
		return
	}
	// the target-type parameter
	var target types.Object
	for i := 0; ; i++ {
		id := paramIdent(fd, i)
		if id == nil {
			break
		}
		if isCtyType(info.TypeOf(id)) {
			target = info.Defs[id]
		}
	}
	if target == nil {
		rr.Broken("stale anchor: prepareUnknownResult has no cty.Type parameter")
		return
	}
	cf := c.CondFacts(fd.Body, info, nil)
	inspectNoLit(fd.Body, func(n ast.Node) bool {
		call, ok := n.(*ast.CallExpr)
		if !ok || !isCall(info, call, "cty.RefinementBuilder.CollectionLengthLowerBound", "cty.RefinementBuilder.CollectionLength") || len(call.Args) != 1 {
			return true
		}
		arg := call.Args[0]
		key := fmt.Sprintf("%s.prepareUnknownResult/%s(%s)", pkg, call.Fun.(*ast.SelectorExpr).Sel.Name, trunc(exprStr(arg), 40))
		if v, ok := constInt(info, arg); ok && v <= 1 {
			rr.OKTrivial(key, call.Pos(), "constant bound <= 1")
			return true
		}
		// the tag variable of an enclosing switch whose case lists only constants <= 1
		if id, ok := ast.Unparen(arg).(*ast.Ident); ok {
			small := false
			for p := c.Parent(call); p != nil && p != ast.Node(fd.Body); p = c.Parent(p) {
				cc, ok := p.(*ast.CaseClause)
				if !ok || len(cc.List) == 0 {
					continue
				}
				sw, _ := c.Parent(c.Parent(cc)).(*ast.SwitchStmt)
				if sw == nil {
					continue
				}
				tagObj := objOf(info, sw.Tag)
				if as, ok := sw.Init.(*ast.AssignStmt); ok && len(as.Lhs) == 1 && tagObj == nil {
					tagObj = objOf(info, as.Lhs[0])
				}
				if as, ok := sw.Init.(*ast.AssignStmt); ok && len(as.Lhs) == 1 && objOf(info, as.Lhs[0]) == info.Uses[id] {
					tagObj = info.Uses[id]
				}
				if tagObj == nil || tagObj != info.Uses[id] {
					continue
				}
				small = true
				for _, e := range cc.List {
					if v, ok := constInt(info, e); !ok || v > 1 {
						small = false
					}
				}
			}
			// … or an enclosing 'if l == 0 || l == 1' / 'if l <= 1' / 'if l < 2'
			if !small {
				var child ast.Node = call
				for p := c.Parent(call); p != nil && p != ast.Node(fd.Body) && !small; child, p = p, c.Parent(p) {
					is, ok := p.(*ast.IfStmt)
					if !ok || child != ast.Node(is.Body) {
						continue
					}
					var smallCond func(e ast.Expr) bool
					smallCond = func(e ast.Expr) bool {
						be, ok := ast.Unparen(e).(*ast.BinaryExpr)
						if !ok {
							return false
						}
						if be.Op == token.LOR {
							return smallCond(be.X) && smallCond(be.Y)
						}
						if objOf(info, be.X) != info.Uses[id] {
							return false
						}
						k, isConst := constInt(info, be.Y)
						if !isConst {
							return false
						}
						switch be.Op {
						case token.EQL:
							return k <= 1
						case token.LEQ:
							return k <= 1
						case token.LSS:
							return k <= 2
						}
						return false
					}
					if smallCond(is.Cond) {
						small = true
					}
				}
			}
			if small {
				rr.OK(key, call.Pos(), "the bound is established to be 0 or 1 by the enclosing case / condition")
				return true
			}
		}
		notSet := cf.HoldsAt(call, func(cond ast.Expr, truth bool) bool {
			if methodCond(info, cond, target, "IsSetType") {
				return !truth
			}
			return truth && methodCond(info, cond, target, "IsListType", "IsMapType", "IsTupleType", "IsObjectType", "IsPrimitiveType")
		})
		if notSet {
			rr.OK(key, call.Pos(), "the branch conditions establish that the target is not a set")
		} else {
			rr.Violation(key, call.Pos(), fmt.Sprintf("the length lower bound %s reaches the unknown result on a path where the target may be a set: converting to a set may coalesce elements (whatever the source kind), so the result can be shorter than this bound", exprStr(arg)))
		}
		return true
	})
}

func runMembershipWhollyKnown(rr *RuleRun) {
	runSetEqualsWhollyKnown(rr)
	c := rr.Ctx
	info := c.Info("cty")
	fd := rr.MustDecl("cty", "Value.HasElement")
	if fd == nil {
		return
	}
	recv := info.Defs[fd.Recv.List[0].Names[0]]
	var probe types.Object // the element looked for
	if id := paramIdent(fd, 0); id != nil {
		probe = info.Defs[id]
	}
	// the bucket lookup
	var lookup *ast.CallExpr
	inspectNoLit(fd.Body, func(n ast.Node) bool {
		if call, ok := n.(*ast.CallExpr); ok && lookup == nil {
			if f := callee(info, call); f != nil && shortPkg(f.Pkg()) == "cty/set" && f.Name() == "Has" {
				lookup = call
			}
		}
		return true
	})
	if lookup == nil {
		rr.Broken("stale anchor: Value.HasElement has no set lookup (set.Set.Has)")
		return
	}
	isFalse := func(e ast.Expr) bool { return isPkgVar(info, e, "cty", "False") }
	// extra facts: notfalse(v) after an assignment of something that is not the False singleton
	extra := func(n ast.Node) []Effect {
		as, ok := n.(*ast.AssignStmt)
		if !ok || len(as.Lhs) != len(as.Rhs) {
			return nil
		}
		var out []Effect
		for i, l := range as.Lhs {
			if o := objOf(info, l); o != nil && isCtyValue(o.Type()) && !isFalse(as.Rhs[i]) {
				if id, ok := ast.Unparen(as.Rhs[i]).(*ast.Ident); ok && objOf(info, id) != nil && isCtyValue(objOf(info, id).Type()) {
					// copy of another variable: only accept when that one is not itself a candidate
					if _, _, rhs := findDefine(info, fd.Body, objOf(info, id)); len(rhs) == 1 && isFalse(rhs[0]) {
						continue
					}
				}
				out = append(out, Effect{Assert: &Fact{"notfalse", objKey(o)}})
			}
		}
		return out
	}
	cf := c.CondFacts(fd.Body, info, extra)
	g := c.CFG(fd.Body, info)
	n := 0
	for _, ret := range g.Returns() {
		if len(ret.Results) != 1 || !g.Dominates(lookup, ret) {
			continue
		}
		res := ast.Unparen(ret.Results[0])
		mayBeFalse := isFalse(res)
		var resObj types.Object
		if id, ok := res.(*ast.Ident); ok && !mayBeFalse {
			resObj = objOf(info, id)
			if v, isVar := resObj.(*types.Var); isVar && v.Pkg() != nil && v.Parent() != v.Pkg().Scope() && isCtyValue(v.Type()) {
				mayBeFalse = true
			} else {
				resObj = nil
			}
		}
		if !mayBeFalse {
			continue
		}
		n++
		key := fmt.Sprintf("cty.Value.HasElement/return %s", exprStr(res))
		wk := cf.HoldsAt(ret, func(cond ast.Expr, truth bool) bool {
			return truth && methodCond(info, cond, recv, "IsWhollyKnown")
		}) && (probe == nil || cf.HoldsAt(ret, func(cond ast.Expr, truth bool) bool {
			return truth && methodCond(info, cond, probe, "IsWhollyKnown")
		}))
		switch {
		case wk:
			rr.OK(key, ret.Pos(), "the receiver is wholly known on every path to this return")
		case resObj != nil && cf.HasFact(ret, "notfalse", objKey(resObj)):
			rr.OK(key, ret.Pos(), "the returned variable was replaced by a non-False result on every path on which the receiver is not wholly known")
		case resObj != nil && notFalseOrWhollyKnown(c, info, fd, cf, g, ret, resObj, recv, probe):
			rr.OK(key, ret.Pos(), "on every path the receiver is wholly known or the returned variable was replaced by a non-False result")
		default:
			rr.Violation(key, ret.Pos(), "after the bucket lookup failed a definite False can be returned although the set was not established to be wholly known: a member that is (or contains) an unknown value may turn out to equal the probe, so the concrete answer can be True")
		}
	}
	if n == 0 {
		rr.Broken("stale anchor: Value.HasElement has no negative return after the set lookup")
	}
}

// notFalseOrWhollyKnown: path-wise disjunction — every predecessor edge into the return's block carries
// either the wholly-known fact or the notfalse fact (the join of the two alternatives of the usual
// 'noMatchResult := False; if !val.IsWhollyKnown() { noMatchResult = unknown }' shape).
func notFalseOrWhollyKnown(c *Ctx, info *types.Info, fd *ast.FuncDecl, cf *CondFacts, g *FuncCFG, ret *ast.ReturnStmt, v, recv, probe types.Object) bool {
	// find the statement that conditionally replaces v: an if whose condition is the (negated) wholly-known
	// test and whose body assigns v; it must dominate the return and v must not be assigned False afterwards
	okShape := false
	inspectNoLit(fd.Body, func(n ast.Node) bool {
		is, ok := n.(*ast.IfStmt)
		if !ok || is.Else != nil || !g.Dominates(is.Cond, ret) {
			return true
		}
		// the condition is a disjunction of '!X.IsWhollyKnown()' tests that covers the receiver and the probe:
		// when it is false both are wholly known
		covered := map[types.Object]bool{}
		var disj func(e ast.Expr) bool
		disj = func(e ast.Expr) bool {
			e = ast.Unparen(e)
			if be, ok := e.(*ast.BinaryExpr); ok && be.Op == token.LOR {
				return disj(be.X) && disj(be.Y)
			}
			neg, isNeg := e.(*ast.UnaryExpr)
			if !isNeg || neg.Op != token.NOT {
				return false
			}
			for _, o := range []types.Object{recv, probe} {
				if o != nil && methodCond(info, neg.X, o, "IsWhollyKnown") {
					covered[o] = true
					return true
				}
			}
			return false
		}
		if !disj(is.Cond) || !covered[recv] || (probe != nil && !covered[probe]) {
			return true
		}
		assigns := false
		for _, s := range is.Body.List {
			if as, ok := s.(*ast.AssignStmt); ok && len(as.Lhs) == 1 && len(as.Rhs) == 1 && objOf(info, as.Lhs[0]) == v && !isPkgVar(info, as.Rhs[0], "cty", "False") {
				assigns = true
			}
		}
		if !assigns {
			return true
		}
		// no later assignment to v between this if and the return
		later := false
		inspectNoLit(fd.Body, func(m ast.Node) bool {
			if as, ok := m.(*ast.AssignStmt); ok && as.Pos() > is.End() && as.End() < ret.Pos() {
				for _, l := range as.Lhs {
					if objOf(info, l) == v {
						later = true
					}
				}
			}
			return true
		})
		if !later {
			okShape = true
		}
		return true
	})
	return okShape
}

func runInfinityNeedsInexact(rr *RuleRun) {
	c := rr.Ctx
	pkg := "cty/gocty"
	info := c.Info(pkg)
	fd := rr.MustDecl(pkg, "fromCtyNumberFloat")
	if fd == nil {
		return
	}
	cf := c.CondFacts(fd.Body, info, nil)
	g := c.CFG(fd.Body, info)
	n := 0
	for _, ret := range g.Returns() {
		if len(ret.Results) != 1 || isNilIdent(info, ret.Results[0]) {
			continue
		}
		// an error return taken because the narrowed value is infinite
		infTest := cf.HoldsAt(ret, func(cond ast.Expr, truth bool) bool {
			call, ok := ast.Unparen(cond).(*ast.CallExpr)
			return ok && truth && isCall(info, call, "math.IsInf")
		})
		if !infTest {
			continue
		}
		n++
		key := pkg + ".fromCtyNumberFloat/refuse-infinite"
		inexact := cf.HoldsAt(ret, func(cond ast.Expr, truth bool) bool {
			isAcc := func(e ast.Expr) bool { return isAccuracy(info.TypeOf(e)) && !isExactConst(info, e) }
			isEx := func(e ast.Expr) bool { return isExactConst(info, e) }
			if eqCond(cond, isAcc, isEx) {
				return !truth
			}
			// or the source number itself was tested not to be infinite
			if call, ok := ast.Unparen(cond).(*ast.CallExpr); ok && isCall(info, call, "math/big.Float.IsInf") {
				return !truth
			}
			return false
		})
		if inexact {
			rr.OK(key, ret.Pos(), "the refusal is reached only when the narrowing was inexact")
		} else {
			rr.Violation(key, ret.Pos(), "the number is refused because its float64 image is infinite, on a path that has not established that the narrowing was inexact: cty's own infinities narrow exactly to ±Inf and must be stored, not refused")
		}
	}
	if n == 0 {
		rr.Info(pkg+".fromCtyNumberFloat/refuse-infinite", fd.Pos(), "no refusal conditioned on math.IsInf of the narrowed value")
	}
}

func isExactConst(info *types.Info, e ast.Expr) bool {
	switch x := ast.Unparen(e).(type) {
	case *ast.SelectorExpr:
		if o, ok := info.Uses[x.Sel].(*types.Const); ok && o.Pkg() != nil && o.Pkg().Path() == "math/big" && o.Name() == "Exact" {
			return true
		}
	}
	return false
}

// ---------------------------------------------------------------------------
// C18.bigfloat-exact-init, C15.number-parse-exact

func init() {
	register(&Rule{
		ID: "C18.bigfloat-exact-init", Prop: "C18", Also: []string{"C02", "C11", "C16", "C13", "C14"}, Floor: 6, Controls: 1,
		Doc: "a big.Float that receives an integer (SetInt, SetInt64, SetUint64, SetRat) was created with precision 0 — new(big.Float), &big.Float{} or a Copy of an operand — so that it takes the exact precision of what it is given; big.NewFloat(x) has the fixed 53-bit precision of a float64 and silently rounds integers above 2^53",
		Run: runBigfloatExactInit,
	})
	register(&Rule{
		ID: "C15.number-parse-exact", Prop: "C15", Also: []string{"C17"}, Floor: 1, Controls: 1,
		Doc: "in the JSON decoder a number token becomes a cty number only through cty.ParseNumberVal (exact, 512-bit): no result of json.Number.Float64 / Int64 or strconv.ParseFloat / ParseInt / Atoi flows into NumberFloatVal / NumberIntVal / NumberUIntVal / NumberVal (a float64 detour rounds integers above 2^53 and long decimals)",
		Run: runNumberParseExact,
	})
}

func runBigfloatExactInit(rr *RuleRun) {
	c := rr.Ctx
	eachFuncBody(c, allPkgs, func(pkg string, fd *ast.FuncDecl, body *ast.BlockStmt) {
		info := c.Info(pkg)
		inspectNoLit(body, func(n ast.Node) bool {
			call, ok := n.(*ast.CallExpr)
			if !ok || !isCall(info, call, "math/big.Float.SetInt", "math/big.Float.SetInt64", "math/big.Float.SetUint64", "math/big.Float.SetRat") {
				return true
			}
			se := call.Fun.(*ast.SelectorExpr)
			key := fmt.Sprintf("%s.%s/%s", pkg, declName(fd), trunc(exprStr(call), 50))
			// walk the receiver chain x.M1().M2() … down to its base expression
			base := ast.Unparen(se.X)
			fixed := ""
			for depth := 0; depth < 8; depth++ {
				if bc, ok := base.(*ast.CallExpr); ok {
					if isCall(info, bc, "math/big.NewFloat") {
						fixed = "big.NewFloat(…)"
						break
					}
					if isCall(info, bc, "math/big.Float.SetPrec") {
						if v, ok := constInt(info, bc.Args[0]); ok && v != 0 {
							fixed = fmt.Sprintf("SetPrec(%d)", v)
						}
						break
					}
					if bs, ok := bc.Fun.(*ast.SelectorExpr); ok && namedType(info.TypeOf(bs.X)) == "math/big.Float" {
						base = ast.Unparen(bs.X)
						continue
					}
					break
				}
				if id, ok := base.(*ast.Ident); ok {
					if o := info.Uses[id]; o != nil {
						if _, idx, rhs := findDefine(info, body, o); rhs != nil && len(rhs) > idx && countAssigns(info, body, o) == 0 {
							base = ast.Unparen(rhs[idx])
							continue
						}
					}
				}
				break
			}
			if fixed != "" {
				rr.Violation(key, call.Pos(), fmt.Sprintf("%s is called on a big.Float created by %s, which has a fixed precision (53 bits for NewFloat): an integer that needs more bits is silently rounded; use new(big.Float) / &big.Float{} so that the float takes the precision of the integer", se.Sel.Name, fixed))
			} else {
				rr.OKTrivial(key, call.Pos(), "the receiver is not a fixed-precision float")
			}
			return true
		})
	})
}

func runNumberParseExact(rr *RuleRun) {
	c := rr.Ctx
	pkg := "cty/json"
	eachFuncBody(c, []string{pkg}, func(pkg string, fd *ast.FuncDecl, body *ast.BlockStmt) {
		info := c.Info(pkg)
		// variables holding a lossy parse of a number token
		lossy := map[types.Object]string{}
		isLossyCall := func(e ast.Expr) string {
			call, ok := ast.Unparen(e).(*ast.CallExpr)
			if !ok {
				return ""
			}
			k := funcKey(callee(info, call))
			switch k {
			case "encoding/json.Number.Float64", "encoding/json.Number.Int64", "strconv.ParseFloat", "strconv.ParseInt", "strconv.ParseUint", "strconv.Atoi":
				return k
			}
			return ""
		}
		var mentionsLossy func(e ast.Expr) string
		mentionsLossy = func(e ast.Expr) string {
			found := ""
			ast.Inspect(e, func(n ast.Node) bool {
				if found != "" {
					return false
				}
				switch x := n.(type) {
				case *ast.CallExpr:
					if k := isLossyCall(x); k != "" {
						found = k
					}
				case *ast.Ident:
					if k, ok := lossy[info.Uses[x]]; ok {
						found = k
					}
				}
				return true
			})
			return found
		}
		for pass := 0; pass < 3; pass++ {
			ast.Inspect(body, func(n ast.Node) bool {
				as, ok := n.(*ast.AssignStmt)
				if !ok {
					return true
				}
				for i, l := range as.Lhs {
					var r ast.Expr
					if len(as.Rhs) == len(as.Lhs) {
						r = as.Rhs[i]
					} else if len(as.Rhs) == 1 && i == 0 {
						r = as.Rhs[0]
					}
					if r == nil {
						continue
					}
					if k := mentionsLossy(r); k != "" {
						if o := objOf(info, l); o != nil {
							lossy[o] = k
						}
					}
				}
				return true
			})
		}
		ast.Inspect(body, func(n ast.Node) bool {
			call, ok := n.(*ast.CallExpr)
			if !ok {
				return true
			}
			switch {
			case isCall(info, call, "cty.ParseNumberVal", "cty.MustParseNumberVal"):
				rr.OK(fmt.Sprintf("%s.%s/%s", pkg, declName(fd), trunc(exprStr(call), 40)), call.Pos(), "exact parse")
			case isCall(info, call, "cty.NumberFloatVal", "cty.NumberIntVal", "cty.NumberUIntVal", "cty.NumberVal") && len(call.Args) == 1:
				key := fmt.Sprintf("%s.%s/%s", pkg, declName(fd), trunc(exprStr(call), 40))
				if k := mentionsLossy(call.Args[0]); k != "" {
					rr.Violation(key, call.Pos(), fmt.Sprintf("a number obtained through %s becomes a cty number: the float64 / int64 detour loses digits the JSON document spelled out (integers above 2^53, long decimals), so the decoded value differs from the one that was encoded", k))
				} else {
					rr.OKTrivial(key, call.Pos(), "the argument does not come from a lossy parse of the token")
				}
			}
			return true
		})
	})
}

// ---------------------------------------------------------------------------
// C10.wrapper-keeps-spec, C06.capsule-payload-assignable, C16.dynamic-null-readable, C19.set-equal-symmetric

func init() {
	register(&Rule{
		ID: "C10.wrapper-keeps-spec", Prop: "C10", Also: []string{"C12"}, Floor: 2, Controls: 0,
		Doc: "a function of package function that derives a new Function from an existing one (Unpredictable, WithNewDescriptions) starts from a copy of the whole Spec (*f.spec) or from a Spec literal that sets every field: a wrapper rebuilt field by field that leaves one out (RefineResult, VarParam, Type) silently drops that part of the declared contract",
		Run: runWrapperKeepsSpec,
	})
	register(&Rule{
		ID: "C06.capsule-payload-assignable", Prop: "C06", Floor: 1, Controls: 0,
		Doc: "CapsuleVal builds a capsule value only where the pointed-to Go type of the payload was tested assignable to (or identical with) the capsule type's native Go type: a merely convertible type yields a value whose EncapsulatedValue is not a pointer to the declared type",
		Run: runCapsulePayloadAssignable,
	})
	register(&Rule{
		ID: "C16.dynamic-null-readable", Prop: "C16", Also: []string{"C17"}, Floor: 1, Controls: 0,
		Doc: "writer/reader agreement for an untyped null in a dynamic position: the MessagePack encoder writes nil for every null before the kind dispatch, so unmarshalDynamic accepts the nil token (array length -1, or a Nil code peeked) and returns a null of the dynamic type without error before it insists on the two-element wrapper",
		Run: runDynamicNullReadable,
	})
	register(&Rule{
		ID: "C19.set-equal-symmetric", Prop: "C19", Also: []string{"C03"}, Floor: 1, Controls: 0,
		Doc: "an equality test between two sets (PathSet.Equal) treats both operands alike: it compares the two lengths before testing inclusion one way, or tests inclusion both ways (SymmetricDifference, or a body that is invariant under swapping the operands); inclusion one way alone is the subset relation",
		Run: runSetEqualSymmetric,
	})
}

func runWrapperKeepsSpec(rr *RuleRun) {
	c := rr.Ctx
	pkg := "cty/function"
	info := c.Info(pkg)
	specT := c.Pkg(pkg).Types.Scope().Lookup("Spec")
	if specT == nil {
		rr.Broken("stale anchor: type function.Spec not found")
		return
	}
	st, _ := specT.Type().Underlying().(*types.Struct)
	for _, fd := range c.SortedDecls(pkg) {
		fn, _ := info.Defs[fd.Name].(*types.Func)
		if fn == nil {
			continue
		}
		sig := fn.Type().(*types.Signature)
		takesFunction := sig.Recv() != nil && namedType(sig.Recv().Type()) == "cty/function.Function"
		for i := 0; i < sig.Params().Len(); i++ {
			if namedType(sig.Params().At(i).Type()) == "cty/function.Function" {
				takesFunction = true
			}
		}
		returnsFunction := sig.Results().Len() >= 1 && namedType(sig.Results().At(0).Type()) == "cty/function.Function"
		if !takesFunction || !returnsFunction {
			continue
		}
		inspectNoLit(fd.Body, func(n ast.Node) bool {
			call, ok := n.(*ast.CallExpr)
			if !ok || !isCall(info, call, pkg+".New") || len(call.Args) != 1 {
				return true
			}
			key := fmt.Sprintf("%s.%s/New(%s)", pkg, declName(fd), exprStr(call.Args[0]))
			arg := ast.Unparen(call.Args[0])
			if u, ok := arg.(*ast.UnaryExpr); ok && u.Op == token.AND {
				arg = ast.Unparen(u.X)
			}
			var lit *ast.CompositeLit
			switch x := arg.(type) {
			case *ast.CompositeLit:
				lit = x
			case *ast.Ident:
				if o := objOf(info, x); o != nil {
					if _, idx, rhs := findDefine(info, fd.Body, o); rhs != nil && len(rhs) > idx {
						switch r := ast.Unparen(rhs[idx]).(type) {
						case *ast.StarExpr:
							rr.OK(key, call.Pos(), "the new Spec starts as a copy of the whole existing Spec ("+exprStr(r)+")")
							return true
						case *ast.CompositeLit:
							lit = r
						case *ast.UnaryExpr:
							if cl, ok := ast.Unparen(r.X).(*ast.CompositeLit); ok {
								lit = cl
							}
						}
					}
				}
			}
			if lit == nil {
				rr.Assumed(key, call.Pos(), "the origin of the Spec handed to New is not a copy or a literal the analysis can see")
				return true
			}
			have := map[string]bool{}
			for _, el := range lit.Elts {
				if kv, ok := el.(*ast.KeyValueExpr); ok {
					if id, ok := kv.Key.(*ast.Ident); ok {
						have[id.Name] = true
					}
				}
			}
			// fields assigned afterwards (newSpec.X = …)
			inspectNoLit(fd.Body, func(m ast.Node) bool {
				if as, ok := m.(*ast.AssignStmt); ok {
					for _, l := range as.Lhs {
						if se, ok := l.(*ast.SelectorExpr); ok {
							if id, ok := arg.(*ast.Ident); ok && objOf(info, se.X) == objOf(info, id) {
								have[se.Sel.Name] = true
							}
						}
					}
				}
				return true
			})
			var missing []string
			for i := 0; st != nil && i < st.NumFields(); i++ {
				if !have[st.Field(i).Name()] {
					missing = append(missing, st.Field(i).Name())
				}
			}
			if len(lit.Elts) > 0 {
				if _, keyed := lit.Elts[0].(*ast.KeyValueExpr); !keyed && st != nil && len(lit.Elts) == st.NumFields() {
					missing = nil
				}
			}
			if len(missing) == 0 {
				rr.OK(key, call.Pos(), "the Spec literal sets every field")
			} else {
				rr.Violation(key, call.Pos(), fmt.Sprintf("the wrapper rebuilds the Spec field by field and leaves out %s: that part of the wrapped function's declared contract is silently dropped", strings.Join(missing, ", ")))
			}
			return true
		})
	}
}

func runCapsulePayloadAssignable(rr *RuleRun) {
	c := rr.Ctx
	info := c.Info("cty")
	fd := rr.MustDecl("cty", "CapsuleVal")
	if fd == nil {
		return
	}
	cf := c.CondFacts(fd.Body, info, nil)
	g := c.CFG(fd.Body, info)
	n := 0
	for _, ret := range g.Returns() {
		if len(ret.Results) != 1 {
			continue
		}
		if _, ok := ast.Unparen(ret.Results[0]).(*ast.CompositeLit); !ok {
			continue
		}
		n++
		key := "cty.CapsuleVal/return " + trunc(exprStr(ret.Results[0]), 30)
		ok := cf.HoldsAt(ret, func(cond ast.Expr, truth bool) bool {
			if call, isCall_ := ast.Unparen(cond).(*ast.CallExpr); isCall_ && truth {
				return funcKey(callee(info, call)) == "reflect.Type.AssignableTo"
			}
			if be, isBin := ast.Unparen(cond).(*ast.BinaryExpr); isBin && be.Op == token.EQL && truth {
				return namedType(info.TypeOf(be.X)) == "reflect.Type" && namedType(info.TypeOf(be.Y)) == "reflect.Type"
			}
			return false
		})
		if ok {
			rr.OK(key, ret.Pos(), "the payload's pointed-to type was tested assignable to the capsule's Go type on every path")
		} else {
			rr.Violation(key, ret.Pos(), "a capsule value is built on a path that has not established that the payload's pointed-to Go type is assignable to the capsule type's native type (reflect.Type.AssignableTo): a merely convertible or unrelated type makes EncapsulatedValue hand out a pointer of the wrong type")
		}
	}
	if n == 0 {
		rr.Broken("stale anchor: CapsuleVal returns no Value literal")
	}
}

func runDynamicNullReadable(rr *RuleRun) {
	c := rr.Ctx
	pkg := "cty/msgpack"
	info := c.Info(pkg)
	fd := rr.MustDecl(pkg, "unmarshalDynamic")
	if fd == nil {
		return
	}
	cf := c.CondFacts(fd.Body, info, nil)
	g := c.CFG(fd.Body, info)
	found := false
	for _, ret := range g.Returns() {
		if len(ret.Results) != 2 || !isNilIdent(info, ret.Results[1]) {
			continue
		}
		call, ok := ast.Unparen(ret.Results[0]).(*ast.CallExpr)
		if !ok || !isCall(info, call, "cty.NullVal") || len(call.Args) != 1 || !isPkgVar(info, call.Args[0], "cty", "DynamicPseudoType") {
			continue
		}
		nilSeen := cf.HoldsAt(ret, func(cond ast.Expr, truth bool) bool {
			if !truth {
				return false
			}
			if be, ok := ast.Unparen(cond).(*ast.BinaryExpr); ok && be.Op == token.EQL {
				if v, ok := constInt(info, be.Y); ok && v == -1 {
					return true
				}
				if v, ok := constInt(info, be.X); ok && v == -1 {
					return true
				}
				// PeekCode() == msgpcode.Nil
				return strings.Contains(exprStr(be), "Nil")
			}
			return false
		})
		if nilSeen {
			found = true
			rr.OK(pkg+".unmarshalDynamic/nil→null", ret.Pos(), "a nil token (array length -1) is decoded as a null of the dynamic type")
		}
	}
	if !found {
		rr.Violation(pkg+".unmarshalDynamic/nil→null", fd.Pos(), "unmarshalDynamic has no path that accepts the nil token (DecodeArrayLen == -1) and returns cty.NullVal(cty.DynamicPseudoType) without error, although the encoder writes a bare nil for an untyped null in a dynamic position: such a value no longer round-trips")
	}
}

func runSetEqualSymmetric(rr *RuleRun) {
	c := rr.Ctx
	info := c.Info("cty")
	for _, name := range []string{"PathSet.Equal"} {
		fd := rr.MustDecl("cty", name)
		if fd == nil {
			continue
		}
		recv := info.Defs[fd.Recv.List[0].Names[0]]
		other := info.Defs[paramIdent(fd, 0)]
		key := "cty." + name
		// (a) both lengths are compared, or (b) a symmetric operation is used, or (c) inclusion is tested both ways
		lenOf := map[types.Object]bool{}
		hasOn := map[types.Object]bool{} // X.…Has(...) — inclusion of the other's members in X
		symmetric := false
		inspectNoLit(fd.Body, func(n ast.Node) bool {
			call, ok := n.(*ast.CallExpr)
			if !ok {
				return true
			}
			se, ok := call.Fun.(*ast.SelectorExpr)
			if !ok {
				return true
			}
			root := rootObj(info, se.X)
			switch se.Sel.Name {
			case "Length":
				// counts only as a comparison of the two sizes when it stands in an == / != comparison
				if be, ok := c.Parent(call).(*ast.BinaryExpr); ok && (be.Op == token.NEQ || be.Op == token.EQL) {
					lenOf[root] = true
				}
			case "Has":
				hasOn[root] = true
			case "SymmetricDifference":
				symmetric = true
			case "Equal":
				if root != recv || len(call.Args) != 1 || rootObj(info, call.Args[0]) != other {
					return true
				}
				symmetric = true
			}
			return true
		})
		switch {
		case symmetric:
			rr.OK(key, fd.Pos(), "uses a symmetric set operation")
		case lenOf[recv] && lenOf[other]:
			rr.OK(key, fd.Pos(), "compares the lengths of both sets before testing inclusion")
		case hasOn[recv] && hasOn[other]:
			rr.OK(key, fd.Pos(), "tests inclusion both ways")
		default:
			rr.Violation(key, fd.Pos(), "the equality test neither compares the lengths of both sets nor tests inclusion both ways nor uses a symmetric operation: inclusion one way alone is the subset relation, so a strict subset compares equal to its superset (and Equal is not symmetric)")
		}
	}
}

// rootObj: the object at the root of a selector / call chain (s.set.Length() → s).
func rootObj(info *types.Info, e ast.Expr) types.Object {
	for {
		switch x := ast.Unparen(e).(type) {
		case *ast.SelectorExpr:
			e = x.X
		case *ast.CallExpr:
			if se, ok := x.Fun.(*ast.SelectorExpr); ok {
				e = se.X
			} else {
				return nil
			}
		case *ast.Ident:
			return objOf(info, x)
		default:
			return nil
		}
	}
}

// ---------------------------------------------------------------------------
// C10.contract-checks-unconditional

func init() {
	register(&Rule{
		ID: "C10.contract-checks-unconditional", Prop: "C10", Also: []string{"C04", "C11"}, Floor: 2, Controls: 0,
		Doc: "in returnTypeForValues and Call every rejection of an argument (a return of an ArgError: null not allowed, dynamic not allowed, wrong type) is independent of the argument's marks: it is neither nested in a branch whose condition consults marks (IsMarked / ContainsMarked / AllowMarked) nor reached only after such a condition was decided — marking an argument must not switch a contract check off",
		Run: runContractChecksUnconditional,
	})
}

func mentionsMarks(info *types.Info, e ast.Expr) bool {
	found := false
	ast.Inspect(e, func(n ast.Node) bool {
		switch x := n.(type) {
		case *ast.CallExpr:
			switch funcKey(callee(info, x)) {
			case "cty.Value.IsMarked", "cty.Value.ContainsMarked", "cty.Value.HasMark", "cty.Value.HasSameMarks":
				found = true
			}
		case *ast.SelectorExpr:
			if x.Sel.Name == "AllowMarked" {
				found = true
			}
		}
		return !found
	})
	return found
}

func runContractChecksUnconditional(rr *RuleRun) {
	c := rr.Ctx
	pkg := "cty/function"
	info := c.Info(pkg)
	type unit struct {
		name string
		fd   *ast.FuncDecl
	}
	var units []unit
	seenUnit := map[*ast.FuncDecl]bool{}
	for _, name := range []string{"Function.returnTypeForValues", "Function.Call"} {
		fd := rr.MustDecl(pkg, name)
		if fd == nil {
			continue
		}
		units = append(units, unit{name, fd})
		seenUnit[fd] = true
		// helpers of the same package called with an argument value: their rejections count too, and the
		// call itself must not sit under a condition on marks
		inspectNoLit(fd.Body, func(n ast.Node) bool {
			call, ok := n.(*ast.CallExpr)
			if !ok {
				return true
			}
			f := callee(info, call)
			if f == nil || shortPkg(f.Pkg()) != pkg {
				return true
			}
			hd := c.Decl(pkg, funcDeclKey(f))
			if hd == nil || hd.Body == nil || seenUnit[hd] {
				return true
			}
			builds := false
			inspectNoLit(hd.Body, func(m ast.Node) bool {
				if hc, ok := m.(*ast.CallExpr); ok && isCall(info, hc, pkg+".NewArgErrorf", pkg+".NewArgError") {
					builds = true
				}
				return true
			})
			if !builds {
				return true
			}
			seenUnit[hd] = true
			units = append(units, unit{name + "→" + f.Name(), hd})
			var child ast.Node = call
			for p := c.Parent(call); p != nil && p != ast.Node(fd.Body); child, p = p, c.Parent(p) {
				if is, ok := p.(*ast.IfStmt); ok && child != ast.Node(is.Cond) && child != ast.Node(is.Init) && mentionsMarks(info, is.Cond) {
					rr.Violation(fmt.Sprintf("%s.%s/call %s", pkg, name, f.Name()), call.Pos(), fmt.Sprintf("the contract checks of %s run only in a branch of 'if %s': whether the argument is marked decides whether they run", f.Name(), trunc(exprStr(is.Cond), 60)))
				}
			}
			return true
		})
	}
	for _, u := range units {
		name, fd := u.name, u.fd
		cf := c.CondFacts(fd.Body, info, nil)
		inspectNoLit(fd.Body, func(n ast.Node) bool {
			ret, ok := n.(*ast.ReturnStmt)
			if !ok {
				return true
			}
			isArgErr := false
			for _, r := range ret.Results {
				if call, ok := ast.Unparen(r).(*ast.CallExpr); ok && isCall(info, call, pkg+".NewArgErrorf", pkg+".NewArgError") {
					isArgErr = true
				}
			}
			if !isArgErr {
				return true
			}
			key := fmt.Sprintf("%s.%s/%s", pkg, name, trunc(exprStr(ret.Results[len(ret.Results)-1]), 60))
			// (a) nested in a branch on marks
			var child ast.Node = ret
			for p := c.Parent(ret); p != nil && p != ast.Node(fd.Body); child, p = p, c.Parent(p) {
				is, ok := p.(*ast.IfStmt)
				if !ok || child == ast.Node(is.Cond) || child == ast.Node(is.Init) {
					continue
				}
				if mentionsMarks(info, is.Cond) {
					rr.Violation(key, ret.Pos(), fmt.Sprintf("this rejection is nested in a branch of 'if %s': whether the argument is marked decides whether the contract check runs, so a marked argument bypasses (or alone triggers) it", trunc(exprStr(is.Cond), 60)))
					return true
				}
			}
			// (b) reached only after a decision on marks
			if cf.HoldsAt(ret, func(cond ast.Expr, truth bool) bool { return mentionsMarks(info, cond) }) {
				rr.Violation(key, ret.Pos(), "this rejection is reached only on paths that decided a condition on the argument's marks: marking an argument changes whether the contract check runs")
				return true
			}
			rr.OK(key, ret.Pos(), "independent of the argument's marks")
			return true
		})
	}
}

// ---------------------------------------------------------------------------
// C04.set-hoists-deep

func init() {
	register(&Rule{
		ID: "C04.set-hoists-deep", Prop: "C04", Also: []string{"C06"}, Floor: 1, Controls: 0,
		Doc: "SetVal moves the marks of its members to the set by deep unmarking only: the member stored into the set's payload is the result of UnmarkDeep (or the member itself where UnmarkDeep found no marks), never the result of a shallow Unmark, and every mark set handed to WithMarks comes out of UnmarkDeep — a shallowly unmarked member keeps nested marks inside the set",
		Run: runSetHoistsDeep,
	})
}

func runSetHoistsDeep(rr *RuleRun) {
	c := rr.Ctx
	info := c.Info("cty")
	fd := rr.MustDecl("cty", "SetVal")
	if fd == nil {
		return
	}
	deep, shallow := 0, 0
	inspectNoLit(fd.Body, func(n ast.Node) bool {
		call, ok := n.(*ast.CallExpr)
		if !ok {
			return true
		}
		switch {
		case isCall(info, call, "cty.Value.UnmarkDeep", "cty.Value.UnmarkDeepWithPaths"):
			deep++
			rr.OK("cty.SetVal/"+exprStr(call), call.Pos(), "deep unmarking of a member")
		case isCall(info, call, "cty.Value.Unmark", "cty.Value.unmarkForce"):
			shallow++
			rr.Violation("cty.SetVal/"+exprStr(call), call.Pos(), "a member is unmarked only shallowly on this path: marks on its nested members stay inside the set (a set holds no marked members at any depth, and the hash of such a member panics)")
		}
		return true
	})
	if deep == 0 && shallow == 0 {
		rr.Violation("cty.SetVal/no-unmark", fd.Pos(), "SetVal does not unmark its members deeply: marks on members are neither moved to the set nor removed from the payload")
	}
}

// ---------------------------------------------------------------------------
// C07.conformance-collections-recurse, C07.placeholder-search-recurses

func init() {
	register(&Rule{
		ID: "C07.conformance-collections-recurse", Prop: "C07", Floor: 3, Controls: 0,
		Doc: "testConformance appends an error only where the branch conditions do not establish that 'given' and 'want' are collections of the same kind: for list/list, map/map and set/set the verdict comes from the recursion on the element types alone (an error reported for the pair as a whole compares the element types with optional-attribute annotations and placeholders still in them)",
		Run: runConformanceCollectionsRecurse,
	})
	register(&Rule{
		ID: "C07.placeholder-search-recurses", Prop: "C07", Also: []string{"C01", "C08"}, Floor: 3, Controls: 0,
		Doc: "Type.HasDynamicTypes descends into every compound kind: under the branch condition for collections, for objects and for tuples there is a recursive HasDynamicTypes call on a member type (a test of the member against DynamicPseudoType alone misses placeholders nested one level deeper)",
		Run: runPlaceholderSearchRecurses,
	})
}

var collectionPreds = []string{"IsCollectionType", "IsListType", "IsMapType", "IsSetType"}

func runConformanceCollectionsRecurse(rr *RuleRun) {
	c := rr.Ctx
	info := c.Info("cty")
	fd := rr.MustDecl("cty", "testConformance")
	if fd == nil {
		return
	}
	given, want := info.Defs[paramIdent(fd, 0)], info.Defs[paramIdent(fd, 1)]
	cf := c.CondFacts(fd.Body, info, nil)
	// the top-level branches 'given is K && want is K' for the compound kinds
	compoundPreds := []string{"IsObjectType", "IsTupleType", "IsListType", "IsMapType", "IsSetType", "IsCollectionType"}
	var compoundIfs []*ast.IfStmt
	var lastCompound token.Pos
	for _, st := range fd.Body.List {
		is, ok := st.(*ast.IfStmt)
		if !ok {
			continue
		}
		gk, wk := false, false
		ast.Inspect(is.Cond, func(m ast.Node) bool {
			if e, ok := m.(ast.Expr); ok {
				if methodCond(info, e, given, compoundPreds...) {
					gk = true
				}
				if methodCond(info, e, want, compoundPreds...) {
					wk = true
				}
			}
			return true
		})
		if gk && wk {
			compoundIfs = append(compoundIfs, is)
			lastCompound = is.Pos()
		}
	}
	nestedInCompound := func(n ast.Node) bool {
		for _, is := range compoundIfs {
			if n.Pos() >= is.Pos() && n.End() <= is.End() {
				return true
			}
		}
		return false
	}
	inspectNoLit(fd.Body, func(n ast.Node) bool {
		call, ok := n.(*ast.CallExpr)
		if !ok || !isBuiltin(info, call, "append") || len(call.Args) < 2 {
			return true
		}
		if sl, ok := info.TypeOf(call.Args[0]).Underlying().(*types.Slice); !ok || sl.Elem().String() != "error" {
			return true
		}
		key := "cty.testConformance/append " + trunc(exprStr(call.Args[1]), 50)
		g := cf.HoldsAt(call, func(cond ast.Expr, truth bool) bool {
			return truth && methodCond(info, cond, given, collectionPreds...)
		})
		w := cf.HoldsAt(call, func(cond ast.Expr, truth bool) bool { return truth && methodCond(info, cond, want, collectionPreds...) })
		// a whole-type error outside the per-kind branches is the residual: it may only come after every
		// compound-kind branch was tried
		if !nestedInCompound(call) && lastCompound.IsValid() && call.Pos() < lastCompound {
			rr.Violation(key, call.Pos(), "a whole-type error is reported before the branches for the compound kinds were tried (it is not nested in one of them and further 'both are tuples / lists / maps / sets' branches follow): types that differ only below a compound level — in optional-attribute annotations, which conformance disregards, or at a position the constraint leaves dynamic — are rejected although they conform")
			return true
		}
		if g && w {
			rr.Violation(key, call.Pos(), "an error is reported for a pair of collection types as a whole (both 'given' and 'want' are established to be collections here): conformance of collections is decided by their element types alone, disregarding optional-attribute annotations and resolving placeholders — a whole-type comparison rejects types that conform")
		} else {
			rr.OK(key, call.Pos(), "not reached for a same-kind pair of collections")
		}
		return true
	})
}

func runPlaceholderSearchRecurses(rr *RuleRun) {
	c := rr.Ctx
	info := c.Info("cty")
	fd := rr.MustDecl("cty", "Type.HasDynamicTypes")
	if fd == nil {
		return
	}
	recv := info.Defs[fd.Recv.List[0].Names[0]]
	cf := c.CondFacts(fd.Body, info, nil)
	type kindReq struct {
		name  string
		preds []string
	}
	reqs := []kindReq{
		{"collection", []string{"IsCollectionType", "IsListType", "IsMapType", "IsSetType"}},
		{"object", []string{"IsObjectType"}},
		{"tuple", []string{"IsTupleType"}},
	}
	var recCalls []*ast.CallExpr
	inspectNoLit(fd.Body, func(n ast.Node) bool {
		if call, ok := n.(*ast.CallExpr); ok && isCall(info, call, "cty.Type.HasDynamicTypes") {
			recCalls = append(recCalls, call)
		}
		return true
	})
	for _, rq := range reqs {
		key := "cty.Type.HasDynamicTypes/" + rq.name
		// is the kind tested at all? (a collection may be handled per kind)
		found := false
		for _, call := range recCalls {
			if cf.HoldsAt(call, func(cond ast.Expr, truth bool) bool { return truth && methodCond(info, cond, recv, rq.preds...) }) {
				found = true
				rr.OK(key, call.Pos(), "recursive call on a member type under the "+rq.name+" branch")
				break
			}
		}
		if !found {
			// a dispatch the condition analysis does not read (a type switch on the implementation): not decided
			typeSwitch := false
			inspectNoLit(fd.Body, func(n ast.Node) bool {
				if _, ok := n.(*ast.TypeSwitchStmt); ok {
					typeSwitch = true
				}
				return true
			})
			if typeSwitch {
				rr.Assumed(key, fd.Pos(), "the kind dispatch is a type switch, which this rule does not interpret")
				continue
			}
			rr.Violation(key, fd.Pos(), fmt.Sprintf("no recursive HasDynamicTypes call is made under the branch condition for %s types: a placeholder nested deeper than a direct member of such a type is not found, so 'has dynamic types' answers false for a type that contains one", rq.name))
		}
	}
}

// ---------------------------------------------------------------------------
// C15.encoder-follows-constraint

func init() {
	register(&Rule{
		ID: "C15.encoder-follows-constraint", Prop: "C15", Also: []string{"C16"}, Floor: 8, Controls: 0,
		Doc: "in the type-directed encoders (json.marshal, msgpack.marshal) every recursive call encodes a member against a type derived from the constraint parameter (its element / attribute / tuple element type), not against the member's own type: only the constraint says where a dynamic placeholder sits, and only there the member is wrapped together with its type; map keys (always strings) and constant primitive types are exempt",
		Run: runEncoderFollowsConstraint,
	})
}

func runEncoderFollowsConstraint(rr *RuleRun) {
	c := rr.Ctx
	for _, pkg := range []string{"cty/json", "cty/msgpack"} {
		info := c.Info(pkg)
		fd := rr.MustDecl(pkg, "marshal")
		if fd == nil {
			continue
		}
		self, _ := info.Defs[fd.Name].(*types.Func)
		var tparam types.Object
		for i := 0; ; i++ {
			id := paramIdent(fd, i)
			if id == nil {
				break
			}
			if isCtyType(info.TypeOf(id)) && tparam == nil {
				tparam = info.Defs[id]
			}
		}
		if tparam == nil || self == nil {
			rr.Broken("stale anchor: " + pkg + ".marshal has no cty.Type parameter")
			continue
		}
		dep := map[types.Object]bool{tparam: true}
		mentions := func(e ast.Expr) bool {
			found := false
			ast.Inspect(e, func(n ast.Node) bool {
				if id, ok := n.(*ast.Ident); ok && dep[info.Uses[id]] {
					found = true
				}
				return !found
			})
			return found
		}
		keyVars := map[types.Object]bool{} // first result of it.Element(): a collection key
		for pass := 0; pass < 4; pass++ {
			ast.Inspect(fd.Body, func(n ast.Node) bool {
				switch x := n.(type) {
				case *ast.AssignStmt:
					for i, l := range x.Lhs {
						var r ast.Expr
						if len(x.Rhs) == len(x.Lhs) {
							r = x.Rhs[i]
						} else if len(x.Rhs) == 1 {
							r = x.Rhs[0]
						}
						if r == nil {
							continue
						}
						if call, ok := ast.Unparen(r).(*ast.CallExpr); ok && i == 0 && len(x.Lhs) == 2 && isCall(info, call, "cty.ElementIterator.Element") {
							if o := objOf(info, l); o != nil {
								keyVars[o] = true
							}
							continue
						}
						if mentions(r) {
							if o := objOf(info, l); o != nil && isCtyType(o.Type()) {
								dep[o] = true
							}
							if o := objOf(info, l); o != nil {
								if _, isMap := o.Type().Underlying().(*types.Map); isMap {
									dep[o] = true
								}
								if _, isSl := o.Type().Underlying().(*types.Slice); isSl {
									dep[o] = true
								}
							}
						}
					}
				case *ast.RangeStmt:
					if mentions(x.X) {
						for _, e := range []ast.Expr{x.Key, x.Value} {
							if e != nil {
								if o := objOf(info, e); o != nil {
									dep[o] = true
								}
							}
						}
					}
				}
				return true
			})
		}
		ast.Inspect(fd.Body, func(n ast.Node) bool {
			call, ok := n.(*ast.CallExpr)
			if !ok || callee(info, call) != self || len(call.Args) < 2 {
				return true
			}
			valArg, tyArg := call.Args[0], call.Args[1]
			key := fmt.Sprintf("%s.marshal/marshal(%s, %s)", pkg, trunc(exprStr(valArg), 24), trunc(exprStr(tyArg), 24))
			switch {
			case mentions(tyArg):
				rr.OK(key, call.Pos(), "the member is encoded against a type derived from the constraint")
			case isPkgVar(info, tyArg, "cty", "String", "Number", "Bool"):
				rr.OKTrivial(key, call.Pos(), "constant primitive type")
			case keyVars[objOf(info, valArg)]:
				rr.OKTrivial(key, call.Pos(), "a collection key (always a string) encoded against its own type")
			default:
				rr.Violation(key, call.Pos(), fmt.Sprintf("the member %s is encoded against %s, which does not derive from the constraint %s: where the constraint has a dynamic placeholder at or below this member the type wrapper is not written, so the decoder (which follows the constraint) cannot read the value back", exprStr(valArg), exprStr(tyArg), tparam.Name()))
			}
			return true
		})
	}
}

// ---------------------------------------------------------------------------
// C12.first-operand-like-the-rest

func init() {
	register(&Rule{
		ID: "C12.first-operand-like-the-rest", Prop: "C12", Also: []string{"C11"}, Floor: 1, Controls: 0,
		Doc: "where a callback treats args[0] and the elements of args[1:] alike (both are handed to the same accessor, e.g. AsValueSet) but handles the first one before a loop over the rest, every state guard the loop applies to an operand before using it (IsWhollyKnown / IsKnown / IsNull … with a value-producing exit) is applied to the first operand too: a guard kept only in the loop leaves the first operand unchecked",
		Run: runFirstOperandLikeTheRest,
	})
}

func runFirstOperandLikeTheRest(rr *RuleRun) {
	c := rr.Ctx
	statePreds := map[string]bool{"IsWhollyKnown": true, "IsKnown": true, "IsNull": true, "IsMarked": true, "ContainsMarked": true}
	eachFuncBody(c, []string{"cty/function/stdlib"}, func(pkg string, fd *ast.FuncDecl, body *ast.BlockStmt) {
		info := c.Info(pkg)
		// the tail loop: 'for _, x := range args[1:]' or 'for i := 1; i < len(args); i++ { … args[i] … }'
		var loop ast.Stmt
		var loopBody *ast.BlockStmt
		var argsObj, loopVar, idxVar types.Object
		for _, st := range body.List {
			switch rs := st.(type) {
			case *ast.RangeStmt:
				sl, ok := ast.Unparen(rs.X).(*ast.SliceExpr)
				if !ok || sl.High != nil || rs.Value == nil {
					continue
				}
				if v, ok := constInt(info, sl.Low); !ok || v != 1 {
					continue
				}
				if t, ok := info.TypeOf(sl.X).Underlying().(*types.Slice); !ok || !isCtyValue(t.Elem()) {
					continue
				}
				loop, loopBody, argsObj, loopVar = rs, rs.Body, objOf(info, sl.X), objOf(info, rs.Value)
			case *ast.ForStmt:
				as, ok := rs.Init.(*ast.AssignStmt)
				if !ok || len(as.Lhs) != 1 || len(as.Rhs) != 1 {
					continue
				}
				if v, ok := constInt(info, as.Rhs[0]); !ok || v != 1 {
					continue
				}
				be, ok := rs.Cond.(*ast.BinaryExpr)
				if !ok || be.Op != token.LSS || objOf(info, be.X) != objOf(info, as.Lhs[0]) {
					continue
				}
				lc, ok := ast.Unparen(be.Y).(*ast.CallExpr)
				if !ok || !isBuiltin(info, lc, "len") || len(lc.Args) != 1 {
					continue
				}
				if t, ok := info.TypeOf(lc.Args[0]).Underlying().(*types.Slice); !ok || !isCtyValue(t.Elem()) {
					continue
				}
				loop, loopBody, argsObj, idxVar = rs, rs.Body, objOf(info, lc.Args[0]), objOf(info, as.Lhs[0])
			}
		}
		if loop == nil || argsObj == nil || (loopVar == nil && idxVar == nil) {
			return
		}
		// families
		family := func(seed func(e ast.Expr) bool, root ast.Node, before token.Pos) map[types.Object]bool {
			fam := map[types.Object]bool{}
			ment := func(e ast.Expr) bool {
				found := false
				ast.Inspect(e, func(n ast.Node) bool {
					if ex, ok := n.(ast.Expr); ok && seed(ex) {
						found = true
					}
					if id, ok := n.(*ast.Ident); ok && fam[info.Uses[id]] {
						found = true
					}
					return !found
				})
				return found
			}
			for pass := 0; pass < 3; pass++ {
				inspectNoLit(root, func(n ast.Node) bool {
					as, ok := n.(*ast.AssignStmt)
					if !ok || (before.IsValid() && as.Pos() >= before) {
						return true
					}
					for i, l := range as.Lhs {
						var r ast.Expr
						if len(as.Rhs) == len(as.Lhs) {
							r = as.Rhs[i]
						} else if len(as.Rhs) == 1 && i == 0 {
							r = as.Rhs[0]
						}
						if r != nil && ment(r) {
							if o := objOf(info, l); o != nil && isCtyValue(o.Type()) {
								fam[o] = true
							}
						}
					}
					return true
				})
			}
			return fam
		}
		isArgs0 := func(e ast.Expr) bool {
			ix, ok := ast.Unparen(e).(*ast.IndexExpr)
			if !ok || objOf(info, ix.X) != argsObj {
				return false
			}
			v, ok := constInt(info, ix.Index)
			return ok && v == 0
		}
		head := family(isArgs0, body, loop.Pos())
		isTailSeed := func(e ast.Expr) bool {
			if loopVar != nil && objOf(info, e) == loopVar {
				return true
			}
			if ix, ok := ast.Unparen(e).(*ast.IndexExpr); ok && idxVar != nil {
				return objOf(info, ix.X) == argsObj && objOf(info, ix.Index) == idxVar
			}
			return false
		}
		tail := family(isTailSeed, loopBody, token.NoPos)
		if loopVar != nil {
			tail[loopVar] = true
		}
		inFam := func(fam map[types.Object]bool, e ast.Expr, isHead bool) bool {
			if o := objOf(info, e); o != nil && fam[o] {
				return true
			}
			if isHead {
				return isArgs0(e)
			}
			return isTailSeed(e)
		}
		// treated alike: some accessor is applied to a head variable and to a tail variable
		applied := func(fam map[types.Object]bool, root ast.Node, isHead bool) map[string]bool {
			out := map[string]bool{}
			inspectNoLit(root, func(n ast.Node) bool {
				call, ok := n.(*ast.CallExpr)
				if !ok {
					return true
				}
				if se, ok := call.Fun.(*ast.SelectorExpr); ok && inFam(fam, se.X, isHead) && !statePreds[se.Sel.Name] {
					out[se.Sel.Name] = true
				}
				return true
			})
			return out
		}
		ha, ta := applied(head, body, true), applied(tail, loopBody, false)
		alike := ""
		for k := range ta {
			if ha[k] && k != "Type" {
				alike = k
			}
		}
		if alike == "" {
			return
		}
		// guards: if statements whose body ends in a value-producing return and whose condition applies a
		// state predicate to a family variable; rendered with the family variables replaced by $
		render := func(fam map[types.Object]bool, cond ast.Expr, isHead bool) (string, bool) {
			has := false
			ast.Inspect(cond, func(n ast.Node) bool {
				if call, ok := n.(*ast.CallExpr); ok {
					if se, ok := call.Fun.(*ast.SelectorExpr); ok && inFam(fam, se.X, isHead) && statePreds[se.Sel.Name] {
						has = true
					}
				}
				return true
			})
			if !has {
				return "", false
			}
			cc := &canonCtx{info: info, subst: map[types.Object]string{}, locals: map[types.Object]string{}}
			for o := range fam {
				cc.subst[o] = "$"
			}
			out := cc.expr(cond)
			if isHead {
				out = strings.ReplaceAll(out, exprStr(&ast.IndexExpr{X: ast.NewIdent(argsObj.Name()), Index: &ast.BasicLit{Kind: token.INT, Value: "0"}}), "$")
			}
			return out, true
		}
		guards := func(fam map[types.Object]bool, list []ast.Stmt, before token.Pos, isHead bool) map[string]token.Pos {
			out := map[string]token.Pos{}
			for _, st := range list {
				is, ok := st.(*ast.IfStmt)
				if !ok || (before.IsValid() && is.Pos() >= before) || len(is.Body.List) == 0 {
					continue
				}
				ret, ok := is.Body.List[len(is.Body.List)-1].(*ast.ReturnStmt)
				if !ok || len(ret.Results) == 0 || !isNilIdent(info, ret.Results[len(ret.Results)-1]) {
					continue
				}
				if s, ok := render(fam, is.Cond, isHead); ok {
					out[s] = is.Pos()
				}
			}
			return out
		}
		hg := guards(head, body.List, loop.Pos(), true)
		tg := guards(tail, loopBody.List, token.NoPos, false)
		key := fmt.Sprintf("%s.%s/args[0]~args[1:]", pkg, declName(fd))
		var missing []string
		var pos token.Pos
		for g, p := range tg {
			if _, ok := hg[g]; !ok {
				missing = append(missing, strings.ReplaceAll(g, "$", "arg"))
				pos = p
			}
		}
		if len(missing) > 0 {
			sort.Strings(missing)
			rr.Violation(key, pos, fmt.Sprintf("the loop over args[1:] guards each operand with {%s} before using it (%s), but args[0], which is used the same way, is not guarded like that before the loop: the first operand escapes the check", strings.Join(missing, "; "), alike))
		} else {
			rr.OK(key, loop.Pos(), fmt.Sprintf("%d guard(s) of the loop are also applied to the first operand (both reach %s)", len(tg), alike))
		}
	})
}

// ---------------------------------------------------------------------------
// C11.prediction-ignores-nullness, C12.null-skip-needs-known

func init() {
	register(&Rule{
		ID: "C11.prediction-ignores-nullness", Prop: "C11", Also: []string{"C13", "C14"}, Floor: 3, Controls: 0,
		Doc: "in a Type callback of a standard function, the list of argument types handed to convert.Unify / UnifyUnsafe is filled without regard to whether an argument is null: no 'if arg.IsNull() { continue }' guards the accumulation (a typed null still fixes the result type in the type-only prediction, so dropping it makes the prediction from values contradict the prediction from types)",
		Run: runPredictionIgnoresNullness,
	})
	register(&Rule{
		ID: "C12.null-skip-needs-known", Prop: "C12", Also: []string{"C11"}, Floor: 1, Controls: 0,
		Doc: "in an Impl callback, an argument of a parameter declared both AllowNull and AllowUnknown is skipped as null ('if arg.IsNull() { continue }') only where it is established to be known: IsNull answers false for an unknown value that may yet turn out to be null, so treating it as 'definitely not null' lets its value, type refinements included, decide the result",
		Run: runNullSkipNeedsKnown,
	})
}

func runPredictionIgnoresNullness(rr *RuleRun) {
	c := rr.Ctx
	pkg := "cty/function/stdlib"
	info := c.Info(pkg)
	done := map[*ast.BlockStmt]bool{}
	for _, s := range findSpecs(c, pkg) {
		if s.TypeCB == nil {
			continue
		}
		body, _, where := resolveCallback(c, pkg, s.TypeCB)
		if body == nil || done[body] {
			continue
		}
		done[body] = true
		// slices of types handed to a unification
		unified := map[types.Object]bool{}
		inspectNoLit(body, func(n ast.Node) bool {
			call, ok := n.(*ast.CallExpr)
			if !ok || !isCall(info, call, "cty/convert.Unify", "cty/convert.UnifyUnsafe") || len(call.Args) != 1 {
				return true
			}
			if o := objOf(info, call.Args[0]); o != nil {
				unified[o] = true
			}
			return true
		})
		for tys := range unified {
			name := s.Name
			if where != "literal" {
				name = where
			}
			key := fmt.Sprintf("%s.%s.Type/%s→unify", pkg, name, tys.Name())
			bad := false
			// loops whose body stores into tys
			inspectNoLit(body, func(n ast.Node) bool {
				var lbody *ast.BlockStmt
				switch x := n.(type) {
				case *ast.RangeStmt:
					lbody = x.Body
				case *ast.ForStmt:
					lbody = x.Body
				default:
					return true
				}
				stores := false
				inspectNoLit(lbody, func(m ast.Node) bool {
					if as, ok := m.(*ast.AssignStmt); ok {
						for _, l := range as.Lhs {
							if rootObj(info, l) == tys {
								stores = true
							}
							if ix, ok := l.(*ast.IndexExpr); ok && objOf(info, ix.X) == tys {
								stores = true
							}
						}
					}
					return true
				})
				if !stores {
					return true
				}
				for _, st := range lbody.List {
					is, ok := st.(*ast.IfStmt)
					if !ok {
						continue
					}
					nullTest := false
					ast.Inspect(is.Cond, func(m ast.Node) bool {
						if call, ok := m.(*ast.CallExpr); ok && isCall(info, call, "cty.Value.IsNull") {
							nullTest = true
						}
						return true
					})
					skips := false
					for _, bs := range is.Body.List {
						if br, ok := bs.(*ast.BranchStmt); ok && br.Tok == token.CONTINUE {
							skips = true
						}
					}
					// … or replaces the argument's type under the null test (tys[i] = something else)
					rewrites := false
					inspectNoLit(is.Body, func(m ast.Node) bool {
						if as, ok := m.(*ast.AssignStmt); ok {
							for _, l := range as.Lhs {
								if ix, ok := l.(*ast.IndexExpr); ok && objOf(info, ix.X) == tys {
									rewrites = true
								}
							}
						}
						return true
					})
					if nullTest && rewrites && !bad {
						bad = true
						rr.Violation(key, is.Pos(), fmt.Sprintf("the type recorded in %s for an argument is replaced when the argument is null ('%s'): the type-only prediction sees the argument's declared type whether or not it is null, so a typed null that decides the unified type makes the type predicted from values differ from the type predicted from types", tys.Name(), trunc(exprStr(is.Cond), 40)))
					}
					if nullTest && skips && !bad {
						bad = true
						rr.Violation(key, is.Pos(), fmt.Sprintf("the argument types collected in %s for unification leave out arguments that are null ('%s' then continue): the type-only prediction counts every argument, so a typed null that widens the unified type makes the type predicted from values differ from (and not conform to) the type predicted from types", tys.Name(), trunc(exprStr(is.Cond), 40)))
					}
				}
				return true
			})
			if !bad {
				rr.OK(key, body.Pos(), "no argument is left out of the unification because it is null")
			}
		}
	}
}

func runNullSkipNeedsKnown(rr *RuleRun) {
	c := rr.Ctx
	pkg := "cty/function/stdlib"
	info := c.Info(pkg)
	n := 0
	for _, s := range findSpecs(c, pkg) {
		if s.ImplCB == nil {
			continue
		}
		body, ftype, _ := resolveCallback(c, pkg, s.ImplCB)
		if body == nil || ftype == nil || ftype.Params == nil || len(ftype.Params.List) == 0 || len(ftype.Params.List[0].Names) == 0 {
			continue
		}
		argsObj := info.Defs[ftype.Params.List[0].Names[0]]
		// every covered parameter allows both null and unknown?
		all := s.covered(0)
		if len(all) == 0 {
			continue
		}
		both := true
		for _, p := range all {
			if !(p.AllowNull && p.AllowUnknown) {
				both = false
			}
		}
		if !both {
			continue
		}
		cf := c.CondFacts(body, info, nil)
		inspectNoLit(body, func(nd ast.Node) bool {
			rs, ok := nd.(*ast.RangeStmt)
			if !ok || objOf(info, rs.X) != argsObj || rs.Value == nil {
				return true
			}
			v := objOf(info, rs.Value)
			for _, st := range rs.Body.List {
				is, ok := st.(*ast.IfStmt)
				if !ok || !methodCond(info, is.Cond, v, "IsNull") {
					continue
				}
				skips := false
				for _, bs := range is.Body.List {
					if br, ok := bs.(*ast.BranchStmt); ok && br.Tok == token.CONTINUE {
						skips = true
					}
				}
				if !skips {
					continue
				}
				n++
				key := fmt.Sprintf("%s.%s.Impl/%s.IsNull()→continue", pkg, s.Name, v.Name())
				if cf.HoldsAt(is.Cond, func(cond ast.Expr, truth bool) bool {
					return truth && methodCond(info, cond, v, "IsKnown", "IsWhollyKnown")
				}) {
					rr.OK(key, is.Pos(), "the argument is established to be known before its nullness decides anything")
				} else {
					rr.Violation(key, is.Pos(), fmt.Sprintf("%s may be unknown here (its parameter allows unknown and null values) and is skipped only if IsNull() — which is false for an unknown value that may still turn out to be null: the argument is then treated as definitely not null and decides the result with whatever refinements it carries", v.Name()))
				}
			}
			return true
		})
	}
	if n == 0 {
		rr.Info(pkg+"/null-skip", token.NoPos, "no Impl callback skips null arguments of a parameter that allows unknown values")
	}
}

// ---------------------------------------------------------------------------
// C08.paired-index-needs-length

func init() {
	register(&Rule{
		ID: "C08.paired-index-needs-length", Prop: "C08", Also: []string{"C07", "C09", "C19", "C03"}, Floor: 6, Controls: 1,
		Doc: "where a loop runs over the members of one operand (a parameter or the receiver, or a slice read out of it) and uses the loop index to address the members of a different operand (B[i], B.TupleElementType(i)), some branch condition on every path to that access relates the two lengths (len(A) ⋚ len(B), A.Length() ⋚ B.Length()): two tuples / paths / member lists handed in by the caller need not have the same length, and the unguarded access panics with an index out of range",
		Run: runPairedIndexNeedsLength,
	})
}

func runPairedIndexNeedsLength(rr *RuleRun) {
	c := rr.Ctx
	eachFuncBody(c, []string{"cty", "cty/convert", "cty/function/stdlib", "cty/json", "cty/msgpack", "cty/gocty"}, func(pkg string, fd *ast.FuncDecl, body *ast.BlockStmt) {
		info := c.Info(pkg)
		if fd.Body != body {
			return // closures: parameters of the enclosing function are not roots here
		}
		// roots: receiver and parameters; derived: single-assignment locals defined from an expression that
		// mentions exactly one root
		rootOf := map[types.Object]types.Object{}
		addRoot := func(fl *ast.FieldList) {
			if fl == nil {
				return
			}
			for _, f := range fl.List {
				for _, nm := range f.Names {
					if o := info.Defs[nm]; o != nil {
						rootOf[o] = o
					}
				}
			}
		}
		addRoot(fd.Recv)
		addRoot(fd.Type.Params)
		if len(rootOf) < 2 {
			return
		}
		exprRoot := func(e ast.Expr) types.Object {
			var r types.Object
			multi := false
			ast.Inspect(e, func(n ast.Node) bool {
				if id, ok := n.(*ast.Ident); ok {
					if ro, ok := rootOf[info.Uses[id]]; ok {
						if r != nil && r != ro {
							multi = true
						}
						r = ro
					}
				}
				return true
			})
			if multi {
				return nil
			}
			return r
		}
		for pass := 0; pass < 3; pass++ {
			inspectNoLit(body, func(n ast.Node) bool {
				as, ok := n.(*ast.AssignStmt)
				if !ok || as.Tok != token.DEFINE || len(as.Lhs) != len(as.Rhs) {
					return true
				}
				for i, l := range as.Lhs {
					o := objOf(info, l)
					if o == nil || countAssigns(info, body, o) != 0 {
						continue
					}
					// only containers and types carry a length of their root
					switch o.Type().Underlying().(type) {
					case *types.Slice, *types.Map:
					default:
						if !isCtyType(o.Type()) && !isCtyValue(o.Type()) {
							continue
						}
					}
					if call, ok := ast.Unparen(as.Rhs[i]).(*ast.CallExpr); ok && isBuiltin(info, call, "make") {
						continue
					}
					if r := exprRoot(as.Rhs[i]); r != nil {
						if _, have := rootOf[o]; !have {
							rootOf[o] = r
						}
					}
				}
				return true
			})
		}
		cf := c.CondFacts(body, info, nil)
		lenish := func(e ast.Expr) types.Object {
			// len(X), X.Length(), X.LengthInt() → root of X
			call, ok := ast.Unparen(e).(*ast.CallExpr)
			if !ok {
				return nil
			}
			if isBuiltin(info, call, "len") && len(call.Args) == 1 {
				return exprRoot(call.Args[0])
			}
			if se, ok := call.Fun.(*ast.SelectorExpr); ok && (se.Sel.Name == "Length" || se.Sel.Name == "LengthInt") {
				return exprRoot(se.X)
			}
			return nil
		}
		relates := func(cond ast.Expr, a, b types.Object) bool {
			be, ok := ast.Unparen(cond).(*ast.BinaryExpr)
			if !ok {
				return false
			}
			switch be.Op {
			case token.EQL, token.NEQ, token.LSS, token.GTR, token.LEQ, token.GEQ:
			default:
				return false
			}
			x, y := lenish(be.X), lenish(be.Y)
			return (x == a && y == b) || (x == b && y == a)
		}
		inspectNoLit(body, func(n ast.Node) bool {
			var idx types.Object
			var over ast.Expr
			var lbody *ast.BlockStmt
			switch x := n.(type) {
			case *ast.RangeStmt:
				if x.Key == nil {
					return true
				}
				if _, isSlice := info.TypeOf(x.X).Underlying().(*types.Slice); !isSlice {
					return true
				}
				idx, over, lbody = objOf(info, x.Key), x.X, x.Body
			case *ast.ForStmt:
				// for i := 0; i < len(A) / A.Length(); i++
				be, ok := x.Cond.(*ast.BinaryExpr)
				if !ok || be.Op != token.LSS {
					return true
				}
				idx = objOf(info, be.X)
				if call, ok := ast.Unparen(be.Y).(*ast.CallExpr); ok {
					if isBuiltin(info, call, "len") && len(call.Args) == 1 {
						over = call.Args[0]
					} else if se, ok := call.Fun.(*ast.SelectorExpr); ok && (se.Sel.Name == "Length" || se.Sel.Name == "LengthInt") {
						over = se.X
					}
				}
				lbody = x.Body
			default:
				return true
			}
			if idx == nil || over == nil || lbody == nil {
				return true
			}
			a := exprRoot(over)
			if a == nil {
				return true
			}
			inspectNoLit(lbody, func(m ast.Node) bool {
				var target ast.Expr
				var at ast.Node
				switch y := m.(type) {
				case *ast.IndexExpr:
					if objOf(info, y.Index) == idx {
						if _, isSlice := info.TypeOf(y.X).Underlying().(*types.Slice); isSlice {
							target, at = y.X, y
						}
					}
				case *ast.CallExpr:
					if isCall(info, y, "cty.Type.TupleElementType") && len(y.Args) == 1 && objOf(info, y.Args[0]) == idx {
						target, at = y.Fun.(*ast.SelectorExpr).X, y
					}
				}
				if target == nil {
					return true
				}
				// assignment target (filling a result slice): not a read
				if as, ok := c.Parent(at).(*ast.AssignStmt); ok {
					for _, l := range as.Lhs {
						if l == at.(ast.Expr) {
							return true
						}
					}
				}
				b := exprRoot(target)
				if b == nil || b == a {
					return true
				}
				key := fmt.Sprintf("%s.%s/%s[%s over %s]", pkg, declName(fd), trunc(exprStr(target), 30), idx.Name(), trunc(exprStr(over), 30))
				if cf.HoldsAt(at, func(cond ast.Expr, truth bool) bool { return relates(cond, a, b) }) {
					rr.OK(key, at.Pos(), fmt.Sprintf("a branch condition relating the lengths of %s and %s is decided on every path to the access", a.Name(), b.Name()))
				} else {
					rr.Violation(key, at.Pos(), fmt.Sprintf("%s is addressed with the index of a loop over %s, and no branch condition on the way relates the lengths of %s and %s: when the caller passes operands of different length the access panics with an index out of range", exprStr(target), exprStr(over), b.Name(), a.Name()))
				}
				return true
			})
			return true
		})
	})
}

// ---------------------------------------------------------------------------
// C20.copy-is-fresh

func init() {
	register(&Rule{
		ID: "C20.copy-is-fresh", Prop: "C20", Also: []string{"C19"}, Floor: 1, Controls: 0,
		Doc: "a method named Copy whose result is a slice, map or pointer (Path.Copy) returns freshly allocated memory: a re-sliced or capacity-clipped view of the receiver still shares the receiver's backing array, so what the caller keeps is overwritten when the owner reuses its buffer (the walk reuses one path buffer for all siblings)",
		Run: runCopyIsFresh,
	})
}

func runCopyIsFresh(rr *RuleRun) {
	o := rr.Ctx.Own()
	for _, fn := range o.moduleFuncs() {
		if (fn.Name() != "Copy" && fn.Name() != "copy") || fn.Signature.Recv() == nil || fn.Signature.Results().Len() != 1 {
			continue
		}
		if !isMutableRef(fn.Signature.Results().At(0).Type()) {
			continue
		}
		if namedType(fn.Signature.Results().At(0).Type()) == "cty.unknownValRefinement" {
			continue // C20.builder-copy
		}
		sum := o.retSummaryOf(fn, 0, 0, nil)
		key := fnKey(fn)
		if sum != nil && sum.only(oFresh) {
			rr.OK(key, fn.Pos(), "returns fresh memory")
		} else {
			rr.Violation(key, fn.Pos(), fmt.Sprintf("%s does not return fresh memory (%s): the copy shares storage with the receiver, so a later write through the original (the reused path buffer of a walk, an append within capacity) changes what the caller kept", fn.Name(), sum))
		}
	}
}

// ---------------------------------------------------------------------------
// C20.no-payload-in-records

func init() {
	register(&Rule{
		ID: "C20.no-payload-in-records", Prop: "C20", Also: []string{"C19", "C04"}, Floor: 1, Controls: 0,
		Doc: "a record handed to callers (PathValueMarks) never receives a mark map or path that is payload memory of a value: what is stored into its Marks / Path fields is fresh, a copy, or caller-provided — never marker.marks itself, which every copy of the marked value shares",
		Run: runNoPayloadInRecords,
	})
}

func runNoPayloadInRecords(rr *RuleRun) {
	o := rr.Ctx.Own()
	for _, fn := range o.moduleFuncs() {
		if fn.Pkg == nil || shortPkg(fn.Pkg.Pkg) != "cty" {
			continue
		}
		var x *octx
		for _, b := range fn.Blocks {
			for _, in := range b.Instrs {
				st, ok := in.(*ssa.Store)
				if !ok {
					continue
				}
				fk := storedFieldKey(st)
				if fk != "cty.PathValueMarks.Marks" && fk != "cty.PathValueMarks.Path" {
					continue
				}
				if x == nil {
					x = o.newCtx(fn, 0)
				}
				org := x.origin(st.Val)
				key := fnKey(fn) + "/" + fk
				if a, ok := org.first(oPayload); ok {
					rr.Violation(key, instrPos(in), fmt.Sprintf("the record handed out to the caller receives payload memory of a value (%s via %s): the caller can change the marks of every copy of that value by writing to the map it was given", org.String(), a.Via))
				} else {
					rr.OK(key, instrPos(in), "stored: "+org.String())
				}
			}
		}
	}
}

// ---------------------------------------------------------------------------
// C16.ext-body-consumed

func init() {
	register(&Rule{
		ID: "C16.ext-body-consumed", Prop: "C16", Also: []string{"C17"}, Floor: 2, Controls: 0,
		Doc: "unmarshalUnknownValue returns a value without error only after the body of the extension whose header it decoded was read from the stream (a read from dec.Buffered() / the decoder) or was established to be empty (extLen compared with 0): returning with the body unread leaves the decoder in the middle of the extension, and every following member is decoded from the wrong bytes",
		Run: runExtBodyConsumed,
	})
}

func runExtBodyConsumed(rr *RuleRun) {
	c := rr.Ctx
	pkg := "cty/msgpack"
	info := c.Info(pkg)
	fd := rr.MustDecl(pkg, "unmarshalUnknownValue")
	if fd == nil {
		return
	}
	// the length variable: second result of DecodeExtHeader
	var extLen types.Object
	var hdr ast.Node
	inspectNoLit(fd.Body, func(n ast.Node) bool {
		if as, ok := n.(*ast.AssignStmt); ok && len(as.Rhs) == 1 && len(as.Lhs) == 3 {
			if call, ok := as.Rhs[0].(*ast.CallExpr); ok {
				if f := callee(info, call); f != nil && f.Name() == "DecodeExtHeader" {
					extLen, hdr = objOf(info, as.Lhs[1]), as
				}
			}
		}
		return true
	})
	if extLen == nil {
		rr.Broken("stale anchor: unmarshalUnknownValue does not call DecodeExtHeader")
		return
	}
	var readsBody func(n ast.Node) bool
	helperDepth := 0
	readsBody = func(n ast.Node) bool {
		found := false
		inspectNoLit(n, func(m ast.Node) bool {
			call, ok := m.(*ast.CallExpr)
			if !ok {
				return true
			}
			// a helper of the same package that does the reading (extracted 'read the body' function)
			if f := callee(info, call); f != nil && f.Pkg() != nil && shortPkg(f.Pkg()) == pkg && helperDepth < 2 {
				if hd := c.Decl(pkg, funcDeclKey(f)); hd != nil && hd.Body != nil && hd != fd {
					helperDepth++
					if readsBody(hd.Body) {
						found = true
					}
					helperDepth--
				}
			}
			switch funcKey(callee(info, call)) {
			case "io.ReadAtLeast", "io.ReadFull", "io.CopyN":
				found = true
			}
			if f := callee(info, call); f != nil && f.Pkg() != nil && strings.Contains(f.Pkg().Path(), "vmihailenco/msgpack") {
				switch f.Name() {
				case "Skip", "ReadFull", "DecodeBytes", "DecodeRaw":
					found = true
				}
			}
			return true
		})
		return found
	}
	extra := func(n ast.Node) []Effect {
		if _, isStmt := n.(ast.Stmt); isStmt && readsBody(n) {
			return []Effect{{Assert: &Fact{"consumed", "ext"}}}
		}
		if _, isExpr := n.(ast.Expr); isExpr && readsBody(n) {
			return []Effect{{Assert: &Fact{"consumed", "ext"}}}
		}
		return nil
	}
	extraAtom := func(cond ast.Expr, truth bool) []Fact {
		be, ok := ast.Unparen(cond).(*ast.BinaryExpr)
		if !ok || objOf(info, be.X) != extLen {
			return nil
		}
		v, ok := constInt(info, be.Y)
		if !ok {
			return nil
		}
		empty := false
		switch be.Op {
		case token.GTR: // extLen > 0 false
			empty = !truth && v == 0
		case token.GEQ: // extLen >= 1 false
			empty = !truth && v == 1
		case token.LEQ: // extLen <= 0 true
			empty = truth && v == 0
		case token.LSS: // extLen < 1 true
			empty = truth && v == 1
		case token.EQL:
			empty = truth && v == 0
		}
		if empty {
			return []Fact{{"consumed", "ext"}}
		}
		return nil
	}
	cf := c.CondFactsX(fd.Body, info, extra, extraAtom)
	g := c.CFG(fd.Body, info)
	n := 0
	for _, ret := range g.Returns() {
		if len(ret.Results) != 2 || !isNilIdent(info, ret.Results[1]) || !g.Dominates(hdr, ret) {
			continue
		}
		n++
		key := fmt.Sprintf("%s.unmarshalUnknownValue/return %s", pkg, trunc(exprStr(ret.Results[0]), 30))
		if cf.HasFact(ret, "consumed", "ext") {
			rr.OK(key, ret.Pos(), "the extension body was read or is empty on every path to this return")
		} else {
			rr.Violation(key, ret.Pos(), "a value is returned without error on a path that has neither read the body of the extension nor established that it is empty: the decoder is left inside the extension and the rest of the stream is decoded from the wrong position")
		}
	}
	if n == 0 {
		rr.Broken("stale anchor: unmarshalUnknownValue has no successful return after DecodeExtHeader")
	}
}

// ---------------------------------------------------------------------------
// C06.constructor-consistency-agreement

func init() {
	register(&Rule{
		ID: "C06.constructor-consistency-agreement", Prop: "C06", Also: []string{"C17", "C08"}, Floor: 2, Controls: 0,
		Doc: "sibling agreement between ListVal, MapVal, SetVal and their Can*Val predicates: the condition under which a member's type is rejected as inconsistent with the element type seen so far is the same in all six (after renaming locals) — the constructors must reject exactly what the predicates report, and lists, maps and sets must not differ in which mixtures of member types they admit",
		Run: runConstructorConsistencyAgreement,
	})
}

func runConstructorConsistencyAgreement(rr *RuleRun) {
	c := rr.Ctx
	info := c.Info("cty")
	names := []string{"ListVal", "CanListVal", "MapVal", "CanMapVal", "SetVal", "CanSetVal"}
	guards := map[string]string{}
	pos := map[string]token.Pos{}
	for _, name := range names {
		fd := c.Decl("cty", name)
		if fd == nil {
			continue
		}
		// the if / else-if chain directly inside the loop over the members:
		//   if SEED (no element type yet) { adopt } else if GUARD { reject }
		inspectNoLit(fd.Body, func(n ast.Node) bool {
			rs, ok := n.(*ast.RangeStmt)
			if !ok || guards[name] != "" {
				return true
			}
			for _, st := range rs.Body.List {
				var c1, c2 ast.Expr
				switch x := st.(type) {
				case *ast.IfStmt:
					if ei, ok := x.Else.(*ast.IfStmt); ok {
						c1, c2 = x.Cond, ei.Cond
					}
				case *ast.SwitchStmt:
					// the same chain written as a tagless switch
					if x.Tag == nil && len(x.Body.List) >= 2 {
						a, b := x.Body.List[0].(*ast.CaseClause), x.Body.List[1].(*ast.CaseClause)
						if len(a.List) == 1 && len(b.List) == 1 {
							c1, c2 = a.List[0], b.List[0]
						}
					}
				}
				if c1 == nil {
					continue
				}
				cc := &canonCtx{info: info, subst: map[types.Object]string{}, locals: map[types.Object]string{}}
				guards[name] = "if " + cc.expr(c1) + " adopt, else if " + cc.expr(c2) + " reject"
				pos[name] = st.Pos()
				break
			}
			return true
		})
	}
	for _, name := range names {
		if _, ok := guards[name]; !ok && c.Decl("cty", name) != nil {
			rr.Assumed("cty."+name+"/consistency-guard", c.Decl("cty", name).Pos(), "the member-type test is not an if / else-if chain in the loop over the members (delegated to a helper or written differently): not compared")
		}
	}
	if len(guards) < 2 {
		// all of them may delegate the member-type test to one shared helper: agreement by construction
		helperOf := map[string]*types.Func{}
		for _, name := range names {
			fd := c.Decl("cty", name)
			if fd == nil {
				continue
			}
			inspectNoLit(fd.Body, func(n ast.Node) bool {
				rs, ok := n.(*ast.RangeStmt)
				if !ok || helperOf[name] != nil {
					return true
				}
				inspectNoLit(rs.Body, func(m ast.Node) bool {
					call, ok := m.(*ast.CallExpr)
					if !ok || helperOf[name] != nil {
						return true
					}
					f := callee(info, call)
					if f == nil || f.Pkg() == nil || shortPkg(f.Pkg()) != "cty" || f.Type().(*types.Signature).Recv() != nil || f.Exported() {
						return true
					}
					for _, a := range call.Args {
						if isCtyType(info.TypeOf(a)) {
							helperOf[name] = f
						}
					}
					return true
				})
				return true
			})
		}
		var shared *types.Func
		same := len(helperOf) > 0
		for _, name := range names {
			if c.Decl("cty", name) == nil {
				continue
			}
			h := helperOf[name]
			if h == nil || (shared != nil && h != shared) {
				same = false
			}
			shared = h
		}
		if same && len(guards) == 0 {
			for _, name := range names {
				if fd := c.Decl("cty", name); fd != nil {
					rr.OK("cty."+name+"/consistency-guard(shared helper)", fd.Pos(), "the member-type test of all six constructors / predicates is delegated to the one helper "+shared.Name()+": they agree by construction")
				}
			}
			return
		}
		rr.Broken(fmt.Sprintf("stale anchor: the element-type consistency guard was found in only %d of the six constructors / predicates", len(guards)))
		return
	}
	count := map[string]int{}
	for _, g := range guards {
		count[g]++
	}
	major, best := "", 0
	for g, n := range count {
		if n > best || (n == best && g < major) {
			major, best = g, n
		}
	}
	for _, name := range names {
		g, ok := guards[name]
		if !ok {
			continue
		}
		key := "cty." + name + "/consistency-guard"
		if g == major {
			rr.OK(key, pos[name], "rejects a member type under the same condition as its siblings: "+g)
		} else {
			rr.Violation(key, pos[name], fmt.Sprintf("%s rejects a member type under the condition %s, while %d of its siblings use %s: the constructors and their Can*Val predicates (and lists, maps, sets among themselves) disagree on which mixtures of member types are admitted, so a collection with members of different types can be built, or a predicate approves what the constructor panics on", name, g, best, major))
		}
	}
}

// ---------------------------------------------------------------------------
// C05.prefix-contradiction-both-ways

func init() {
	register(&Rule{
		ID: "C05.prefix-contradiction-both-ways", Prop: "C05", Floor: 1, Controls: 0,
		Doc: "StringPrefixFull rejects (panics on) a new prefix that contradicts the recorded one whichever of the two is longer: there is a contradiction panic whose path condition compares the new prefix with the recorded prefix, and the panics of that kind are not all confined to one outcome of a comparison of the two lengths (a shorter new prefix that disagrees with the recorded one must be rejected just like a longer one)",
		Run: runPrefixContradictionBothWays,
	})
}

func runPrefixContradictionBothWays(rr *RuleRun) {
	c := rr.Ctx
	info := c.Info("cty")
	fd := rr.MustDecl("cty", "RefinementBuilder.StringPrefixFull")
	if fd == nil {
		return
	}
	param := info.Defs[paramIdent(fd, 0)]
	isRecorded := func(e ast.Expr) bool { // wip.prefix
		se, ok := ast.Unparen(e).(*ast.SelectorExpr)
		return ok && se.Sel.Name == "prefix" && namedType(info.TypeOf(se.X)) == "cty.refinementString"
	}
	// variables derived from the recorded prefix / from the new prefix
	fromRec, fromNew := map[types.Object]bool{}, map[types.Object]bool{param: true}
	mentions := func(e ast.Expr, set map[types.Object]bool, sel bool) bool {
		found := false
		ast.Inspect(e, func(n ast.Node) bool {
			if ex, ok := n.(ast.Expr); ok && sel && isRecorded(ex) {
				found = true
			}
			if id, ok := n.(*ast.Ident); ok && set[info.Uses[id]] {
				found = true
			}
			return !found
		})
		return found
	}
	for pass := 0; pass < 3; pass++ {
		inspectNoLit(fd.Body, func(n ast.Node) bool {
			as, ok := n.(*ast.AssignStmt)
			if !ok || len(as.Lhs) != len(as.Rhs) {
				return true
			}
			for i, l := range as.Lhs {
				o := objOf(info, l)
				if o == nil {
					continue
				}
				if b, ok := o.Type().Underlying().(*types.Basic); !ok || b.Kind() != types.String {
					continue
				}
				if mentions(as.Rhs[i], fromRec, true) {
					fromRec[o] = true
				}
				if mentions(as.Rhs[i], fromNew, false) && o != param {
					fromNew[o] = true
				}
			}
			return true
		})
	}
	isLenOf := func(e ast.Expr, rec bool) bool {
		call, ok := ast.Unparen(e).(*ast.CallExpr)
		if !ok || !isBuiltin(info, call, "len") || len(call.Args) != 1 {
			return false
		}
		if rec {
			return isRecorded(call.Args[0])
		}
		return objOf(info, call.Args[0]) == param
	}
	lengthRelation := func(cond ast.Expr) bool {
		be, ok := ast.Unparen(cond).(*ast.BinaryExpr)
		if !ok {
			return false
		}
		return (isLenOf(be.X, true) && isLenOf(be.Y, false)) || (isLenOf(be.X, false) && isLenOf(be.Y, true))
	}
	comparesContent := func(cond ast.Expr) bool {
		// have != new, strings.HasPrefix(a, b) … with one side from the recorded and one from the new prefix
		return mentions(cond, fromRec, true) && mentions(cond, fromNew, false) && !lengthRelation(cond)
	}
	cf := c.CondFacts(fd.Body, info, nil)
	type pan struct {
		pos      token.Pos
		confined string
	}
	var pans []pan
	inspectNoLit(fd.Body, func(n ast.Node) bool {
		call, ok := n.(*ast.CallExpr)
		if !ok || !isBuiltin(info, call, "panic") {
			return true
		}
		if !cf.HoldsAt(call, func(cond ast.Expr, truth bool) bool { return comparesContent(cond) }) {
			return true
		}
		confined := ""
		cf.HoldsAt(call, func(cond ast.Expr, truth bool) bool {
			if lengthRelation(cond) {
				confined = fmt.Sprintf("%s is %v", exprStr(cond), truth)
			}
			return false
		})
		pans = append(pans, pan{call.Pos(), confined})
		return true
	})
	key := "cty.RefinementBuilder.StringPrefixFull/contradiction-with-recorded-prefix"
	if len(pans) == 0 {
		rr.Violation(key, fd.Pos(), "no panic in StringPrefixFull is conditioned on a comparison of the new prefix with the recorded one: a new prefix that contradicts an earlier constraint is accepted")
		return
	}
	free := false
	outcomes := map[string]bool{}
	for _, p := range pans {
		if p.confined == "" {
			free = true
		}
		outcomes[p.confined] = true
	}
	if free || len(outcomes) >= 2 {
		rr.OK(key, pans[0].pos, fmt.Sprintf("%d contradiction panic(s), not confined to one outcome of a length comparison", len(pans)))
		return
	}
	rr.Violation(key, pans[0].pos, fmt.Sprintf("every panic that rejects a prefix contradicting the recorded one is reached only when %s: for the other outcome a contradicting prefix is silently accepted (and the recorded constraint is kept or replaced without the two being compared)", pans[0].confined))
}

// ---------------------------------------------------------------------------
// C05.known-prefix-whole-value

func init() {
	register(&Rule{
		ID: "C05.known-prefix-whole-value", Prop: "C05", Floor: 1, Controls: 0,
		Doc: "StringPrefixFull on a known string compares the prefix with the whole string: the known string (b.orig.AsString()) is not cut down to a length derived from the new prefix before the two are compared, unless the lengths themselves are compared with a panic — a known value \"foo\" contradicts the prefix \"foo-bar\" although their overlapping parts agree",
		Run: runKnownPrefixWholeValue,
	})
}

func runKnownPrefixWholeValue(rr *RuleRun) {
	c := rr.Ctx
	info := c.Info("cty")
	fd := rr.MustDecl("cty", "RefinementBuilder.StringPrefixFull")
	if fd == nil {
		return
	}
	param := info.Defs[paramIdent(fd, 0)]
	key := "cty.RefinementBuilder.StringPrefixFull/known-value"
	// the known string: results of AsString() on the original value
	known := map[types.Object]bool{}
	var asString *ast.CallExpr
	inspectNoLit(fd.Body, func(n ast.Node) bool {
		if call, ok := n.(*ast.CallExpr); ok && isCall(info, call, "cty.Value.AsString") {
			asString = call
			if as, ok := c.Parent(call).(*ast.AssignStmt); ok && len(as.Lhs) == 1 {
				if o := objOf(info, as.Lhs[0]); o != nil {
					known[o] = true
				}
			}
		}
		return true
	})
	if asString == nil {
		rr.Violation(key, fd.Pos(), "StringPrefixFull never reads the string of a known value: a prefix that contradicts a known value is accepted")
		return
	}
	// lengths derived from the new prefix
	fromNew := map[types.Object]bool{param: true}
	ment := func(e ast.Expr) bool {
		found := false
		ast.Inspect(e, func(n ast.Node) bool {
			if id, ok := n.(*ast.Ident); ok && fromNew[info.Uses[id]] {
				found = true
			}
			return !found
		})
		return found
	}
	for pass := 0; pass < 3; pass++ {
		inspectNoLit(fd.Body, func(n ast.Node) bool {
			if as, ok := n.(*ast.AssignStmt); ok && len(as.Lhs) == len(as.Rhs) {
				for i, l := range as.Lhs {
					if o := objOf(info, l); o != nil && !known[o] && ment(as.Rhs[i]) {
						fromNew[o] = true
					}
				}
			}
			return true
		})
	}
	var cut *ast.SliceExpr
	inspectNoLit(fd.Body, func(n ast.Node) bool {
		se, ok := n.(*ast.SliceExpr)
		if !ok || !known[objOf(info, se.X)] {
			return true
		}
		if (se.High != nil && ment(se.High)) || (se.Low != nil && ment(se.Low)) {
			cut = se
		}
		return true
	})
	if cut == nil {
		rr.OK(key, asString.Pos(), "the known string is compared without being cut to the length of the prefix")
		return
	}
	// a panic conditioned on a comparison of the two lengths makes the cut harmless
	cf := c.CondFacts(fd.Body, info, nil)
	lengthPanic := false
	inspectNoLit(fd.Body, func(n ast.Node) bool {
		call, ok := n.(*ast.CallExpr)
		if !ok || !isBuiltin(info, call, "panic") {
			return true
		}
		if cf.HoldsAt(call, func(cond ast.Expr, truth bool) bool {
			be, ok := ast.Unparen(cond).(*ast.BinaryExpr)
			if !ok {
				return false
			}
			isLen := func(e ast.Expr, ofKnown bool) bool {
				lc, ok := ast.Unparen(e).(*ast.CallExpr)
				if !ok || !isBuiltin(info, lc, "len") || len(lc.Args) != 1 {
					return false
				}
				o := objOf(info, lc.Args[0])
				if ofKnown {
					return known[o]
				}
				return o == param
			}
			return (isLen(be.X, true) && isLen(be.Y, false)) || (isLen(be.X, false) && isLen(be.Y, true))
		}) {
			lengthPanic = true
		}
		return true
	})
	if lengthPanic {
		rr.OK(key, cut.Pos(), "the known string is cut to the overlap, and the lengths are compared with a panic")
	} else {
		rr.Violation(key, cut.Pos(), fmt.Sprintf("the known string is cut down to %s, a length derived from the new prefix, before it is compared with it, and the two lengths are never compared: a prefix longer than the known string (\"foo-bar\" for the value \"foo\") agrees on the overlap and is accepted although it contradicts the value", exprStr(cut)))
	}
}

// ---------------------------------------------------------------------------
// C01.stored-count-is-not-length

func init() {
	register(&Rule{
		ID: "C01.stored-count-is-not-length", Prop: "C01", Also: []string{"C05", "C12"}, Floor: 4, Controls: 0,
		Doc: "in package cty, LengthInt() — the number of members physically stored — is taken as the length of a value only where the branch conditions exclude a set (a kind test of the value's type decided accordingly) or establish that the value is wholly known: a set holding unknown members may coalesce, so its stored count is only an upper bound of its length, and a definite answer or a lower bound derived from it can be wrong",
		Run: runStoredCountIsNotLength,
	})
}

func runStoredCountIsNotLength(rr *RuleRun) {
	c := rr.Ctx
	info := c.Info("cty")
	for _, fd := range c.SortedDecls("cty") {
		if declName(fd) == "Value.LengthInt" {
			continue
		}
		var calls []*ast.CallExpr
		inspectNoLit(fd.Body, func(n ast.Node) bool {
			if call, ok := n.(*ast.CallExpr); ok && isCall(info, call, "cty.Value.LengthInt") {
				calls = append(calls, call)
			}
			return true
		})
		if len(calls) == 0 {
			continue
		}
		cf := c.CondFacts(fd.Body, info, nil)
		for _, call := range calls {
			subj := call.Fun.(*ast.SelectorExpr).X
			so := rootObj(info, subj)
			key := fmt.Sprintf("cty.%s/%s", declName(fd), exprStr(call))
			if so == nil {
				rr.Assumed(key, call.Pos(), "the subject is not a variable")
				continue
			}
			if !countDecidesSomething(c, info, fd, call) {
				rr.OKTrivial(key, call.Pos(), "the count only sizes an allocation or bounds a loop")
				continue
			}
			// type aliases: ty := val.Type()
			tyOf := map[types.Object]bool{}
			inspectNoLit(fd.Body, func(n ast.Node) bool {
				if as, ok := n.(*ast.AssignStmt); ok && len(as.Lhs) == len(as.Rhs) {
					for i, r := range as.Rhs {
						if tc, ok := ast.Unparen(r).(*ast.CallExpr); ok && isCall(info, tc, "cty.Value.Type") && rootObj(info, tc) == so {
							if o := objOf(info, as.Lhs[i]); o != nil {
								tyOf[o] = true
							}
						}
						if se, ok := ast.Unparen(r).(*ast.SelectorExpr); ok && se.Sel.Name == "ty" && rootObj(info, se) == so {
							if o := objOf(info, as.Lhs[i]); o != nil {
								tyOf[o] = true
							}
						}
					}
				}
				return true
			})
			aboutSubjType := func(e ast.Expr) bool { // val.Type(), val.ty, ty (alias)
				r := rootObj(info, e)
				return r == so || tyOf[r]
			}
			ok := cf.HoldsAt(call, func(cond ast.Expr, truth bool) bool {
				cc, isCall_ := ast.Unparen(cond).(*ast.CallExpr)
				if !isCall_ {
					return false
				}
				se, isSel := cc.Fun.(*ast.SelectorExpr)
				if !isSel {
					return false
				}
				switch se.Sel.Name {
				case "IsWhollyKnown":
					return truth && rootObj(info, se.X) == so
				case "IsSetType":
					return !truth && aboutSubjType(se.X)
				case "IsListType", "IsMapType", "IsTupleType", "IsObjectType":
					return truth && aboutSubjType(se.X)
				}
				return false
			})
			if ok {
				rr.OK(key, call.Pos(), "not a set, or wholly known, on every path to the call")
			} else {
				rr.Violation(key, call.Pos(), fmt.Sprintf("the stored member count of %s is used on a path that neither excludes a set nor establishes that the value is wholly known: for a set with unknown members the count is only an upper bound (unknown members may turn out equal to others), so a definite length, a lower bound or a definite 'not included' derived from it can be wrong", exprStr(subj)))
			}
		}
	}
}

// countDecidesSomething: the LengthInt result (directly or through the variable it is assigned to) is
// compared, becomes a cty number, or becomes a length bound of a refinement / range.
func countDecidesSomething(c *Ctx, info *types.Info, fd *ast.FuncDecl, call *ast.CallExpr) bool {
	deciding := func(e ast.Expr) bool {
		var child ast.Node = e
		for p := c.Parent(e); p != nil; child, p = p, c.Parent(p) {
			switch x := p.(type) {
			case *ast.ParenExpr:
				continue
			case *ast.BinaryExpr:
				switch x.Op {
				case token.EQL, token.NEQ, token.LSS, token.GTR, token.LEQ, token.GEQ:
					// an emptiness test (compared with the constant 0) is exact for every kind
					other := x.X
					if ast.Node(x.X) == child {
						other = x.Y
					}
					if v, ok := constInt(info, other); ok && v == 0 {
						return false
					}
					return true
				}
				continue // arithmetic on the count
			case *ast.CallExpr:
				if tv, ok := info.Types[x.Fun]; ok && tv.IsType() {
					continue // conversion int64(n)
				}
				if isBuiltin(info, x, "make") {
					return false
				}
				switch funcKey(callee(info, x)) {
				case "cty.NumberIntVal", "cty.NumberUIntVal", "cty.NumberVal", "cty.NumberFloatVal",
					"cty.RefinementBuilder.CollectionLength", "cty.RefinementBuilder.CollectionLengthLowerBound", "cty.RefinementBuilder.CollectionLengthUpperBound":
					return true
				}
				return false
			case *ast.KeyValueExpr:
				if id, ok := x.Key.(*ast.Ident); ok && (id.Name == "minLen" || id.Name == "maxLen") && x.Value == child {
					return true
				}
				return false
			case *ast.ReturnStmt:
				return true
			default:
				return false
			}
		}
		return false
	}
	if deciding(call) {
		return true
	}
	// assigned to a variable: look at the variable's uses
	as, ok := c.Parent(call).(*ast.AssignStmt)
	if !ok {
		if ce, isConv := c.Parent(call).(*ast.CallExpr); isConv {
			as, ok = c.Parent(ce).(*ast.AssignStmt)
		}
		if !ok {
			return false
		}
	}
	res := false
	for _, l := range as.Lhs {
		o := objOf(info, l)
		if o == nil {
			continue
		}
		inspectNoLit(fd.Body, func(n ast.Node) bool {
			if id, ok := n.(*ast.Ident); ok && info.Uses[id] == o && deciding(id) {
				res = true
			}
			return true
		})
	}
	return res
}

// runSetEqualsWhollyKnown: in Value.Equals, wherever the branch conditions establish a set type, a
// definite difference (a bool variable set to false, or a return of False) needs both operands wholly known.
func runSetEqualsWhollyKnown(rr *RuleRun) {
	c := rr.Ctx
	info := c.Info("cty")
	fd := rr.MustDecl("cty", "Value.Equals")
	if fd == nil {
		return
	}
	recv := info.Defs[fd.Recv.List[0].Names[0]]
	other := info.Defs[paramIdent(fd, 0)]
	cf := c.CondFacts(fd.Body, info, nil)
	inSetBranch := func(n ast.Node) bool {
		return cf.HoldsAt(n, func(cond ast.Expr, truth bool) bool {
			call, ok := ast.Unparen(cond).(*ast.CallExpr)
			if !ok || !truth {
				return false
			}
			se, ok := call.Fun.(*ast.SelectorExpr)
			return ok && se.Sel.Name == "IsSetType" && isCtyType(info.TypeOf(se.X))
		})
	}
	bothWK := func(n ast.Node) bool {
		a := cf.HoldsAt(n, func(cond ast.Expr, truth bool) bool { return truth && methodCond(info, cond, recv, "IsWhollyKnown") })
		b := cf.HoldsAt(n, func(cond ast.Expr, truth bool) bool { return truth && methodCond(info, cond, other, "IsWhollyKnown") })
		return a && b
	}
	n := 0
	inspectNoLit(fd.Body, func(nd ast.Node) bool {
		as, ok := nd.(*ast.AssignStmt)
		if !ok || len(as.Lhs) != 1 || len(as.Rhs) != 1 {
			return true
		}
		tv, ok := info.Types[as.Rhs[0]]
		if !ok || tv.Value == nil || tv.Value.String() != "false" || !inSetBranch(as) {
			return true
		}
		n++
		key := "cty.Value.Equals/set/" + exprStr(as.Lhs[0]) + "=false"
		if bothWK(as) {
			rr.OK(key, as.Pos(), "both sets are wholly known where a difference is recorded")
		} else {
			rr.Violation(key, as.Pos(), "a definite difference between two sets is recorded on a path that has not established that both sets are wholly known: a member containing an unknown value matches no member of the other set yet but may turn out to be equal to one, so the concrete sets can be equal")
		}
		return true
	})
	if n == 0 {
		rr.Info("cty.Value.Equals/set", fd.Pos(), "the set branch of Equals records no difference by assignment")
	}
}

// ---------------------------------------------------------------------------
// C17.refined-length-bounded

func init() {
	register(&Rule{
		ID: "C17.refined-length-bounded", Prop: "C17", Floor: 2, Controls: 0,
		Doc: "an integer read from MessagePack input (DecodeInt and its siblings) becomes a collection-length bound of a refinement (CollectionLengthLowerBound / UpperBound / CollectionLength) only after it was compared with a constant limit: when both bounds are equal RefinementBuilder.NewValue materialises a known list with that many (unknown) elements, so an unbounded length lets a few bytes of input demand an arbitrarily large allocation",
		Run: runRefinedLengthBounded,
	})
}

func runRefinedLengthBounded(rr *RuleRun) {
	c := rr.Ctx
	pkg := "cty/msgpack"
	eachFuncBody(c, []string{pkg}, func(pkg string, fd *ast.FuncDecl, body *ast.BlockStmt) {
		info := c.Info(pkg)
		// integers decoded from the input
		decoded := map[types.Object]string{}
		inspectNoLit(body, func(n ast.Node) bool {
			as, ok := n.(*ast.AssignStmt)
			if !ok || len(as.Rhs) != 1 || len(as.Lhs) < 1 {
				return true
			}
			call, ok := ast.Unparen(as.Rhs[0]).(*ast.CallExpr)
			if !ok {
				return true
			}
			f := callee(info, call)
			if f == nil || f.Pkg() == nil || !strings.Contains(f.Pkg().Path(), "vmihailenco/msgpack") || !strings.HasPrefix(f.Name(), "Decode") {
				return true
			}
			if o := objOf(info, as.Lhs[0]); o != nil {
				if b, ok := o.Type().Underlying().(*types.Basic); ok && b.Info()&types.IsInteger != 0 {
					decoded[o] = f.Name()
				}
			}
			return true
		})
		if len(decoded) == 0 {
			return
		}
		var cf *CondFacts
		inspectNoLit(body, func(n ast.Node) bool {
			call, ok := n.(*ast.CallExpr)
			if !ok || !isCall(info, call, "cty.RefinementBuilder.CollectionLengthLowerBound", "cty.RefinementBuilder.CollectionLengthUpperBound", "cty.RefinementBuilder.CollectionLength") || len(call.Args) != 1 {
				return true
			}
			var src types.Object
			ast.Inspect(call.Args[0], func(m ast.Node) bool {
				if id, ok := m.(*ast.Ident); ok {
					if _, isDec := decoded[info.Uses[id]]; isDec {
						src = info.Uses[id]
					}
				}
				return true
			})
			if src == nil {
				return true
			}
			if cf == nil {
				cf = c.CondFacts(body, info, nil)
			}
			key := fmt.Sprintf("%s.%s/%s←%s", pkg, declName(fd), call.Fun.(*ast.SelectorExpr).Sel.Name, decoded[src])
			bounded := cf.HoldsAt(call, func(cond ast.Expr, truth bool) bool {
				be, ok := ast.Unparen(cond).(*ast.BinaryExpr)
				if !ok {
					return false
				}
				// src <= K / src < K true, or src > K / src >= K false (either operand order)
				isSrc := func(e ast.Expr) bool { return objOf(info, e) == src }
				isK := func(e ast.Expr) bool { _, ok := constInt(info, e); return ok }
				switch {
				case isSrc(be.X) && isK(be.Y):
					return (truth && (be.Op == token.LEQ || be.Op == token.LSS)) || (!truth && (be.Op == token.GTR || be.Op == token.GEQ))
				case isK(be.X) && isSrc(be.Y):
					return (truth && (be.Op == token.GEQ || be.Op == token.GTR)) || (!truth && (be.Op == token.LSS || be.Op == token.LEQ))
				}
				return false
			})
			if bounded {
				rr.OK(key, call.Pos(), "the decoded length was compared with a constant limit on every path to this call")
			} else {
				rr.Violation(key, call.Pos(), fmt.Sprintf("%s, read from the input by %s, becomes a length bound of the refinement without having been compared with any limit: with equal lower and upper bounds NewValue builds a known list of that many elements, so an input of a few bytes demands an allocation of arbitrary size", src.Name(), decoded[src]))
			}
			return true
		})
	})
}

// ---------------------------------------------------------------------------
// C10.argerror-carries-index, C12.json-prefix-sniff-trimmed, C19.descending-loop-reaches-zero,
// C18.fresh-container, C07 nil-ness in Equals, C12.flatten-needs-known-length

func init() {
	register(&Rule{
		ID: "C10.argerror-carries-index", Prop: "C10", Also: []string{"C11"}, Floor: 2, Controls: 0,
		Doc: "the constructors of ArgError (NewArgError, NewArgErrorf) set the Index field from their index parameter in every ArgError they build: an argument error that names argument 0 whatever the offending position misleads the caller about which argument broke the contract",
		Run: runArgErrorCarriesIndex,
	})
	register(&Rule{
		ID: "C12.json-prefix-sniff-trimmed", Prop: "C12", Also: []string{"C11"}, Floor: 1, Controls: 0,
		Doc: "JSONDecodeFunc's type prediction for an unknown document sniffs the first significant character from the known prefix with all four JSON whitespace characters (space, tab, LF, CR) removed — strings.TrimSpace, or a TrimLeft whose cutset contains all four — and from that trimmed string, not from the raw prefix: otherwise a prefix that begins with whitespace is rejected although every document with that prefix decodes",
		Run: runJSONPrefixSniffTrimmed,
	})
	register(&Rule{
		ID: "C19.descending-loop-reaches-zero", Prop: "C19", Also: []string{"C03", "C07", "C09"}, Floor: 0, Controls: 1,
		Doc: "a loop that walks a slice from its last index downwards and addresses members with the loop index alone (x[i], never x[i-1]) continues while the index is >= 0: with '> 0' the member at index 0 is never visited, so two sequences that differ only in their first member are treated alike",
		Run: runDescendingLoopReachesZero,
	})
	register(&Rule{
		ID: "C18.fresh-container", Prop: "C18", Also: []string{"C20"}, Floor: 1, Controls: 0,
		Doc: "fromCtyMap stores decoded entries only into a map it made itself (reflect.MakeMap on every path to SetMapIndex), never into the map the target already holds: decoding into a reused target must not keep the keys of its earlier contents, nor write into a map the caller may share",
		Run: runFreshContainer,
	})
	register(&Rule{
		ID: "C12.flatten-needs-known-length", Prop: "C12", Also: []string{"C11"}, Floor: 1, Controls: 0,
		Doc: "the recursive helper of flatten iterates over a member only where its Length() is known (or it is wholly known): a set holding unknown members has no definite length or order, so iterating it by stored members fixes a result length that the concrete value may not have",
		Run: runFlattenNeedsKnownLength,
	})
}

func runArgErrorCarriesIndex(rr *RuleRun) {
	c := rr.Ctx
	pkg := "cty/function"
	info := c.Info(pkg)
	for _, name := range []string{"NewArgError", "NewArgErrorf"} {
		fd := rr.MustDecl(pkg, name)
		if fd == nil {
			continue
		}
		idx := info.Defs[paramIdent(fd, 0)]
		n := 0
		inspectNoLit(fd.Body, func(nd ast.Node) bool {
			lit, ok := nd.(*ast.CompositeLit)
			if !ok || namedType(info.TypeOf(lit)) != "cty/function.ArgError" {
				return true
			}
			n++
			key := fmt.Sprintf("%s.%s/ArgError{…}", pkg, name)
			set := false
			for i, el := range lit.Elts {
				if kv, ok := el.(*ast.KeyValueExpr); ok {
					if id, ok := kv.Key.(*ast.Ident); ok && id.Name == "Index" && objOf(info, kv.Value) == idx {
						set = true
					}
				} else if i == 1 && objOf(info, el) == idx {
					set = true
				}
			}
			if set {
				rr.OK(key, lit.Pos(), "Index is the index parameter")
			} else {
				rr.Violation(key, lit.Pos(), "this ArgError is built without its Index set from the index parameter: the error then names argument 0 whatever the offending position")
			}
			return true
		})
		if n == 0 {
			rr.Assumed(fmt.Sprintf("%s.%s", pkg, name), fd.Pos(), "no ArgError literal in the constructor (built elsewhere)")
		}
	}
}

func runJSONPrefixSniffTrimmed(rr *RuleRun) {
	c := rr.Ctx
	pkg := "cty/function/stdlib"
	info := c.Info(pkg)
	for _, s := range findSpecs(c, pkg) {
		if s.Name != "JSONDecodeFunc" || s.TypeCB == nil {
			continue
		}
		body, _, _ := resolveCallback(c, pkg, s.TypeCB)
		if body == nil {
			continue
		}
		fullTrim := func(e ast.Expr) (bool, string) {
			call, ok := ast.Unparen(e).(*ast.CallExpr)
			if !ok {
				return false, ""
			}
			switch funcKey(callee(info, call)) {
			case "strings.TrimSpace":
				return true, ""
			case "strings.TrimLeft", "strings.Trim":
				if tv, ok := info.Types[call.Args[1]]; ok && tv.Value != nil {
					cut := constantString(tv.Value)
					for _, ws := range []string{" ", "\t", "\n", "\r"} {
						if !strings.Contains(cut, ws) {
							return false, fmt.Sprintf("the cutset %q lacks %q", cut, ws)
						}
					}
					return true, ""
				}
			}
			return false, ""
		}
		n := 0
		inspectNoLit(body, func(nd ast.Node) bool {
			call, ok := nd.(*ast.CallExpr)
			if !ok || !isCall(info, call, "unicode/utf8.DecodeRuneInString") || len(call.Args) != 1 {
				return true
			}
			n++
			key := pkg + ".JSONDecodeFunc.Type/first-rune"
			arg := ast.Unparen(call.Args[0])
			src := arg
			if id, ok := arg.(*ast.Ident); ok {
				if o := info.Uses[id]; o != nil {
					if _, idx, rhs := findDefine(info, body, o); rhs != nil && len(rhs) > idx {
						src = ast.Unparen(rhs[idx])
					}
				}
			}
			if ok, why := fullTrim(src); ok {
				rr.OK(key, call.Pos(), "the sniffed string is the known prefix with all JSON whitespace trimmed")
			} else {
				if why == "" {
					why = "it is " + trunc(exprStr(src), 50)
				}
				rr.Violation(key, call.Pos(), fmt.Sprintf("the first character is sniffed from a string that is not the known prefix with all JSON whitespace (space, tab, LF, CR) removed (%s): a prefix that begins with such whitespace makes the prediction fail with 'cannot begin with the character' although every document with that prefix decodes", why))
			}
			return true
		})
		if n == 0 {
			rr.Info(pkg+".JSONDecodeFunc.Type/first-rune", body.Pos(), "the prediction does not sniff a first character")
		}
	}
}

func runDescendingLoopReachesZero(rr *RuleRun) {
	c := rr.Ctx
	eachFuncBody(c, allPkgs, func(pkg string, fd *ast.FuncDecl, body *ast.BlockStmt) {
		info := c.Info(pkg)
		inspectNoLit(body, func(nd ast.Node) bool {
			fs, ok := nd.(*ast.ForStmt)
			if !ok || fs.Init == nil || fs.Cond == nil || fs.Post == nil {
				return true
			}
			// i := len(X) - 1
			as, ok := fs.Init.(*ast.AssignStmt)
			if !ok || len(as.Lhs) != 1 || len(as.Rhs) != 1 {
				return true
			}
			iv := objOf(info, as.Lhs[0])
			init, ok := ast.Unparen(as.Rhs[0]).(*ast.BinaryExpr)
			if !ok || init.Op != token.SUB || iv == nil {
				return true
			}
			if v, ok := constInt(info, init.Y); !ok || v != 1 {
				return true
			}
			lc, ok := ast.Unparen(init.X).(*ast.CallExpr)
			if !ok || !isBuiltin(info, lc, "len") {
				return true
			}
			// i--
			if inc, ok := fs.Post.(*ast.IncDecStmt); !ok || inc.Tok != token.DEC || objOf(info, inc.X) != iv {
				return true
			}
			cond, ok := ast.Unparen(fs.Cond).(*ast.BinaryExpr)
			if !ok || objOf(info, cond.X) != iv {
				return true
			}
			k, isConst := constInt(info, cond.Y)
			if !isConst {
				return true
			}
			key := fmt.Sprintf("%s.%s/for %s", pkg, declName(fd), trunc(exprStr(fs.Cond), 20))
			reachesZero := (cond.Op == token.GEQ && k == 0) || (cond.Op == token.GTR && k == -1)
			if reachesZero {
				rr.OK(key, fs.Pos(), "the descending loop visits index 0")
				return true
			}
			if !((cond.Op == token.GTR && k == 0) || (cond.Op == token.GEQ && k == 1)) {
				return true
			}
			// uses of i: plain x[i] only, or also i-1?
			plain, minusOne := false, false
			inspectNoLit(fs.Body, func(m ast.Node) bool {
				switch x := m.(type) {
				case *ast.IndexExpr:
					if objOf(info, x.Index) == iv {
						plain = true
					}
				case *ast.BinaryExpr:
					if x.Op == token.SUB && objOf(info, x.X) == iv {
						minusOne = true
					}
				}
				return true
			})
			if plain && !minusOne {
				rr.Violation(key, fs.Pos(), fmt.Sprintf("the loop runs from len-1 down while %s and addresses members with %s alone: the member at index 0 is never visited, so sequences that differ only in their first member are treated alike", exprStr(fs.Cond), iv.Name()))
			} else {
				rr.OKTrivial(key, fs.Pos(), "the loop looks at the predecessor (i-1), so stopping above 0 is deliberate")
			}
			return true
		})
	})
}

func runFreshContainer(rr *RuleRun) {
	c := rr.Ctx
	pkg := "cty/gocty"
	info := c.Info(pkg)
	fd := rr.MustDecl(pkg, "fromCtyMap")
	if fd == nil {
		return
	}
	n := 0
	ast.Inspect(fd.Body, func(nd ast.Node) bool {
		call, ok := nd.(*ast.CallExpr)
		if !ok || funcKey(callee(info, call)) != "reflect.Value.SetMapIndex" {
			return true
		}
		n++
		recvE := call.Fun.(*ast.SelectorExpr).X
		key := fmt.Sprintf("%s.fromCtyMap/%s.SetMapIndex", pkg, exprStr(recvE))
		o := objOf(info, recvE)
		if o == nil {
			rr.Violation(key, call.Pos(), "entries are stored into "+exprStr(recvE)+", which is not a map made by this function")
			return true
		}
		// every assignment to the variable is reflect.MakeMap / MakeMapWithSize
		bad := ""
		ast.Inspect(fd.Body, func(m ast.Node) bool {
			as, ok := m.(*ast.AssignStmt)
			if !ok || len(as.Lhs) != len(as.Rhs) {
				return true
			}
			for i, l := range as.Lhs {
				if objOf(info, l) != o {
					continue
				}
				if rc, ok := ast.Unparen(as.Rhs[i]).(*ast.CallExpr); ok {
					switch funcKey(callee(info, rc)) {
					case "reflect.MakeMap", "reflect.MakeMapWithSize":
						continue
					}
				}
				bad = exprStr(as.Rhs[i])
			}
			return true
		})
		if bad == "" {
			rr.OK(key, call.Pos(), "the receiving map is made by reflect.MakeMap on every path")
		} else {
			rr.Violation(key, call.Pos(), fmt.Sprintf("the map that receives the decoded entries can be %s rather than a freshly made one: keys left in the target by an earlier decode (or by the caller) survive into the result, and a map the caller shares is written in place", bad))
		}
		return true
	})
	if n == 0 {
		rr.Broken("stale anchor: fromCtyMap does not call SetMapIndex")
	}
}

func runFlattenNeedsKnownLength(rr *RuleRun) {
	c := rr.Ctx
	pkg := "cty/function/stdlib"
	info := c.Info(pkg)
	fd := rr.MustDecl(pkg, "flattener")
	if fd == nil {
		return
	}
	subj := info.Defs[paramIdent(fd, 0)]
	// aliases of the parameter after unmarking: flattenList, _ = flattenList.Unmark()
	cf := c.CondFacts(fd.Body, info, nil)
	n := 0
	inspectNoLit(fd.Body, func(nd ast.Node) bool {
		call, ok := nd.(*ast.CallExpr)
		if !ok || !isCall(info, call, "cty.Value.ElementIterator") || rootObj(info, call) != subj {
			return true
		}
		n++
		key := pkg + ".flattener/" + exprStr(call)
		ok = cf.HoldsAt(call, func(cond ast.Expr, truth bool) bool {
			cc, isC := ast.Unparen(cond).(*ast.CallExpr)
			if !isC || !truth {
				return false
			}
			se, isS := cc.Fun.(*ast.SelectorExpr)
			if !isS {
				return false
			}
			switch se.Sel.Name {
			case "IsWhollyKnown":
				return rootObj(info, se.X) == subj
			case "IsKnown":
				// x.Length().IsKnown()
				if lc, ok := ast.Unparen(se.X).(*ast.CallExpr); ok && isCall(info, lc, "cty.Value.Length") {
					return rootObj(info, lc) == subj
				}
			}
			return false
		})
		if ok {
			rr.OK(key, call.Pos(), "the member's length is known where it is iterated")
		} else {
			rr.Violation(key, call.Pos(), "the member is iterated on a path that has not established that its length is known (Length().IsKnown() / IsWhollyKnown): a set holding unknown members is then flattened by its stored members, fixing a result length and order that the concrete value may not have")
		}
		return true
	})
	if n == 0 {
		rr.Broken("stale anchor: flattener does not iterate its argument with ElementIterator")
	}
}

// ---------------------------------------------------------------------------
// C01.unknown-type-wholly-checked

func init() {
	register(&Rule{
		ID: "C01.unknown-type-wholly-checked", Prop: "C01", Also: []string{"C03"}, Floor: 1, Controls: 0,
		Doc: "Value.HasWhollyKnownType answers for a value established to be unknown only with the verdict of HasDynamicTypes on the value's whole type: on a path where IsKnown was decided false it neither returns a constant true nor looks at a part of the type only (ElementType), because an unknown object or tuple can carry a placeholder in any attribute or element — Equals relies on this answer before it declares two types different",
		Run: runUnknownTypeWhollyChecked,
	})
}

func runUnknownTypeWhollyChecked(rr *RuleRun) {
	c := rr.Ctx
	info := c.Info("cty")
	fd := rr.MustDecl("cty", "Value.HasWhollyKnownType")
	if fd == nil {
		return
	}
	recv := info.Defs[fd.Recv.List[0].Names[0]]
	cf := c.CondFacts(fd.Body, info, nil)
	g := c.CFG(fd.Body, info)
	n := 0
	for _, ret := range g.Returns() {
		if len(ret.Results) != 1 {
			continue
		}
		unknownHere := cf.HoldsAt(ret, func(cond ast.Expr, truth bool) bool { return !truth && methodCond(info, cond, recv, "IsKnown") })
		if !unknownHere {
			continue
		}
		n++
		res := ast.Unparen(ret.Results[0])
		key := "cty.Value.HasWhollyKnownType/unknown/return " + trunc(exprStr(res), 40)
		if tv, ok := info.Types[res]; ok && tv.Value != nil {
			if tv.Value.String() == "false" {
				rr.OK(key, ret.Pos(), "an unknown value of the dynamic type has no known type")
			} else {
				rr.Violation(key, ret.Pos(), "for a value established to be unknown the answer is a constant true: an unknown object or tuple whose type carries a dynamic placeholder is then reported as having a wholly known type, and Equals declares it different from a value it may turn out to equal")
			}
			continue
		}
		// !val.ty.HasDynamicTypes() on the whole type
		whole := false
		ast.Inspect(res, func(m ast.Node) bool {
			call, ok := m.(*ast.CallExpr)
			if !ok || !isCall(info, call, "cty.Type.HasDynamicTypes") {
				return true
			}
			x := ast.Unparen(call.Fun.(*ast.SelectorExpr).X)
			switch t := x.(type) {
			case *ast.SelectorExpr: // val.ty
				whole = t.Sel.Name == "ty" && objOf(info, t.X) == recv
			case *ast.CallExpr: // val.Type()
				whole = isCall(info, t, "cty.Value.Type") && rootObj(info, t) == recv
			}
			return true
		})
		if whole {
			rr.OK(key, ret.Pos(), "the verdict of HasDynamicTypes on the whole type")
		} else {
			rr.Violation(key, ret.Pos(), "for a value established to be unknown the answer does not come from HasDynamicTypes on the value's whole type: a placeholder in a part of the type that is not looked at (an attribute of an unknown object, an element of an unknown tuple) goes unnoticed")
		}
	}
	if n == 0 {
		rr.Info("cty.Value.HasWhollyKnownType/unknown", fd.Pos(), "no return on a path that established the value to be unknown")
	}
}

// ---------------------------------------------------------------------------
// C05.offset-applies-to-its-string

func init() {
	register(&Rule{
		ID: "C05.offset-applies-to-its-string", Prop: "C05", Floor: 1, Controls: 0,
		Doc: "in package ctystrings a byte offset computed by a search over one string (norm.Form.LastBoundary, strings/bytes Index*) is used to slice that same string value: on every path from the search to the slice expression the string was not reassigned (e.g. replaced by its normalised form, whose byte offsets differ)",
		Run: runOffsetAppliesToItsString,
	})
}

func runOffsetAppliesToItsString(rr *RuleRun) {
	c := rr.Ctx
	pkg := "cty/ctystrings"
	eachFuncBody(c, []string{pkg}, func(pkg string, fd *ast.FuncDecl, body *ast.BlockStmt) {
		info := c.Info(pkg)
		isSearch := func(call *ast.CallExpr) bool {
			k := funcKey(callee(info, call))
			if strings.HasPrefix(k, "golang.org/x/text/unicode/norm.Form.") && strings.Contains(k, "Boundary") {
				return true
			}
			return strings.HasPrefix(k, "strings.Index") || strings.HasPrefix(k, "strings.LastIndex") || strings.HasPrefix(k, "bytes.Index") || strings.HasPrefix(k, "bytes.LastIndex")
		}
		// the variable a search argument stands for: s, []byte(s), string(b), or a single-assignment alias of those
		var baseOf func(e ast.Expr, depth int) types.Object
		baseOf = func(e ast.Expr, depth int) types.Object {
			e = ast.Unparen(e)
			if call, ok := e.(*ast.CallExpr); ok && len(call.Args) == 1 {
				if tv, ok := info.Types[call.Fun]; ok && tv.IsType() {
					return baseOf(call.Args[0], depth)
				}
			}
			if id, ok := e.(*ast.Ident); ok {
				o := info.Uses[id]
				if o == nil {
					return nil
				}
				if _, idx, rhs := findDefine(info, body, o); rhs != nil && len(rhs) > idx && countAssigns(info, body, o) == 0 && depth < 3 {
					if b := baseOf(rhs[idx], depth+1); b != nil {
						if _, isConv := ast.Unparen(rhs[idx]).(*ast.CallExpr); isConv {
							return b
						}
					}
				}
				return o
			}
			return nil
		}
		offsets := map[types.Object]bool{}
		spec := &FactSpec{
			Atom: func(cond ast.Expr, truth bool) []Fact { return nil },
			Effects: func(n ast.Node) []Effect {
				as, ok := n.(*ast.AssignStmt)
				if !ok || len(as.Rhs) != 1 || len(as.Lhs) < 1 {
					return nil
				}
				call, ok := ast.Unparen(as.Rhs[0]).(*ast.CallExpr)
				if !ok || !isSearch(call) || len(call.Args) == 0 {
					return nil
				}
				io := objOf(info, as.Lhs[0])
				so := baseOf(call.Args[0], 0)
				if io == nil || so == nil {
					return nil
				}
				offsets[io] = true
				return []Effect{{Assert: &Fact{"offsetof", objKey(io) + "|" + objKey(so)}}}
			},
		}
		// first pass to collect offsets (Effects runs during MustFacts)
		g := c.CFG(body, info)
		facts := g.MustFacts(spec)
		inspectNoLit(body, func(n ast.Node) bool {
			se, ok := n.(*ast.SliceExpr)
			if !ok {
				return true
			}
			for _, ie := range []ast.Expr{se.Low, se.High} {
				io := objOf(info, ie)
				if ie == nil || io == nil || !offsets[io] {
					continue
				}
				so := baseOf(se.X, 0)
				key := fmt.Sprintf("%s.%s/%s[%s]", pkg, declName(fd), exprStr(se.X), io.Name())
				fs, located := facts.At(se)
				if !located || so == nil {
					rr.Assumed(key, se.Pos(), "the slice expression could not be located in the flow graph")
					continue
				}
				if fs.has("offsetof", objKey(io)+"|"+objKey(so)) {
					rr.OK(key, se.Pos(), "the offset was computed over this very string value")
				} else {
					rr.Violation(key, se.Pos(), fmt.Sprintf("%s is a byte offset found by searching one string, but %s is not (any longer) that string on every path here — it was reassigned in between or is a different variable: an offset into the raw bytes cuts the normalised form at the wrong place", io.Name(), exprStr(se.X)))
				}
			}
			return true
		})
	})
}

// ---------------------------------------------------------------------------
// C12.value-read-under-its-flag

func init() {
	register(&Rule{
		ID: "C12.value-read-under-its-flag", Prop: "C12", Also: []string{"C11"}, Floor: 1, Controls: 0,
		Doc: "in the standard functions, a variable that is filled in only inside the branch that also raises a validity flag (startIndex with startKnown = true, set only when the argument is known) is compared with anything outside that branch only where the flag was tested true on every path: otherwise the zero placeholder of an unknown argument is compared as if it were the argument, and an unknown argument makes a call fail that succeeds for every known value",
		Run: runValueReadUnderItsFlag,
	})
}

func runValueReadUnderItsFlag(rr *RuleRun) {
	c := rr.Ctx
	eachFuncBody(c, []string{"cty/function/stdlib"}, func(pkg string, fd *ast.FuncDecl, body *ast.BlockStmt) {
		info := c.Info(pkg)
		written := func(root ast.Node) map[types.Object]int {
			out := map[types.Object]int{}
			inspectNoLit(root, func(n ast.Node) bool {
				switch x := n.(type) {
				case *ast.AssignStmt:
					for _, l := range x.Lhs {
						if o := objOf(info, l); o != nil {
							out[o]++
						}
					}
				case *ast.UnaryExpr:
					if x.Op == token.AND {
						if o := objOf(info, x.X); o != nil {
							out[o]++
						}
					}
				case *ast.IncDecStmt:
					if o := objOf(info, x.X); o != nil {
						out[o]++
					}
				}
				return true
			})
			return out
		}
		all := written(body)
		type pair struct {
			x, f  types.Object
			block *ast.BlockStmt
		}
		var pairs []pair
		inspectNoLit(body, func(n ast.Node) bool {
			is, ok := n.(*ast.IfStmt)
			if !ok {
				return true
			}
			// flags raised directly in this branch
			var flags []types.Object
			for _, st := range is.Body.List {
				if as, ok := st.(*ast.AssignStmt); ok && as.Tok == token.ASSIGN && len(as.Lhs) == 1 && len(as.Rhs) == 1 {
					if tv, ok := info.Types[as.Rhs[0]]; ok && tv.Value != nil && tv.Value.String() == "true" {
						if o, ok := objOf(info, as.Lhs[0]).(*types.Var); ok && all[o] == 1 {
							flags = append(flags, o)
						}
					}
				}
			}
			if len(flags) != 1 {
				return true
			}
			in := written(is.Body)
			for o, n := range in {
				v, ok := o.(*types.Var)
				if !ok || v == flags[0] || all[o] != n {
					continue // also written elsewhere
				}
				if b, ok := v.Type().Underlying().(*types.Basic); !ok || b.Info()&types.IsNumeric == 0 {
					continue
				}
				if v.Pos() >= is.Pos() && v.Pos() <= is.End() {
					continue // declared inside
				}
				pairs = append(pairs, pair{v, flags[0], is.Body})
			}
			return true
		})
		if len(pairs) == 0 {
			return
		}
		cf := c.CondFacts(body, info, nil)
		for _, p := range pairs {
			p := p
			key := fmt.Sprintf("%s.%s/%s under %s", pkg, declName(fd), p.x.Name(), p.f.Name())
			bad := false
			reads := 0
			inspectNoLit(body, func(n ast.Node) bool {
				be, ok := n.(*ast.BinaryExpr)
				if !ok || bad || (be.Pos() >= p.block.Pos() && be.End() <= p.block.End()) {
					return true
				}
				switch be.Op {
				case token.EQL, token.NEQ, token.LSS, token.GTR, token.LEQ, token.GEQ:
				default:
					return true
				}
				uses := false
				for _, side := range []ast.Expr{be.X, be.Y} {
					ast.Inspect(side, func(m ast.Node) bool {
						if id, ok := m.(*ast.Ident); ok && info.Uses[id] == p.x {
							uses = true
						}
						return true
					})
				}
				if !uses {
					return true
				}
				reads++
				flagTrue := cf.HoldsAt(be, func(cond ast.Expr, truth bool) bool {
					return truth && objOf(info, cond) == p.f
				})
				if !flagTrue {
					bad = true
					rr.Violation(key, be.Pos(), fmt.Sprintf("%s is filled in only in the branch that sets %s = true, but it is compared here (%s) on a path where %s was not tested: for an unknown argument the comparison sees the zero placeholder, so weakening an argument to unknown can turn a successful call into an error", p.x.Name(), p.f.Name(), trunc(exprStr(be), 40), p.f.Name()))
				}
				return true
			})
			if !bad {
				rr.OK(key, p.block.Pos(), fmt.Sprintf("%d comparison(s) outside the filling branch, all under %s", reads, p.f.Name()))
			}
		}
	})
}

// ---------------------------------------------------------------------------
// C09.composed-conversion-targets-result

func init() {
	register(&Rule{
		ID: "C09.composed-conversion-targets-result", Prop: "C09", Also: []string{"C08"}, Floor: 0, Controls: 1,
		Doc: "in a unification helper (a function returning a type together with conversions) a conversion closure that builds a value directly from a type variable of the enclosing function (NullVal / UnknownVal / an empty-collection constructor) uses the variable that the helper returns as the unified type, not an intermediate type of a two-stage conversion: every returned conversion must yield a value of the unified type",
		Run: runComposedConversionTargetsResult,
	})
}

func runComposedConversionTargetsResult(rr *RuleRun) {
	c := rr.Ctx
	pkg := "cty/convert"
	info := c.Info(pkg)
	for _, fd := range c.SortedDecls(pkg) {
		fn, _ := info.Defs[fd.Name].(*types.Func)
		if fn == nil || !isUnifyFamily(fn) {
			continue
		}
		// type variables returned as the unified type (first result of a return that also returns conversions)
		resultTys := map[types.Object]bool{}
		inspectNoLit(fd.Body, func(n ast.Node) bool {
			if r, ok := n.(*ast.ReturnStmt); ok && len(r.Results) == 2 && !isNilIdent(info, r.Results[1]) {
				if o := objOf(info, r.Results[0]); o != nil {
					resultTys[o] = true
				}
			}
			return true
		})
		ast.Inspect(fd.Body, func(n ast.Node) bool {
			fl, ok := n.(*ast.FuncLit)
			if !ok {
				return true
			}
			ast.Inspect(fl.Body, func(m ast.Node) bool {
				call, ok := m.(*ast.CallExpr)
				if !ok || !isCall(info, call, "cty.NullVal", "cty.UnknownVal", "cty.ListValEmpty", "cty.SetValEmpty", "cty.MapValEmpty") || len(call.Args) != 1 {
					return true
				}
				o, _ := objOf(info, call.Args[0]).(*types.Var)
				if o == nil || !isCtyType(o.Type()) || (o.Pos() >= fl.Pos() && o.Pos() <= fl.End()) {
					return true
				}
				key := fmt.Sprintf("%s.%s/closure/%s", pkg, declName(fd), exprStr(call))
				if resultTys[o] {
					rr.OK(key, call.Pos(), "the value is built from the type the helper returns as the unified type")
				} else {
					rr.Violation(key, call.Pos(), fmt.Sprintf("the conversion closure builds a value of type %s, which is not the type this helper returns as the unified type: the returned conversion then yields a value that is not of the unified type", o.Name()))
				}
				return true
			})
			return false
		})
	}
}

// ---------------------------------------------------------------------------
// C15.null-written-only-for-null

func init() {
	register(&Rule{
		ID: "C15.null-written-only-for-null", Prop: "C15", Also: []string{"C16"}, Floor: 2, Controls: 0,
		Doc: "the value encoders (package json and msgpack: marshal and its helpers) write a bare null (the literal \"null\", EncodeNil) only on paths where IsNull() of the value being encoded was decided true: a structure that merely contains a null or a dynamically-typed member must not collapse into null",
		Run: runNullWrittenOnlyForNull,
	})
}

func runNullWrittenOnlyForNull(rr *RuleRun) {
	c := rr.Ctx
	for _, pkg := range []string{"cty/json", "cty/msgpack"} {
		info := c.Info(pkg)
		for _, fd := range c.SortedDecls(pkg) {
			if !strings.HasPrefix(strings.ToLower(declName(fd)), "marshal") && !strings.Contains(declName(fd), "Marshal") {
				continue
			}
			var sites []*ast.CallExpr
			inspectNoLit(fd.Body, func(n ast.Node) bool {
				call, ok := n.(*ast.CallExpr)
				if !ok {
					return true
				}
				if f := callee(info, call); f != nil && f.Name() == "EncodeNil" {
					sites = append(sites, call)
				}
				if f := callee(info, call); f != nil && (f.Name() == "WriteString" || f.Name() == "Write") && len(call.Args) == 1 {
					if tv, ok := info.Types[call.Args[0]]; ok && tv.Value != nil && constantString(tv.Value) == "null" {
						sites = append(sites, call)
					}
					if conv, ok := ast.Unparen(call.Args[0]).(*ast.CallExpr); ok && len(conv.Args) == 1 {
						if tv, ok := info.Types[conv.Args[0]]; ok && tv.Value != nil && constantString(tv.Value) == "null" {
							sites = append(sites, call)
						}
					}
				}
				return true
			})
			if len(sites) == 0 {
				continue
			}
			cf := c.CondFacts(fd.Body, info, nil)
			for _, call := range sites {
				key := fmt.Sprintf("%s.%s/%s", pkg, declName(fd), trunc(exprStr(call), 40))
				isNull := cf.HoldsAt(call, func(cond ast.Expr, truth bool) bool {
					cc, ok := ast.Unparen(cond).(*ast.CallExpr)
					return ok && truth && isCall(info, cc, "cty.Value.IsNull")
				})
				if isNull {
					rr.OK(key, call.Pos(), "written only where the value was tested null")
				} else {
					rr.Violation(key, call.Pos(), "a bare null is written on a path that has not established that the value being encoded is null: a non-null value (a structure containing a null, a value of a type that merely contains a placeholder) is then encoded as null and cannot be decoded back")
				}
			}
		}
	}
}

// ---------------------------------------------------------------------------
// C18.object-attributes-cross-checked

func init() {
	register(&Rule{
		ID: "C18.object-attributes-cross-checked", Prop: "C18", Floor: 2, Controls: 0,
		Doc: "fromCtyObject cross-checks the object's attributes and the struct's tagged fields both ways on every call: a loop over the attribute types returns an error for an attribute that has no field, a loop over the tagged fields returns an error for a non-nilable field that has no attribute, and neither loop is nested under a condition (a comparison of the two counts cannot tell which names are missing)",
		Run: runObjectAttributesCrossChecked,
	})
}

func runObjectAttributesCrossChecked(rr *RuleRun) {
	c := rr.Ctx
	pkg := "cty/gocty"
	info := c.Info(pkg)
	fd := rr.MustDecl(pkg, "fromCtyObject")
	if fd == nil {
		return
	}
	found := map[string]bool{}
	inspectNoLit(fd.Body, func(n ast.Node) bool {
		rs, ok := n.(*ast.RangeStmt)
		if !ok {
			return true
		}
		mt, ok := info.TypeOf(rs.X).Underlying().(*types.Map)
		if !ok {
			return true
		}
		kind := ""
		switch {
		case isCtyType(mt.Elem()):
			kind = "attributes"
		default:
			if b, ok := mt.Elem().Underlying().(*types.Basic); ok && b.Info()&types.IsInteger != 0 {
				kind = "fields"
			}
		}
		if kind == "" {
			return true
		}
		// an error return inside the loop that is conditioned on a failed comma-ok lookup
		reports := false
		inspectNoLit(rs.Body, func(m ast.Node) bool {
			ret, ok := m.(*ast.ReturnStmt)
			if !ok || len(ret.Results) != 1 || isNilIdent(info, ret.Results[0]) {
				return true
			}
			if call, ok := ast.Unparen(ret.Results[0]).(*ast.CallExpr); ok {
				if f := callee(info, call); f != nil && strings.HasPrefix(f.Name(), "NewError") {
					reports = true
				}
			}
			return true
		})
		if !reports {
			return true
		}
		key := fmt.Sprintf("%s.fromCtyObject/range %s (%s)", pkg, trunc(exprStr(rs.X), 20), kind)
		found[kind] = true
		for p := c.Parent(rs); p != nil && p != ast.Node(fd.Body); p = c.Parent(p) {
			if is, ok := p.(*ast.IfStmt); ok {
				rr.Violation(key, rs.Pos(), fmt.Sprintf("the cross-check of the %s runs only under 'if %s': when the condition is false a name that has no counterpart goes unreported (an attribute without a field is silently dropped, or a required field is left unset)", kind, trunc(exprStr(is.Cond), 50)))
				return true
			}
			if _, ok := p.(*ast.CaseClause); ok {
				break
			}
		}
		rr.OK(key, rs.Pos(), "runs unconditionally")
		return true
	})
	for _, kind := range []string{"attributes", "fields"} {
		if !found[kind] {
			rr.Violation(fmt.Sprintf("%s.fromCtyObject/%s", pkg, kind), fd.Pos(), fmt.Sprintf("no loop over the %s reports a name that has no counterpart on the other side", kind))
		}
	}
}

// ---------------------------------------------------------------------------
// C12.lower-bound-needs-lower-evidence

func init() {
	register(&Rule{
		ID: "C12.lower-bound-needs-lower-evidence", Prop: "C12", Floor: 2, Controls: 0,
		Doc: "where a standard function gives its unknown result a positive collection-length lower bound, that bound is computed from, or decided by a condition that (through the variables it reads) depends on, a lower bound of the operands' ranges (ValueRange.LengthLowerBound); a decision that rests on LengthUpperBound() alone cannot justify 'at least one element', because an operand whose length has a positive upper bound may still be empty",
		Run: runLowerBoundNeedsLowerEvidence,
	})
}

func runLowerBoundNeedsLowerEvidence(rr *RuleRun) {
	c := rr.Ctx
	pkg := "cty/function/stdlib"
	eachFuncBody(c, []string{pkg}, func(pkg string, fd *ast.FuncDecl, body *ast.BlockStmt) {
		info := c.Info(pkg)
		var sites []*ast.CallExpr
		inspectNoLit(body, func(n ast.Node) bool {
			if call, ok := n.(*ast.CallExpr); ok && isCall(info, call, "cty.RefinementBuilder.CollectionLengthLowerBound") && len(call.Args) == 1 {
				sites = append(sites, call)
			}
			return true
		})
		if len(sites) == 0 {
			return
		}
		// dependence closure: which variables (transitively) derive from lower / upper length evidence
		lower, upper := map[types.Object]bool{}, map[types.Object]bool{}
		evid := func(e ast.Expr) (lo, up bool) {
			ast.Inspect(e, func(n ast.Node) bool {
				switch x := n.(type) {
				case *ast.CallExpr:
					switch funcKey(callee(info, x)) {
					case "cty.ValueRange.LengthLowerBound":
						lo = true
					case "cty.ValueRange.LengthUpperBound":
						up = true
					}
				case *ast.Ident:
					if lower[info.Uses[x]] {
						lo = true
					}
					if upper[info.Uses[x]] {
						up = true
					}
				}
				return true
			})
			return
		}
		for pass := 0; pass < 4; pass++ {
			inspectNoLit(body, func(n ast.Node) bool {
				switch x := n.(type) {
				case *ast.AssignStmt:
					for i, l := range x.Lhs {
						var r ast.Expr
						if len(x.Rhs) == len(x.Lhs) {
							r = x.Rhs[i]
						} else if len(x.Rhs) == 1 {
							r = x.Rhs[0]
						}
						o := objOf(info, l)
						if r == nil || o == nil {
							continue
						}
						lo, up := evid(r)
						// an assignment made under a condition inherits the condition's evidence
						for p := c.Parent(x); p != nil && p != ast.Node(body); p = c.Parent(p) {
							if is, ok := p.(*ast.IfStmt); ok {
								l2, u2 := evid(is.Cond)
								lo, up = lo || l2, up || u2
							}
						}
						if lo {
							lower[o] = true
						}
						if up {
							upper[o] = true
						}
					}
				}
				return true
			})
		}
		for _, call := range sites {
			key := fmt.Sprintf("%s.%s/CollectionLengthLowerBound(%s)", pkg, declName(fd), trunc(exprStr(call.Args[0]), 30))
			if v, ok := constInt(info, call.Args[0]); ok && v <= 0 {
				rr.OKTrivial(key, call.Pos(), "a lower bound of zero says nothing")
				continue
			}
			lo, up := evid(call.Args[0])
			for p := c.Parent(call); p != nil && p != ast.Node(body); p = c.Parent(p) {
				if is, ok := p.(*ast.IfStmt); ok {
					l2, u2 := evid(is.Cond)
					lo, up = lo || l2, up || u2
				}
			}
			switch {
			case lo:
				rr.OK(key, call.Pos(), "the bound rests on a lower bound / exact length of the operands")
			case up:
				rr.Violation(key, call.Pos(), "the positive length lower bound of the result is decided from LengthUpperBound() of the operands alone: an operand with a positive upper bound may still be empty, so the result can have fewer elements than claimed")
			default:
				rr.Assumed(key, call.Pos(), "the evidence behind this lower bound is not a length accessor the rule knows")
			}
		}
	})
}

// ---------------------------------------------------------------------------
// C12.iterators-advance-in-step

func init() {
	register(&Rule{
		ID: "C12.iterators-advance-in-step", Prop: "C12", Also: []string{"C11"}, Floor: 1, Controls: 0,
		Doc: "where one pass of an inner loop advances several element iterators kept in a slice (iterators[i].Next() for each i) to build one row of arguments, the inner loop is not left early for the next row (a labelled continue / break of the outer loop, or a plain break): leaving after the first unknown argument leaves the remaining iterators one step behind, so every following row pairs members of different positions",
		Run: runIteratorsAdvanceInStep,
	})
}

func runIteratorsAdvanceInStep(rr *RuleRun) {
	c := rr.Ctx
	eachFuncBody(c, []string{"cty/function/stdlib"}, func(pkg string, fd *ast.FuncDecl, body *ast.BlockStmt) {
		info := c.Info(pkg)
		inspectNoLit(body, func(n ast.Node) bool {
			var inner *ast.BlockStmt
			var innerStmt ast.Stmt
			switch x := n.(type) {
			case *ast.RangeStmt:
				inner, innerStmt = x.Body, x
			case *ast.ForStmt:
				inner, innerStmt = x.Body, x
			default:
				return true
			}
			// advances an iterator taken out of an indexed collection: iterators[i].Next() or it := iterators[i]; it.Next()
			advances := false
			inspectNoLit(inner, func(m ast.Node) bool {
				call, ok := m.(*ast.CallExpr)
				if !ok || !isCall(info, call, "cty.ElementIterator.Next") {
					return true
				}
				recv := ast.Unparen(call.Fun.(*ast.SelectorExpr).X)
				if _, ok := recv.(*ast.IndexExpr); ok {
					advances = true
				}
				if id, ok := recv.(*ast.Ident); ok {
					if o := info.Uses[id]; o != nil {
						if _, idx, rhs := findDefine(info, inner, o); rhs != nil && len(rhs) > idx {
							if _, ok := ast.Unparen(rhs[idx]).(*ast.IndexExpr); ok {
								advances = true
							}
						}
					}
				}
				return true
			})
			if !advances {
				return true
			}
			// the enclosing loop (one row per iteration)
			var outer ast.Stmt
			for p := c.Parent(innerStmt); p != nil && p != ast.Node(body); p = c.Parent(p) {
				switch p.(type) {
				case *ast.ForStmt, *ast.RangeStmt:
					if outer == nil {
						outer = p.(ast.Stmt)
					}
				}
			}
			if outer == nil {
				return true
			}
			key := fmt.Sprintf("%s.%s/row-loop", pkg, declName(fd))
			var early *ast.BranchStmt
			inspectNoLit(inner, func(m ast.Node) bool {
				br, ok := m.(*ast.BranchStmt)
				if !ok || early != nil {
					return true
				}
				switch {
				case br.Label != nil && (br.Tok == token.CONTINUE || br.Tok == token.BREAK):
					early = br // leaves for the outer loop
				case br.Tok == token.BREAK && br.Label == nil:
					// a plain break leaves the inner loop unless it sits in a switch / select / nested loop
					for p := c.Parent(br); p != nil && p != ast.Node(inner); p = c.Parent(p) {
						switch p.(type) {
						case *ast.SwitchStmt, *ast.TypeSwitchStmt, *ast.SelectStmt, *ast.ForStmt, *ast.RangeStmt:
							return true
						}
					}
					early = br
				}
				return true
			})
			if early != nil {
				rr.Violation(key, early.Pos(), "the loop that advances one iterator per argument is left early ('"+early.Tok.String()+"'): the iterators of the remaining arguments are not advanced for this row, so in every following row they deliver the member of the previous position")
			} else {
				rr.OK(key, innerStmt.Pos(), "every iterator advances once per row")
			}
			return true
		})
	})
}

// ---------------------------------------------------------------------------
// C07.optional-list-written-when-nonempty

func init() {
	register(&Rule{
		ID: "C07.optional-list-written-when-nonempty", Prop: "C07", Also: []string{"C15"}, Floor: 1, Controls: 0,
		Doc: "Type.MarshalJSON writes the list of optional attribute names whenever the set of optional attributes is non-empty: the condition guarding that part compares the size of the set with zero ('> 0' or '!= 0'), not with a larger constant — an object type with a single optional attribute must keep it across serialization",
		Run: runOptionalListWrittenWhenNonempty,
	})
}

func runOptionalListWrittenWhenNonempty(rr *RuleRun) {
	c := rr.Ctx
	info := c.Info("cty")
	fd := rr.MustDecl("cty", "Type.MarshalJSON")
	if fd == nil {
		return
	}
	n := 0
	inspectNoLit(fd.Body, func(nd ast.Node) bool {
		is, ok := nd.(*ast.IfStmt)
		if !ok {
			return true
		}
		be, ok := ast.Unparen(is.Cond).(*ast.BinaryExpr)
		if !ok {
			return true
		}
		lc, ok := ast.Unparen(be.X).(*ast.CallExpr)
		if !ok || !isBuiltin(info, lc, "len") || len(lc.Args) != 1 {
			return true
		}
		// the measured collection derives from OptionalAttributes()
		fromOpt := false
		if call, ok := ast.Unparen(lc.Args[0]).(*ast.CallExpr); ok && isCall(info, call, "cty.Type.OptionalAttributes") {
			fromOpt = true
		}
		if o := objOf(info, lc.Args[0]); o != nil {
			if _, idx, rhs := findDefine(info, fd.Body, o); rhs != nil && len(rhs) > idx {
				if call, ok := ast.Unparen(rhs[idx]).(*ast.CallExpr); ok && isCall(info, call, "cty.Type.OptionalAttributes") {
					fromOpt = true
				}
			}
		}
		if !fromOpt {
			return true
		}
		n++
		key := "cty.Type.MarshalJSON/" + trunc(exprStr(is.Cond), 40)
		k, isConst := constInt(info, be.Y)
		if isConst && k == 0 && (be.Op == token.GTR || be.Op == token.NEQ) {
			rr.OK(key, is.Pos(), "the optional names are written whenever there is at least one")
		} else {
			rr.Violation(key, is.Pos(), fmt.Sprintf("the optional attribute names are written only when '%s': a non-empty set of optional attributes that fails this test is dropped from the serialized type, so the type does not survive JSON serialization", exprStr(is.Cond)))
		}
		return true
	})
	if n == 0 {
		rr.Assumed("cty.Type.MarshalJSON/optional-guard", fd.Pos(), "no size test of the optional attribute set found (written unconditionally or in another form)")
	}
}

// ---------------------------------------------------------------------------
// C04.unmarked-marks-reapplied

func init() {
	register(&Rule{
		ID: "C04.unmarked-marks-reapplied", Prop: "C04", Also: []string{"C11"}, Floor: 10, Controls: 0,
		Doc: "consistency (belief) rule for the standard functions that handle marks themselves: where a callback peels the marks off a value into a variable (v, m := x.Unmark() / UnmarkDeep()) and collects them in a mark collection S that it re-applies to its results (WithMarks(S...)), S holds m on every successful return that re-applies S — a return that re-applies S before m was added to it, while other returns of the same function give m back through S, loses a mark of an input on that path only",
		Run: runUnmarkedMarksReapplied,
	})
}

func runUnmarkedMarksReapplied(rr *RuleRun) {
	c := rr.Ctx
	eachFuncBody(c, []string{"cty/function/stdlib"}, func(pkg string, fd *ast.FuncDecl, body *ast.BlockStmt) {
		info := c.Info(pkg)
		type peel struct {
			as *ast.AssignStmt
			m  types.Object
		}
		var peels []peel
		inspectNoLit(body, func(n ast.Node) bool {
			as, ok := n.(*ast.AssignStmt)
			if !ok || len(as.Lhs) != 2 || len(as.Rhs) != 1 {
				return true
			}
			call, ok := ast.Unparen(as.Rhs[0]).(*ast.CallExpr)
			if !ok || !isCall(info, call, "cty.Value.Unmark", "cty.Value.UnmarkDeep") {
				return true
			}
			if id, ok := as.Lhs[1].(*ast.Ident); ok && id.Name != "_" {
				if o := objOf(info, id); o != nil {
					peels = append(peels, peel{as, o})
				}
			}
			return true
		})
		if len(peels) == 0 {
			return
		}
		g := c.CFG(body, info)
		isCollection := func(o types.Object) bool {
			if o == nil {
				return false
			}
			return strings.Contains(o.Type().String(), "cty.ValueMarks")
		}
		for _, p := range peels {
			p := p
			mk := objKey(p.m)
			// every mark collection of the function: an empty m is vacuously held by all of them
			var allColls []types.Object
			seenColl := map[types.Object]bool{}
			inspectNoLit(body, func(n ast.Node) bool {
				if id, ok := n.(*ast.Ident); ok {
					if o := info.ObjectOf(id); isCollection(o) && o != p.m && !seenColl[o] {
						if _, isVar := o.(*types.Var); isVar {
							seenColl[o] = true
							allColls = append(allColls, o)
						}
					}
				}
				return true
			})
			spec := &FactSpec{Atom: func(cond ast.Expr, truth bool) []Fact {
				// 'if len(m) > 0 { S = append(S, m) }': where m is empty there is nothing to add
				be, ok := ast.Unparen(cond).(*ast.BinaryExpr)
				if !ok {
					return nil
				}
				lc, ok := ast.Unparen(be.X).(*ast.CallExpr)
				if !ok || !isBuiltin(info, lc, "len") || len(lc.Args) != 1 || objOf(info, lc.Args[0]) != p.m {
					return nil
				}
				k, isConst := constInt(info, be.Y)
				if !isConst || k != 0 {
					return nil
				}
				empty := (be.Op == token.GTR && !truth) || (be.Op == token.NEQ && !truth) || (be.Op == token.EQL && truth)
				if !empty {
					return nil
				}
				var out []Fact
				for _, o := range allColls {
					out = append(out, Fact{"holds", objKey(o) + "<" + mk})
				}
				return out
			}}
			spec.Effects = func(n ast.Node) []Effect {
				as, ok := n.(*ast.AssignStmt)
				if !ok || len(as.Lhs) != len(as.Rhs) {
					return nil
				}
				var out []Effect
				for i, l := range as.Lhs {
					o := objOf(info, l)
					if o == nil || o == p.m || !isCollection(o) {
						continue
					}
					f := &Fact{"holds", objKey(o) + "<" + mk}
					switch {
					case mentionsObj(info, as.Rhs[i], p.m):
						out = append(out, Effect{Assert: f}) // S = append(S, m), S = NewValueMarks(S, m), S := []ValueMarks{m}
					case mentionsObj(info, as.Rhs[i], o):
						out = append(out, Effect{Keep: f}) // S = append(S, other): what S held it still holds
					}
				}
				return out
			}
			res := g.MustFacts(spec)
			key := fmt.Sprintf("%s.%s/%s←%s", pkg, declName(fd), p.m.Name(), trunc(exprStr(p.as.Rhs[0]), 30))
			type retInfo struct {
				ret   *ast.ReturnStmt
				colls []types.Object // mark collections re-applied by this return
				holds map[types.Object]bool
			}
			var rets []retInfo
			for _, ret := range g.Returns() {
				if len(ret.Results) != 2 || !isNilIdent(info, ret.Results[1]) || !g.Dominates(p.as, ret) || !isCtyValue(info.TypeOf(ret.Results[0])) {
					continue
				}
				fs, located := res.At(ret)
				if !located {
					continue
				}
				ri := retInfo{ret: ret, holds: map[types.Object]bool{}}
				ast.Inspect(ret.Results[0], func(n ast.Node) bool {
					if id, ok := n.(*ast.Ident); ok {
						if o := info.Uses[id]; isCollection(o) && o != p.m {
							ri.colls = append(ri.colls, o)
							if fs.has("holds", objKey(o)+"<"+mk) {
								ri.holds[o] = true
							}
						}
					}
					return true
				})
				rets = append(rets, ri)
			}
			// collections through which some return gives m back
			carriers := map[types.Object]bool{}
			for _, ri := range rets {
				for o := range ri.holds {
					carriers[o] = true
				}
			}
			bad := false
			for _, ri := range rets {
				for _, o := range ri.colls {
					if carriers[o] && !ri.holds[o] && !mentionsObj(info, ri.ret.Results[0], p.m) && !bad {
						bad = true
						rr.Violation(key, ri.ret.Pos(), fmt.Sprintf("this return re-applies the mark collection %s before the marks peeled off into %s were added to it on every path, although other returns of the same function give %s back through %s: on this path a mark of the input is lost", o.Name(), p.m.Name(), p.m.Name(), o.Name()))
					}
				}
			}
			if !bad {
				if len(carriers) == 0 {
					rr.OKTrivial(key, p.as.Pos(), "the peeled marks are not routed through a mark collection (re-applied directly, or handled by the caller)")
				} else {
					rr.OK(key, p.as.Pos(), fmt.Sprintf("%d successful return(s); every return that re-applies the carrying collection has the peeled marks in it", len(rets)))
				}
			}
		}
	})
}

func mentionsObj(info *types.Info, e ast.Node, o types.Object) bool {
	found := false
	ast.Inspect(e, func(n ast.Node) bool {
		if id, ok := n.(*ast.Ident); ok && info.Uses[id] == o {
			found = true
		}
		return !found
	})
	return found
}

// ---------------------------------------------------------------------------
// C08.error-not-dropped — the unread-error analysis of C17 outside the decoders

func init() {
	register(&Rule{
		ID: "C08.error-not-dropped", Prop: "C08", Also: []string{"C06", "C09", "C11", "C18", "C10", "C15", "C16", "C13", "C14"}, Floor: 40, Controls: 0,
		Doc: "in packages cty, convert, gocty, function, function/stdlib, json and msgpack an error stored in a variable is read (tested, returned, wrapped) on every path before the variable is assigned again or the function returns: an error that is re-wrapped into its variable and then not returned, or assigned to a shadowing variable inside a callback, turns a failure into a silent wrong result",
		Run: runErrorNotDropped,
	})
}

func runErrorNotDropped(rr *RuleRun) {
	c := rr.Ctx
	eachFuncBody(c, []string{"cty/convert", "cty/gocty", "cty/function", "cty/function/stdlib", "cty/json", "cty/msgpack", "cty"}, func(pkg string, fd *ast.FuncDecl, body *ast.BlockStmt) {
		info := c.Info(pkg)
		r := declRef{pkg, fd}
		namedErr := map[types.Object]bool{}
		// named error results of the function that owns this body
		var ftype *ast.FuncType
		if fd.Body == body {
			ftype = fd.Type
		} else if fl, ok := c.Parent(body).(*ast.FuncLit); ok {
			ftype = fl.Type
		}
		if ftype != nil && ftype.Results != nil {
			for _, f := range ftype.Results.List {
				for _, nm := range f.Names {
					if o := info.Defs[nm]; o != nil && isErrorType(o.Type()) {
						namedErr[o] = true
					}
				}
			}
		}
		// variables of an enclosing function that a closure assigns are read by that function later
		if fd.Body != body {
			inspectNoLit(body, func(n ast.Node) bool {
				if as, ok := n.(*ast.AssignStmt); ok && as.Tok == token.ASSIGN {
					for _, l := range as.Lhs {
						if o := objOf(info, l); o != nil && isErrorType(o.Type()) && (o.Pos() < body.Pos() || o.Pos() > body.End()) {
							namedErr[o] = true
						}
					}
				}
				return true
			})
		}
		g := c.CFG(body, info)
		n, bad := errorFlow(rr, c, info, r, g, namedErr)
		if n > 0 && bad == 0 {
			rr.OK(fmt.Sprintf("%s.%s@%s", pkg, declName(fd), c.PosStr(body.Pos())), body.Pos(), fmt.Sprintf("%d error assignment(s): each is read before being overwritten or dropped", n))
		}
	})
}

// ---------------------------------------------------------------------------
// C18.callback-error-escapes

func init() {
	register(&Rule{
		ID: "C18.callback-error-escapes", Prop: "C18", Also: []string{"C17"}, Floor: 4, Controls: 0,
		Doc: "in gocty, a ForEachElement callback can only report an element's decoding error through a variable of the enclosing function (the callback itself returns just 'stop'): the error result of every fromCty* call inside such a callback is assigned to a variable declared outside the callback, never to a new variable declared inside it — a shadowed error stops the iteration and is then forgotten, so a partly decoded target is returned as success",
		Run: runCallbackErrorEscapes,
	})
}

func runCallbackErrorEscapes(rr *RuleRun) {
	c := rr.Ctx
	pkg := "cty/gocty"
	info := c.Info(pkg)
	for _, fd := range c.SortedDecls(pkg) {
		ast.Inspect(fd.Body, func(n ast.Node) bool {
			call, ok := n.(*ast.CallExpr)
			if !ok || !isCall(info, call, "cty.Value.ForEachElement") || len(call.Args) != 1 {
				return true
			}
			fl, ok := call.Args[0].(*ast.FuncLit)
			if !ok {
				return true
			}
			ast.Inspect(fl.Body, func(m ast.Node) bool {
				as, ok := m.(*ast.AssignStmt)
				if !ok || len(as.Rhs) != 1 {
					return true
				}
				ic, ok := ast.Unparen(as.Rhs[0]).(*ast.CallExpr)
				if !ok {
					return true
				}
				f := callee(info, ic)
				if f == nil || shortPkg(f.Pkg()) != pkg || !strings.HasPrefix(f.Name(), "fromCty") {
					return true
				}
				sig := f.Type().(*types.Signature)
				if sig.Results().Len() == 0 || !isErrorType(sig.Results().At(sig.Results().Len()-1).Type()) {
					return true
				}
				lhs := as.Lhs[len(as.Lhs)-1]
				o := objOf(info, lhs)
				key := fmt.Sprintf("%s.%s/callback/%s←%s", pkg, declName(fd), exprStr(lhs), f.Name())
				if o != nil && (o.Pos() < fl.Pos() || o.Pos() > fl.End()) {
					rr.OK(key, as.Pos(), "the error is stored in a variable of the enclosing function")
				} else {
					rr.Violation(key, as.Pos(), fmt.Sprintf("the error of %s is stored in %s, a variable declared inside the callback: the callback can only return 'stop', so the enclosing function never sees the error and reports success for a partly decoded target", f.Name(), exprStr(lhs)))
				}
				return true
			})
			return true
		})
	}
}

// ---------------------------------------------------------------------------
// C05.safe-prefix-normalised-first

func init() {
	register(&Rule{
		ID: "C05.safe-prefix-normalised-first", Prop: "C05", Floor: 2, Controls: 0,
		Doc: "SafeKnownPrefix hands back only (slices of) the normalised prefix: every return that mentions the prefix variable lies after the assignment that replaces it by its NFC-normalised form on every path — a prefix returned verbatim before normalisation is not a byte prefix of the normalised form of its extensions",
		Run: runSafePrefixNormalisedFirst,
	})
}

func runSafePrefixNormalisedFirst(rr *RuleRun) {
	c := rr.Ctx
	pkg := "cty/ctystrings"
	info := c.Info(pkg)
	fd := rr.MustDecl(pkg, "SafeKnownPrefix")
	if fd == nil {
		return
	}
	param := info.Defs[paramIdent(fd, 0)]
	g := c.CFG(fd.Body, info)
	spec := &FactSpec{
		Atom: func(ast.Expr, bool) []Fact { return nil },
		Effects: func(n ast.Node) []Effect {
			as, ok := n.(*ast.AssignStmt)
			if !ok || len(as.Lhs) != 1 || len(as.Rhs) != 1 || objOf(info, as.Lhs[0]) != param {
				return nil
			}
			// prefix = Normalize(prefix) / norm.NFC.String(prefix) / string(norm.NFC.Bytes(...))
			normalises := false
			ast.Inspect(as.Rhs[0], func(m ast.Node) bool {
				if call, ok := m.(*ast.CallExpr); ok {
					k := funcKey(callee(info, call))
					if k == pkg+".Normalize" || k == "cty.NormalizeString" || strings.HasPrefix(k, "golang.org/x/text/unicode/norm.Form.") {
						normalises = true
					}
				}
				return true
			})
			if normalises {
				return []Effect{{Assert: &Fact{"normalised", objKey(param)}}}
			}
			// a slice of the already normalised prefix stays normalised
			if se, ok := ast.Unparen(as.Rhs[0]).(*ast.SliceExpr); ok && objOf(info, se.X) == param {
				return []Effect{{Keep: &Fact{"normalised", objKey(param)}}}
			}
			return nil
		},
	}
	facts := g.MustFacts(spec)
	n := 0
	for _, ret := range g.Returns() {
		if len(ret.Results) != 1 || !mentionsObj(info, ret.Results[0], param) {
			continue
		}
		n++
		key := fmt.Sprintf("%s.SafeKnownPrefix/return %s", pkg, trunc(exprStr(ret.Results[0]), 30))
		fs, ok := facts.At(ret)
		if ok && fs.has("normalised", objKey(param)) {
			rr.OK(key, ret.Pos(), "what is returned is (a slice of) the normalised prefix")
		} else {
			rr.Violation(key, ret.Pos(), "the prefix is handed back on a path on which it was not replaced by its NFC-normalised form first: a non-normalised prefix is not a byte prefix of the normalised form of the strings that extend it")
		}
	}
	if n == 0 {
		rr.Broken("stale anchor: SafeKnownPrefix returns nothing derived from its parameter")
	}
}

// ---------------------------------------------------------------------------
// C01.length-of-unknown-tuple

func init() {
	register(&Rule{
		ID: "C01.length-of-unknown-tuple", Prop: "C01", Also: []string{"C02"}, Floor: 1, Controls: 0,
		Doc: "Value.Length derives the length of an unknown value from its refined length range (ValueRange.LengthLowerBound / LengthUpperBound, which exist for collections only) solely on paths where the branch conditions exclude a tuple type: the length of a tuple is decided by its type even when the value is unknown, so the tuple case must be dealt with before the unknown case — otherwise weakening a tuple to unknown turns a succeeding Length into a panic",
		Run: runLengthOfUnknownTuple,
	})
}

func runLengthOfUnknownTuple(rr *RuleRun) {
	c := rr.Ctx
	info := c.Info("cty")
	fd := rr.MustDecl("cty", "Value.Length")
	if fd == nil {
		return
	}
	cf := c.CondFacts(fd.Body, info, nil)
	n := 0
	inspectNoLit(fd.Body, func(nd ast.Node) bool {
		call, ok := nd.(*ast.CallExpr)
		if !ok {
			return true
		}
		k := funcKey(callee(info, call))
		// the collection-only consumers of a range: the accessors themselves or the helper that calls them
		collectionOnly := k == "cty.ValueRange.LengthLowerBound" || k == "cty.ValueRange.LengthUpperBound" || k == "cty.valueRefineLengthResult"
		if !collectionOnly {
			return true
		}
		n++
		key := "cty.Value.Length/" + trunc(exprStr(call), 40)
		notTuple := cf.HoldsAt(call, func(cond ast.Expr, truth bool) bool {
			cc, ok := ast.Unparen(cond).(*ast.CallExpr)
			if !ok {
				return false
			}
			se, ok := cc.Fun.(*ast.SelectorExpr)
			if !ok {
				return false
			}
			switch se.Sel.Name {
			case "IsTupleType":
				return !truth
			case "IsCollectionType", "IsListType", "IsMapType", "IsSetType":
				return truth
			}
			return false
		})
		if notTuple {
			rr.OK(key, call.Pos(), "reached only where a tuple type is excluded")
		} else {
			rr.Violation(key, call.Pos(), "the length range of the value (defined for collections only) is consulted on a path that has not excluded a tuple type: Length of an unknown tuple then panics, although the length of a tuple is known from its type")
		}
		return true
	})
	if n == 0 {
		rr.Info("cty.Value.Length/range", fd.Pos(), "Length does not consult the refined length range")
	}
}

// ---------------------------------------------------------------------------
// C08.placeholder-resolved-in-result

func init() {
	register(&Rule{
		ID: "C08.placeholder-resolved-in-result", Prop: "C08", Also: []string{"C06"}, Floor: 2, Controls: 0,
		Doc: "in the collection conversion builders (functions of package convert with a target element type parameter), an unknown or empty collection result typed from that parameter (UnknownVal(List/Set/Map(ety…)), ListValEmpty / SetValEmpty / MapValEmpty(ety…)) is built only on paths where the parameter was compared with the dynamic placeholder and found different: when the requested element type is 'any' the result takes the element type of the input, which has already resolved the placeholder",
		Run: runPlaceholderResolvedInResult,
	})
}

func runPlaceholderResolvedInResult(rr *RuleRun) {
	c := rr.Ctx
	pkg := "cty/convert"
	info := c.Info(pkg)
	for _, fd := range c.SortedDecls(pkg) {
		fn, _ := info.Defs[fd.Name].(*types.Func)
		if fn == nil {
			continue
		}
		sig := fn.Type().(*types.Signature)
		if sig.Results().Len() != 1 || !isConversionNamed(sig.Results().At(0).Type()) {
			continue
		}
		// the element-type parameter: a cty.Type parameter of a builder that also takes a conversion
		var ety types.Object
		hasConv := false
		for i := 0; i < sig.Params().Len(); i++ {
			id := paramIdent(fd, i)
			if id == nil {
				continue
			}
			if isCtyType(sig.Params().At(i).Type()) {
				ety = info.Defs[id]
			}
			if isConversionNamed(sig.Params().At(i).Type()) {
				hasConv = true
			}
		}
		if ety == nil || !hasConv {
			continue
		}
		ast.Inspect(fd.Body, func(n ast.Node) bool {
			fl, ok := n.(*ast.FuncLit)
			if !ok {
				return true
			}
			cf := c.CondFacts(fl.Body, info, nil)
			inspectNoLit(fl.Body, func(m ast.Node) bool {
				call, ok := m.(*ast.CallExpr)
				if !ok || len(call.Args) != 1 {
					return true
				}
				var tyArg ast.Expr
				switch {
				case isCall(info, call, "cty.ListValEmpty", "cty.SetValEmpty", "cty.MapValEmpty"):
					tyArg = call.Args[0]
				case isCall(info, call, "cty.UnknownVal", "cty.NullVal"):
					if tc, ok := ast.Unparen(call.Args[0]).(*ast.CallExpr); ok && isCall(info, tc, "cty.List", "cty.Set", "cty.Map") && len(tc.Args) == 1 {
						tyArg = tc.Args[0]
					}
				}
				if tyArg == nil || !mentionsObj(info, tyArg, ety) {
					return true
				}
				key := fmt.Sprintf("%s.%s/%s", pkg, declName(fd), trunc(exprStr(call), 50))
				resolved := cf.HoldsAt(call, func(cond ast.Expr, truth bool) bool {
					return !truth && eqCond(cond, func(e ast.Expr) bool { return objOf(info, e) == ety }, func(e ast.Expr) bool { return isPkgVar(info, e, "cty", "DynamicPseudoType") })
				})
				if resolved {
					rr.OK(key, call.Pos(), "built from the requested element type only where that is not the dynamic placeholder")
				} else {
					rr.Violation(key, call.Pos(), fmt.Sprintf("the result is typed from the requested element type %s on a path that has not excluded the dynamic placeholder: for a target of 'any' the result must take the element type of the input, otherwise it still carries a placeholder the input had already resolved", ety.Name()))
				}
				return true
			})
			return false
		})
	}
}

// ---------------------------------------------------------------------------
// C17.constructed-error-used

func init() {
	register(&Rule{
		ID: "C17.constructed-error-used", Prop: "C17", Also: []string{"C16", "C15", "C08", "C11", "C18", "C13", "C14"}, Floor: 100, Controls: 1,
		Doc: "an error value that is constructed (path.NewErrorf / NewError, fmt.Errorf, errors.New, function.NewArgError…) is used — returned, assigned, passed on or panicked with: a constructor call standing alone as a statement builds the error and throws it away, so the failure it describes is silently ignored and the function carries on with a zero value",
		Run: runConstructedErrorUsed,
	})
}

func runConstructedErrorUsed(rr *RuleRun) {
	c := rr.Ctx
	isCtor := func(info *types.Info, call *ast.CallExpr) bool {
		f := callee(info, call)
		if f == nil {
			return false
		}
		sig := f.Type().(*types.Signature)
		if sig.Results().Len() != 1 || !isErrorType(sig.Results().At(0).Type()) {
			return false
		}
		n := f.Name()
		return strings.HasPrefix(n, "NewError") || strings.HasPrefix(n, "NewArgError") || n == "Errorf" || (n == "New" && f.Pkg() != nil && f.Pkg().Path() == "errors")
	}
	eachFuncBody(c, allPkgs, func(pkg string, fd *ast.FuncDecl, body *ast.BlockStmt) {
		info := c.Info(pkg)
		inspectNoLit(body, func(n ast.Node) bool {
			call, ok := n.(*ast.CallExpr)
			if !ok || !isCtor(info, call) {
				return true
			}
			key := fmt.Sprintf("%s.%s/%s", pkg, declName(fd), trunc(exprStr(call), 50))
			if _, alone := c.Parent(call).(*ast.ExprStmt); alone {
				rr.Violation(key, call.Pos(), "this error is constructed and discarded (the call stands alone as a statement): the failure it describes is not reported, and the function continues with whatever zero value the failed step left behind")
			} else {
				rr.OKTrivial(key, call.Pos(), "the constructed error is used")
			}
			return true
		})
	})
}

// ---------------------------------------------------------------------------
// C11.shadowed-case — a case that can never be taken

func init() {
	register(&Rule{
		ID: "C11.shadowed-case", Prop: "C11", Also: []string{"C01", "C07", "C08", "C12", "C15", "C16", "C17", "C18", "C19", "C13", "C14"}, Floor: 60, Controls: 1,
		Doc: "in a tagless switch no case is shadowed by an earlier one: if every conjunct of an earlier case's condition also occurs among the conjuncts of a later case's condition (after canonical rendering), the later case can never be taken — its more specific handling (a dedicated error, a different result type) is silently replaced by the earlier, more general branch",
		Run: runShadowedCase,
	})
}

func runShadowedCase(rr *RuleRun) {
	c := rr.Ctx
	eachFuncBody(c, allPkgs, func(pkg string, fd *ast.FuncDecl, body *ast.BlockStmt) {
		_ = c.Info(pkg)
		inspectNoLit(body, func(n ast.Node) bool {
			sw, ok := n.(*ast.SwitchStmt)
			if !ok || sw.Tag != nil {
				return true
			}
			type cs struct {
				conj map[string]bool
				pos  token.Pos
				text string
			}
			var cases []cs
			for _, cl := range sw.Body.List {
				cc := cl.(*ast.CaseClause)
				// a case with several expressions is a disjunction: each alternative separately
				for _, e := range cc.List {
					set := map[string]bool{}
					var flat func(x ast.Expr)
					flat = func(x ast.Expr) {
						if be, ok := ast.Unparen(x).(*ast.BinaryExpr); ok && be.Op == token.LAND {
							flat(be.X)
							flat(be.Y)
							return
						}
						set[exprStr(ast.Unparen(x))] = true
					}
					flat(e)
					cases = append(cases, cs{set, e.Pos(), exprStr(e)})
				}
			}
			key := fmt.Sprintf("%s.%s/switch@%s", pkg, declName(fd), c.PosStr(sw.Pos()))
			bad := false
			for j := 1; j < len(cases) && !bad; j++ {
				for i := 0; i < j; i++ {
					sub := len(cases[i].conj) > 0
					for p := range cases[i].conj {
						if !cases[j].conj[p] {
							sub = false
						}
					}
					if sub {
						bad = true
						rr.Violation(key, cases[j].pos, fmt.Sprintf("the case '%s' can never be taken: whenever it holds, the earlier case '%s' (whose condition it contains) holds too and is taken instead, so the handling written for the more specific case is dead", trunc(cases[j].text, 50), trunc(cases[i].text, 40)))
						break
					}
				}
			}
			if !bad {
				rr.OKTrivial(key, sw.Pos(), fmt.Sprintf("%d case condition(s), none contained in a later one", len(cases)))
			}
			return true
		})
	})
}

// ---------------------------------------------------------------------------
// C17.error-branch-exits

func init() {
	register(&Rule{
		ID: "C17.error-branch-exits", Prop: "C17", Also: []string{"C15", "C16", "C08", "C11", "C18", "C13", "C14"}, Floor: 100, Controls: 1,
		Doc: "the branch taken for a non-nil error ('if err != nil { … }') does not simply run off its end on some path: on every path through it the function exits (return, panic, continue, break, goto), or the error is passed on (assigned to another variable, appended, handed to a call) — an error branch that falls through on one of its paths continues as if the failed step had succeeded",
		Run: runErrorBranchExits,
	})
}

func runErrorBranchExits(rr *RuleRun) {
	c := rr.Ctx
	eachFuncBody(c, allPkgs, func(pkg string, fd *ast.FuncDecl, body *ast.BlockStmt) {
		info := c.Info(pkg)
		inspectNoLit(body, func(n ast.Node) bool {
			if fs, isFor := n.(*ast.ForStmt); isFor && fs.Cond != nil {
				// for …; err == nil; … : leaving the loop is the error branch
				for _, cj := range conjuncts(fs.Cond) {
					cb, ok := ast.Unparen(cj).(*ast.BinaryExpr)
					if !ok || cb.Op != token.EQL || !isNilIdent(info, cb.Y) {
						continue
					}
					eo := objOf(info, cb.X)
					if eo == nil || !isErrorType(eo.Type()) {
						continue
					}
					key := fmt.Sprintf("%s.%s/for %s == nil@%s", pkg, declName(fd), eo.Name(), c.PosStr(fs.Pos()))
					readAfter := false
					ast.Inspect(body, func(m ast.Node) bool {
						if id, ok := m.(*ast.Ident); ok && id.Pos() > fs.End() && info.Uses[id] == eo {
							readAfter = true
						}
						return true
					})
					if readAfter {
						rr.OKTrivial(key, fs.Pos(), "the error that ends the loop is looked at after it")
					} else {
						rr.Violation(key, fs.Pos(), fmt.Sprintf("the loop runs while %s == nil and %s is never looked at after the loop: whatever error ends it is taken for a normal end, and the function continues with a truncated result as if the failed step had succeeded", eo.Name(), eo.Name()))
					}
				}
				return true
			}
			is, ok := n.(*ast.IfStmt)
			if !ok {
				return true
			}
			be, ok := ast.Unparen(is.Cond).(*ast.BinaryExpr)
			if !ok || be.Op != token.NEQ || !isNilIdent(info, be.Y) {
				return true
			}
			eo := objOf(info, be.X)
			if eo == nil || !isErrorType(eo.Type()) {
				return true
			}
			key := fmt.Sprintf("%s.%s/if %s != nil@%s", pkg, declName(fd), eo.Name(), c.PosStr(is.Pos()))
			// the error is passed on somewhere in the branch?
			passed := false
			inspectNoLit(is.Body, func(m ast.Node) bool {
				switch x := m.(type) {
				case *ast.AssignStmt:
					// stored elsewhere, or re-wrapped into itself (whether the re-wrapped error is then read is
					// decided by the unread-error rules)
					for _, r := range x.Rhs {
						if _, inspect := ast.Unparen(r).(*ast.TypeAssertExpr); inspect {
							continue // looking at the error's dynamic type is not passing it on
						}
						if mentionsObj(info, r, eo) {
							passed = true
						}
					}
				case *ast.CallExpr:
					if _, isStmt := c.Parent(x).(*ast.ExprStmt); isStmt {
						for _, a := range x.Args {
							if mentionsObj(info, a, eo) {
								passed = true
							}
						}
					}
				}
				return true
			})
			if passed {
				rr.OKTrivial(key, is.Pos(), "the error is passed on inside the branch")
				return true
			}
			if blockFallsThrough(info, is.Body.List) {
				rr.Violation(key, is.Pos(), fmt.Sprintf("the branch for a non-nil %s can run off its end on some path without exiting and without passing the error on: the function then continues as if the failed step had succeeded (malformed output, a zero value used as a result)", eo.Name()))
			} else {
				rr.OKTrivial(key, is.Pos(), "every path through the error branch exits")
			}
			return true
		})
	})
}

// blockFallsThrough: some path through the statement list reaches its end (conservative structural check).
func blockFallsThrough(info *types.Info, list []ast.Stmt) bool {
	if len(list) == 0 {
		return true
	}
	return stmtFallsThrough(info, list[len(list)-1])
}

func stmtFallsThrough(info *types.Info, s ast.Stmt) bool {
	switch x := s.(type) {
	case *ast.ReturnStmt:
		return false
	case *ast.BranchStmt:
		return false
	case *ast.ExprStmt:
		if call, ok := x.X.(*ast.CallExpr); ok && isBuiltin(info, call, "panic") {
			return false
		}
		return true
	case *ast.BlockStmt:
		return blockFallsThrough(info, x.List)
	case *ast.IfStmt:
		if x.Else == nil {
			return true
		}
		if blockFallsThrough(info, x.Body.List) {
			return true
		}
		return stmtFallsThrough(info, x.Else)
	case *ast.SwitchStmt:
		hasDefault := false
		for _, cl := range x.Body.List {
			cc := cl.(*ast.CaseClause)
			if cc.List == nil {
				hasDefault = true
			}
			if blockFallsThrough(info, cc.Body) {
				return true
			}
		}
		return !hasDefault
	}
	return true
}

// ---------------------------------------------------------------------------
// C19.unmark-transformer-unmarks, C12.jsonencode-prefix-constant

func init() {
	register(&Rule{
		ID: "C19.unmark-transformer-unmarks", Prop: "C19", Also: []string{"C04"}, Floor: 1, Controls: 0,
		Doc: "unmarkTransformer.Enter (behind UnmarkDeep / UnmarkDeepWithPaths) hands the traversal the unmarked value on every path: it never returns its argument as it came in (a shortcut for null or unknown members leaves their marks in place and unreported, so re-applying the reported marks does not restore the original)",
		Run: runUnmarkTransformerUnmarks,
	})
	register(&Rule{
		ID: "C12.jsonencode-prefix-constant", Prop: "C12", Floor: 1, Controls: 0,
		Doc: "the string prefix that JSONEncodeFunc promises for an unknown result is a constant delimiter (the opening quote, brace or bracket): it is not computed from the argument's own known prefix, which JSON encoding would escape (a quote, a backslash, <, >, & or a control character in it makes the promised prefix wrong)",
		Run: runJSONEncodePrefixConstant,
	})
}

func runUnmarkTransformerUnmarks(rr *RuleRun) {
	c := rr.Ctx
	info := c.Info("cty")
	fd := rr.MustDecl("cty", "unmarkTransformer.Enter")
	if fd == nil {
		return
	}
	var v types.Object
	for i := 0; ; i++ {
		id := paramIdent(fd, i)
		if id == nil {
			break
		}
		if isCtyValue(info.TypeOf(id)) {
			v = info.Defs[id]
		}
	}
	if v == nil {
		rr.Broken("stale anchor: unmarkTransformer.Enter has no cty.Value parameter")
		return
	}
	cf := c.CondFacts(fd.Body, info, nil)
	g := c.CFG(fd.Body, info)
	n := 0
	for _, ret := range g.Returns() {
		if len(ret.Results) != 2 {
			continue
		}
		n++
		key := "cty.unmarkTransformer.Enter/return " + trunc(exprStr(ret.Results[0]), 30)
		if objOf(info, ret.Results[0]) != v {
			rr.OK(key, ret.Pos(), "returns a value derived by unmarking")
			continue
		}
		unmarkedHere := cf.HoldsAt(ret, func(cond ast.Expr, truth bool) bool {
			return !truth && methodCond(info, cond, v, "IsMarked", "ContainsMarked")
		})
		if unmarkedHere {
			rr.OK(key, ret.Pos(), "the argument is returned as it came only where it was tested unmarked")
		} else {
			rr.Violation(key, ret.Pos(), "the argument is handed back to the traversal as it came in, on a path that has not established that it carries no marks: a marked member taking this path keeps its marks and none are reported for it")
		}
	}
	if n == 0 {
		rr.Broken("stale anchor: unmarkTransformer.Enter has no (Value, error) return")
	}
}

func runJSONEncodePrefixConstant(rr *RuleRun) {
	c := rr.Ctx
	pkg := "cty/function/stdlib"
	info := c.Info(pkg)
	n := 0
	for _, s := range findSpecs(c, pkg) {
		if s.Name != "JSONEncodeFunc" {
			continue
		}
		ast.Inspect(s.Lit, func(nd ast.Node) bool {
			call, ok := nd.(*ast.CallExpr)
			if !ok || !isCall(info, call, "cty.RefinementBuilder.StringPrefixFull", "cty.RefinementBuilder.StringPrefix") || len(call.Args) != 1 {
				return true
			}
			n++
			key := fmt.Sprintf("%s.JSONEncodeFunc/%s", pkg, trunc(exprStr(call), 50))
			if tv, ok := info.Types[call.Args[0]]; ok && tv.Value != nil {
				rr.OK(key, call.Pos(), "a constant prefix")
			} else {
				rr.Violation(key, call.Pos(), fmt.Sprintf("the promised prefix %s is computed at run time: the known prefix of the argument is not what its JSON encoding starts with once a character in it needs escaping, so the refined result excludes the real result", exprStr(call.Args[0])))
			}
			return true
		})
	}
	if n == 0 {
		rr.Info(pkg+".JSONEncodeFunc/prefix", token.NoPos, "JSONEncodeFunc promises no string prefix")
	}
}

// ---------------------------------------------------------------------------
// C02.product-precision

func init() {
	register(&Rule{
		ID: "C02.product-precision", Prop: "C02", Floor: 1, Controls: 0,
		Doc: "Value.Multiply computes the product into a big.Float whose working precision is a constant (the library's 512-bit ceiling) or is derived from the precision of BOTH operands: an exact product needs the sum of the two mantissa widths, so a working precision taken from the receiver alone rounds the product of a narrow receiver and a wide operand (and makes a*b differ from b*a)",
		Run: runProductPrecision,
	})
}

func runProductPrecision(rr *RuleRun) {
	// Multiply, and Modulo, whose remainder is val - other*floor(val/other): the product inside it has to be exact too
	for _, name := range []string{"Value.Multiply", "Value.Modulo"} {
		productPrecisionIn(rr, name)
	}
}

func productPrecisionIn(rr *RuleRun, method string) {
	c := rr.Ctx
	info := c.Info("cty")
	fd := rr.MustDecl("cty", method)
	if fd == nil {
		return
	}
	recv := info.Defs[fd.Recv.List[0].Names[0]]
	other := info.Defs[paramIdent(fd, 0)]
	n := 0
	inspectNoLit(fd.Body, func(nd ast.Node) bool {
		call, ok := nd.(*ast.CallExpr)
		if !ok || !isCall(info, call, "math/big.Float.Mul") {
			return true
		}
		n++
		key := "cty." + method + "/" + trunc(exprStr(call), 40)
		// the receiver of Mul and where its precision was set
		ro := rootObj(info, call.Fun.(*ast.SelectorExpr).X)
		var precArg ast.Expr
		var precPos token.Pos
		inspectNoLit(fd.Body, func(m ast.Node) bool {
			pc, ok := m.(*ast.CallExpr)
			if !ok || !isCall(info, pc, "math/big.Float.SetPrec") || pc.Pos() > call.Pos() {
				return true
			}
			// new(big.Float).SetPrec(E) assigned to ro, or ro.SetPrec(E)
			if rootObj(info, pc) == ro {
				precArg, precPos = pc.Args[0], pc.Pos()
			}
			if as, ok := c.Parent(pc).(*ast.AssignStmt); ok && len(as.Lhs) == 1 && objOf(info, as.Lhs[0]) == ro {
				precArg, precPos = pc.Args[0], pc.Pos()
			}
			return true
		})
		if precArg == nil {
			rr.Violation(key, call.Pos(), "the product is computed into a big.Float whose precision was not set (SetPrec) before the multiplication: it is zero, or inherited from one operand through Copy, so the receiver takes at most the larger operand precision and rounds the product — for Modulo, 1e16 (a float64) % 3 comes out as 0")
			return true
		}
		if _, isConst := constInt(info, precArg); isConst {
			rr.OK(key, call.Pos(), "constant working precision "+exprStr(precArg))
			return true
		}
		// dependence of the precision expression on the operands, through assignments that precede it
		dep := map[types.Object][2]bool{} // var → depends on (recv, other)
		scan := func(e ast.Expr) (r, o bool) {
			ast.Inspect(e, func(m ast.Node) bool {
				if id, ok := m.(*ast.Ident); ok {
					ob := info.Uses[id]
					if ob == recv {
						r = true
					}
					if ob == other {
						o = true
					}
					if d, ok := dep[ob]; ok {
						r, o = r || d[0], o || d[1]
					}
				}
				return true
			})
			return
		}
		// one pass in source order: what a variable depends on is what had been assigned to it by then (the
		// function is straight-line code with small ifs; later assignments must not count)
		inspectNoLit(fd.Body, func(m ast.Node) bool {
			as, ok := m.(*ast.AssignStmt)
			if !ok || as.Pos() > precPos || len(as.Lhs) != len(as.Rhs) {
				return true
			}
			for i, l := range as.Lhs {
				if ob := objOf(info, l); ob != nil && ob != recv && ob != other {
					r, o := scan(as.Rhs[i])
					d := dep[ob]
					dep[ob] = [2]bool{d[0] || r, d[1] || o}
				}
			}
			return true
		})
		r, o := scan(precArg)
		if r && o {
			rr.OK(key, call.Pos(), "the working precision depends on both operands")
		} else {
			rr.Violation(key, call.Pos(), fmt.Sprintf("the working precision of the product (%s) is derived from only one of the two operands: the exact product needs the sum of both mantissa widths, so a narrow operand on that side makes the product of a wide number round — and a*b differ from b*a", exprStr(precArg)))
		}
		return true
	})
	if n == 0 {
		rr.Broken("stale anchor: Value.Multiply does not call big.Float.Mul")
	}
}

// conjuncts splits a condition on top-level &&.
func conjuncts(e ast.Expr) []ast.Expr {
	e = ast.Unparen(e)
	if be, ok := e.(*ast.BinaryExpr); ok && be.Op == token.LAND {
		return append(conjuncts(be.X), conjuncts(be.Y)...)
	}
	return []ast.Expr{e}
}
