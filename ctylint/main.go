// ctylint decides structural clauses of the go-cty properties from the source
// of /repo alone: it loads and type-checks the nine packages, runs the rules of
// the requested property and writes an evidence file. It never executes go-cty.
package main

import (
	"encoding/json"
	"flag"
	"fmt"
	"os"
	"path/filepath"
	"runtime/debug"
	"sort"
	"strconv"
	"strings"
	"time"
)

const modPath = "github.com/zclconf/go-cty"

var (
	flagProp     = flag.String("prop", "", "property id (C01..C20) or 'all'")
	flagTier     = flag.String("tier", "quick", "quick|thorough")
	flagSeed     = flag.Int("seed", 0, "seed (permutes variant order only)")
	flagEvidence = flag.String("evidence", "", "evidence file to write")
	flagRepo     = flag.String("repo", "/repo", "repository to analyse")
	flagVerif    = flag.String("verif", "", "verif dir (default: parent of the binary's dir, else /verif)")
	flagReplay   = flag.String("replay", "", "replay file: re-decide the obligation it names")
	flagOverlay  = flag.String("overlay", "", "variant json {file,old,new}: analyse /repo with this single edit overlaid (checker self-test)")
	flagPatch    = flag.String("overlaypatch", "", "unified diff applied to /repo in memory (checker self-test on a seeded mutant)")
	flagGoarch   = flag.String("goarch", "", "GOARCH for loading")
	flagList     = flag.Bool("list", false, "list rules")
	flagVerbose  = flag.Bool("v", false, "print every obligation")
	flagNoCtl    = flag.Bool("nocontrols", false, "skip positive controls")
	flagDumpW    = flag.Bool("dumpwrites", false, "calibration: print every non-local write with its target origin")
	flagJSONOut  = flag.String("json", "", "write all obligations as json to this file (for the variant audit)")
)

func verifDir() string {
	if *flagVerif != "" {
		return *flagVerif
	}
	if exe, err := os.Executable(); err == nil {
		d := filepath.Dir(filepath.Dir(exe))
		if _, err := os.Stat(filepath.Join(d, "properties.jsonl")); err == nil {
			return d
		}
	}
	return "/verif"
}

func main() {
	flag.Parse()
	if v := os.Getenv("VERIF_SEED"); v != "" && *flagSeed == 0 {
		if n, err := strconv.Atoi(v); err == nil {
			*flagSeed = n
		}
	}
	if v := os.Getenv("VERIF_TIER"); v != "" && !flagPassed("tier") {
		if v == "quick" || v == "thorough" {
			*flagTier = v
		}
	}
	if *flagList {
		for _, r := range allRules {
			fmt.Printf("%s\t%s\tfloor=%d\t%s\talso=%s\n", r.Prop, r.ID, r.Floor, r.Doc, strings.Join(r.Also, ","))
		}
		return
	}
	if *flagDumpW {
		ctx, err := loadCtx(*flagRepo, *flagGoarch, nil, false)
		if err != nil {
			fmt.Println("BROKEN", err)
			os.Exit(2)
		}
		dumpWrites(ctx)
		return
	}
	if *flagReplay != "" {
		os.Exit(replay(*flagReplay))
	}
	if *flagProp == "" {
		fmt.Fprintln(os.Stderr, "usage: ctylint -prop Cxx [-tier quick|thorough] [-evidence file]")
		os.Exit(2)
	}
	os.Exit(runProp(*flagProp))
}

func flagPassed(name string) bool {
	found := false
	flag.Visit(func(f *flag.Flag) {
		if f.Name == name {
			found = true
		}
	})
	return found
}

// runProp runs all rules of one property and returns the exit code.
func runProp(prop string) (code int) {
	start := time.Now()
	var rules []*Rule
	for _, r := range allRules {
		if r.Prop == prop || prop == "all" || inList(r.Also, prop) {
			rules = append(rules, r)
		}
	}
	if len(rules) == 0 {
		fmt.Fprintf(os.Stderr, "ctylint: no rules for property %s\n", prop)
		return 2
	}

	var overlay *Variant
	if *flagPatch != "" {
		overlay = &Variant{Name: filepath.Base(filepath.Dir(*flagPatch)), Patch: *flagPatch}
	} else if *flagOverlay != "" {
		v, err := readVariant(*flagOverlay)
		if err != nil {
			fmt.Fprintf(os.Stderr, "ctylint: %v\n", err)
			return 2
		}
		overlay = v
	}

	rep := &Report{Prop: prop}
	ctx, err := loadCtx(*flagRepo, *flagGoarch, overlay, !*flagNoCtl)
	if err != nil {
		fmt.Printf("BROKEN property=%s %v\n", prop, err)
		return 2
	}
	rep.Ctx = ctx
	known := loadKnown(filepath.Join(verifDir(), "known_findings.json"))

	runRules(ctx, rep, rules)

	// thorough: repeat under GOARCH=386 and run the sensitivity audit
	var audit *AuditResult
	if *flagTier == "thorough" && overlay == nil {
		if *flagGoarch == "" {
			ctx386, err := loadCtx(*flagRepo, "386", nil, !*flagNoCtl)
			if err != nil {
				rep.Broken("load", "GOARCH=386 load failed: "+err.Error())
			} else {
				rep386 := &Report{Prop: prop, Ctx: ctx386}
				runRules(ctx386, rep386, rules)
				mergeArch(rep, rep386)
			}
		}
		audit = runAudit(prop, rules)
		for _, m := range audit.Missed {
			rep.Broken("audit", "variant not detected: "+m)
		}
	}

	// a violation belongs to the properties that anchor the file it is in: a rule that also runs under other
	// properties (because it inspects files several of them share) must not raise their alarm for a construct
	// in a file those properties do not mention
	if prop != "all" {
		anchors := loadAnchors(filepath.Join(verifDir(), "properties.jsonl"))
		ruleOf := map[string]*Rule{}
		for _, r := range allRules {
			ruleOf[r.ID] = r
		}
		for _, o := range rep.Obls {
			if o.Status != "violation" {
				continue
			}
			file := o.Pos
			if i := strings.LastIndex(file, ":"); i >= 0 {
				file = file[:i]
			}
			if file == "" || file == "-" || anchors[prop][file] {
				continue
			}
			r := ruleOf[o.Rule]
			home := false // some property the rule runs under anchors the file
			if r != nil {
				for _, p := range append([]string{r.Prop}, r.Also...) {
					if anchors[p][file] {
						home = true
					}
				}
			}
			if home || (r != nil && r.Prop != prop) {
				o.Status = "info"
				o.Detail = "outside the files this property is anchored in (reported under the properties that anchor " + file + "): " + o.Detail
			}
		}
	}

	// classify against known findings
	viol := 0
	var lines []string
	vdir := filepath.Join(verifDir(), "evidence", "violations")
	for _, o := range rep.Obls {
		if o.Status != "violation" {
			continue
		}
		if kf := known.match(prop, o); kf != nil {
			o.Status = "known-finding"
			lines = append(lines, fmt.Sprintf("KNOWN-FINDING: property=%s %s %s: %s", prop, o.Rule, o.Construct, kf.FailsWith))
			continue
		}
		viol++
		path := ""
		if overlay == nil {
			os.MkdirAll(vdir, 0o755)
			path = filepath.Join(vdir, fmt.Sprintf("%s-%d.json", prop, viol))
			b, _ := json.MarshalIndent(map[string]any{"property": prop, "rule": o.Rule, "construct": o.Construct, "pos": o.Pos, "detail": o.Detail}, "", " ")
			os.WriteFile(path, b, 0o644)
		}
		lines = append(lines, fmt.Sprintf("VIOLATION property=%s replay=%s rule=%s construct=%s at %s: %s", prop, path, o.Rule, o.Construct, o.Pos, o.Detail))
	}
	sort.Strings(lines)
	for _, l := range lines {
		fmt.Println(l)
	}
	for _, b := range rep.BrokenMsgs {
		fmt.Printf("BROKEN property=%s %s\n", prop, b)
	}

	wall := time.Since(start).Seconds()
	loadNotDecided(verifDir())
	if *flagEvidence != "" {
		if err := writeEvidence(*flagEvidence, prop, rep, rules, audit, viol, wall); err != nil {
			fmt.Fprintf(os.Stderr, "ctylint: writing evidence: %v\n", err)
			return 2
		}
	}
	if *flagJSONOut != "" {
		b, _ := json.Marshal(rep.Obls)
		os.WriteFile(*flagJSONOut, b, 0o644)
	}
	if *flagVerbose {
		for _, o := range rep.Obls {
			fmt.Printf("%-14s %-40s %-50s %s  %s\n", o.Status, o.Rule, o.Construct, o.Pos, o.Detail)
		}
	}
	st := rep.stats()
	fmt.Printf("ctylint: property=%s tier=%s packages=%d rules=%d obligations=%d discharged=%d assumed=%d known-findings=%d violations=%d broken=%d wall=%.1fs\n",
		prop, *flagTier, len(ctx.Pkgs), len(rules), st.total, st.discharged, st.assumed, st.known, viol, len(rep.BrokenMsgs), wall)
	// a violation that was established stands even if some other rule could not decide
	if viol > 0 {
		return 1
	}
	if len(rep.BrokenMsgs) > 0 {
		return 2
	}
	return 0
}

func runRules(ctx *Ctx, rep *Report, rules []*Rule) {
	for _, r := range rules {
		func() {
			defer func() {
				if e := recover(); e != nil {
					rep.Broken(r.ID, fmt.Sprintf("analyser panic: %v\n%s", e, debug.Stack()))
				}
			}()
			rr := &RuleRun{Rule: r, Rep: rep, Ctx: ctx}
			r.Run(rr)
			rr.finish()
		}()
	}
}

func inList(l []string, s string) bool {
	for _, x := range l {
		if x == s {
			return true
		}
	}
	return false
}

func replay(path string) int {
	b, err := os.ReadFile(path)
	if err != nil {
		fmt.Fprintln(os.Stderr, err)
		return 2
	}
	var v struct{ Property, Rule, Construct string }
	if err := json.Unmarshal(b, &v); err != nil {
		fmt.Fprintln(os.Stderr, err)
		return 2
	}
	var rules []*Rule
	for _, r := range allRules {
		if r.ID == v.Rule {
			rules = append(rules, r)
		}
	}
	if len(rules) == 0 {
		fmt.Fprintf(os.Stderr, "no such rule %s\n", v.Rule)
		return 2
	}
	ctx, err := loadCtx(*flagRepo, *flagGoarch, nil, false)
	if err != nil {
		fmt.Println("BROKEN", err)
		return 2
	}
	rep := &Report{Prop: v.Property, Ctx: ctx}
	runRules(ctx, rep, rules)
	code := 0
	for _, o := range rep.Obls {
		if o.Construct == v.Construct {
			fmt.Printf("%s %s %s at %s: %s\n", o.Status, o.Rule, o.Construct, o.Pos, o.Detail)
			if o.Status == "violation" {
				fmt.Printf("VIOLATION property=%s replay=%s\n", v.Property, path)
				code = 1
			}
		}
	}
	return code
}

func shortPos(s string) string {
	return strings.TrimPrefix(s, "/repo/")
}

// loadAnchors reads the anchor files of every property from properties.jsonl.
func loadAnchors(path string) map[string]map[string]bool {
	out := map[string]map[string]bool{}
	b, err := os.ReadFile(path)
	if err != nil {
		return out
	}
	for _, line := range strings.Split(string(b), "\n") {
		if strings.TrimSpace(line) == "" {
			continue
		}
		var p struct {
			ID      string `json:"id"`
			Anchors struct {
				Files []string `json:"files"`
			} `json:"anchors"`
		}
		if json.Unmarshal([]byte(line), &p) != nil {
			continue
		}
		m := map[string]bool{}
		for _, f := range p.Anchors.Files {
			m[f] = true
		}
		out[p.ID] = m
	}
	return out
}
