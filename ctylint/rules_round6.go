package main

import (
	"fmt"
	"go/ast"
	"go/token"
	"go/types"
	"path/filepath"
	"strings"
)

// ---------------------------------------------------------------------------
// C14.cuts-at-cluster-boundaries

func init() {
	register(&Rule{
		ID: "C14.cuts-at-cluster-boundaries", Prop: "C14", Floor: 6, Controls: 1,
		Doc: "in the string functions' files (stdlib/string.go, stdlib/format.go) every slice of a string or byte buffer with a computed bound cuts at a position that is a sum of advances returned by textseg.ScanGraphemeClusters (a counter that starts at 0 and only ever grows by such an advance), or at the position of a delimiter found by strings.Index*: a position counted in bytes, runes (utf8.*) or by i++ splits a multi-code-point grapheme cluster — this decides where the functions cut, not what they count",
		Run: runCutsAtClusterBoundaries,
	})
}

func runCutsAtClusterBoundaries(rr *RuleRun) {
	c := rr.Ctx
	pkg := "cty/function/stdlib"
	info := c.Info(pkg)
	files := map[string]bool{"string.go": true, "format.go": true}
	eachFuncBody(c, []string{pkg}, func(_ string, fd *ast.FuncDecl, body *ast.BlockStmt) {
		if !files[filepath.Base(c.FileOf(body.Pos()))] && !c.IsControl(body.Pos()) {
			return
		}
		okExpr := clusterAligned(c, info, fd, body, 0)
		inspectNoLit(body, func(n ast.Node) bool {
			se, ok := n.(*ast.SliceExpr)
			if !ok {
				return true
			}
			t := info.TypeOf(se.X)
			if t == nil {
				return true
			}
			isText := false
			switch u := t.Underlying().(type) {
			case *types.Basic:
				isText = u.Info()&types.IsString != 0
			case *types.Slice:
				if b, ok := u.Elem().Underlying().(*types.Basic); ok && b.Kind() == types.Uint8 {
					isText = true
				}
			}
			if !isText {
				return true
			}
			// the destination of copy() is written to, not cut out of
			if call, ok := c.Parent(se).(*ast.CallExpr); ok && isBuiltin(info, call, "copy") && len(call.Args) == 2 && call.Args[0] == ast.Expr(se) {
				return true
			}
			key := fmt.Sprintf("%s.%s/%s", pkg, declName(fd), exprStr(se))
			if c.IsControl(se.Pos()) {
				key = "control/" + key
			}
			var bad ast.Expr
			for _, b := range []ast.Expr{se.Low, se.High} {
				if b != nil && !okExpr(b) {
					bad = b
				}
			}
			if bad != nil {
				rr.Violation(key, se.Pos(), fmt.Sprintf("%s is cut at %s, which is not a sum of advances returned by textseg.ScanGraphemeClusters (nor the position of a found delimiter): a position counted in bytes, runes or steps of one can fall inside a grapheme cluster and split it", exprStr(se.X), exprStr(bad)))
			} else if se.Low == nil && se.High == nil {
				rr.OKTrivial(key, se.Pos(), "whole buffer")
			} else {
				rr.OK(key, se.Pos(), "bounds are sums of grapheme-cluster advances, constants or found delimiter positions")
			}
			return true
		})
	})
}

// clusterAligned analyses one function body and returns the predicate "this integer
// expression is a cluster-aligned position".
func clusterAligned(c *Ctx, info *types.Info, fd *ast.FuncDecl, body *ast.BlockStmt, depth int) func(e ast.Expr) bool {
	// advances: first result of textseg.ScanGraphemeClusters; found: result of strings.Index*
	adv := map[types.Object]bool{}
	found := map[types.Object]bool{}
	type asg struct {
		tok token.Token
		rhs ast.Expr // nil: not a single expression (tuple assignment from a call, range variable, ...)
	}
	assigns := map[types.Object][]asg{}
	incdec := map[types.Object]bool{}
	inspectNoLit(body, func(n ast.Node) bool {
		switch x := n.(type) {
		case *ast.AssignStmt:
			if len(x.Rhs) == 1 && len(x.Lhs) >= 1 {
				if call, ok := ast.Unparen(x.Rhs[0]).(*ast.CallExpr); ok {
					if f := callee(info, call); f != nil && f.Pkg() != nil {
						o := objOf(info, x.Lhs[0])
						switch {
						case strings.HasSuffix(f.Pkg().Path(), "/textseg") && f.Name() == "ScanGraphemeClusters" && len(x.Lhs) == 3:
							if o != nil {
								adv[o] = true
							}
							return true
						case f.Pkg().Path() == "strings" && strings.HasPrefix(f.Name(), "Index") || f.Pkg().Path() == "strings" && strings.HasPrefix(f.Name(), "LastIndex"):
							if o != nil && len(x.Lhs) == 1 {
								found[o] = true
							}
							return true
						}
					}
				}
			}
			for i, l := range x.Lhs {
				o := objOf(info, l)
				if o == nil {
					continue
				}
				if len(x.Lhs) == len(x.Rhs) {
					assigns[o] = append(assigns[o], asg{x.Tok, x.Rhs[i]})
				} else {
					assigns[o] = append(assigns[o], asg{x.Tok, nil})
				}
			}
		case *ast.IncDecStmt:
			if o := objOf(info, x.X); o != nil {
				incdec[o] = true
			}
		case *ast.RangeStmt:
			for _, e := range []ast.Expr{x.Key, x.Value} {
				if e != nil {
					if o := objOf(info, e); o != nil {
						assigns[o] = append(assigns[o], asg{token.DEFINE, nil})
					}
				}
			}
		}
		return true
	})
	// parameters are not positions we know anything about
	params := map[types.Object]bool{}
	if fd.Type != nil && fd.Type.Params != nil && fd.Body == body {
		for _, f := range fd.Type.Params.List {
			for _, nm := range f.Names {
				params[info.Defs[nm]] = true
			}
		}
	}
	// aligned: greatest fixed point
	aligned := map[types.Object]bool{}
	for o, as := range assigns {
		if b, ok := o.Type().Underlying().(*types.Basic); ok && b.Info()&types.IsInteger != 0 && !incdec[o] && !params[o] && len(as) > 0 {
			aligned[o] = true
		}
	}
	var okExpr func(e ast.Expr) bool
	okExpr = func(e ast.Expr) bool {
		e = ast.Unparen(e)
		if tv, ok := info.Types[e]; ok && tv.Value != nil {
			return true
		}
		switch x := e.(type) {
		case *ast.Ident:
			o := objOf(info, x)
			return o != nil && (adv[o] || aligned[o] || found[o])
		case *ast.BinaryExpr:
			return x.Op == token.ADD && okExpr(x.X) && okExpr(x.Y)
		case *ast.CallExpr:
			if isBuiltin(info, x, "len") {
				return true // the end of a buffer is a boundary
			}
		}
		return false
	}
	for changed := true; changed; {
		changed = false
		for o := range aligned {
			for _, a := range assigns[o] {
				good := false
				switch a.tok {
				case token.DEFINE, token.ASSIGN, token.ADD_ASSIGN:
					good = a.rhs != nil && okExpr(a.rhs)
				}
				if !good {
					delete(aligned, o)
					changed = true
					break
				}
			}
		}
	}
	return okExpr
}

// returnsClusterAligned: a package-level helper with a single integer result all of whose
// returns are cluster-aligned positions in its own body (a wrapper around the scanner).
func returnsClusterAligned(c *Ctx, info *types.Info, f *types.Func, depth int) bool {
	if depth > 2 || f == nil || f.Pkg() == nil || shortPkg(f.Pkg()) != "cty/function/stdlib" {
		return false
	}
	sig := f.Type().(*types.Signature)
	if sig.Recv() != nil || sig.Results().Len() != 1 {
		return false
	}
	if b, ok := sig.Results().At(0).Type().Underlying().(*types.Basic); !ok || b.Info()&types.IsInteger == 0 {
		return false
	}
	hd := c.Decl("cty/function/stdlib", f.Name())
	if hd == nil || hd.Body == nil {
		return false
	}
	ok := clusterAligned(c, info, hd, hd.Body, depth+1)
	n, good := 0, true
	inspectNoLit(hd.Body, func(x ast.Node) bool {
		if r, isRet := x.(*ast.ReturnStmt); isRet {
			n++
			if len(r.Results) != 1 || !ok(r.Results[0]) {
				good = false
			}
		}
		return true
	})
	return n > 0 && good
}

// ---------------------------------------------------------------------------
// C11.first-iteration-skips-only-comparison

func init() {
	register(&Rule{
		ID: "C11.first-iteration-skips-only-comparison", Prop: "C11", Also: []string{"C12"}, Floor: 0, Controls: 1,
		Doc: "in a loop over the arguments whose body contains `if i == 0 { first = …; continue }`, every statement after that continue compares the current element with what the first iteration recorded (it mentions a variable assigned in that block): a statement there that processes the element on its own (sets a flag, collects attributes) is skipped for the first argument only, so the result depends on which position an argument is in",
		Run: runFirstIterationSkips,
	})
}

func runFirstIterationSkips(rr *RuleRun) {
	c := rr.Ctx
	eachFuncBody(c, []string{"cty/function/stdlib", "cty/convert", "cty", "cty/function"}, func(pkg string, fd *ast.FuncDecl, body *ast.BlockStmt) {
		info := c.Info(pkg)
		inspectNoLit(body, func(n ast.Node) bool {
			var lb *ast.BlockStmt
			var idx types.Object
			switch x := n.(type) {
			case *ast.RangeStmt:
				if x.Key != nil {
					idx = objOf(info, x.Key)
				}
				lb = x.Body
			case *ast.ForStmt:
				if as, ok := x.Init.(*ast.AssignStmt); ok && len(as.Lhs) == 1 {
					idx = objOf(info, as.Lhs[0])
				}
				lb = x.Body
			}
			if lb == nil || idx == nil {
				return true
			}
			for i, st := range lb.List {
				is, ok := st.(*ast.IfStmt)
				if !ok || is.Else != nil || is.Init != nil || len(is.Body.List) == 0 {
					continue
				}
				be, ok := ast.Unparen(is.Cond).(*ast.BinaryExpr)
				if !ok || be.Op != token.EQL || objOf(info, be.X) != idx {
					continue
				}
				if v, ok := constInt(info, be.Y); !ok || v != 0 {
					continue
				}
				if br, ok := is.Body.List[len(is.Body.List)-1].(*ast.BranchStmt); !ok || br.Tok != token.CONTINUE {
					continue
				}
				recorded := map[types.Object]bool{}
				for _, s := range is.Body.List {
					if as, ok := s.(*ast.AssignStmt); ok {
						for _, l := range as.Lhs {
							if o := objOf(info, l); o != nil {
								recorded[o] = true
							}
						}
					}
				}
				key := fmt.Sprintf("%s.%s/if %s == 0 {…continue}", pkg, declName(fd), idx.Name())
				if c.IsControl(is.Pos()) {
					key = "control/" + key
				}
				var bad ast.Stmt
				for _, later := range lb.List[i+1:] {
					if !mentionsAny(info, later, recorded) {
						bad = later
						break
					}
				}
				if bad != nil {
					rr.Violation(key, bad.Pos(), fmt.Sprintf("the statement at %s runs for every element except the first (it follows `if %s == 0 { …; continue }`) and does not compare with what the first iteration recorded: the first argument is not treated like the rest", c.PosStr(bad.Pos()), idx.Name()))
				} else {
					rr.OK(key, is.Pos(), fmt.Sprintf("%d statement(s) after the continue, each comparing with what the first iteration recorded", len(lb.List[i+1:])))
				}
			}
			return true
		})
	})
}
