package main

import (
	"fmt"
	"go/ast"
	"go/token"
	"go/types"
	"strings"
)

// Round 10 — rules written from the `c` series of seeded changes and from defects the seed agents noticed on the
// unchanged tree:
//   C04.whole-payload-needs-deep-unmark     an operand whose whole payload is handed on is unmarked deeply
//   C04.payload-read-before-unmark          no payload assertion on a value the function has yet to unmark
//   C05.delimiter-needs-single-codepoint    the delimiter table is consulted only for a one-code-point sequence
//   C01.includes-conformance-before-accessors   ValueRange.Includes looks into the value only once it conforms

func init() {
	register(&Rule{
		ID: "C04.whole-payload-needs-deep-unmark", Prop: "C04", Also: []string{"C01", "C03"}, Floor: 1, Controls: 0,
		Doc: "an operation method of cty.Value that hands the whole payload of an operand on (x.v passed as a call argument — set membership hashes every nested member and panics on a mark) tests that operand for marks at any depth in its mark prologue (ContainsMarked, with UnmarkDeep) — a top-level IsMarked lets a mark nested inside the operand reach the hashing, so the marked call panics where the unmarked call answers",
		Run: runWholePayloadDeepUnmark,
	})
	register(&Rule{
		ID: "C04.payload-read-before-unmark", Prop: "C04", Also: []string{"C05", "C01", "C06", "C19", "C20"}, Floor: 5, Controls: 0,
		Doc: "in package cty a function that unmarks a value (Unmark, UnmarkDeep, UnmarkDeepWithPaths, unmarkForce) does not look at that value's payload before the unmark: a type assertion or type switch on x.v to anything but the mark wrapper, placed where the unmark is still to come, sees the wrapper when the value is marked — an unknown's refinements, a number, a collection are then simply not found, and the function behaves as if the marked value had none",
		Run: runPayloadReadBeforeUnmark,
	})
	register(&Rule{
		ID: "C05.delimiter-needs-single-codepoint", Prop: "C05", Also: []string{"C12", "C14", "C16"}, Floor: 1, Controls: 0,
		Doc: "in package ctystrings a function that answers 'this sequence must end a grapheme cluster' from a table of delimiter code points decodes the first code point of the sequence only after establishing that the sequence is exactly one code point long (RuneCountInString(s) == 1, or the decoded size equals len(s)): a delimiter followed by combining marks is one cluster that a further mark can still extend, so answering for its first code point lets SafeKnownPrefix keep a prefix whose last cluster can change",
		Run: runDelimiterSingleCodepoint,
	})
	register(&Rule{
		ID: "C01.includes-conformance-before-accessors", Prop: "C01", Also: []string{"C05"}, Floor: 3, Controls: 0,
		Doc: "ValueRange.Includes applies the refinement-specific tests (AsString, Length, the numeric comparisons — each of which panics on a value of another type) to the given value only on paths where the value was established to conform to the range's type constraint: the exit taken for a non-conforming value is not made conditional on anything else, otherwise a value of a different type that satisfies the extra condition (a tuple with a dynamically-typed member against a refined string) falls through to AsString and panics — replacing an operand of Equals by a refined unknown must not make a succeeding comparison fail",
		Run: runIncludesConformance,
	})
}

// CanReach: some execution path leads from node a to node b (a strictly before b).
func (f *FuncCFG) CanReach(a, b ast.Node) bool {
	la, _, ok1 := f.locate(a)
	lb, _, ok2 := f.locate(b)
	if !ok1 || !ok2 {
		return false
	}
	if la.b == lb.b && la.i < lb.i {
		return true
	}
	if la.b == lb.b && la.i == lb.i {
		// the same block node: order by position
		if a.Pos() < b.Pos() {
			return true
		}
	}
	seen := map[int32]bool{}
	work := []int32{}
	for _, s := range la.b.Succs {
		work = append(work, s.Index)
	}
	for len(work) > 0 {
		i := work[len(work)-1]
		work = work[:len(work)-1]
		if seen[i] {
			continue
		}
		seen[i] = true
		if i == lb.b.Index {
			return true
		}
		for _, s := range f.G.Blocks[i].Succs {
			work = append(work, s.Index)
		}
	}
	return false
}

// ---------------------------------------------------------------------------

func runWholePayloadDeepUnmark(rr *RuleRun) {
	c := rr.Ctx
	info := c.Info("cty")
	for _, m := range opMethods(c) {
		if m.Decl.Body == nil || len(m.Decl.Body.List) == 0 {
			continue
		}
		for _, op := range m.Operands {
			// x.v handed on whole: a call argument that is exactly the selector
			var use *ast.CallExpr
			inspectNoLit(m.Decl.Body, func(n ast.Node) bool {
				call, ok := n.(*ast.CallExpr)
				if !ok {
					return true
				}
				for _, a := range call.Args {
					if se, ok := ast.Unparen(a).(*ast.SelectorExpr); ok && se.Sel.Name == "v" && objOf(info, se.X) != nil {
						// the operand itself or its unmarked rebinding of the same name
						if o := objOf(info, se.X); o == types.Object(op) || (o.Name() == op.Name() && isCtyValue(o.Type())) {
							if use == nil {
								use = call
							}
						}
					}
				}
				return true
			})
			if use == nil {
				continue
			}
			key := fmt.Sprintf("cty.Value.%s/%s.v", m.Name, op.Name())
			ifs, ok := m.Decl.Body.List[0].(*ast.IfStmt)
			deep := false
			if ok {
				ast.Inspect(ifs.Cond, func(n ast.Node) bool {
					if call, ok := n.(*ast.CallExpr); ok && isCall(info, call, "cty.Value.ContainsMarked") {
						if se, ok := call.Fun.(*ast.SelectorExpr); ok && objOf(info, se.X) == types.Object(op) {
							deep = true
						}
					}
					return true
				})
			}
			if deep {
				rr.OK(key, use.Pos(), "the whole payload is handed to "+trunc(exprStr(use.Fun), 30)+"; the prologue tests the operand with ContainsMarked")
			} else {
				rr.Violation(key, use.Pos(), fmt.Sprintf("the whole payload of operand %s is handed to %s, which looks at every nested member and panics on a mark, but the mark prologue of %s tests %s for top-level marks only: a value with a mark nested inside reaches this call and panics, while the same call with all marks stripped answers", op.Name(), trunc(exprStr(use.Fun), 30), m.Name, op.Name()))
			}
		}
	}
}

// ---------------------------------------------------------------------------

var unmarkCalls = []string{"cty.Value.Unmark", "cty.Value.UnmarkDeep", "cty.Value.UnmarkDeepWithPaths", "cty.Value.unmarkForce"}

func runPayloadReadBeforeUnmark(rr *RuleRun) {
	c := rr.Ctx
	pkg := "cty"
	info := c.Info(pkg)
	eachFuncBody(c, []string{pkg}, func(_ string, fd *ast.FuncDecl, body *ast.BlockStmt) {
		if body == nil {
			return
		}
		// the unmark calls of this body, by the object unmarked
		unmarks := map[types.Object][]*ast.CallExpr{}
		inspectNoLit(body, func(n ast.Node) bool {
			call, ok := n.(*ast.CallExpr)
			if !ok || !isCall(info, call, unmarkCalls...) {
				return true
			}
			if se, ok := call.Fun.(*ast.SelectorExpr); ok {
				if o := objOf(info, se.X); o != nil {
					unmarks[o] = append(unmarks[o], call)
				}
			}
			return true
		})
		if len(unmarks) == 0 {
			return
		}
		var g *FuncCFG
		var cf *CondFacts
		n := 0
		check := func(x ast.Expr, asserted ast.Expr, at ast.Node) {
			se, ok := ast.Unparen(x).(*ast.SelectorExpr)
			if !ok || se.Sel.Name != "v" {
				return
			}
			o := objOf(info, se.X)
			if o == nil || len(unmarks[o]) == 0 || !isCtyValue(o.Type()) {
				return
			}
			if asserted != nil {
				if t := info.TypeOf(asserted); t != nil && namedTypeNoPtr(t) == "cty.marker" {
					return
				}
			}
			if g == nil {
				g = c.CFG(body, info)
				cf = c.CondFacts(body, info, nil)
			}
			n++
			key := fmt.Sprintf("%s.%s/%s.v#%d", pkg, declName(fd), o.Name(), n)
			for _, um := range unmarks[o] {
				if !g.CanReach(at, um) || g.Dominates(um, at) {
					continue
				}
				// established unmarked at the assertion
				if cf.HoldsAt(at, func(cond ast.Expr, truth bool) bool {
					return !truth && methodCond(info, cond, o, "IsMarked", "ContainsMarked")
				}) {
					continue
				}
				rr.Violation(fmt.Sprintf("%s.%s/%s.v before unmark", pkg, declName(fd), o.Name()), at.Pos(), fmt.Sprintf("the payload of %s is examined (%s) before %s is unmarked at %s: for a marked value the payload is the mark wrapper, so what is looked for here — the unknown's refinements, the concrete payload — is not found and the function goes on as if the value had none", o.Name(), trunc(nodeStr(at), 50), o.Name(), c.PosStr(um.Pos())))
				return
			}
			rr.OK(key, at.Pos(), "payload examined only after the unmark (or where no unmark is still to come)")
		}
		inspectNoLit(body, func(nd ast.Node) bool {
			switch x := nd.(type) {
			case *ast.TypeAssertExpr:
				if x.Type != nil {
					check(x.X, x.Type, x)
				}
			case *ast.TypeSwitchStmt:
				var ta *ast.TypeAssertExpr
				switch a := x.Assign.(type) {
				case *ast.ExprStmt:
					ta, _ = a.X.(*ast.TypeAssertExpr)
				case *ast.AssignStmt:
					if len(a.Rhs) == 1 {
						ta, _ = a.Rhs[0].(*ast.TypeAssertExpr)
					}
				}
				if ta != nil {
					// a switch with a case for the marker handles the wrapper itself
					handles := false
					for _, cl := range x.Body.List {
						for _, e := range cl.(*ast.CaseClause).List {
							if t := info.TypeOf(e); t != nil && namedTypeNoPtr(t) == "cty.marker" {
								handles = true
							}
						}
					}
					if !handles {
						check(ta.X, nil, x.Assign)
					}
				}
			}
			return true
		})
	})
}

// ---------------------------------------------------------------------------

func runDelimiterSingleCodepoint(rr *RuleRun) {
	c := rr.Ctx
	pkg := "cty/ctystrings"
	info := c.Info(pkg)
	for _, fd := range c.SortedDecls(pkg) {
		if fd.Body == nil {
			continue
		}
		// a switch over a rune variable whose cases are rune literals and return true
		var sw *ast.SwitchStmt
		var runeVar types.Object
		inspectNoLit(fd.Body, func(n ast.Node) bool {
			s, ok := n.(*ast.SwitchStmt)
			if !ok || s.Tag == nil || sw != nil {
				return true
			}
			o := objOf(info, s.Tag)
			if o == nil {
				return true
			}
			if b, ok := o.Type().Underlying().(*types.Basic); !ok || b.Kind() != types.Int32 {
				return true
			}
			lits, rets := 0, false
			for _, cl := range s.Body.List {
				cc := cl.(*ast.CaseClause)
				for _, e := range cc.List {
					if bl, ok := ast.Unparen(e).(*ast.BasicLit); ok && bl.Kind == token.CHAR {
						lits++
					}
				}
				for _, st := range cc.Body {
					if r, ok := st.(*ast.ReturnStmt); ok && len(r.Results) == 1 {
						if tv, ok := info.Types[r.Results[0]]; ok && tv.Value != nil && tv.Value.String() == "true" {
							rets = true
						}
					}
				}
			}
			if lits >= 3 && rets {
				sw, runeVar = s, o
			}
			return true
		})
		if sw == nil {
			continue
		}
		key := pkg + "." + declName(fd) + "/delimiter-table"
		// the rune comes out of DecodeRuneInString(s) / DecodeRune(b)
		var src types.Object     // the string decoded
		var sizeVar types.Object // the size result, if named
		inspectNoLit(fd.Body, func(n ast.Node) bool {
			as, ok := n.(*ast.AssignStmt)
			if !ok || len(as.Rhs) != 1 || len(as.Lhs) != 2 || objOf(info, as.Lhs[0]) != runeVar {
				return true
			}
			call, ok := as.Rhs[0].(*ast.CallExpr)
			if !ok || !isCall(info, call, "unicode/utf8.DecodeRuneInString", "unicode/utf8.DecodeRune", "unicode/utf8.DecodeLastRuneInString", "unicode/utf8.DecodeLastRune") || len(call.Args) != 1 {
				return true
			}
			src = objOf(info, call.Args[0])
			if id, ok := as.Lhs[1].(*ast.Ident); ok && id.Name != "_" {
				sizeVar = objOf(info, id)
			}
			return true
		})
		if src == nil {
			rr.Assumed(key, sw.Pos(), "the code point looked up in the delimiter table is not decoded from a string parameter in a form this rule follows: no verdict")
			continue
		}
		isLenSrc := func(e ast.Expr) bool {
			cl, ok := ast.Unparen(e).(*ast.CallExpr)
			return ok && isBuiltin(info, cl, "len") && len(cl.Args) == 1 && objOf(info, cl.Args[0]) == src
		}
		isCount := func(e ast.Expr) bool {
			cl, ok := ast.Unparen(e).(*ast.CallExpr)
			return ok && isCall(info, cl, "unicode/utf8.RuneCountInString", "unicode/utf8.RuneCount") && len(cl.Args) == 1 && objOf(info, cl.Args[0]) == src
		}
		isSize := func(e ast.Expr) bool { return sizeVar != nil && objOf(info, e) == sizeVar }
		cf := c.CondFacts(fd.Body, info, nil)
		single := cf.HoldsAt(sw.Tag, func(cond ast.Expr, truth bool) bool {
			be, ok := ast.Unparen(cond).(*ast.BinaryExpr)
			if !ok {
				return false
			}
			one := func(e ast.Expr) bool { v, ok := constInt(info, e); return ok && v == 1 }
			switch {
			case (isCount(be.X) && one(be.Y)) || (isCount(be.Y) && one(be.X)):
				return (be.Op == token.NEQ && !truth) || (be.Op == token.EQL && truth) || (be.Op == token.GTR && !truth && isCount(be.X))
			case (isSize(be.X) && isLenSrc(be.Y)) || (isSize(be.Y) && isLenSrc(be.X)):
				return (be.Op == token.NEQ && !truth) || (be.Op == token.EQL && truth) || (be.Op == token.LSS && !truth && isSize(be.X)) || (be.Op == token.GTR && !truth && isLenSrc(be.X))
			}
			return false
		})
		if single {
			rr.OK(key, sw.Pos(), "the delimiter table is consulted only where the sequence was established to be one code point long")
		} else {
			rr.Violation(key, sw.Pos(), fmt.Sprintf("%s looks the first code point of its argument up in the delimiter table without having established that the argument is exactly one code point long: a delimiter followed by combining marks is a single grapheme cluster that a further combining mark can extend (and NFC can reorder), so it must not be declared a safe place to end a known prefix", declName(fd)))
		}
	}
}

// ---------------------------------------------------------------------------

func runIncludesConformance(rr *RuleRun) {
	c := rr.Ctx
	pkg := "cty"
	info := c.Info(pkg)
	fd := rr.MustDecl(pkg, "ValueRange.Includes")
	if fd == nil {
		return
	}
	pid := paramIdent(fd, 0)
	if pid == nil {
		rr.Broken("stale anchor: ValueRange.Includes has no value parameter")
		return
	}
	v := info.Defs[pid]
	// partial accessors applied to v
	partial := map[string]bool{"AsString": true, "AsBigFloat": true, "Length": true, "LengthInt": true, "True": true, "False": true,
		"GreaterThan": true, "GreaterThanOrEqualTo": true, "LessThan": true, "LessThanOrEqualTo": true,
		"Add": true, "Subtract": true, "ElementIterator": true, "AsValueSlice": true, "AsValueMap": true, "AsValueSet": true}
	isConfLen := func(e ast.Expr) bool {
		cl, ok := ast.Unparen(e).(*ast.CallExpr)
		if !ok || !isBuiltin(info, cl, "len") || len(cl.Args) != 1 {
			return false
		}
		arg := ast.Unparen(cl.Args[0])
		if call, ok := arg.(*ast.CallExpr); ok {
			return isCall(info, call, "cty.Type.TestConformance")
		}
		if o := objOf(info, arg); o != nil {
			if _, idx, rhs := findDefine(info, fd.Body, o); rhs != nil && idx < len(rhs) {
				if call, ok := ast.Unparen(rhs[idx]).(*ast.CallExpr); ok {
					return isCall(info, call, "cty.Type.TestConformance")
				}
			}
		}
		return false
	}
	hasConf := false
	ast.Inspect(fd.Body, func(n ast.Node) bool {
		if call, ok := n.(*ast.CallExpr); ok && isCall(info, call, "cty.Type.TestConformance") {
			hasConf = true
		}
		return true
	})
	if !hasConf {
		rr.Assumed(pkg+".ValueRange.Includes/conformance", fd.Pos(), "Includes does not call TestConformance: how it establishes the value's type is not a form this rule follows; no verdict")
		return
	}
	cf := c.CondFacts(fd.Body, info, nil)
	n := 0
	inspectNoLit(fd.Body, func(nd ast.Node) bool {
		call, ok := nd.(*ast.CallExpr)
		if !ok {
			return true
		}
		se, ok := call.Fun.(*ast.SelectorExpr)
		if !ok || objOf(info, se.X) != v || !partial[se.Sel.Name] {
			return true
		}
		n++
		key := fmt.Sprintf("%s.ValueRange.Includes/%s.%s#%d", pkg, v.Name(), se.Sel.Name, n)
		conforms := cf.HoldsAt(call, func(cond ast.Expr, truth bool) bool {
			be, ok := ast.Unparen(cond).(*ast.BinaryExpr)
			if !ok {
				return false
			}
			zero := func(e ast.Expr) bool { x, ok := constInt(info, e); return ok && x == 0 }
			if isConfLen(be.X) && zero(be.Y) {
				return (be.Op == token.NEQ && !truth) || (be.Op == token.EQL && truth) || (be.Op == token.GTR && !truth)
			}
			return false
		})
		if conforms {
			rr.OK(key, call.Pos(), "reached only where the value conforms to the range's type constraint")
		} else {
			rr.Violation(key, call.Pos(), fmt.Sprintf("%s.%s() is reached on a path on which the value was not established to conform to the range's type constraint (the non-conformance exit is conditional on something else, or missing): a value of another type that gets past it makes this call panic — Equals of such a value with a refined unknown fails where Equals with the concrete value answers", v.Name(), se.Sel.Name))
		}
		return true
	})
}

// ---------------------------------------------------------------------------
// Round 10, second batch

func init() {
	register(&Rule{
		ID: "C01.range-disproof-needs-known-value", Prop: "C01", Also: []string{"C05"}, Floor: 3, Controls: 0,
		Doc: "ValueRange.Includes answers a definite False from a refinement (prefix, length bounds, numeric bounds) only for a value it established to be known, or from the known-and-false answer of an operation method applied to the value (which is itself sound for unknown operands): a False computed from the value's own range — the prefix of an unknown string against the range's prefix — excludes values the unknown may still turn out to be, and Equals turns that into a definite 'not equal' for two unknowns that may be equal",
		Run: runRangeDisproofNeedsKnown,
	})
	register(&Rule{
		ID: "C06.set-members-rejected-when-marked", Prop: "C06", Also: []string{"C04", "C03"}, Floor: 2, Controls: 0,
		Doc: "a marked value cannot become a member of a set through ValueSet: Value.Hash (which every Add, Remove and Has goes through) refuses a value when the hash-byte walk reports marks anywhere inside it, and a mark on the value itself is refused either by ValueSet's own element check (IsMarked / ContainsMarked → panic) or by Hash seeing the value as given — if the element check stops looking for marks AND Hash strips the top-level mark before hashing, the mark wrapper is stored as a member and iterating the set panics; each of the two alone still leaves one refusal in place",
		Run: runSetMembersRejectedWhenMarked,
	})
	register(&Rule{
		ID: "C08.missing-conversion-tolerated-only-unsafe", Prop: "C08", Also: []string{"C09"}, Floor: 5, Controls: 0,
		Doc: "a conversion builder of package convert (a function with an `unsafe` parameter that returns a conversion) that finds no conversion for a member (the result of getConversion is nil) either gives up (returns nil) or, if it goes on and leaves the gap to be reported when a value actually needs it, does so only where `unsafe` was established true: a builder that tolerates the gap in safe mode hands out a 'safe' conversion that fails for some values, which a safe conversion never does",
		Run: runMissingConversionOnlyUnsafe,
	})
	register(&Rule{
		ID: "C09.nil-slot-means-equal-types", Prop: "C09", Floor: 5, Controls: 0,
		Doc: "in the unification functions a conversion slot is left nil (the loop continues before conversions[i] is assigned) only under a test that the input type Equals the result type as a whole; a test of a part only (the element types) is accepted only if every caller establishes, by the counters of its dispatch condition, that all inputs are of the one collection kind the result is built with — otherwise an input of another kind with the same element type (a set among lists) is handed back with no conversion although it does not have the result type",
		Run: runNilSlotMeansEqualTypes,
	})
}

func runRangeDisproofNeedsKnown(rr *RuleRun) {
	c := rr.Ctx
	pkg := "cty"
	info := c.Info(pkg)
	fd := rr.MustDecl(pkg, "ValueRange.Includes")
	if fd == nil {
		return
	}
	pid := paramIdent(fd, 0)
	if pid == nil {
		rr.Broken("stale anchor: ValueRange.Includes has no value parameter")
		return
	}
	v := info.Defs[pid]
	var ts *ast.TypeSwitchStmt
	inspectNoLit(fd.Body, func(n ast.Node) bool {
		if x, ok := n.(*ast.TypeSwitchStmt); ok && ts == nil {
			ts = x
		}
		return true
	})
	if ts == nil {
		rr.Assumed(pkg+".ValueRange.Includes/refinement-switch", fd.Pos(), "Includes has no type switch over the refinement: the refinement-specific tests are written in a form this rule does not follow; no verdict")
		return
	}
	cf := c.CondFacts(fd.Body, info, nil)
	// X := <operation method applied to v, or with v as an argument>, or applied to such an X
	var isOpOnV func(o types.Object) bool
	depthOp := 0
	fromV := func(n ast.Node) bool {
		if mentionsObj(info, n, v) {
			return true
		}
		found := false
		ast.Inspect(n, func(m ast.Node) bool {
			if id, ok := m.(*ast.Ident); ok && !found && depthOp < 4 {
				if o, ok := info.Uses[id].(*types.Var); ok && !o.IsField() && isCtyValue(o.Type()) && types.Object(o) != v {
					depthOp++
					if isOpOnV(o) {
						found = true
					}
					depthOp--
				}
			}
			return true
		})
		return found
	}
	isOpOnV = func(o types.Object) bool {
		_, idx, rhs := findDefine(info, fd.Body, o)
		if rhs == nil {
			// declared with var and assigned in branches: every assignment must qualify
			ok, any := true, false
			inspectNoLit(fd.Body, func(n ast.Node) bool {
				as, isAs := n.(*ast.AssignStmt)
				if !isAs {
					return true
				}
				for i, l := range as.Lhs {
					if objOf(info, l) == o && i < len(as.Rhs) {
						any = true
						call, isCall := ast.Unparen(as.Rhs[i]).(*ast.CallExpr)
						if !isCall || opOperands(info, call) == nil || !fromV(call) {
							ok = false
						}
					}
				}
				return true
			})
			return ok && any
		}
		if idx >= len(rhs) {
			return false
		}
		call, ok := ast.Unparen(rhs[idx]).(*ast.CallExpr)
		return ok && opOperands(info, call) != nil && fromV(call)
	}
	n := 0
	inspectNoLit(fd.Body, func(nd ast.Node) bool {
		ret, ok := nd.(*ast.ReturnStmt)
		if !ok || len(ret.Results) != 1 || !isPkgVar(info, ret.Results[0], "cty", "False") {
			return true
		}
		n++
		key := fmt.Sprintf("%s.ValueRange.Includes/return False#%d", pkg, n)
		// outside the refinement switch: the nullness and type exits, which are definite for the reasons they test
		if !(ts.Pos() <= ret.Pos() && ret.End() <= ts.End()) {
			definite := cf.HoldsAt(ret, func(cond ast.Expr, truth bool) bool {
				if truth && methodCond(info, cond, v, "IsNull", "IsKnown", "IsWhollyKnown") {
					return true // a value that IS null is known to be null
				}
				if call, ok := ast.Unparen(cond).(*ast.CallExpr); ok && truth && isCall(info, call, "cty.definitelyNotNull") && len(call.Args) == 1 && objOf(info, call.Args[0]) == v {
					return true
				}
				// the type does not conform
				found := false
				ast.Inspect(cond, func(m ast.Node) bool {
					if cl, ok := m.(*ast.CallExpr); ok && isCall(info, cl, "cty.Type.TestConformance", "cty.Type.Equals") {
						found = true
					}
					return true
				})
				return found
			})
			if definite {
				rr.OK(key, ret.Pos(), "a definite exit: the value is null / definitely not null / of another type")
			} else {
				rr.Violation(key, ret.Pos(), fmt.Sprintf("a definite False is returned here on a path that only established that %s.IsNull() is false (or nothing about %s at all): IsNull is false for every unknown value, including one that may still turn out to be null, so a range that admits only null answers 'not included' for an unknown that may be null", v.Name(), v.Name()))
			}
			return true
		}
		known := cf.HoldsAt(ret, func(cond ast.Expr, truth bool) bool {
			return truth && methodCond(info, cond, v, "IsKnown", "IsWhollyKnown")
		})
		soundOp := cf.HoldsAt(ret, func(cond ast.Expr, truth bool) bool {
			call, ok := ast.Unparen(cond).(*ast.CallExpr)
			if !ok || !truth {
				return false
			}
			se, ok := call.Fun.(*ast.SelectorExpr)
			if !ok || (se.Sel.Name != "False" && se.Sel.Name != "True") || !isCall(info, call, "cty.Value.False", "cty.Value.True") {
				return false
			}
			if o := objOf(info, se.X); o != nil && isOpOnV(o) {
				return true
			}
			if inner, ok := ast.Unparen(se.X).(*ast.CallExpr); ok && opOperands(info, inner) != nil && fromV(inner) {
				return true
			}
			return false
		})
		switch {
		case known:
			rr.OK(key, ret.Pos(), "answered only for a value established to be known")
		case soundOp:
			rr.OK(key, ret.Pos(), "answered from the known-and-decided result of an operation method applied to the value")
		default:
			rr.Violation(key, ret.Pos(), fmt.Sprintf("a definite False is returned here although %s was not established to be known and the decision is not the result of an operation method applied to it: what is compared is a property of the value's own range (the prefix or bounds of an unknown), which does not exclude the values that unknown may still become — Equals then declares two unknowns different that may be equal", v.Name()))
		}
		return true
	})
}

func runSetMembersRejectedWhenMarked(rr *RuleRun) {
	c := rr.Ctx
	pkg := "cty"
	info := c.Info(pkg)
	hash := rr.MustDecl(pkg, "Value.Hash")
	add := rr.MustDecl(pkg, "ValueSet.Add")
	if hash == nil || add == nil {
		return
	}
	// B: Value.Hash
	recv := recvObj(info, hash)
	var hashedArg types.Object
	var marksVar types.Object
	inspectNoLit(hash.Body, func(n ast.Node) bool {
		as, ok := n.(*ast.AssignStmt)
		if !ok || len(as.Rhs) != 1 || len(as.Lhs) != 2 {
			return true
		}
		if call, ok := as.Rhs[0].(*ast.CallExpr); ok && isCall(info, call, "cty.makeSetHashBytes") && len(call.Args) == 1 {
			hashedArg = objOf(info, call.Args[0])
			marksVar = objOf(info, as.Lhs[1])
		}
		return true
	})
	if hashedArg == nil {
		rr.Assumed(pkg+".Value.Hash/refuses-marks", hash.Pos(), "Value.Hash does not call makeSetHashBytes in the form this rule follows: no verdict")
		return
	}
	bNested := false
	if marksVar != nil {
		inspectNoLit(hash.Body, func(n ast.Node) bool {
			ifs, ok := n.(*ast.IfStmt)
			if !ok || !mentionsObj(info, ifs.Cond, marksVar) {
				return true
			}
			inspectNoLit(ifs.Body, func(m ast.Node) bool {
				if call, ok := m.(*ast.CallExpr); ok && isBuiltin(info, call, "panic") {
					bNested = true
				}
				return true
			})
			return true
		})
	}
	bTop := hashedArg == recv && countAssigns(info, hash.Body, recv) == 0
	// a := v.Unmark() style rebinding counts as stripping too
	if hashedArg != recv {
		bTop = false
	}
	if bNested {
		rr.OK(pkg+".Value.Hash/refuses-marks", hash.Pos(), "Hash panics when the hash-byte walk reports marks inside the value")
	} else {
		rr.Violation(pkg+".Value.Hash/refuses-marks", hash.Pos(), "Value.Hash no longer refuses a value for which makeSetHashBytes reports marks: a value with a mark nested inside it can be added to a ValueSet and becomes a member of a set value, which must never hold marked members")
	}
	// A: the element check ValueSet.Add makes first
	var check *ast.FuncDecl
	valParam := info.Defs[paramIdent(add, 0)]
	inspectNoLit(add.Body, func(n ast.Node) bool {
		call, ok := n.(*ast.CallExpr)
		if !ok || check != nil {
			return true
		}
		f := callee(info, call)
		if f == nil || f.Pkg() == nil || shortPkg(f.Pkg()) != pkg {
			return true
		}
		for _, a := range call.Args {
			if objOf(info, a) == valParam {
				if d := c.Decl(pkg, funcDeclKey(f)); d != nil && d.Body != nil {
					check = d
				}
			}
		}
		return true
	})
	aTop := false
	if check != nil {
		p := info.Defs[paramIdent(check, 0)]
		inspectNoLit(check.Body, func(n ast.Node) bool {
			ifs, ok := n.(*ast.IfStmt)
			if !ok {
				return true
			}
			tests := false
			ast.Inspect(ifs.Cond, func(m ast.Node) bool {
				if call, ok := m.(*ast.CallExpr); ok && methodCond(info, call, p, "IsMarked", "ContainsMarked") {
					tests = true
				}
				return true
			})
			if !tests {
				return true
			}
			inspectNoLit(ifs.Body, func(m ast.Node) bool {
				if call, ok := m.(*ast.CallExpr); ok && isBuiltin(info, call, "panic") {
					aTop = true
				}
				return true
			})
			return true
		})
	}
	key := pkg + ".ValueSet.Add/top-level-mark-refused"
	switch {
	case aTop && bTop:
		rr.OK(key, add.Pos(), "a marked value is refused by the element check of ValueSet and, again, by Hash")
	case aTop:
		rr.OK(key, add.Pos(), "a marked value is refused by the element check of ValueSet (Hash strips the top-level mark itself)")
	case bTop:
		rr.OK(key, add.Pos(), "a marked value is refused by Hash, which hashes the value as given (the element check of ValueSet does not look for marks)")
	default:
		rr.Violation(key, add.Pos(), "neither refusal of a marked member is left: the element check ValueSet.Add makes first does not look for marks, and Value.Hash strips the top-level mark before it hashes — ValueSet.Add(v.Mark(m)) stores the mark wrapper as a member, SetValFromValueSet returns a set with a marked member, and iterating it panics")
	}
}

func runMissingConversionOnlyUnsafe(rr *RuleRun) {
	c := rr.Ctx
	pkg := "cty/convert"
	info := c.Info(pkg)
	for _, fd := range c.SortedDecls(pkg) {
		if fd.Body == nil || fd.Type.Results == nil || len(fd.Type.Results.List) != 1 {
			continue
		}
		if t := info.TypeOf(fd.Type.Results.List[0].Type); t == nil || namedType(t) != "cty/convert.conversion" {
			continue
		}
		var unsafeObj types.Object
		for _, f := range fd.Type.Params.List {
			for _, nm := range f.Names {
				if nm.Name == "unsafe" {
					if b, ok := info.TypeOf(f.Type).Underlying().(*types.Basic); ok && b.Kind() == types.Bool {
						unsafeObj = info.Defs[nm]
					}
				}
			}
		}
		if unsafeObj == nil {
			continue
		}
		// expressions assigned from getConversion in this function (outside closures)
		assigned := map[string]bool{}
		inspectNoLit(fd.Body, func(n ast.Node) bool {
			as, ok := n.(*ast.AssignStmt)
			if !ok || len(as.Rhs) != 1 || len(as.Lhs) != 1 {
				return true
			}
			if call, ok := as.Rhs[0].(*ast.CallExpr); ok && isCall(info, call, "cty/convert.getConversion", "cty/convert.getConversionKnown") {
				assigned[exprStr(as.Lhs[0])] = true
			}
			return true
		})
		if len(assigned) == 0 {
			continue
		}
		cf := c.CondFacts(fd.Body, info, nil)
		isUnsafe := func(cond ast.Expr, truth bool) bool {
			return truth && objOf(info, cond) == unsafeObj
		}
		n := 0
		inspectNoLit(fd.Body, func(nd ast.Node) bool {
			ifs, ok := nd.(*ast.IfStmt)
			if !ok {
				return true
			}
			be, ok := ast.Unparen(ifs.Cond).(*ast.BinaryExpr)
			if !ok || be.Op != token.EQL || !isNilIdent(info, be.Y) || !assigned[exprStr(be.X)] {
				return true
			}
			n++
			key := fmt.Sprintf("%s.%s/%s == nil#%d", pkg, declName(fd), trunc(exprStr(be.X), 30), n)
			// exits of the branch that go on building
			var goesOn []ast.Node
			var walk func(list []ast.Stmt, last bool)
			walk = func(list []ast.Stmt, last bool) {
				for i, st := range list {
					isLast := last && i == len(list)-1
					switch x := st.(type) {
					case *ast.ReturnStmt:
						if len(x.Results) == 1 && !isNilIdent(info, x.Results[0]) {
							goesOn = append(goesOn, x)
						}
					case *ast.BranchStmt:
						if x.Tok == token.CONTINUE || x.Tok == token.BREAK {
							goesOn = append(goesOn, x)
						}
					case *ast.IfStmt:
						walk(x.Body.List, false)
						if eb, ok := x.Else.(*ast.BlockStmt); ok {
							walk(eb.List, false)
						}
						if isLast {
							goesOn = append(goesOn, x) // may fall through past the if
						}
					case *ast.ExprStmt:
						if call, ok := x.X.(*ast.CallExpr); ok && isBuiltin(info, call, "panic") {
							continue
						}
						if isLast {
							goesOn = append(goesOn, x)
						}
					default:
						if isLast {
							goesOn = append(goesOn, st)
						}
					}
				}
			}
			walk(ifs.Body.List, true)
			if len(ifs.Body.List) == 0 {
				goesOn = append(goesOn, ifs.Cond)
			}
			// go/cfg does not record branch statements as nodes: for those, look at the conditions of the if statements
			// (inside this branch) whose body they are in
			holds := func(g ast.Node) bool {
				if cf.Located(g) && cf.HoldsAt(g, isUnsafe) {
					return true
				}
				for p := c.Parent(g); p != nil && p != ast.Node(ifs); p = c.Parent(p) {
					if is, ok := p.(*ast.IfStmt); ok && is.Body.Pos() <= g.Pos() && g.End() <= is.Body.End() {
						for _, term := range splitAnd(is.Cond) {
							if objOf(info, ast.Unparen(term)) == unsafeObj {
								return true
							}
						}
					}
				}
				return cf.HoldsAt(ifs.Cond, isUnsafe)
			}
			bad := ast.Node(nil)
			for _, g := range goesOn {
				// a trailing nested if falls through only if its own branches do not all exit; be conservative: require the fact
				if !holds(g) {
					// `if cond && unsafe { …; continue }` as the last statement: the fall-through is the refusing return after it
					if is, ok := g.(*ast.IfStmt); ok && is != ifs {
						continue
					}
					bad = g
					break
				}
			}
			// after a trailing nested if the branch must still refuse: the statement list must end in `return nil` or the nested if must be last with a following return
			if bad != nil && onlyCalledUnsafe(c, pkg, fd) {
				rr.OK(key, ifs.Pos(), "a missing member conversion is tolerated without a test of unsafe here, but every caller of this builder has established unsafe before it calls it")
				return true
			}
			if bad == nil {
				rr.OK(key, ifs.Pos(), "a missing member conversion makes the builder give up, or is tolerated only where unsafe holds")
			} else {
				rr.Violation(key, bad.Pos(), fmt.Sprintf("%s found no conversion for a member (%s is nil) and goes on building the conversion anyway at this point without `unsafe` having been established: in safe mode the builder then returns a conversion that fails as soon as a value needs the missing member conversion — a 'safe' conversion that can fail", declName(fd), trunc(exprStr(be.X), 30)))
			}
			return true
		})
	}
}

func runNilSlotMeansEqualTypes(rr *RuleRun) {
	c := rr.Ctx
	pkg := "cty/convert"
	info := c.Info(pkg)
	counterOf := map[string]string{"cty.List": "listCt", "cty.Set": "setCt", "cty.Map": "mapCt"}
	for _, fd := range c.SortedDecls(pkg) {
		if fd.Body == nil || c.FileOf(fd.Pos()) != "unify.go" {
			continue
		}
		inspectNoLit(fd.Body, func(nd ast.Node) bool {
			rs, ok := nd.(*ast.RangeStmt)
			if !ok || rs.Value == nil {
				return true
			}
			tyObj := objOf(info, rs.Value)
			if tyObj == nil || !isCtyType(tyObj.Type()) {
				return true
			}
			// conversions[i] = GetConversion*(ty, R)
			var retObj types.Object
			for _, st := range rs.Body.List {
				inspectNoLit(st, func(m ast.Node) bool {
					as, ok := m.(*ast.AssignStmt)
					if !ok || len(as.Rhs) != 1 || len(as.Lhs) != 1 {
						return true
					}
					if _, ok := as.Lhs[0].(*ast.IndexExpr); !ok {
						return true
					}
					if call, ok := as.Rhs[0].(*ast.CallExpr); ok && len(call.Args) >= 2 && objOf(info, call.Args[0]) == tyObj {
						// GetConversion / GetConversionUnsafe / getConversion, or a helper of the package wrapping them:
						// anything that yields a Conversion from (input type, result type)
						if t := info.TypeOf(call); t != nil && strings.HasSuffix(namedType(t), "onversion") {
							if o := objOf(info, call.Args[1]); o != nil && isCtyType(o.Type()) {
								retObj = o
							}
						}
					}
					return true
				})
			}
			if retObj == nil {
				return true
			}
			for _, st := range rs.Body.List {
				ifs, ok := st.(*ast.IfStmt)
				if !ok || ifs.Else != nil || len(ifs.Body.List) == 0 {
					continue
				}
				// the body ends in a plain continue (optionally after storing nil in the slot)
				br, ok := ifs.Body.List[len(ifs.Body.List)-1].(*ast.BranchStmt)
				if !ok || br.Tok != token.CONTINUE || br.Label != nil {
					continue
				}
				key := fmt.Sprintf("%s.%s/skip if %s", pkg, declName(fd), trunc(exprStr(ifs.Cond), 50))
				cond := ast.Unparen(ifs.Cond)
				// every disjunct is either 'this is the chosen input itself' or 'the whole types are equal'
				isSelf := func(e ast.Expr) bool {
					be, ok := ast.Unparen(e).(*ast.BinaryExpr)
					return ok && be.Op == token.EQL && rs.Key != nil && (objOf(info, be.X) == objOf(info, rs.Key) || objOf(info, be.Y) == objOf(info, rs.Key))
				}
				isWhole := func(e ast.Expr) bool {
					call, ok := ast.Unparen(e).(*ast.CallExpr)
					if !ok || !isCall(info, call, "cty.Type.Equals") || len(call.Args) != 1 {
						return false
					}
					a, b := objOf(info, call.Fun.(*ast.SelectorExpr).X), objOf(info, call.Args[0])
					return (a == tyObj && b == retObj) || (a == retObj && b == tyObj)
				}
				var disj []ast.Expr
				var split func(e ast.Expr)
				split = func(e ast.Expr) {
					if be, ok := ast.Unparen(e).(*ast.BinaryExpr); ok && be.Op == token.LOR {
						split(be.X)
						split(be.Y)
						return
					}
					disj = append(disj, e)
				}
				split(cond)
				allOK, anyWhole := true, false
				for _, d := range disj {
					switch {
					case isSelf(d):
					case isWhole(d):
						anyWhole = true
					default:
						allOK = false
					}
				}
				if allOK {
					if anyWhole {
						rr.OK(key, ifs.Pos(), "no conversion exactly when the input type equals the result type (or it is the chosen input itself)")
					} else {
						rr.OK(key, ifs.Pos(), "the slot of the chosen input itself")
					}
					continue
				}
				if !mentionsObj(info, cond, tyObj) {
					continue // not a test of the input type
				}
				// a partial test: acceptable only if every caller establishes one collection kind
				singleKind, sites := true, 0
				why := ""
				for _, cd := range c.SortedDecls(pkg) {
					if cd.Body == nil {
						continue
					}
					inspectNoLit(cd.Body, func(m ast.Node) bool {
						call, ok := m.(*ast.CallExpr)
						if !ok || funcDeclKey2(info, call) != declName(fd) {
							return true
						}
						sites++
						want := ""
						if len(call.Args) > 0 {
							if f := calleeOrVar(info, call.Args[0]); f != "" {
								want = counterOf[f]
							}
						}
						// the enclosing case clause
						var cc *ast.CaseClause
						for p := c.Parent(call); p != nil; p = c.Parent(p) {
							if x, ok := p.(*ast.CaseClause); ok {
								cc = x
								break
							}
						}
						if cc == nil || want == "" {
							singleKind, why = false, "a call site outside the kind dispatch"
							return true
						}
						for _, e := range cc.List {
							ast.Inspect(e, func(q ast.Node) bool {
								id, ok := q.(*ast.Ident)
								if !ok || !strings.HasSuffix(id.Name, "Ct") || id.Name == "dynamicCt" {
									return true
								}
								if id.Name != want {
									singleKind = false
									why = fmt.Sprintf("the dispatch case at %s also counts %s", c.PosStr(cc.Pos()), id.Name)
								}
								return true
							})
						}
						return true
					})
				}
				if sites > 0 && singleKind {
					rr.OK(key, ifs.Pos(), "a test of a part of the type, but every caller establishes that all inputs are of the one collection kind the result is built with")
				} else {
					rr.Violation(key, ifs.Pos(), fmt.Sprintf("the conversion slot is left nil under '%s', which compares only a part of the input type with the result, and not every caller establishes that the inputs are all of the result's collection kind (%s): an input of another kind with that same part — a set of strings among lists of strings — is given no conversion although it does not have the result type", trunc(exprStr(ifs.Cond), 60), why))
				}
			}
			return true
		})
	}
}

// funcDeclKey2: the declaration name ("unifyCollectionTypes", "T.method") a call resolves to, "" if none.
func funcDeclKey2(info *types.Info, call *ast.CallExpr) string {
	f := callee(info, call)
	if f == nil {
		return ""
	}
	return funcDeclKey(f)
}

// calleeOrVar: "cty.List" for an expression naming that package-level function.
func calleeOrVar(info *types.Info, e ast.Expr) string {
	switch x := ast.Unparen(e).(type) {
	case *ast.SelectorExpr:
		if f, ok := info.Uses[x.Sel].(*types.Func); ok {
			return funcKey(f)
		}
	case *ast.Ident:
		if f, ok := info.Uses[x].(*types.Func); ok {
			return funcKey(f)
		}
	}
	return ""
}

// onlyCalledUnsafe: every call of fd in the package lies where the caller's own `unsafe` parameter was established
// true (and there is at least one call).
func onlyCalledUnsafe(c *Ctx, pkg string, fd *ast.FuncDecl) bool {
	info := c.Info(pkg)
	sites, all := 0, true
	for _, cd := range c.SortedDecls(pkg) {
		if cd.Body == nil {
			continue
		}
		var unsafeObj types.Object
		for _, f := range cd.Type.Params.List {
			for _, nm := range f.Names {
				if nm.Name == "unsafe" {
					unsafeObj = info.Defs[nm]
				}
			}
		}
		var cf *CondFacts
		inspectNoLit(cd.Body, func(n ast.Node) bool {
			call, ok := n.(*ast.CallExpr)
			if !ok || funcDeclKey2(info, call) != declName(fd) {
				return true
			}
			sites++
			if unsafeObj == nil {
				all = false
				return true
			}
			if cf == nil {
				cf = c.CondFacts(cd.Body, info, nil)
			}
			if !cf.HoldsAt(call, func(cond ast.Expr, truth bool) bool { return truth && objOf(info, cond) == unsafeObj }) {
				all = false
			}
			return true
		})
	}
	return sites > 0 && all
}

// ---------------------------------------------------------------------------
// Round 10, third batch

func init() {
	register(&Rule{
		ID: "C03.undecided-equality-is-not-a-match", Prop: "C03", Also: []string{"C19", "C01"}, Floor: 1, Controls: 0,
		Doc: "a function of package cty that answers a Go bool ('are these two the same member / the same path step') from the cty.Value result of Value.Equals treats an unknown result as 'no': the statement that consults the result — `if COND { return false }` or `return EXPR` — is such that COND is certainly true, or EXPR certainly false, once the result's IsKnown() is false (evaluated in three-valued logic with every other sub-expression left open); an expression like !(eq.IsKnown() && eq.False()) is true for an unknown result, so a path whose index key is unknown is taken to be every concrete path of its shape and set membership of paths or values gives wrong answers",
		Run: runUndecidedEqualityNotMatch,
	})
	register(&Rule{
		ID: "C18.null-exempt-kinds-handle-null", Prop: "C18", Floor: 2, Controls: 0,
		Doc: "gocty's fromCtyValue turns a null into a nil pointer (or refuses it) before the kind dispatch, except for the kinds its null test names as exempt (the collection decoders set a nil slice or map themselves); for every exempt kind the decoder the dispatch hands the value to tests val.IsNull() before each accessor that panics on a null (LengthInt, ElementIterator, ForEachElement, AsValueMap …) — exempting a further kind in the test while its decoder assumes 'no nulls after this point' makes a null of that kind panic inside the decoder",
		Run: runNullExemptKindsHandleNull,
	})
}

type tri3 int

const (
	tri3F tri3 = iota
	tri3T
	tri3U
)

func tri3Not(a tri3) tri3 {
	switch a {
	case tri3F:
		return tri3T
	case tri3T:
		return tri3F
	}
	return tri3U
}

// evalUnderUnknown evaluates a boolean expression with `obj.IsKnown()` / `obj.IsWhollyKnown()` false and every other
// atom open.
func evalUnderUnknown(info *types.Info, e ast.Expr, obj types.Object) tri3 {
	switch x := ast.Unparen(e).(type) {
	case *ast.UnaryExpr:
		if x.Op == token.NOT {
			return tri3Not(evalUnderUnknown(info, x.X, obj))
		}
	case *ast.BinaryExpr:
		a, b := evalUnderUnknown(info, x.X, obj), evalUnderUnknown(info, x.Y, obj)
		switch x.Op {
		case token.LAND:
			if a == tri3F || b == tri3F {
				return tri3F
			}
			if a == tri3T && b == tri3T {
				return tri3T
			}
			return tri3U
		case token.EQL:
			// eq.v == true: the payload of an unknown is the unknown sigil, never the Go value true
			for _, pr := range [][2]ast.Expr{{x.X, x.Y}, {x.Y, x.X}} {
				if se, ok := ast.Unparen(pr[0]).(*ast.SelectorExpr); ok && se.Sel.Name == "v" && objOf(info, se.X) == obj {
					if tv, ok := info.Types[pr[1]]; ok && tv.Value != nil && tv.Value.String() == "true" {
						return tri3F
					}
				}
			}
			return tri3U
		case token.LOR:
			if a == tri3T || b == tri3T {
				return tri3T
			}
			if a == tri3F && b == tri3F {
				return tri3F
			}
			return tri3U
		}
	case *ast.CallExpr:
		if methodCond(info, x, obj, "IsKnown", "IsWhollyKnown") {
			return tri3F
		}
	case *ast.Ident:
		if tv, ok := info.Types[x]; ok && tv.Value != nil {
			if tv.Value.String() == "true" {
				return tri3T
			}
			if tv.Value.String() == "false" {
				return tri3F
			}
		}
	}
	return tri3U
}

func runUndecidedEqualityNotMatch(rr *RuleRun) {
	c := rr.Ctx
	pkg := "cty"
	info := c.Info(pkg)
	for _, fd := range c.SortedDecls(pkg) {
		if fd.Body == nil || fd.Type.Results == nil || len(fd.Type.Results.List) != 1 || len(fd.Type.Results.List[0].Names) > 1 {
			continue
		}
		if b, ok := info.TypeOf(fd.Type.Results.List[0].Type).Underlying().(*types.Basic); !ok || b.Kind() != types.Bool {
			continue
		}
		// statement lists
		var lists [][]ast.Stmt
		inspectNoLit(fd.Body, func(n ast.Node) bool {
			switch x := n.(type) {
			case *ast.BlockStmt:
				lists = append(lists, x.List)
			case *ast.CaseClause:
				lists = append(lists, x.Body)
			}
			return true
		})
		for _, list := range lists {
			for i, st := range list {
				as, ok := st.(*ast.AssignStmt)
				if !ok || len(as.Rhs) != 1 || len(as.Lhs) < 1 || len(as.Lhs) > 2 {
					continue
				}
				call, ok := ast.Unparen(as.Rhs[0]).(*ast.CallExpr)
				if ok && isCall(info, call, "cty.Value.Unmark", "cty.Value.UnmarkDeep") {
					// eq, _ := a.Equals(b).Unmark()
					call, ok = ast.Unparen(call.Fun.(*ast.SelectorExpr).X).(*ast.CallExpr)
				} else if len(as.Lhs) != 1 {
					continue
				}
				if !ok || !isCall(info, call, "cty.Value.Equals") {
					continue
				}
				eq := objOf(info, as.Lhs[0])
				if eq == nil {
					continue
				}
				key := fmt.Sprintf("%s.%s/%s", pkg, declName(fd), trunc(exprStr(call), 40))
				if i+1 >= len(list) {
					rr.Assumed(key, as.Pos(), "the result of Equals is not consulted by the next statement: no verdict")
					continue
				}
				switch nx := list[i+1].(type) {
				case *ast.IfStmt:
					rejects := false
					_ = nx
					if nx.Else == nil && len(nx.Body.List) > 0 {
						if r, ok := nx.Body.List[len(nx.Body.List)-1].(*ast.ReturnStmt); ok && len(r.Results) == 1 {
							if tv, ok := info.Types[r.Results[0]]; ok && tv.Value != nil && tv.Value.String() == "false" {
								rejects = true
							}
						}
					}
					if !rejects || !mentionsObj(info, nx.Cond, eq) {
						rr.Assumed(key, nx.Pos(), "the statement after the comparison is not `if … { return false }` on its result: no verdict")
						continue
					}
					if evalUnderUnknown(info, nx.Cond, eq) == tri3T {
						rr.OK(key, nx.Pos(), "an unknown result takes the `return false` branch")
					} else {
						rr.Violation(key, nx.Pos(), fmt.Sprintf("the rejection 'if %s { return false }' is not certain to be taken when %s is unknown: an undecided comparison (an unknown or dynamically-typed key) then counts as a match, so %s calls two things the same that may be different", trunc(exprStr(nx.Cond), 60), eq.Name(), declName(fd)))
					}
				case *ast.ReturnStmt:
					if len(nx.Results) != 1 || !mentionsObj(info, nx.Results[0], eq) {
						rr.Assumed(key, nx.Pos(), "the statement after the comparison does not return an expression over its result: no verdict")
						continue
					}
					if evalUnderUnknown(info, nx.Results[0], eq) == tri3F {
						rr.OK(key, nx.Pos(), "an unknown result makes the returned expression false")
					} else {
						rr.Violation(key, nx.Pos(), fmt.Sprintf("'return %s' is not certain to be false when %s is unknown: an undecided comparison (an unknown or dynamically-typed key) then counts as a match, so %s calls two things the same that may be different", trunc(exprStr(nx.Results[0]), 60), eq.Name(), declName(fd)))
					}
				default:
					rr.Assumed(key, list[i+1].Pos(), "the result of Equals is consulted in a form this rule does not follow: no verdict")
				}
			}
		}
	}
}

func runNullExemptKindsHandleNull(rr *RuleRun) {
	c := rr.Ctx
	pkg := "cty/gocty"
	info := c.Info(pkg)
	fd := rr.MustDecl(pkg, "fromCtyValue")
	if fd == nil {
		return
	}
	val := info.Defs[paramIdent(fd, 0)]
	// the null test: if val.IsNull() && !val.Type().IsXType() && … { … }
	var exempt []string
	var nullIf *ast.IfStmt
	for _, st := range fd.Body.List {
		ifs, ok := st.(*ast.IfStmt)
		if !ok {
			continue
		}
		hasNull := false
		var ex []string
		// the condition as a conjunction of literals, through negated disjunctions (De Morgan) and named locals
		var walk func(e ast.Expr, pos bool, depth int)
		walk = func(e ast.Expr, pos bool, depth int) {
			switch x := ast.Unparen(e).(type) {
			case *ast.UnaryExpr:
				if x.Op == token.NOT {
					walk(x.X, !pos, depth)
				}
			case *ast.BinaryExpr:
				if (x.Op == token.LAND && pos) || (x.Op == token.LOR && !pos) {
					walk(x.X, pos, depth)
					walk(x.Y, pos, depth)
				}
			case *ast.Ident:
				if o := objOf(info, x); o != nil && depth < 3 {
					if _, idx, rhs := findDefine(info, fd.Body, o); rhs != nil && idx < len(rhs) && countAssigns(info, fd.Body, o) == 0 {
						walk(rhs[idx], pos, depth+1)
					}
				}
			case *ast.CallExpr:
				if pos && methodCond(info, x, val, "IsNull") {
					hasNull = true
				}
				se, ok := x.Fun.(*ast.SelectorExpr)
				if !ok || pos || !isCtyType(info.TypeOf(se.X)) {
					return
				}
				// the type of val: val.Type() or a local defined from it
				isValTy := mentionsObj(info, se.X, val)
				if o := objOf(info, se.X); o != nil && !isValTy {
					if _, idx, rhs := findDefine(info, fd.Body, o); rhs != nil && idx < len(rhs) && mentionsObj(info, rhs[idx], val) {
						isValTy = true
					}
				}
				if !isValTy {
					return
				}
				switch se.Sel.Name {
				case "IsListType":
					ex = append(ex, "List")
				case "IsMapType":
					ex = append(ex, "Map")
				case "IsSetType":
					ex = append(ex, "Set")
				case "IsTupleType":
					ex = append(ex, "Tuple")
				case "IsObjectType":
					ex = append(ex, "Object")
				case "IsCollectionType":
					ex = append(ex, "List", "Map", "Set")
				case "IsCapsuleType":
					ex = append(ex, "Capsule")
				case "IsPrimitiveType":
					ex = append(ex, "Primitive")
				}
			}
		}
		walk(ifs.Cond, true, 0)
		if hasNull && len(ex) > 0 && nullIf == nil {
			nullIf, exempt = ifs, ex
		}
	}
	if nullIf == nil {
		rr.Assumed(pkg+".fromCtyValue/null-test", fd.Pos(), "fromCtyValue has no `if val.IsNull() && !val.Type().Is…Type()` test in the form this rule follows: no verdict")
		return
	}
	// the kind dispatch: case ty.IsXType(): return fromCtyX(val, …)
	pred := map[string]string{"IsListType": "List", "IsMapType": "Map", "IsSetType": "Set", "IsTupleType": "Tuple", "IsObjectType": "Object", "IsCapsuleType": "Capsule"}
	decoder := map[string]*ast.FuncDecl{}
	inspectNoLit(fd.Body, func(n ast.Node) bool {
		cc, ok := n.(*ast.CaseClause)
		if !ok || len(cc.List) != 1 {
			return true
		}
		call, ok := ast.Unparen(cc.List[0]).(*ast.CallExpr)
		if !ok {
			return true
		}
		se, ok := call.Fun.(*ast.SelectorExpr)
		if !ok || pred[se.Sel.Name] == "" || !isCtyType(info.TypeOf(se.X)) {
			return true
		}
		for _, st := range cc.Body {
			inspectNoLit(st, func(m ast.Node) bool {
				cl, ok := m.(*ast.CallExpr)
				if !ok {
					return true
				}
				f := callee(info, cl)
				if f == nil || f.Pkg() == nil || shortPkg(f.Pkg()) != pkg || len(cl.Args) == 0 || objOf(info, cl.Args[0]) != val {
					return true
				}
				if d := c.Decl(pkg, funcDeclKey(f)); d != nil && d.Body != nil && decoder[pred[se.Sel.Name]] == nil {
					decoder[pred[se.Sel.Name]] = d
				}
				return true
			})
		}
		return true
	})
	for _, k := range exempt {
		d := decoder[k]
		if d == nil {
			continue
		}
		dv := info.Defs[paramIdent(d, 0)]
		if dv == nil {
			continue
		}
		cf := c.CondFacts(d.Body, info, nil)
		n := 0
		ok := true
		inspectNoLit(d.Body, func(m ast.Node) bool {
			call, isCall := m.(*ast.CallExpr)
			if !isCall {
				return true
			}
			se, isSel := call.Fun.(*ast.SelectorExpr)
			if !isSel || objOf(info, se.X) != dv {
				return true
			}
			req, isAcc := valueREQ[funcKey(callee(info, call))]
			if !isAcc || !req.NotNull {
				return true
			}
			n++
			key := fmt.Sprintf("%s.%s/%s(%s)/notnull#%d", pkg, declName(d), se.Sel.Name, dv.Name(), n)
			if cf.HoldsAt(call, func(cond ast.Expr, truth bool) bool { return !truth && methodCond(info, cond, dv, "IsNull") }) {
				rr.OK(key, call.Pos(), "reached only where val.IsNull() was decided false")
			} else {
				ok = false
				rr.Violation(key, call.Pos(), fmt.Sprintf("fromCtyValue exempts %s values from its null handling (the null test says !…Is%sType / IsCollectionType), so a null %s reaches %s, and %s() is called here without val.IsNull() having been decided false: a null of this kind panics inside the decoder instead of becoming a nil slice / map or an error", strings.ToLower(k), k, strings.ToLower(k), declName(d), se.Sel.Name))
			}
			return true
		})
		if n == 0 && ok {
			rr.OKTrivial(fmt.Sprintf("%s.%s/notnull", pkg, declName(d)), d.Pos(), "no accessor that needs a non-null value")
		}
	}
}

// ---------------------------------------------------------------------------

func init() {
	register(&Rule{
		ID: "C13.flatten-descends-into-sequences-only", Prop: "C13", Also: []string{"C11"}, Floor: 1, Controls: 0,
		Doc: "flatten's recursive helper descends into an element only under kind tests that name sequences (list, set, tuple): a test that also admits maps or objects (IsCollectionType, IsMapType, IsObjectType) dissolves a map nested in the sequence into its bare values — the element iterator of a map yields the values and the keys are silently dropped, which is not what the reference flatten does to a non-sequence element (it keeps it as one element)",
		Run: runFlattenSequencesOnly,
	})
}

func runFlattenSequencesOnly(rr *RuleRun) {
	c := rr.Ctx
	pkg := "cty/function/stdlib"
	info := c.Info(pkg)
	fd := rr.MustDecl(pkg, "flattener")
	if fd == nil {
		return
	}
	// the self-call(s)
	var calls []*ast.CallExpr
	inspectNoLit(fd.Body, func(n ast.Node) bool {
		if call, ok := n.(*ast.CallExpr); ok && funcDeclKey2(info, call) == "flattener" {
			calls = append(calls, call)
		}
		return true
	})
	if len(calls) == 0 {
		rr.Assumed(pkg+".flattener/descent", fd.Pos(), "flattener does not call itself: the descent is written in a form this rule does not follow; no verdict")
		return
	}
	kindNames := func(e ast.Expr, wantPositive bool) []string {
		var out []string
		var walk func(e ast.Expr, pos bool)
		walk = func(e ast.Expr, pos bool) {
			switch x := ast.Unparen(e).(type) {
			case *ast.UnaryExpr:
				if x.Op == token.NOT {
					walk(x.X, !pos)
				}
			case *ast.BinaryExpr:
				if x.Op == token.LAND || x.Op == token.LOR {
					walk(x.X, pos)
					walk(x.Y, pos)
				}
			case *ast.CallExpr:
				if se, ok := x.Fun.(*ast.SelectorExpr); ok && isCtyType(info.TypeOf(se.X)) && strings.HasPrefix(se.Sel.Name, "Is") && strings.HasSuffix(se.Sel.Name, "Type") && pos == wantPositive {
					out = append(out, se.Sel.Name)
				}
			case *ast.Ident:
				// a named local holding a kind test: isSeq := ty.IsListType() || …
				if o := objOf(info, x); o != nil {
					if _, idx, rhs := findDefine(info, fd.Body, o); rhs != nil && idx < len(rhs) && countAssigns(info, fd.Body, o) == 0 {
						walk(rhs[idx], pos)
					}
				}
			}
		}
		walk(e, true)
		return out
	}
	for i, call := range calls {
		key := fmt.Sprintf("%s.flattener/descent#%d", pkg, i+1)
		var kinds []string
		// enclosing ifs (call in the body) and preceding guard clauses of the enclosing statement lists
		var child ast.Node = call
		for p := c.Parent(call); p != nil && p != ast.Node(fd.Body); child, p = p, c.Parent(p) {
			switch x := p.(type) {
			case *ast.IfStmt:
				if x.Body.Pos() <= call.Pos() && call.End() <= x.Body.End() {
					kinds = append(kinds, kindNames(x.Cond, true)...)
				} else if x.Else != nil && x.Else.Pos() <= call.Pos() && call.End() <= x.Else.End() {
					kinds = append(kinds, kindNames(x.Cond, false)...)
				}
			case *ast.BlockStmt:
				for _, st := range x.List {
					if st == child || st.Pos() >= call.Pos() {
						break
					}
					if g, ok := st.(*ast.IfStmt); ok && g.Else == nil && len(g.Body.List) > 0 {
						if br, ok := g.Body.List[len(g.Body.List)-1].(*ast.BranchStmt); ok && br.Tok == token.CONTINUE {
							kinds = append(kinds, kindNames(g.Cond, false)...)
						}
					}
				}
			}
		}
		if len(kinds) == 0 {
			rr.Assumed(key, call.Pos(), "no kind test on the element was found around the descent: no verdict")
			continue
		}
		bad := ""
		for _, k := range kinds {
			switch k {
			case "IsCollectionType", "IsMapType", "IsObjectType":
				bad = k
			}
		}
		sortStrings(kinds)
		if bad == "" {
			rr.OK(key, call.Pos(), "the descent is taken only under "+strings.Join(kinds, ", "))
		} else {
			rr.Violation(key, call.Pos(), fmt.Sprintf("flattener descends into an element under %s, which admits maps%s: a map nested in the sequence is replaced by its bare values (its keys are dropped), whereas a non-sequence element must stay one element of the result", bad, map[bool]string{true: " and objects", false: ""}[bad == "IsObjectType"]))
		}
	}
}

// ---------------------------------------------------------------------------

func init() {
	register(&Rule{
		ID: "C11.computed-index-bounded-below", Prop: "C11", Also: []string{"C13", "C14", "C17", "C16", "C15"}, Floor: 1, Controls: 0,
		Doc: "an index or slice bound that is computed by arithmetic (i := x - 1, end := offset + length) and that the code itself guards from above against the length (the author's stated belief that it can be out of range) is also guarded from below before it is used: a subtraction can go negative and a sum of two non-negative ints can wrap around to a negative number, which passes every 'greater than the length' test and panics in the index or slice expression — an internal panic for an argument the function should simply reject",
		Run: runComputedIndexBoundedBelow,
	})
}

func runComputedIndexBoundedBelow(rr *RuleRun) {
	c := rr.Ctx
	eachFuncBody(c, []string{"cty/function/stdlib", "cty/msgpack", "cty/json", "cty/gocty", "cty", "cty/convert", "cty/function"}, func(pkg string, fd *ast.FuncDecl, body *ast.BlockStmt) {
		if body == nil {
			return
		}
		info := c.Info(pkg)
		// i := X ± Y, defined once
		type comp struct {
			obj      types.Object
			op       token.Token
			operands []ast.Expr
		}
		var comps []comp
		inspectNoLit(body, func(n ast.Node) bool {
			as, ok := n.(*ast.AssignStmt)
			if !ok || as.Tok != token.DEFINE || len(as.Lhs) != 1 || len(as.Rhs) != 1 {
				return true
			}
			be, ok := ast.Unparen(as.Rhs[0]).(*ast.BinaryExpr)
			if !ok || (be.Op != token.ADD && be.Op != token.SUB) {
				return true
			}
			o := objOf(info, as.Lhs[0])
			if o == nil || countAssigns(info, body, o) != 0 {
				return true
			}
			if b, ok := o.Type().Underlying().(*types.Basic); !ok || b.Info()&types.IsInteger == 0 || b.Info()&types.IsUnsigned != 0 {
				return true
			}
			// constants only, or len(...) - c: no
			_, cx := constInt(info, be.X)
			_, cy := constInt(info, be.Y)
			if cx && cy {
				return true
			}
			if be.Op == token.SUB {
				if cl, ok := ast.Unparen(be.X).(*ast.CallExpr); ok && isBuiltin(info, cl, "len") {
					return true // len(x) - c: the companion of an emptiness test, not an input-derived index
				}
			}
			if be.Op == token.ADD && (cx || cy) {
				return true // i + 1: cannot go below its operand
			}
			comps = append(comps, comp{o, be.Op, []ast.Expr{be.X, be.Y}})
			return true
		})
		if len(comps) == 0 {
			return
		}
		var cf *CondFacts
		for _, cp := range comps {
			// uses as an index or slice bound
			var uses []ast.Node
			var seqs []ast.Expr
			inspectNoLit(body, func(n ast.Node) bool {
				switch x := n.(type) {
				case *ast.IndexExpr:
					if objOf(info, x.Index) == cp.obj {
						if _, isMap := info.TypeOf(x.X).Underlying().(*types.Map); !isMap {
							uses, seqs = append(uses, x), append(seqs, x.X)
						}
					}
				case *ast.SliceExpr:
					for _, b := range []ast.Expr{x.Low, x.High, x.Max} {
						if b != nil && objOf(info, b) == cp.obj {
							uses, seqs = append(uses, x), append(seqs, x.X)
						}
					}
				}
				return true
			})
			for ui, use := range uses {
				if cf == nil {
					cf = c.CondFacts(body, info, nil)
				}
				seq := seqs[ui]
				isI := func(e ast.Expr) bool { return objOf(info, e) == cp.obj }
				isLen := func(e ast.Expr) bool {
					cl, ok := ast.Unparen(e).(*ast.CallExpr)
					return ok && isBuiltin(info, cl, "len") && len(cl.Args) == 1 && exprStr(ast.Unparen(cl.Args[0])) == exprStr(ast.Unparen(seq))
				}
				upper := cf.HoldsAt(use, func(cond ast.Expr, truth bool) bool {
					be, ok := ast.Unparen(cond).(*ast.BinaryExpr)
					if !ok {
						return false
					}
					switch {
					case isI(be.X) && isLen(be.Y):
						return (be.Op == token.GEQ && !truth) || (be.Op == token.GTR && !truth) || (be.Op == token.LSS && truth) || (be.Op == token.LEQ && truth)
					case isLen(be.X) && isI(be.Y):
						return (be.Op == token.LEQ && !truth) || (be.Op == token.LSS && !truth) || (be.Op == token.GTR && truth) || (be.Op == token.GEQ && truth)
					}
					return false
				})
				if !upper {
					continue
				}
				isSmallConst := func(e ast.Expr) bool { v, ok := constInt(info, e); return ok && v >= 0 && v <= 1 }
				lowerOn := func(isSubj func(ast.Expr) bool) bool {
					return cf.HoldsAt(use, func(cond ast.Expr, truth bool) bool {
						be, ok := ast.Unparen(cond).(*ast.BinaryExpr)
						if !ok {
							return false
						}
						switch {
						case isSubj(be.X) && isSmallConst(be.Y):
							return (be.Op == token.LSS && !truth) || (be.Op == token.LEQ && !truth) || (be.Op == token.GEQ && truth) || (be.Op == token.GTR && truth)
						case isSmallConst(be.X) && isSubj(be.Y):
							return (be.Op == token.GTR && !truth) || (be.Op == token.GEQ && !truth) || (be.Op == token.LEQ && truth) || (be.Op == token.LSS && truth)
						}
						return false
					})
				}
				lower := lowerOn(isI)
				if !lower && cp.op == token.SUB {
					// x - 1 with x >= 1 established
					x := cp.operands[0]
					lower = lowerOn(func(e ast.Expr) bool { return exprStr(e) == exprStr(x) })
				}
				key := fmt.Sprintf("%s.%s/%s in %s", pkg, declName(fd), cp.obj.Name(), trunc(exprStr(use.(ast.Expr)), 30))
				if lower {
					rr.OK(key, use.Pos(), "guarded against the length and against going negative")
				} else {
					how := "a difference, which is negative when the subtrahend is larger"
					if cp.op == token.ADD {
						how = "a sum of two ints, which wraps around to a negative number when it overflows"
					}
					rr.Violation(key, use.Pos(), fmt.Sprintf("%s is %s (%s %s %s); the code guards it against len(%s) from above but nothing on the way establishes that it is not negative: a negative value passes the upper-bound test and this index / slice expression panics — the argument should be rejected with an error instead", cp.obj.Name(), how, trunc(exprStr(cp.operands[0]), 25), cp.op, trunc(exprStr(cp.operands[1]), 25), trunc(exprStr(seq), 25)))
				}
			}
		}
	})
}

// ---------------------------------------------------------------------------

func init() {
	register(&Rule{
		ID: "C12.known-length-is-not-known-value", Prop: "C12", Also: []string{"C11", "C13"}, Floor: 1, Controls: 0,
		Doc: "in the standard functions a branch taken because x.Length().IsKnown() does not call an accessor of x that needs the value itself to be known (LengthInt, ElementIterator, AsValueSlice, …) unless x.IsKnown() is part of the same condition or was established before: the length of an unknown collection refined to an exact length is a known number while the collection is still unknown, so the accessor panics — a call that succeeds with the concrete list fails with the refined unknown one",
		Run: runKnownLengthNotKnownValue,
	})
	register(&Rule{
		ID: "C05.nonstrict-consistency-needs-both-inclusive", Prop: "C05", Floor: 1, Controls: 0,
		Doc: "the consistency assertion of a numeric refinement accepts a lower bound equal to the upper bound (compares with LessThanOrEqualTo) only on a path on which BOTH bounds were established inclusive: with either bound exclusive an equal pair admits no number at all (x > 5 and x < 5), which is a contradiction of earlier constraints that must be rejected like x >= 5 and x < 5 is",
		Run: runNonstrictNeedsBothInclusive,
	})
	register(&Rule{
		ID: "C19.step-key-null-checked", Prop: "C19", Floor: 1, Controls: 0,
		Doc: "IndexStep.Apply hands its key to HasIndex / Index — which, like every operation, panic on a null operand — only after the key was tested not to be null: a path step whose key is a null number or string names no member, and applying it must return an error, not panic",
		Run: runStepKeyNullChecked,
	})
}

func runKnownLengthNotKnownValue(rr *RuleRun) {
	c := rr.Ctx
	n := 0
	eachFuncBody(c, []string{"cty/function/stdlib"}, func(pkg string, fd *ast.FuncDecl, body *ast.BlockStmt) {
		if body == nil {
			return
		}
		info := c.Info(pkg)
		var cf *CondFacts
		inspectNoLit(body, func(nd ast.Node) bool {
			ifs, ok := nd.(*ast.IfStmt)
			if !ok {
				return true
			}
			// x.Length().IsKnown() at positive polarity in the condition
			var subj types.Object
			hasKnown := map[types.Object]bool{}
			var walk func(e ast.Expr, pos bool)
			walk = func(e ast.Expr, pos bool) {
				switch x := ast.Unparen(e).(type) {
				case *ast.UnaryExpr:
					if x.Op == token.NOT {
						walk(x.X, !pos)
					}
				case *ast.BinaryExpr:
					if x.Op == token.LAND || x.Op == token.LOR {
						walk(x.X, pos)
						walk(x.Y, pos)
					}
				case *ast.CallExpr:
					se, ok := x.Fun.(*ast.SelectorExpr)
					if !ok || !pos {
						return
					}
					if se.Sel.Name == "IsKnown" || se.Sel.Name == "IsWhollyKnown" {
						if inner, ok := ast.Unparen(se.X).(*ast.CallExpr); ok && isCall(info, inner, "cty.Value.Length") {
							if o := objOf(info, inner.Fun.(*ast.SelectorExpr).X); o != nil {
								subj = o
							}
						} else if o := objOf(info, se.X); o != nil && isCtyValue(o.Type()) {
							hasKnown[o] = true
						}
					}
				}
			}
			walk(ifs.Cond, true)
			if subj == nil {
				return true
			}
			n++
			key := fmt.Sprintf("%s.%s/%s.Length().IsKnown()", pkg, declName(fd), subj.Name())
			if hasKnown[subj] {
				rr.OK(key, ifs.Pos(), "the same condition also requires the value itself to be known")
				return true
			}
			if cf == nil {
				cf = c.CondFacts(body, info, nil)
			}
			if cf.HoldsAt(ifs.Cond, func(cond ast.Expr, truth bool) bool { return truth && methodCond(info, cond, subj, "IsKnown", "IsWhollyKnown") }) {
				rr.OK(key, ifs.Pos(), "the value was established known before")
				return true
			}
			var bad *ast.CallExpr
			inspectNoLit(ifs.Body, func(m ast.Node) bool {
				call, ok := m.(*ast.CallExpr)
				if !ok || bad != nil {
					return true
				}
				se, ok := call.Fun.(*ast.SelectorExpr)
				if !ok || objOf(info, se.X) != subj {
					return true
				}
				if req, ok := valueREQ[funcKey(callee(info, call))]; ok && req.Known {
					bad = call
				}
				return true
			})
			if bad == nil {
				rr.OK(key, ifs.Pos(), "the branch uses the length only")
			} else {
				rr.Violation(key, bad.Pos(), fmt.Sprintf("%s() is called on %s in a branch that is taken when %s.Length().IsKnown(), but nothing establishes that %s itself is known: an unknown collection refined to an exact length has a known length and still panics here ('value is not known') — replacing the argument by such an unknown turns a successful call into an internal-panic error", bad.Fun.(*ast.SelectorExpr).Sel.Name, subj.Name(), subj.Name(), subj.Name()))
			}
			return true
		})
	})
	_ = n
}

func runNonstrictNeedsBothInclusive(rr *RuleRun) {
	c := rr.Ctx
	pkg := "cty"
	info := c.Info(pkg)
	fd := rr.MustDecl(pkg, "refinementNumber.assertConsistentBounds")
	if fd == nil {
		return
	}
	cf := c.CondFacts(fd.Body, info, nil)
	n := 0
	inspectNoLit(fd.Body, func(nd ast.Node) bool {
		call, ok := nd.(*ast.CallExpr)
		if !ok || !isCall(info, call, "cty.Value.LessThanOrEqualTo", "cty.Value.GreaterThanOrEqualTo") {
			return true
		}
		n++
		key := fmt.Sprintf("%s.refinementNumber.assertConsistentBounds/%s#%d", pkg, call.Fun.(*ast.SelectorExpr).Sel.Name, n)
		flag := func(name string) bool {
			return cf.HoldsAt(call, func(cond ast.Expr, truth bool) bool {
				se, ok := ast.Unparen(cond).(*ast.SelectorExpr)
				return ok && truth && se.Sel.Name == name
			})
		}
		if flag("minInc") && flag("maxInc") {
			rr.OK(key, call.Pos(), "equal bounds are accepted only where both are inclusive")
		} else {
			rr.Violation(key, call.Pos(), "the consistency assertion accepts a lower bound equal to the upper bound on a path on which the two bounds were not both established inclusive: an exclusive bound equal to the other bound (x > 5 and x < 5) admits no number, yet it is accepted as consistent instead of being rejected as a contradiction of the earlier constraint")
		}
		return true
	})
	if n == 0 {
		rr.Assumed(pkg+".refinementNumber.assertConsistentBounds/nonstrict", fd.Pos(), "no non-strict comparison of the bounds: equal bounds are never accepted here, or the test is written in a form this rule does not follow")
	}
}

func runStepKeyNullChecked(rr *RuleRun) {
	c := rr.Ctx
	pkg := "cty"
	info := c.Info(pkg)
	fd := rr.MustDecl(pkg, "IndexStep.Apply")
	if fd == nil {
		return
	}
	recv := recvObj(info, fd)
	isKey := func(e ast.Expr) bool {
		se, ok := ast.Unparen(e).(*ast.SelectorExpr)
		return ok && se.Sel.Name == "Key" && objOf(info, se.X) == recv
	}
	cf := c.CondFacts(fd.Body, info, nil)
	n := 0
	inspectNoLit(fd.Body, func(nd ast.Node) bool {
		call, ok := nd.(*ast.CallExpr)
		if !ok || opOperands(info, call) == nil {
			return true
		}
		uses := false
		for _, a := range call.Args {
			if isKey(a) {
				uses = true
			}
		}
		if !uses {
			return true
		}
		n++
		key := fmt.Sprintf("%s.IndexStep.Apply/%s(s.Key)#%d", pkg, call.Fun.(*ast.SelectorExpr).Sel.Name, n)
		notNull := cf.HoldsAt(call, func(cond ast.Expr, truth bool) bool {
			cl, ok := ast.Unparen(cond).(*ast.CallExpr)
			if !ok || truth {
				return false
			}
			se, ok := cl.Fun.(*ast.SelectorExpr)
			return ok && se.Sel.Name == "IsNull" && isKey(se.X)
		})
		if notNull {
			rr.OK(key, call.Pos(), "the key was tested not to be null")
		} else {
			rr.Violation(key, call.Pos(), fmt.Sprintf("the step's key is handed to %s without having been tested for null: a null number or string key passes the type test above and makes the operation panic, where applying a step that names no member must return an error", call.Fun.(*ast.SelectorExpr).Sel.Name))
		}
		return true
	})
}

// ---------------------------------------------------------------------------

func init() {
	register(&Rule{
		ID: "C14.submatch-offset-zero-is-a-match", Prop: "C14", Also: []string{"C11"}, Floor: 2, Controls: 0,
		Doc: "an offset taken from the result of the regexp package's …SubmatchIndex functions is tested for 'this group did not take part in the match' only by its sign (< 0, >= 0, == -1): the package reports absent groups with negative offsets and 0 is an ordinary offset — a test that treats 0 like a negative value (<= 0, == 0, > 0) turns an empty capture at the start of the string into 'no capture' (a null instead of an empty string)",
		Run: runSubmatchOffsetZero,
	})
}

func runSubmatchOffsetZero(rr *RuleRun) {
	c := rr.Ctx
	pkg := "cty/function/stdlib"
	info := c.Info(pkg)
	isIndexFn := func(call *ast.CallExpr) bool {
		f := callee(info, call)
		if f == nil || f.Pkg() == nil || f.Pkg().Path() != "regexp" {
			return false
		}
		return strings.HasSuffix(f.Name(), "Index") && strings.Contains(f.Name(), "Submatch")
	}
	taintedSlices := map[types.Object]bool{} // []int or [][]int carrying offsets
	taintedInts := map[types.Object]bool{}
	isIntSliceish := func(t types.Type) bool {
		s, ok := t.Underlying().(*types.Slice)
		if !ok {
			return false
		}
		if b, ok := s.Elem().Underlying().(*types.Basic); ok && b.Kind() == types.Int {
			return true
		}
		if s2, ok := s.Elem().Underlying().(*types.Slice); ok {
			if b, ok := s2.Elem().Underlying().(*types.Basic); ok && b.Kind() == types.Int {
				return true
			}
		}
		return false
	}
	var exprTaintedSlice func(e ast.Expr) bool
	exprTaintedSlice = func(e ast.Expr) bool {
		switch x := ast.Unparen(e).(type) {
		case *ast.Ident:
			return taintedSlices[objOf(info, x)]
		case *ast.CallExpr:
			return isIndexFn(x)
		case *ast.SliceExpr:
			return exprTaintedSlice(x.X)
		case *ast.IndexExpr:
			// an element of a [][]int
			if t := info.TypeOf(x); t != nil && isIntSliceish(t) {
				return exprTaintedSlice(x.X)
			}
		}
		return false
	}
	exprTaintedInt := func(e ast.Expr) bool {
		switch x := ast.Unparen(e).(type) {
		case *ast.Ident:
			return taintedInts[objOf(info, x)]
		case *ast.IndexExpr:
			if t := info.TypeOf(x); t != nil {
				if b, ok := t.Underlying().(*types.Basic); ok && b.Kind() == types.Int {
					return exprTaintedSlice(x.X)
				}
			}
		}
		return false
	}
	var bodies []struct {
		fd   *ast.FuncDecl
		body *ast.BlockStmt
	}
	eachFuncBody(c, []string{pkg}, func(_ string, fd *ast.FuncDecl, body *ast.BlockStmt) {
		if body != nil {
			bodies = append(bodies, struct {
				fd   *ast.FuncDecl
				body *ast.BlockStmt
			}{fd, body})
		}
	})
	for round := 0; round < 6; round++ {
		changed := false
		mark := func(m map[types.Object]bool, o types.Object) {
			if o != nil && !m[o] {
				m[o] = true
				changed = true
			}
		}
		for _, b := range bodies {
			ast.Inspect(b.body, func(n ast.Node) bool {
				switch x := n.(type) {
				case *ast.AssignStmt:
					if len(x.Lhs) == len(x.Rhs) {
						for i := range x.Lhs {
							if exprTaintedSlice(x.Rhs[i]) {
								mark(taintedSlices, objOf(info, x.Lhs[i]))
							}
							if exprTaintedInt(x.Rhs[i]) {
								mark(taintedInts, objOf(info, x.Lhs[i]))
							}
						}
					}
				case *ast.RangeStmt:
					if exprTaintedSlice(x.X) && x.Value != nil {
						if t := info.TypeOf(x.Value); t != nil && isIntSliceish(t) {
							mark(taintedSlices, objOf(info, x.Value))
						} else {
							mark(taintedInts, objOf(info, x.Value))
						}
					}
				case *ast.CallExpr:
					// into a helper of the package
					f := callee(info, x)
					if f == nil || f.Pkg() == nil || shortPkg(f.Pkg()) != pkg {
						return true
					}
					d := c.Decl(pkg, funcDeclKey(f))
					if d == nil {
						return true
					}
					for i, a := range x.Args {
						pid := paramIdent(d, i)
						if pid == nil {
							continue
						}
						if exprTaintedSlice(a) {
							mark(taintedSlices, info.Defs[pid])
						}
						if exprTaintedInt(a) {
							mark(taintedInts, info.Defs[pid])
						}
					}
				}
				return true
			})
		}
		if !changed {
			break
		}
	}
	n := 0
	for _, b := range bodies {
		ast.Inspect(b.body, func(nd ast.Node) bool {
			be, ok := nd.(*ast.BinaryExpr)
			if !ok {
				return true
			}
			var op token.Token
			var subj ast.Expr
			if z, ok := constInt(info, be.Y); ok && z == 0 && exprTaintedInt(be.X) {
				op, subj = be.Op, be.X
			} else if z, ok := constInt(info, be.X); ok && z == 0 && exprTaintedInt(be.Y) {
				subj = be.Y
				switch be.Op { // 0 OP x  ≡  x OP' 0
				case token.LSS:
					op = token.GTR
				case token.GTR:
					op = token.LSS
				case token.LEQ:
					op = token.GEQ
				case token.GEQ:
					op = token.LEQ
				default:
					op = be.Op
				}
			} else {
				return true
			}
			n++
			key := fmt.Sprintf("%s.%s/%s %s 0#%d", pkg, declName(b.fd), trunc(exprStr(subj), 25), op, n)
			switch op {
			case token.LSS, token.GEQ:
				rr.OK(key, be.Pos(), "the sign of the offset decides, as the regexp package specifies")
			case token.LEQ, token.EQL, token.GTR, token.NEQ:
				rr.Violation(key, be.Pos(), fmt.Sprintf("'%s' treats the offset 0 like 'no match': offsets reported by regexp's …SubmatchIndex functions are negative for a group that did not take part and 0 is a real position, so an empty capture at the start of the string is reported as absent (null instead of \"\")", exprStr(be)))
			}
			return true
		})
	}
}

// ---------------------------------------------------------------------------

func init() {
	register(&Rule{
		ID: "C18.map-key-assignable", Prop: "C18", Floor: 2, Controls: 0,
		Doc: "wherever gocty indexes or fills a Go map through reflection with a key made from a Go string (MapIndex / SetMapIndex with reflect.ValueOf(s)), the map's key type was tested to be of string kind on the way (an error otherwise) and the key is converted to the map's own key type (or is one of the map's own MapKeys()): reflect panics when the key value is not assignable to the key type — map[int]T, or a named string key type — where a shape the bridge does not support must be an error",
		Run: runMapKeyAssignable,
	})
}

func runMapKeyAssignable(rr *RuleRun) {
	c := rr.Ctx
	pkg := "cty/gocty"
	info := c.Info(pkg)
	for _, fd := range c.SortedDecls(pkg) {
		if fd.Body == nil {
			continue
		}
		var calls []*ast.CallExpr
		ast.Inspect(fd.Body, func(n ast.Node) bool {
			if call, ok := n.(*ast.CallExpr); ok && isCall(info, call, "reflect.Value.SetMapIndex", "reflect.Value.MapIndex") && len(call.Args) >= 1 {
				calls = append(calls, call)
			}
			return true
		})
		if len(calls) == 0 {
			continue
		}
		// a test of the key kind anywhere before, in this function, that exits: if X.Key().Kind() != reflect.String { return … }
		keyKindTest := token.NoPos
		ast.Inspect(fd.Body, func(n ast.Node) bool {
			ifs, ok := n.(*ast.IfStmt)
			if !ok {
				return true
			}
			mentionsKeyKind := false
			ast.Inspect(ifs.Cond, func(m ast.Node) bool {
				if call, ok := m.(*ast.CallExpr); ok && isCall(info, call, "reflect.Type.Kind") {
					if inner, ok := ast.Unparen(call.Fun.(*ast.SelectorExpr).X).(*ast.CallExpr); ok && isCall(info, inner, "reflect.Type.Key") {
						mentionsKeyKind = true
					}
					if id := objOf(info, call.Fun.(*ast.SelectorExpr).X); id != nil {
						if _, idx, rhs := findDefine(info, fd.Body, id); rhs != nil && idx < len(rhs) {
							if inner, ok := ast.Unparen(rhs[idx]).(*ast.CallExpr); ok && isCall(info, inner, "reflect.Type.Key") {
								mentionsKeyKind = true
							}
						}
					}
				}
				return true
			})
			if !mentionsKeyKind || len(ifs.Body.List) == 0 {
				return true
			}
			if _, ok := ifs.Body.List[len(ifs.Body.List)-1].(*ast.ReturnStmt); ok && (keyKindTest == token.NoPos || ifs.Pos() < keyKindTest) {
				keyKindTest = ifs.Pos()
			}
			return true
		})
		for i, call := range calls {
			key := fmt.Sprintf("%s.%s/%s#%d", pkg, declName(fd), call.Fun.(*ast.SelectorExpr).Sel.Name, i+1)
			k := ast.Unparen(call.Args[0])
			// the key expression: reflect.ValueOf(s) | X.Convert(T) | an element of MapKeys()
			fromString, converted, ownKey := false, false, false
			var classify func(e ast.Expr, depth int)
			classify = func(e ast.Expr, depth int) {
				switch x := ast.Unparen(e).(type) {
				case *ast.CallExpr:
					if isCall(info, x, "reflect.Value.Convert") {
						converted = true
					} else if isCall(info, x, "reflect.ValueOf") && len(x.Args) == 1 {
						if b, ok := info.TypeOf(x.Args[0]).Underlying().(*types.Basic); ok && b.Kind() == types.String {
							fromString = true
						}
					}
				case *ast.Ident:
					o := objOf(info, x)
					if o == nil || depth > 2 {
						return
					}
					// range variable over MapKeys()
					ast.Inspect(fd.Body, func(m ast.Node) bool {
						if rs, ok := m.(*ast.RangeStmt); ok && rs.Value != nil && objOf(info, rs.Value) == o {
							if mk, ok := ast.Unparen(rs.X).(*ast.CallExpr); ok && isCall(info, mk, "reflect.Value.MapKeys") {
								ownKey = true
							}
						}
						return true
					})
					if _, idx, rhs := findDefine(info, fd.Body, o); rhs != nil && idx < len(rhs) {
						classify(rhs[idx], depth+1)
					}
				}
			}
			classify(k, 0)
			switch {
			case ownKey:
				rr.OK(key, call.Pos(), "the key is one of the map's own keys")
			case !fromString && !converted:
				rr.Assumed(key, call.Pos(), "the key is not built from a Go string in a form this rule follows: no verdict")
			case keyKindTest == token.NoPos || keyKindTest > call.Pos():
				rr.Violation(key, call.Pos(), fmt.Sprintf("%s is called with a key made from a Go string, but %s never tests the kind of the Go map's key type: for a map whose keys are not strings (map[int]T) reflect panics ('value of type string is not assignable to type int') instead of the bridge returning an error", call.Fun.(*ast.SelectorExpr).Sel.Name, declName(fd)))
			case !converted:
				rr.Violation(key, call.Pos(), fmt.Sprintf("%s is called with reflect.ValueOf of a plain string: the key kind was tested, but a map whose key type is a named string type (type K string) has string kind and still does not accept a plain string value — reflect panics; convert the key to the map's key type (or use the map's own key)", call.Fun.(*ast.SelectorExpr).Sel.Name))
			default:
				rr.OK(key, call.Pos(), "the key kind was tested and the key is converted to the map's key type")
			}
		}
	}
}

// ---------------------------------------------------------------------------

func init() {
	register(&Rule{
		ID: "C09.index-from-the-same-sequence", Prop: "C09", Also: []string{"C08"}, Floor: 2, Controls: 0,
		Doc: "where a function of package convert picks some positions out of its input slice into an index list (idxs = append(idxs, i) under a condition, with a parallel slice of the picked items) and later walks that list with `for i, idx := range idxs`, a slice that is laid out like the input (made with len(input), or returned for it by a unification function) is indexed with idx and a slice laid out like the picked items is indexed with i — never the other way round: the ordinal among the picked items and the position in the input are both small ints, so the swap compiles, stays in bounds, and hands an input the conversion that belongs to a different input",
		Run: runIndexFromSameSequence,
	})
}


// seqLoop describes a loop over a slice variable in range form or in `for i := 0; i < len(S); i++` form.
type seqLoop struct {
	body *ast.BlockStmt
	seq  types.Object // the slice walked
	ord  types.Object // the position variable (nil if blank)
	elem types.Object // the element variable (range value, or a local defined as S[i]); may be nil
}

func asSeqLoop(info *types.Info, n ast.Node) *seqLoop {
	switch x := n.(type) {
	case *ast.RangeStmt:
		s := objOf(info, x.X)
		if s == nil {
			return nil
		}
		l := &seqLoop{body: x.Body, seq: s}
		if x.Key != nil {
			l.ord = objOf(info, x.Key)
		}
		if x.Value != nil {
			l.elem = objOf(info, x.Value)
		}
		if l.elem == nil && l.ord != nil {
			l.elem = indexedElemVar(info, x.Body, s, l.ord)
		}
		return l
	case *ast.ForStmt:
		as, ok := x.Init.(*ast.AssignStmt)
		if !ok || len(as.Lhs) != 1 || len(as.Rhs) != 1 {
			return nil
		}
		if v, ok := constInt(info, as.Rhs[0]); !ok || v != 0 {
			return nil
		}
		idx := objOf(info, as.Lhs[0])
		cond, ok := x.Cond.(*ast.BinaryExpr)
		if !ok || cond.Op != token.LSS || objOf(info, cond.X) != idx {
			return nil
		}
		ln, ok := ast.Unparen(cond.Y).(*ast.CallExpr)
		if !ok || !isBuiltin(info, ln, "len") || len(ln.Args) != 1 {
			return nil
		}
		s := objOf(info, ln.Args[0])
		if s == nil {
			return nil
		}
		return &seqLoop{body: x.Body, seq: s, ord: idx, elem: indexedElemVar(info, x.Body, s, idx)}
	}
	return nil
}

func runIndexFromSameSequence(rr *RuleRun) {
	c := rr.Ctx
	pkg := "cty/convert"
	info := c.Info(pkg)
	// summaries: result #k of f is laid out like parameter #j
	type sumKey struct {
		f string
		k int
	}
	summary := map[sumKey]int{}
	decls := c.SortedDecls(pkg)
	// layoutParam: e is laid out like parameter #j of fd (-1: known to be something else, -2: nothing known yet)
	var layoutParam func(fd *ast.FuncDecl, e ast.Expr, depth int) int
	layoutParam = func(fd *ast.FuncDecl, e ast.Expr, depth int) int {
		o := objOf(info, e)
		if o == nil || depth > 4 {
			return -1
		}
		j := 0
		for _, f := range fd.Type.Params.List {
			for _, nm := range f.Names {
				if info.Defs[nm] == o {
					return j
				}
				j++
			}
		}
		def, idx, rhs := findDefine(info, fd.Body, o)
		if rhs == nil {
			return -1
		}
		if len(rhs) == 1 {
			if call, ok := ast.Unparen(rhs[0]).(*ast.CallExpr); ok {
				if isBuiltin(info, call, "make") && len(call.Args) >= 2 {
					if ln, ok := ast.Unparen(call.Args[1]).(*ast.CallExpr); ok && isBuiltin(info, ln, "len") && len(ln.Args) == 1 {
						return layoutParam(fd, ln.Args[0], depth+1)
					}
					return -1
				}
				// x, y := g(…): position of o among the left-hand sides
				k := idx
				if as, ok := def.(*ast.AssignStmt); ok && len(as.Lhs) > 1 {
					for i, l := range as.Lhs {
						if objOf(info, l) == o {
							k = i
						}
					}
				}
				name := funcDeclKey2(info, call)
				if name == "" {
					return -1
				}
				if jj, ok := summary[sumKey{name, k}]; ok && jj < len(call.Args) {
					return layoutParam(fd, call.Args[jj], depth+1)
				}
				return -2
			}
		}
		return -1
	}
	alignedParam := func(fd *ast.FuncDecl, e ast.Expr) int { return layoutParam(fd, e, 0) }
	for round := 0; round < 4; round++ {
		for _, fd := range decls {
			if fd.Body == nil || fd.Type.Results == nil {
				continue
			}
			nres := 0
			for _, f := range fd.Type.Results.List {
				if len(f.Names) == 0 {
					nres++
				} else {
					nres += len(f.Names)
				}
			}
			for k := 0; k < nres; k++ {
				if _, done := summary[sumKey{declName(fd), k}]; done {
					continue
				}
				agreed, any := -2, false
				inspectNoLit(fd.Body, func(n ast.Node) bool {
					ret, ok := n.(*ast.ReturnStmt)
					if !ok {
						return true
					}
					var e ast.Expr
					if len(ret.Results) == nres {
						e = ret.Results[k]
					} else if len(ret.Results) == 1 {
						// return g(args…): through g's summary
						if call, ok := ast.Unparen(ret.Results[0]).(*ast.CallExpr); ok {
							if j, ok := summary[sumKey{funcDeclKey2(info, call), k}]; ok && j < len(call.Args) {
								e = call.Args[j] // laid out like this argument
								if o := objOf(info, e); o != nil {
									pj := 0
									found := -1
									for _, f := range fd.Type.Params.List {
										for _, nm := range f.Names {
											if info.Defs[nm] == o {
												found = pj
											}
											pj++
										}
									}
									if found >= 0 {
										any = true
										if agreed == -2 || agreed == found {
											agreed = found
										} else {
											agreed = -1
										}
									}
								}
							}
						}
						return true
					} else {
						return true
					}
					if isNilIdent(info, e) {
						return true
					}
					if t := info.TypeOf(e); t == nil {
						return true
					} else if _, isSlice := t.Underlying().(*types.Slice); !isSlice {
						return true
					}
					j := alignedParam(fd, e)
					if j == -2 {
						return true // depends on a summary not known yet: no information from this path
					}
					any = true
					if j < 0 {
						agreed = -1
					} else if agreed == -2 || agreed == j {
						agreed = j
					} else {
						agreed = -1
					}
					return true
				})
				if any && agreed >= 0 {
					summary[sumKey{declName(fd), k}] = agreed
				}
			}
		}
	}
	for _, fd := range decls {
		if fd.Body == nil {
			continue
		}
		parent := map[types.Object]types.Object{}
		var find func(o types.Object) types.Object
		find = func(o types.Object) types.Object {
			if p, ok := parent[o]; ok && p != o {
				r := find(p)
				parent[o] = r
				return r
			}
			return o
		}
		union := func(a, b types.Object) {
			if a == nil || b == nil {
				return
			}
			ra, rb := find(a), find(b)
			if ra != rb {
				parent[ra] = rb
			}
		}
		selOf := map[types.Object]types.Object{} // index list → the slice its elements index
		// 1. index lists and their parallel slices
		inspectNoLit(fd.Body, func(n ast.Node) bool {
			rs := asSeqLoop(info, n)
			if rs == nil || rs.ord == nil {
				return true
			}
			x, iv := rs.seq, rs.ord
			inspectNoLit(rs.body, func(m ast.Node) bool {
				ifs, ok := m.(*ast.IfStmt)
				if !ok {
					return true
				}
				var lists, others []types.Object
				for _, st := range ifs.Body.List {
					as, ok := st.(*ast.AssignStmt)
					if !ok || len(as.Lhs) != 1 || len(as.Rhs) != 1 {
						continue
					}
					ap, ok := as.Rhs[0].(*ast.CallExpr)
					if !ok || !isBuiltin(info, ap, "append") || len(ap.Args) != 2 || objOf(info, ap.Args[0]) != objOf(info, as.Lhs[0]) {
						continue
					}
					if objOf(info, ap.Args[1]) == iv {
						lists = append(lists, objOf(info, as.Lhs[0]))
					} else {
						others = append(others, objOf(info, as.Lhs[0]))
					}
				}
				for _, l := range lists {
					selOf[l] = x
					for _, o := range others {
						union(o, l)
					}
				}
				return true
			})
			return true
		})
		if len(selOf) == 0 {
			continue
		}
		// 2. slices laid out like another: make(T, len(X)); results of summarised calls
		inspectNoLit(fd.Body, func(n ast.Node) bool {
			as, ok := n.(*ast.AssignStmt)
			if !ok || len(as.Rhs) != 1 {
				return true
			}
			call, ok := ast.Unparen(as.Rhs[0]).(*ast.CallExpr)
			if !ok {
				return true
			}
			if isBuiltin(info, call, "make") && len(call.Args) >= 2 && len(as.Lhs) == 1 {
				if ln, ok := ast.Unparen(call.Args[1]).(*ast.CallExpr); ok && isBuiltin(info, ln, "len") && len(ln.Args) == 1 {
					union(objOf(info, as.Lhs[0]), objOf(info, ln.Args[0]))
				}
				return true
			}
			name := funcDeclKey2(info, call)
			for k, l := range as.Lhs {
				if j, ok := summary[sumKey{name, k}]; ok && j < len(call.Args) {
					union(objOf(info, l), objOf(info, call.Args[j]))
				}
			}
			return true
		})
		// 3. the loops over an index list
		inspectNoLit(fd.Body, func(n ast.Node) bool {
			rs := asSeqLoop(info, n)
			if rs == nil {
				return true
			}
			l := rs.seq
			src, isList := selOf[l]
			if !isList {
				return true
			}
			ord, elem := rs.ord, rs.elem
			inspectNoLit(rs.body, func(m ast.Node) bool {
				ix, ok := m.(*ast.IndexExpr)
				if !ok {
					return true
				}
				s, i := objOf(info, ix.X), objOf(info, ix.Index)
				// S[L[i]]: the position is read out of the list on the spot
				if inner, ok := ast.Unparen(ix.Index).(*ast.IndexExpr); ok && objOf(info, inner.X) == l && ord != nil && objOf(info, inner.Index) == ord {
					if s != nil && s != l {
						if find(s) == find(l) {
							rr.Violation(fmt.Sprintf("%s.%s/%s[%s]", pkg, declName(fd), s.Name(), exprStr(ix.Index)), ix.Pos(), fmt.Sprintf("%s has one entry per item picked into %s but is indexed with a position in the input %s read out of %s", s.Name(), l.Name(), src.Name(), l.Name()))
						} else if find(s) == find(src) {
							rr.OK(fmt.Sprintf("%s.%s/%s[%s]", pkg, declName(fd), s.Name(), exprStr(ix.Index)), ix.Pos(), "indexed with a position taken out of the index list")
						}
					}
					return true
				}
				if s == l {
					return true // reading the index list itself
				}
				if s == nil || i == nil || (i != ord && i != elem) {
					return true
				}
				if _, isSlice := s.Type().Underlying().(*types.Slice); !isSlice {
					return true
				}
				likeInput, likePicked := find(s) == find(src), find(s) == find(l)
				key := fmt.Sprintf("%s.%s/%s[%s]", pkg, declName(fd), s.Name(), i.Name())
				switch {
				case likeInput && i == ord && ord != nil:
					rr.Violation(key, ix.Pos(), fmt.Sprintf("%s is laid out like the input %s (one entry per input) but is indexed with %s, the ordinal among the entries picked into %s: the entry read belongs to a different input than the one being handled — index it with the position taken out of %s", s.Name(), src.Name(), i.Name(), l.Name(), l.Name()))
				case likePicked && i == elem && elem != nil:
					rr.Violation(key, ix.Pos(), fmt.Sprintf("%s has one entry per item picked into %s but is indexed with %s, a position in the input %s: the wrong entry is read, or the index is out of range", s.Name(), l.Name(), i.Name(), src.Name()))
				case likeInput || likePicked:
					rr.OK(key, ix.Pos(), "indexed with the variable that belongs to the sequence the slice is laid out like")
				}
				return true
			})
			return true
		})
	}
}

// ---------------------------------------------------------------------------

func init() {
	register(&Rule{
		ID: "C04.dynamic-test-sees-through-marks", Prop: "C04", Also: []string{"C12", "C11", "C13"}, Floor: 0, Controls: 1,
		Doc: "in the standard functions a member taken out of a value that the function unmarked only at the top (Unmark, not UnmarkDeep) is not compared with cty.DynamicVal by Go identity: a marked DynamicVal is a different Go value, so the test is false for it and the member is treated as an ordinary known leaf — the marked call answers with a known result where the unmarked call answers unknown",
		Run: runDynamicTestSeesThroughMarks,
	})
}

func runDynamicTestSeesThroughMarks(rr *RuleRun) {
	c := rr.Ctx
	pkg := "cty/function/stdlib"
	info := c.Info(pkg)
	eachFuncBody(c, []string{pkg}, func(_ string, fd *ast.FuncDecl, body *ast.BlockStmt) {
		if body == nil {
			return
		}
		// containers unmarked at the top only
		shallow := map[types.Object]bool{}
		inspectNoLit(body, func(n ast.Node) bool {
			as, ok := n.(*ast.AssignStmt)
			if !ok || len(as.Rhs) != 1 || len(as.Lhs) != 2 {
				return true
			}
			if call, ok := as.Rhs[0].(*ast.CallExpr); ok && isCall(info, call, "cty.Value.Unmark") {
				if o := objOf(info, as.Lhs[0]); o != nil {
					shallow[o] = true
				}
			}
			return true
		})
		if len(shallow) == 0 {
			return
		}
		// iterators over them, and the members taken out
		iters := map[types.Object]bool{}
		members := map[types.Object]bool{}
		inspectNoLit(body, func(n ast.Node) bool {
			switch x := n.(type) {
			case *ast.AssignStmt:
				if len(x.Rhs) != 1 {
					return true
				}
				call, ok := x.Rhs[0].(*ast.CallExpr)
				if !ok {
					return true
				}
				se, ok := call.Fun.(*ast.SelectorExpr)
				if !ok {
					return true
				}
				if isCall(info, call, "cty.Value.ElementIterator") && shallow[objOf(info, se.X)] && len(x.Lhs) == 1 {
					iters[objOf(info, x.Lhs[0])] = true
				}
				if isCall(info, call, "cty.ElementIterator.Element") && iters[objOf(info, se.X)] && len(x.Lhs) == 2 {
					members[objOf(info, x.Lhs[1])] = true
				}
			case *ast.RangeStmt:
				if call, ok := ast.Unparen(x.X).(*ast.CallExpr); ok && isCall(info, call, "cty.Value.AsValueSlice", "cty.Value.AsValueMap") && x.Value != nil {
					if se, ok := call.Fun.(*ast.SelectorExpr); ok && shallow[objOf(info, se.X)] {
						members[objOf(info, x.Value)] = true
					}
				}
			}
			return true
		})
		// `for it := x.ElementIterator(); it.Next(); { _, v := it.Element() }`: the init is an AssignStmt too (covered)
		n := 0
		inspectNoLit(body, func(nd ast.Node) bool {
			be, ok := nd.(*ast.BinaryExpr)
			if !ok || (be.Op != token.EQL && be.Op != token.NEQ) {
				return true
			}
			var subj types.Object
			if isPkgVar(info, be.Y, "cty", "DynamicVal") {
				subj = objOf(info, be.X)
			} else if isPkgVar(info, be.X, "cty", "DynamicVal") {
				subj = objOf(info, be.Y)
			}
			if subj == nil || !members[subj] || countAssigns(info, body, subj) > 0 {
				return true
			}
			n++
			key := fmt.Sprintf("%s.%s/%s %s cty.DynamicVal#%d", pkg, declName(fd), subj.Name(), be.Op, n)
			rr.Violation(key, be.Pos(), fmt.Sprintf("%s is a member of a value that was unmarked only at the top, so it may itself be marked, and it is compared with cty.DynamicVal by identity: a marked DynamicVal is not recognised, the function treats it as a known leaf and returns a known result where the same call without the mark returns unknown (the member may still turn out to be a sequence)", subj.Name()))
			return true
		})
	})
}

// ---------------------------------------------------------------------------

func init() {
	register(&Rule{
		ID: "C06.normalise-before-store", Prop: "C06", Also: []string{"C07", "C02"}, Floor: 3, Controls: 0,
		Doc: "in package cty a name taken from the caller (a parameter, or an element or key of a slice or map parameter) is stored as a key of a map that becomes the attribute table or optional-attribute set of an object type, or the payload of an object or map value, only after it went through NormalizeString: the lookups normalise the name they are given (C06.normalise-before-lookup), so an entry stored under the caller's spelling is never found — an optional marking that AttributeOptional, Equals and the JSON form do not see",
		Run: runNormaliseBeforeStore,
	})
}

func runNormaliseBeforeStore(rr *RuleRun) {
	c := rr.Ctx
	pkg := "cty"
	info := c.Info(pkg)
	for _, fd := range c.SortedDecls(pkg) {
		if fd.Body == nil {
			continue
		}
		// maps that end up in a typeObject literal or as the payload of a Value literal
		sinks := map[types.Object]string{}
		inspectNoLit(fd.Body, func(n ast.Node) bool {
			cl, ok := n.(*ast.CompositeLit)
			if !ok {
				return true
			}
			t := info.TypeOf(cl)
			if t == nil {
				return true
			}
			switch namedTypeNoPtr(t) {
			case "cty.typeObject":
				for _, el := range cl.Elts {
					if kv, ok := el.(*ast.KeyValueExpr); ok {
						if o := objOf(info, kv.Value); o != nil {
							sinks[o] = "the " + exprStr(kv.Key) + " table of an object type"
						}
					}
				}
			case "cty.Value":
				for _, el := range cl.Elts {
					if kv, ok := el.(*ast.KeyValueExpr); ok && exprStr(kv.Key) == "v" {
						if o := objOf(info, kv.Value); o != nil {
							if m, ok := o.Type().Underlying().(*types.Map); ok {
								if b, ok := m.Key().Underlying().(*types.Basic); ok && b.Kind() == types.String {
									sinks[o] = "the payload of an object or map value"
								}
							}
						}
					}
				}
			}
			return true
		})
		if len(sinks) == 0 {
			continue
		}
		params := map[types.Object]bool{}
		for _, f := range fd.Type.Params.List {
			for _, nm := range f.Names {
				params[info.Defs[nm]] = true
			}
		}
		g := c.CFG(fd.Body, info)
		isNormCall := func(e ast.Expr) bool {
			call, ok := ast.Unparen(e).(*ast.CallExpr)
			return ok && isCall(info, call, "cty.NormalizeString", "cty/ctystrings.Normalize")
		}
		n := 0
		inspectNoLit(fd.Body, func(nd ast.Node) bool {
			as, ok := nd.(*ast.AssignStmt)
			if !ok {
				return true
			}
			for _, l := range as.Lhs {
				ix, ok := l.(*ast.IndexExpr)
				if !ok {
					continue
				}
				what, isSink := sinks[objOf(info, ix.X)]
				if !isSink {
					continue
				}
				n++
				key := fmt.Sprintf("%s.%s/%s[%s]#%d", pkg, declName(fd), exprStr(ix.X), trunc(exprStr(ix.Index), 25), n)
				if isNormCall(ix.Index) {
					rr.OK(key, as.Pos(), "stored under the normalised name")
					continue
				}
				ko := objOf(info, ix.Index)
				if ko == nil {
					rr.Assumed(key, as.Pos(), "the key is not a plain variable: no verdict")
					continue
				}
				// normalised on the way: K = NormalizeString(…) / K := NormalizeString(…) dominating the store
				normalised := false
				inspectNoLit(fd.Body, func(m ast.Node) bool {
					a2, ok := m.(*ast.AssignStmt)
					if !ok || a2 == as {
						return true
					}
					for i, l2 := range a2.Lhs {
						if objOf(info, l2) == ko && i < len(a2.Rhs) && isNormCall(a2.Rhs[i]) && g.Dominates(a2, as) {
							normalised = true
						}
					}
					return true
				})
				if normalised {
					rr.OK(key, as.Pos(), "the key was normalised before the store")
					continue
				}
				// where does the key come from: the caller's data?
				fromCaller := params[ko]
				inspectNoLit(fd.Body, func(m ast.Node) bool {
					rs, ok := m.(*ast.RangeStmt)
					if !ok {
						return true
					}
					if (rs.Key != nil && objOf(info, rs.Key) == ko) || (rs.Value != nil && objOf(info, rs.Value) == ko) {
						if params[objOf(info, rs.X)] {
							fromCaller = true
						}
					}
					return true
				})
				if fromCaller {
					rr.Violation(key, as.Pos(), fmt.Sprintf("%s is stored as a key of %s in the spelling the caller gave it — it was not passed through NormalizeString on the way: every lookup normalises the name it is given, so an entry stored under a non-normalised spelling (\"he\\u0301llo\") is never found again", ko.Name(), what))
				} else {
					rr.Assumed(key, as.Pos(), "the key does not come straight from the caller's data (it is taken from a table that is already normalised, or computed): no verdict")
				}
			}
			return true
		})
	}
}

// ---------------------------------------------------------------------------

func init() {
	register(&Rule{
		ID: "C04.null-member-replacement-keeps-marks", Prop: "C04", Also: []string{"C08"}, Floor: 1, Controls: 0,
		Doc: "in the conversion closures of package convert, where a member of the value being converted (an element, an attribute — not the closure's own argument, which the wrapper has unmarked) is found null and a fresh cty.NullVal is produced in its place, the fresh null is given the member's marks (…WithSameMarks(member) / WithMarks): a type carries no marks, so a null built from a type alone — the member's own or the target's — drops the marks of a marked null member, and they never reach the result",
		Run: runNullMemberReplacementKeepsMarks,
	})
}

func runNullMemberReplacementKeepsMarks(rr *RuleRun) {
	c := rr.Ctx
	pkg := "cty/convert"
	info := c.Info(pkg)
	for _, fd := range c.SortedDecls(pkg) {
		if fd.Body == nil {
			continue
		}
		ast.Inspect(fd.Body, func(n ast.Node) bool {
			fl, ok := n.(*ast.FuncLit)
			if !ok {
				return true
			}
			params := map[types.Object]bool{}
			for _, f := range fl.Type.Params.List {
				for _, nm := range f.Names {
					params[info.Defs[nm]] = true
				}
			}
			k := 0
			inspectNoLit(fl.Body, func(m ast.Node) bool {
				ifs, ok := m.(*ast.IfStmt)
				if !ok {
					return true
				}
				call, ok := ast.Unparen(ifs.Cond).(*ast.CallExpr)
				if !ok || !isCall(info, call, "cty.Value.IsNull") {
					return true
				}
				x := objOf(info, call.Fun.(*ast.SelectorExpr).X)
				if x == nil || params[x] {
					return true
				}
				inspectNoLit(ifs.Body, func(q ast.Node) bool {
					nv, ok := q.(*ast.CallExpr)
					if !ok || !isCall(info, nv, "cty.NullVal") {
						return true
					}
					k++
					key := fmt.Sprintf("%s.%s$closure/null %s#%d", pkg, declName(fd), x.Name(), k)
					// is this NullVal(...) the receiver of WithSameMarks(x) / WithMarks(...)?
					wrapped := false
					if se, ok := c.Parent(nv).(*ast.SelectorExpr); ok && (se.Sel.Name == "WithSameMarks" || se.Sel.Name == "WithMarks") {
						if outer, ok := c.Parent(se).(*ast.CallExpr); ok {
							if se.Sel.Name == "WithMarks" {
								wrapped = true
							}
							for _, a := range outer.Args {
								if objOf(info, a) == x {
									wrapped = true
								}
							}
						}
					}
					if wrapped {
						rr.OK(key, nv.Pos(), "the fresh null carries the marks of the member it replaces")
					} else {
						rr.Violation(key, nv.Pos(), fmt.Sprintf("the member %s was found null and %s is produced in its place without the member's marks (no WithSameMarks(%s) / WithMarks around it): a marked null element or attribute comes out of the conversion unmarked, and for a set target its mark never reaches the set", x.Name(), trunc(exprStr(nv), 50), x.Name()))
					}
					return true
				})
				return true
			})
			return true
		})
	}
}

// ---------------------------------------------------------------------------

func init() {
	register(&Rule{
		ID: "C01.unbounded-side-admits-infinity", Prop: "C01", Also: []string{"C05"}, Floor: 2, Controls: 0,
		Doc: "ValueRange.NumberLowerBound and NumberUpperBound, when they answer with the package's own infinity because the range has no (known) bound on that side, say the bound is inclusive: 'no bound' excludes no number, the infinity included — an exclusive infinity makes Includes answer False for the infinity and Equals declare an unknown number different from +Inf / -Inf, which it may well be",
		Run: runUnboundedSideAdmitsInfinity,
	})
}

func runUnboundedSideAdmitsInfinity(rr *RuleRun) {
	c := rr.Ctx
	pkg := "cty"
	info := c.Info(pkg)
	for _, name := range []string{"ValueRange.NumberLowerBound", "ValueRange.NumberUpperBound"} {
		fd := rr.MustDecl(pkg, name)
		if fd == nil {
			continue
		}
		n := 0
		inspectNoLit(fd.Body, func(nd ast.Node) bool {
			ret, ok := nd.(*ast.ReturnStmt)
			if !ok || len(ret.Results) != 2 || !isPkgVar(info, ret.Results[0], "cty", "NegativeInfinity", "PositiveInfinity") {
				return true
			}
			n++
			key := fmt.Sprintf("%s.%s/return %s#%d", pkg, name, exprStr(ret.Results[0]), n)
			if tv, ok := info.Types[ret.Results[1]]; ok && tv.Value != nil && tv.Value.String() == "true" {
				rr.OK(key, ret.Pos(), "the stand-in infinity is reported as an inclusive bound")
			} else {
				rr.Violation(key, ret.Pos(), fmt.Sprintf("%s answers with %s for a side that has no bound but does not say the bound is inclusive (%s): the range then excludes the infinity itself, although nothing was ever said about it — UnknownVal(Number).RefineNotNull().Equals(%s) is False", name, exprStr(ret.Results[0]), exprStr(ret.Results[1]), exprStr(ret.Results[0])))
			}
			return true
		})
	}
}

// ---------------------------------------------------------------------------
// Round 10, from the `b` series

func init() {
	register(&Rule{
		ID: "C18.signedness-accessor-matches-kind", Prop: "C18", Floor: 2, Controls: 0,
		Doc: "in gocty a case clause that lists unsigned reflect kinds (Uint, Uint8 … Uint64) reads or writes the Go value through the unsigned accessors (Uint / SetUint / NumberUIntVal) and one that lists signed kinds through the signed ones: an unsigned value read through Int() — after a Convert to int64, say — wraps around for values of 2^63 and more, and the number that reaches cty is negative",
		Run: runSignednessAccessorMatchesKind,
	})
	register(&Rule{
		ID: "C17.type-decoder-assigns-before-success", Prop: "C17", Also: []string{"C07", "C15"}, Floor: 2, Controls: 0,
		Doc: "every successful return (nil error) of (*cty.Type).UnmarshalJSON is preceded, on some path at least, by an assignment to the receiver: a return of nil that no assignment can reach without having decoded a type into *t leaves the zero Type — NilType — in place, and when that happens for a nested type description (the element type of a list, an attribute type) the outer type is built around it and later operations dereference nil",
		Run: runTypeDecoderAssignsBeforeSuccess,
	})
	register(&Rule{
		ID: "C06.member-type-reference-adopts", Prop: "C06", Also: []string{"C17", "C15", "C16"}, Floor: 6, Controls: 0,
		Doc: "in the collection constructors and their Can…Val predicates the type every member is compared with is not fixed to the first member's type: the loop itself replaces the reference while it is still the dynamic placeholder (the first member may be a null or unknown of the dynamic type, and then later members must still agree with each other) — a reference read once from vals[0] approves [dynamic, string, number], which the constructor then panics on",
		Run: runMemberTypeReferenceAdopts,
	})
	register(&Rule{
		ID: "C09.looked-up-conversion-nil-checked", Prop: "C09", Floor: 3, Controls: 0,
		Doc: "in the unification functions a conversion looked up for an input (conversions[i] = GetConversion…(input type, result type), directly or through a helper of the package) is tested for nil before the function goes on, with an exit or a change of candidate on nil: GetConversion answers nil when no conversion exists, and a nil left in the slot means 'this input already has the result type' to the caller — an input that cannot be converted is then handed back unconverted",
		Run: runLookedUpConversionNilChecked,
	})
}

func runSignednessAccessorMatchesKind(rr *RuleRun) {
	c := rr.Ctx
	pkg := "cty/gocty"
	info := c.Info(pkg)
	unsignedKinds := map[string]bool{"Uint": true, "Uint8": true, "Uint16": true, "Uint32": true, "Uint64": true, "Uintptr": true}
	signedKinds := map[string]bool{"Int": true, "Int8": true, "Int16": true, "Int32": true, "Int64": true}
	n := 0
	for _, fd := range c.SortedDecls(pkg) {
		if fd.Body == nil {
			continue
		}
		inspectNoLit(fd.Body, func(nd ast.Node) bool {
			cc, ok := nd.(*ast.CaseClause)
			if !ok {
				return true
			}
			hasU, hasS := false, false
			for _, e := range cc.List {
				if se, ok := ast.Unparen(e).(*ast.SelectorExpr); ok {
					if k, ok := info.Uses[se.Sel].(*types.Const); ok && k.Pkg() != nil && k.Pkg().Path() == "reflect" {
						if unsignedKinds[se.Sel.Name] {
							hasU = true
						}
						if signedKinds[se.Sel.Name] {
							hasS = true
						}
					}
				}
			}
			if !hasU && !hasS {
				return true
			}
			n++
			key := fmt.Sprintf("%s.%s/case %s…#%d", pkg, declName(fd), trunc(exprStr(cc.List[0]), 20), n)
			usesS, usesU := token.NoPos, token.NoPos
			for _, st := range cc.Body {
				ast.Inspect(st, func(m ast.Node) bool {
					call, ok := m.(*ast.CallExpr)
					if !ok {
						return true
					}
					switch funcKey(callee(info, call)) {
					case "reflect.Value.Int", "reflect.Value.SetInt", "cty.NumberIntVal":
						if usesS == token.NoPos {
							usesS = call.Pos()
						}
					case "reflect.Value.Uint", "reflect.Value.SetUint", "cty.NumberUIntVal":
						if usesU == token.NoPos {
							usesU = call.Pos()
						}
					}
					return true
				})
			}
			switch {
			case hasU && usesS != token.NoPos && usesU == token.NoPos:
				rr.Violation(key, usesS, "this case lists unsigned reflect kinds but moves the value through the signed accessors (Int / SetInt / NumberIntVal): a uint64 or uint of 2^63 or more wraps around to a negative number on the way, while the opposite direction still expects the full unsigned range")
			case hasS && !hasU && usesU != token.NoPos && usesS == token.NoPos:
				rr.Violation(key, usesU, "this case lists signed reflect kinds but moves the value through the unsigned accessors (Uint / SetUint / NumberUIntVal): a negative value wraps around to a huge positive number")
			default:
				rr.OK(key, cc.Pos(), "the accessors agree with the signedness of the kinds listed (or the case delegates)")
			}
			return true
		})
	}
}

func runTypeDecoderAssignsBeforeSuccess(rr *RuleRun) {
	c := rr.Ctx
	pkg := "cty"
	info := c.Info(pkg)
	fd := rr.MustDecl(pkg, "Type.UnmarshalJSON")
	if fd == nil {
		return
	}
	recv := recvObj(info, fd)
	g := c.CFG(fd.Body, info)
	assignsRecv := func(n ast.Node) bool {
		as, ok := n.(*ast.AssignStmt)
		if !ok {
			return false
		}
		for _, l := range as.Lhs {
			if st, ok := ast.Unparen(l).(*ast.StarExpr); ok && objOf(info, st.X) == recv {
				return true
			}
		}
		return false
	}
	var assigns []ast.Node
	inspectNoLit(fd.Body, func(n ast.Node) bool {
		if assignsRecv(n) {
			assigns = append(assigns, n)
		}
		return true
	})
	n := 0
	for _, ret := range g.Returns() {
		if len(ret.Results) != 1 || !isNilIdent(info, ret.Results[0]) {
			continue
		}
		n++
		key := fmt.Sprintf("%s.Type.UnmarshalJSON/return nil#%d", pkg, n)
		// (established fact only: no assignment to *t lies on ANY path to this return. A path-insensitive
		// 'assigned on every path' would reject a nested switch over the same tag whose cases are exhaustive
		// only because of the enclosing case — a benign merge of the list / map / set arms.)
		reached := false
		for _, a := range assigns {
			if g.CanReach(a, ret) {
				reached = true
			}
		}
		if reached {
			rr.OK(key, ret.Pos(), "a type is stored in the receiver on the way to this return")
		} else {
			rr.Violation(key, ret.Pos(), "this successful return is reached without anything having been stored in *t on any path to it: the receiver keeps the zero Type (NilType), and a type description nested in a list, tuple or object is then built around NilType — decoding a value against it dereferences nil")
		}
	}
}

func runMemberTypeReferenceAdopts(rr *RuleRun) {
	c := rr.Ctx
	pkg := "cty"
	info := c.Info(pkg)
	for _, name := range []string{"ListVal", "CanListVal", "MapVal", "CanMapVal", "SetVal", "CanSetVal"} {
		fd := c.Decl(pkg, name)
		if fd == nil || fd.Body == nil {
			continue
		}
		key := pkg + "." + name + "/member-type reference"
		// the reference: a local of type cty.Type that is the receiver or argument of Equals inside a loop
		var ref types.Object
		var loop ast.Stmt
		inspectNoLit(fd.Body, func(n ast.Node) bool {
			var body *ast.BlockStmt
			switch x := n.(type) {
			case *ast.RangeStmt:
				body = x.Body
			case *ast.ForStmt:
				body = x.Body
			default:
				return true
			}
			inspectNoLit(body, func(m ast.Node) bool {
				call, ok := m.(*ast.CallExpr)
				if !ok || !isCall(info, call, "cty.Type.Equals") || ref != nil {
					return true
				}
				for _, e := range []ast.Expr{call.Fun.(*ast.SelectorExpr).X, call.Args[0]} {
					if o := objOf(info, e); o != nil && isCtyType(o.Type()) {
						if _, isVar := o.(*types.Var); isVar && o.Parent() != nil && o.Pkg() != nil && o.Parent() != o.Pkg().Scope() {
							ref, loop = o, n.(ast.Stmt)
						}
					}
				}
				return true
			})
			return true
		})
		if ref == nil {
			rr.Assumed(key, fd.Pos(), "the member-type test is delegated to a helper or written in a form this rule does not follow: no verdict")
			continue
		}
		assignedInLoop := false
		inspectNoLit(loop, func(m ast.Node) bool {
			if as, ok := m.(*ast.AssignStmt); ok {
				for _, l := range as.Lhs {
					if objOf(info, l) == ref && as.Tok == token.ASSIGN {
						assignedInLoop = true
					}
				}
			}
			return true
		})
		if assignedInLoop {
			rr.OK(key, loop.Pos(), "the reference type is replaced inside the loop (adopted from the first member that is not dynamically typed)")
			continue
		}
		// fixed before the loop: from the first member?
		_, idx, rhs := findDefine(info, fd.Body, ref)
		fromFirst := false
		if rhs != nil && idx < len(rhs) {
			ast.Inspect(rhs[idx], func(m ast.Node) bool {
				if ix, ok := m.(*ast.IndexExpr); ok {
					if v, ok := constInt(info, ix.Index); ok && v == 0 {
						fromFirst = true
					}
				}
				return true
			})
		}
		if fromFirst {
			rr.Violation(key, loop.Pos(), fmt.Sprintf("%s compares every member with %s, which is read once from the first member and never replaced: when the first member is a null or unknown of the dynamic type every later member is let through, whatever their types — [dynamic, string, number] is approved although its members disagree, and the constructor that adopts the first concrete type panics on it", name, ref.Name()))
		} else {
			rr.Assumed(key, loop.Pos(), "the reference type is fixed before the loop but not read from the first member: chosen in a way this rule does not follow; no verdict")
		}
	}
}

func runLookedUpConversionNilChecked(rr *RuleRun) {
	c := rr.Ctx
	pkg := "cty/convert"
	info := c.Info(pkg)
	for _, fd := range c.SortedDecls(pkg) {
		if fd.Body == nil || c.FileOf(fd.Pos()) != "unify.go" {
			continue
		}
		n := 0
		// statement lists, to look at what follows an assignment
		var lists [][]ast.Stmt
		inspectNoLit(fd.Body, func(nd ast.Node) bool {
			switch x := nd.(type) {
			case *ast.BlockStmt:
				lists = append(lists, x.List)
			case *ast.CaseClause:
				lists = append(lists, x.Body)
			}
			return true
		})
		isLookup := func(st ast.Stmt) (ast.Expr, bool) {
			as, ok := st.(*ast.AssignStmt)
			if !ok || len(as.Lhs) != 1 || len(as.Rhs) != 1 {
				return nil, false
			}
			if _, ok := as.Lhs[0].(*ast.IndexExpr); !ok {
				return nil, false
			}
			call, ok := as.Rhs[0].(*ast.CallExpr)
			if !ok {
				return nil, false
			}
			if t := info.TypeOf(call); t == nil || !strings.HasSuffix(namedType(t), "convert.Conversion") {
				return nil, false
			}
			f := callee(info, call)
			if f == nil || f.Pkg() == nil || shortPkg(f.Pkg()) != pkg {
				return nil, false
			}
			return as.Lhs[0], true
		}
		inPair := map[ast.Stmt]bool{}
		for _, list := range lists {
			for _, st := range list {
				if ifs, ok := st.(*ast.IfStmt); ok && ifs.Else != nil && len(ifs.Body.List) == 1 {
					if _, ok := isLookup(ifs.Body.List[0]); ok {
						if eb, ok := ifs.Else.(*ast.BlockStmt); ok && len(eb.List) == 1 {
							if _, ok := isLookup(eb.List[0]); ok {
								inPair[ifs.Body.List[0]], inPair[eb.List[0]] = true, true
							}
						}
					}
				}
			}
		}
		for _, list := range lists {
			for i, st := range list {
				if inPair[st] {
					continue
				}
				var slot ast.Expr
				var at ast.Stmt
				if s, ok := isLookup(st); ok {
					slot, at = s, st
				} else if ifs, ok := st.(*ast.IfStmt); ok && ifs.Else != nil && len(ifs.Body.List) == 1 {
					// if unsafe { slot = GetConversionUnsafe(…) } else { slot = GetConversion(…) }
					if s, ok := isLookup(ifs.Body.List[0]); ok {
						if eb, ok := ifs.Else.(*ast.BlockStmt); ok && len(eb.List) == 1 {
							if s2, ok := isLookup(eb.List[0]); ok && exprStr(s) == exprStr(s2) {
								slot, at = s, st
							}
						}
					}
				}
				if slot == nil {
					continue
				}
				n++
				key := fmt.Sprintf("%s.%s/%s = lookup#%d", pkg, declName(fd), trunc(exprStr(slot), 25), n)
				checked := false
				for _, nx := range list[i+1:] {
					ifs, ok := nx.(*ast.IfStmt)
					if !ok {
						continue
					}
					be, ok := ast.Unparen(ifs.Cond).(*ast.BinaryExpr)
					if ok && be.Op == token.EQL && isNilIdent(info, be.Y) && exprStr(be.X) == exprStr(slot) && len(ifs.Body.List) > 0 {
						switch last := ifs.Body.List[len(ifs.Body.List)-1].(type) {
						case *ast.ReturnStmt:
							checked = true
						case *ast.BranchStmt:
							if last.Tok == token.CONTINUE && last.Label != nil {
								checked = true
							}
						}
					}
					break
				}
				if checked {
					rr.OK(key, at.Pos(), "a missing conversion makes the function give up or try the next candidate")
				} else {
					rr.Violation(key, at.Pos(), fmt.Sprintf("the conversion looked up into %s is not tested for nil before the function goes on: when no conversion exists the slot stays nil, which tells the caller 'this input needs no conversion' — Unify then succeeds and hands back an input that is not of the unified type and cannot be converted to it", trunc(exprStr(slot), 30)))
				}
			}
		}
	}
}

// ---------------------------------------------------------------------------

func init() {
	register(&Rule{
		ID: "C19.path-hash-ignores-index-keys", Prop: "C19", Also: []string{"C03"}, Floor: 1, Controls: 0,
		Doc: "the hash of a path looks at an index step's key at most through its type: path equivalence decides keys with Value.Equals, under which numbers of different precision or spelling (0 and -0, 2^62 as an int and as a float64) are equal, so anything computed from the key's content — its decimal text, its Go representation — can send two equivalent paths to different buckets, and Has, Add, Remove and the set algebra then miss members",
		Run: runPathHashIgnoresIndexKeys,
	})
	register(&Rule{
		ID: "C12.helper-needs-known-argument", Prop: "C12", Also: []string{"C11", "C13"}, Floor: 1, Controls: 0,
		Doc: "a helper of the standard functions that iterates its cty.Value parameter (ElementIterator, AsValueSlice, LengthInt …) with no test of the parameter's own IsKnown() — at most a test that its length is known, which an unknown tuple or an unknown collection refined to an exact length also passes — is handed a member of another value only where that member was established known at the call (IsKnown / IsWhollyKnown decided true on the way): the recursion into a nested member that is an unknown tuple otherwise panics inside the helper",
		Run: runHelperNeedsKnownArgument,
	})
}

func runPathHashIgnoresIndexKeys(rr *RuleRun) {
	c := rr.Ctx
	pkg := "cty"
	info := c.Info(pkg)
	fd := rr.MustDecl(pkg, "pathSetRules.Hash")
	if fd == nil {
		return
	}
	key := pkg + ".pathSetRules.Hash/index keys"
	var bad ast.Node
	ast.Inspect(fd.Body, func(n ast.Node) bool {
		se, ok := n.(*ast.SelectorExpr)
		if !ok || se.Sel.Name != "Key" || bad != nil {
			return true
		}
		if t := info.TypeOf(se.X); t == nil || namedTypeNoPtr(t) != "cty.IndexStep" {
			return true
		}
		// allowed: step.Key.Type()
		if p, ok := c.Parent(se).(*ast.SelectorExpr); ok && p.Sel.Name == "Type" {
			return true
		}
		bad = se
		return true
	})
	if bad == nil {
		rr.OK(key, fd.Pos(), "the hash does not depend on the content of index keys")
	} else {
		rr.Violation(key, bad.Pos(), "the hash of a path is computed from the content of an index step's key: keys are compared with Value.Equals, which calls numbers equal across precisions and spellings, so two equivalent paths can land in different buckets and the path set stops finding its own members")
	}
}

func runHelperNeedsKnownArgument(rr *RuleRun) {
	c := rr.Ctx
	pkg := "cty/function/stdlib"
	info := c.Info(pkg)
	// helpers whose Value parameter is iterated without an IsKnown test of its own
	type helper struct {
		fd  *ast.FuncDecl
		idx int
	}
	var helpers []helper
	for _, fd := range c.SortedDecls(pkg) {
		if fd.Body == nil || fd.Recv != nil {
			continue
		}
		pi := 0
		for _, f := range fd.Type.Params.List {
			for _, nm := range f.Names {
				p := info.Defs[nm]
				if p != nil && isCtyValue(p.Type()) {
					// the parameter, or its shallowly unmarked rebinding of the same name
					same := func(o types.Object) bool { return o != nil && (o == p || (o.Name() == p.Name() && isCtyValue(o.Type()))) }
					iterates, testsKnown := false, false
					inspectNoLit(fd.Body, func(m ast.Node) bool {
						call, ok := m.(*ast.CallExpr)
						if !ok {
							return true
						}
						se, ok := call.Fun.(*ast.SelectorExpr)
						if !ok || !same(objOf(info, se.X)) {
							return true
						}
						k := funcKey(callee(info, call))
						if req, ok := valueREQ[k]; ok && req.Known && k != "cty.Value.True" && k != "cty.Value.False" {
							iterates = true
						}
						if k == "cty.Value.IsKnown" || k == "cty.Value.IsWhollyKnown" {
							testsKnown = true
						}
						return true
					})
					if iterates && !testsKnown {
						helpers = append(helpers, helper{fd, pi})
					}
				}
				pi++
			}
		}
	}
	n := 0
	for _, h := range helpers {
		eachFuncBody(c, []string{pkg}, func(_ string, cfd *ast.FuncDecl, body *ast.BlockStmt) {
			if body == nil {
				return
			}
			var cf *CondFacts
			inspectNoLit(body, func(m ast.Node) bool {
				call, ok := m.(*ast.CallExpr)
				if !ok || funcDeclKey2(info, call) != declName(h.fd) || h.idx >= len(call.Args) {
					return true
				}
				arg := objOf(info, call.Args[h.idx])
				if arg == nil {
					return true
				}
				// only members taken out of another value: defined from an iterator's Element() or a range over AsValueSlice
				isMember := false
				if _, _, rhs := findDefine(info, body, arg); rhs != nil && len(rhs) == 1 {
					if cl, ok := ast.Unparen(rhs[0]).(*ast.CallExpr); ok && isCall(info, cl, "cty.ElementIterator.Element") {
						isMember = true
					}
				}
				inspectNoLit(body, func(q ast.Node) bool {
					if rs, ok := q.(*ast.RangeStmt); ok && rs.Value != nil && objOf(info, rs.Value) == arg {
						isMember = true
					}
					return true
				})
				if !isMember {
					return true
				}
				n++
				key := fmt.Sprintf("%s.%s/%s(%s)#%d", pkg, declName(cfd), declName(h.fd), arg.Name(), n)
				if cf == nil {
					cf = c.CondFacts(body, info, nil)
				}
				known := cf.HoldsAt(call, func(cond ast.Expr, truth bool) bool {
					return truth && methodCond(info, cond, arg, "IsKnown", "IsWhollyKnown")
				})
				if known {
					rr.OK(key, call.Pos(), "the member was established known before it is handed to the helper")
				} else {
					rr.Violation(key, call.Pos(), fmt.Sprintf("%s is a member taken out of another value and is handed to %s, which iterates its argument without testing IsKnown() itself, on a path where %s.IsKnown() was not established: an unknown tuple member (its length is known from its type) or an unknown collection refined to an exact length passes the helper's length test and panics in the iteration — a call that succeeds for the concrete value fails for the unknown one", arg.Name(), declName(h.fd), arg.Name()))
				}
				return true
			})
		})
	}
}

// ---------------------------------------------------------------------------

func init() {
	register(&Rule{
		ID: "C02.hasindex-null-key-is-absent", Prop: "C02", Also: []string{"C01"}, Floor: 1, Controls: 0,
		Doc: "Value.HasIndex, which promises not to panic because of its key, looks into the key's payload (key.v.(T), AsString, AsBigFloat) only where key.IsNull() was decided false: a null key has the right type and is known, so it passes the type and known tests and the payload assertion panics on the nil payload — HasIndex must answer False where Index would reject the key",
		Run: runHasIndexNullKey,
	})
}

func runHasIndexNullKey(rr *RuleRun) {
	c := rr.Ctx
	pkg := "cty"
	info := c.Info(pkg)
	fd := rr.MustDecl(pkg, "Value.HasIndex")
	if fd == nil {
		return
	}
	keyObj := info.Defs[paramIdent(fd, 0)]
	cf := c.CondFacts(fd.Body, info, nil)
	n := 0
	check := func(at ast.Node, what string) {
		n++
		k := fmt.Sprintf("%s.Value.HasIndex/%s#%d", pkg, what, n)
		if cf.HoldsAt(at, func(cond ast.Expr, truth bool) bool { return !truth && methodCond(info, cond, keyObj, "IsNull") }) {
			rr.OK(k, at.Pos(), "reached only for a key that is not null")
		} else {
			rr.Violation(k, at.Pos(), fmt.Sprintf("the key's payload is examined (%s) on a path where key.IsNull() was not decided false: a null key of the right type is known and passes the tests above, its payload is nil, and this panics — HasIndex promises not to panic because of its key", what))
		}
	}
	inspectNoLit(fd.Body, func(nd ast.Node) bool {
		switch x := nd.(type) {
		case *ast.TypeAssertExpr:
			if se, ok := ast.Unparen(x.X).(*ast.SelectorExpr); ok && se.Sel.Name == "v" && objOf(info, se.X) != nil && objOf(info, se.X).Name() == keyObj.Name() && x.Type != nil {
				// not inside the mark prologue (the rebinding there is followed by the re-invocation only)
				check(x, "key.v.("+exprStr(x.Type)+")")
			}
		case *ast.CallExpr:
			if methodCond(info, x, keyObj, "AsString", "AsBigFloat") {
				check(x, "key."+x.Fun.(*ast.SelectorExpr).Sel.Name+"()")
			}
		}
		return true
	})
}

// ---------------------------------------------------------------------------

func init() {
	register(&Rule{
		ID: "C20.no-shallow-big-copy-into-value", Prop: "C20", Also: []string{"C18"}, Floor: 10, Controls: 0,
		Doc: "a math/big number that reaches cty.NumberVal was not obtained by copying a big.Float / big.Int BY VALUE (a type assertion to the struct type, or *p): such a copy duplicates the header only and shares the mantissa with the original, so the number inside the cty.Value changes when the caller later mutates its own big.Float — take the pointer's target through new(big.Float).Copy(…) / Set(…) instead",
		Run: runNoShallowBigCopy,
	})
}

func runNoShallowBigCopy(rr *RuleRun) {
	c := rr.Ctx
	isBigStruct := func(t types.Type) bool {
		if t == nil {
			return false
		}
		if _, isPtr := t.(*types.Pointer); isPtr {
			return false
		}
		n := namedType(t)
		return n == "math/big.Float" || n == "math/big.Int" || n == "math/big.Rat"
	}
	n := 0
	eachFuncBody(c, allPkgs, func(pkg string, fd *ast.FuncDecl, body *ast.BlockStmt) {
		if body == nil {
			return
		}
		info := c.Info(pkg)
		inspectNoLit(body, func(nd ast.Node) bool {
			call, ok := nd.(*ast.CallExpr)
			if !ok || !isCall(info, call, "cty.NumberVal") || len(call.Args) != 1 {
				return true
			}
			u, ok := ast.Unparen(call.Args[0]).(*ast.UnaryExpr)
			if !ok || u.Op != token.AND {
				n++
				rr.OKTrivial(fmt.Sprintf("%s.%s/NumberVal(%s)#%d", pkg, declName(fd), trunc(exprStr(call.Args[0]), 30), n), call.Pos(), "not the address of a local big number")
				return true
			}
			x := objOf(info, u.X)
			if x == nil || !isBigStruct(x.Type()) {
				return true
			}
			n++
			key := fmt.Sprintf("%s.%s/NumberVal(&%s)#%d", pkg, declName(fd), x.Name(), n)
			_, idx, rhs := findDefine(info, body, x)
			shallow := ""
			if rhs != nil && idx < len(rhs) {
				switch r := ast.Unparen(rhs[idx]).(type) {
				case *ast.TypeAssertExpr:
					if r.Type != nil && isBigStruct(info.TypeOf(r.Type)) {
						shallow = "a type assertion to " + exprStr(r.Type)
					}
				case *ast.StarExpr:
					shallow = "a dereference (" + exprStr(r) + ")"
				}
			}
			if shallow == "" {
				rr.OK(key, call.Pos(), "the number handed to NumberVal is not a by-value copy of another big number")
			} else {
				rr.Violation(key, call.Pos(), fmt.Sprintf("%s was made by %s, which copies the big number's header and shares its mantissa with the original, and its address is handed to cty.NumberVal: the cty.Value built here changes when the caller later writes to its own big.Float (f.SetFloat64(2.5) after ToCtyValue(f) turns the value 1.5 into 1.25)", x.Name(), shallow))
			}
			return true
		})
	})
}

// ---------------------------------------------------------------------------

func init() {
	register(&Rule{
		ID: "C12.set-members-to-sequence-needs-wholly-known", Prop: "C12", Also: []string{"C11", "C13"}, Floor: 1, Controls: 0,
		Doc: "a standard function whose Type callback accepts a set for an argument and whose Impl callback lays the members of that argument out as a sequence (AsValueSlice / ElementIterator feeding ListVal or TupleVal) first establishes that the argument is wholly known: a set holding unknown members may coalesce once they are known, so the number of members stored is only an upper bound of its length, and a known list built from them claims a definite length — and definite positions — that the concrete result need not have",
		Run: runSetMembersToSequence,
	})
}

func runSetMembersToSequence(rr *RuleRun) {
	c := rr.Ctx
	pkg := "cty/function/stdlib"
	info := c.Info(pkg)
	n := 0
	for _, sp := range findSpecs(c, pkg) {
		tcb, ok1 := ast.Unparen(sp.TypeCB).(*ast.FuncLit)
		icb, ok2 := ast.Unparen(sp.ImplCB).(*ast.FuncLit)
		if !ok1 || !ok2 {
			continue
		}
		// does the Type callback accept a set? a case / condition with IsSetType() whose branch returns a nil error
		acceptsSet := false
		inspectNoLit(tcb.Body, func(m ast.Node) bool {
			cc, ok := m.(*ast.CaseClause)
			if !ok {
				return true
			}
			has := false
			for _, e := range cc.List {
				ast.Inspect(e, func(q ast.Node) bool {
					if call, ok := q.(*ast.CallExpr); ok {
						if se, ok := call.Fun.(*ast.SelectorExpr); ok && se.Sel.Name == "IsSetType" && isCtyType(info.TypeOf(se.X)) {
							has = true
						}
					}
					return true
				})
			}
			if !has {
				return true
			}
			for _, st := range cc.Body {
				if r, ok := st.(*ast.ReturnStmt); ok && len(r.Results) == 2 && isNilIdent(info, r.Results[1]) {
					acceptsSet = true
				}
			}
			return true
		})
		if !acceptsSet || len(icb.Type.Params.List) == 0 || len(icb.Type.Params.List[0].Names) == 0 {
			continue
		}
		argsObj := info.Defs[icb.Type.Params.List[0].Names[0]]
		// subjects: args[i] and its unmarked rebinding
		subj := map[types.Object]bool{}
		inspectNoLit(icb.Body, func(m ast.Node) bool {
			as, ok := m.(*ast.AssignStmt)
			if !ok || len(as.Rhs) != 1 {
				return true
			}
			src := ast.Unparen(as.Rhs[0])
			if call, ok := src.(*ast.CallExpr); ok && isCall(info, call, "cty.Value.Unmark", "cty.Value.UnmarkDeep") {
				src = ast.Unparen(call.Fun.(*ast.SelectorExpr).X)
			}
			if ix, ok := src.(*ast.IndexExpr); ok && objOf(info, ix.X) == argsObj {
				if o := objOf(info, as.Lhs[0]); o != nil {
					subj[o] = true
				}
			}
			return true
		})
		buildsSeq := false
		inspectNoLit(icb.Body, func(m ast.Node) bool {
			if call, ok := m.(*ast.CallExpr); ok && isCall(info, call, "cty.ListVal", "cty.TupleVal") {
				buildsSeq = true
			}
			return true
		})
		if !buildsSeq {
			continue
		}
		cf := c.CondFacts(icb.Body, info, nil)
		inspectNoLit(icb.Body, func(m ast.Node) bool {
			call, ok := m.(*ast.CallExpr)
			if !ok || !isCall(info, call, "cty.Value.AsValueSlice", "cty.Value.ElementIterator", "cty.Value.LengthInt") {
				return true
			}
			x := ast.Unparen(call.Fun.(*ast.SelectorExpr).X)
			o := objOf(info, x)
			isArg := o != nil && subj[o]
			if ix, ok := x.(*ast.IndexExpr); ok && objOf(info, ix.X) == argsObj {
				isArg = true
			}
			if !isArg {
				return true
			}
			n++
			key := fmt.Sprintf("%s.%s.Impl/%s(%s)#%d", pkg, sp.Name, call.Fun.(*ast.SelectorExpr).Sel.Name, trunc(exprStr(x), 20), n)
			wholly := cf.HoldsAt(call, func(cond ast.Expr, truth bool) bool {
				cl, ok := ast.Unparen(cond).(*ast.CallExpr)
				if !ok || !truth {
					return false
				}
				se, ok := cl.Fun.(*ast.SelectorExpr)
				return ok && se.Sel.Name == "IsWhollyKnown" && isCtyValue(info.TypeOf(se.X))
			})
			notSet := cf.HoldsAt(call, func(cond ast.Expr, truth bool) bool {
				cl, ok := ast.Unparen(cond).(*ast.CallExpr)
				if !ok || truth {
					return false
				}
				se, ok := cl.Fun.(*ast.SelectorExpr)
				return ok && se.Sel.Name == "IsSetType"
			})
			// an earlier top-level exit taken for 'a set that is not wholly known'
			guarded := false
			for _, st := range icb.Body.List {
				ifs, ok := st.(*ast.IfStmt)
				if !ok || ifs.Pos() > call.Pos() || len(ifs.Body.List) == 0 {
					continue
				}
				if _, isRet := ifs.Body.List[len(ifs.Body.List)-1].(*ast.ReturnStmt); !isRet {
					continue
				}
				setT, notWK := false, false
				for _, term := range splitAnd(ifs.Cond) {
					t := ast.Unparen(term)
					if cl, ok := t.(*ast.CallExpr); ok {
						if se, ok := cl.Fun.(*ast.SelectorExpr); ok && se.Sel.Name == "IsSetType" {
							setT = true
						}
					}
					if u, ok := t.(*ast.UnaryExpr); ok && u.Op == token.NOT {
						if cl, ok := ast.Unparen(u.X).(*ast.CallExpr); ok {
							if se, ok := cl.Fun.(*ast.SelectorExpr); ok && se.Sel.Name == "IsWhollyKnown" {
								notWK = true
							}
						}
					}
				}
				if notWK && (setT || len(splitAnd(ifs.Cond)) == 1) {
					guarded = true
				}
			}
			switch {
			case wholly || guarded:
				rr.OK(key, call.Pos(), "the argument was established wholly known (a set that is not wholly known took an earlier exit)")
			case notSet:
				rr.OK(key, call.Pos(), "reached only for an argument that is not a set")
			default:
				rr.Violation(key, call.Pos(), fmt.Sprintf("%s accepts a set for this argument and lays its stored members out as a list / tuple here without having established that the argument is wholly known (or is not a set): a set with unknown members may shrink when they become known, so the known sequence returned has a definite length the concrete result need not have", sp.Name))
			}
			return true
		})
	}
}

// ---------------------------------------------------------------------------

func init() {
	register(&Rule{
		ID: "C16.refinement-blob-within-decoder-limit", Prop: "C16", Floor: 1, Controls: 0,
		Doc: "the MessagePack encoder writes the refinements of an unknown value as an extension body only after comparing the body's size with a constant no larger than the limit above which the decoder rejects such a body ('oversize unknown value refinement'): the prefix is truncated for this reason, but a numeric bound is written as decimal text of any length — Marshal succeeds and Unmarshal then refuses Marshal's own output; dropping the refinements (a wider range) is always allowed, failing the round trip is not",
		Run: runRefinementBlobWithinLimit,
	})
}

func runRefinementBlobWithinLimit(rr *RuleRun) {
	c := rr.Ctx
	pkg := "cty/msgpack"
	info := c.Info(pkg)
	enc := rr.MustDecl(pkg, "marshalUnknownValue")
	dec := rr.MustDecl(pkg, "unmarshalUnknownValue")
	if enc == nil || dec == nil {
		return
	}
	// the decoder's limit: if extLen > K { return … error }
	limit := int64(-1)
	inspectNoLit(dec.Body, func(n ast.Node) bool {
		ifs, ok := n.(*ast.IfStmt)
		if !ok || len(ifs.Body.List) == 0 {
			return true
		}
		be, ok := ast.Unparen(ifs.Cond).(*ast.BinaryExpr)
		if !ok || be.Op != token.GTR {
			return true
		}
		k, isConst := constInt(info, be.Y)
		if !isConst || k < 16 {
			return true
		}
		if _, isRet := ifs.Body.List[len(ifs.Body.List)-1].(*ast.ReturnStmt); isRet && k > limit {
			limit = k
		}
		return true
	})
	key := pkg + ".marshalUnknownValue/EncodeExtHeader size"
	if limit < 0 {
		rr.Assumed(key, dec.Pos(), "the decoder has no size limit of the form `if extLen > K { return error }`: nothing to agree with")
		return
	}
	var hdr *ast.CallExpr
	inspectNoLit(enc.Body, func(n ast.Node) bool {
		if call, ok := n.(*ast.CallExpr); ok && len(call.Args) == 2 {
			if f := callee(info, call); f != nil && f.Name() == "EncodeExtHeader" {
				hdr = call
			}
		}
		return true
	})
	if hdr == nil {
		rr.Assumed(key, enc.Pos(), "the encoder does not call EncodeExtHeader: written in a form this rule does not follow")
		return
	}
	cf := c.CondFacts(enc.Body, info, nil)
	sizeStr := exprStr(ast.Unparen(hdr.Args[1]))
	sizeObj := objOf(info, hdr.Args[1])
	isSize := func(e ast.Expr) bool {
		e = ast.Unparen(e)
		if sizeObj != nil && objOf(info, e) == sizeObj {
			return true
		}
		if exprStr(e) == sizeStr {
			return true
		}
		// the local the size was computed into
		if sizeObj != nil {
			return false
		}
		return false
	}
	bounded := cf.HoldsAt(hdr, func(cond ast.Expr, truth bool) bool {
		be, ok := ast.Unparen(cond).(*ast.BinaryExpr)
		if !ok {
			return false
		}
		if k, isConst := constInt(info, be.Y); isConst && isSize(be.X) && k <= limit {
			return (be.Op == token.GTR && !truth) || (be.Op == token.LEQ && truth) || (be.Op == token.GEQ && !truth && k <= limit) || (be.Op == token.LSS && truth)
		}
		return false
	})
	if bounded {
		rr.OK(key, hdr.Pos(), fmt.Sprintf("the body size was compared with a constant within the decoder's limit of %d bytes", limit))
	} else {
		rr.Violation(key, hdr.Pos(), fmt.Sprintf("the refinement body is written with whatever size it has (%s), while the decoder rejects a body of more than %d bytes: a numeric bound with a long decimal expansion (1e1100) makes Marshal produce something Unmarshal refuses — compare the size with the limit first and fall back to the unrefined encoding", sizeStr, limit))
	}
}

// ---------------------------------------------------------------------------

func init() {
	register(&Rule{
		ID: "C19.path-key-comparison-sees-through-marks", Prop: "C19", Floor: 1, Controls: 0,
		Doc: "where path steps are compared, the cty.Value answer of Key.Equals(Key) is stripped of marks (Unmark) before True() / False() reads it: the keys of index steps are arbitrary values and may be marked, the answer then carries their marks, and True() / False() panic on a marked value — IndexStep.Apply already unmarks the answer of HasIndex for the same reason; a path set must not panic on a path it was handed by UnmarkDeepWithPaths-style code",
		Run: runPathKeyComparisonMarks,
	})
}

func runPathKeyComparisonMarks(rr *RuleRun) {
	c := rr.Ctx
	pkg := "cty"
	info := c.Info(pkg)
	isStepKey := func(e ast.Expr) bool {
		se, ok := ast.Unparen(e).(*ast.SelectorExpr)
		return ok && se.Sel.Name == "Key" && namedTypeNoPtr(info.TypeOf(se.X)) == "cty.IndexStep"
	}
	n := 0
	for _, fd := range c.SortedDecls(pkg) {
		if fd.Body == nil {
			continue
		}
		inspectNoLit(fd.Body, func(nd ast.Node) bool {
			as, ok := nd.(*ast.AssignStmt)
			if !ok || len(as.Rhs) != 1 {
				return true
			}
			rhs := ast.Unparen(as.Rhs[0])
			unmarked := false
			if call, ok := rhs.(*ast.CallExpr); ok && isCall(info, call, "cty.Value.Unmark", "cty.Value.UnmarkDeep") {
				unmarked = true
				rhs = ast.Unparen(call.Fun.(*ast.SelectorExpr).X)
			}
			call, ok := rhs.(*ast.CallExpr)
			if !ok || !isCall(info, call, "cty.Value.Equals", "cty.Value.RawEquals") || len(call.Args) != 1 {
				return true
			}
			if !isStepKey(call.Fun.(*ast.SelectorExpr).X) && !isStepKey(call.Args[0]) {
				return true
			}
			if isCall(info, call, "cty.Value.RawEquals") {
				return true // a Go bool
			}
			eq := objOf(info, as.Lhs[0])
			if eq == nil {
				return true
			}
			n++
			key := fmt.Sprintf("%s.%s/%s#%d", pkg, declName(fd), trunc(exprStr(call), 40), n)
			// is the answer read with True() / False()?
			reads := false
			inspectNoLit(fd.Body, func(m ast.Node) bool {
				if cl, ok := m.(*ast.CallExpr); ok && methodCond(info, cl, eq, "True", "False") {
					reads = true
				}
				return true
			})
			switch {
			case !reads:
				rr.OK(key, as.Pos(), "the answer is not read with True() / False()")
			case unmarked:
				rr.OK(key, as.Pos(), "the answer is unmarked before it is read")
			default:
				rr.Violation(key, as.Pos(), fmt.Sprintf("%s is the answer of comparing two index-step keys, which may be marked, and it is read with True() / False() without having been unmarked: for a path whose key carries a mark the comparison panics ('value is marked, so must be unmarked first'), so the path set cannot hold such a path", eq.Name()))
			}
			return true
		})
	}
}

// ---------------------------------------------------------------------------

func init() {
	register(&Rule{
		ID: "C02.no-machine-arithmetic-on-narrowed-numbers", Prop: "C02", Also: []string{"C03", "C14", "C13"}, Floor: 0, Controls: 1,
		Doc: "no number value is built (NumberIntVal / NumberUIntVal / NumberFloatVal) from Go machine arithmetic (+ - * / and unary minus) on integers that were narrowed out of big.Float operands: every such operator can overflow or wrap for operands that are individually exact (MinInt64 / -1, MaxInt64 + 1, 2^32 * 2^32), and the wrapped machine result is then presented as the exact arbitrary-precision answer — the big.Float operation it replaces cannot overflow",
		Run: runNoMachineArithmeticOnNarrowed,
	})
	register(&Rule{
		ID: "C11.csv-readers-configured-alike", Prop: "C11", Also: []string{"C14", "C12"}, Floor: 1, Controls: 0,
		Doc: "the Type callback and the Impl callback of csvdecode configure the lexing options of their csv.Reader identically (Comma, Comment, LazyQuotes, TrimLeadingSpace are set on both sides or on neither, to the same expressions): the type is predicted from the header as the Type callback's reader parses it and the rows are built from the header as the Impl callback's reader parses it, so a reader option set on one side only (TrimLeadingSpace, Comma, LazyQuotes) makes the attribute names disagree and the result fail its own conformance check",
		Run: runCSVReadersAlike,
	})
}

func runNoMachineArithmeticOnNarrowed(rr *RuleRun) {
	c := rr.Ctx
	n := 0
	eachFuncBody(c, []string{"cty", "cty/function/stdlib", "cty/convert"}, func(pkg string, fd *ast.FuncDecl, body *ast.BlockStmt) {
		if body == nil {
			return
		}
		info := c.Info(pkg)
		// integers narrowed out of a big.Float / big.Int in this body
		narrowed := map[types.Object]bool{}
		inspectNoLit(body, func(nd ast.Node) bool {
			as, ok := nd.(*ast.AssignStmt)
			if !ok || len(as.Rhs) != 1 {
				return true
			}
			call, ok := ast.Unparen(as.Rhs[0]).(*ast.CallExpr)
			if !ok || !isCall(info, call, "math/big.Float.Int64", "math/big.Float.Uint64", "math/big.Int.Int64", "math/big.Int.Uint64") {
				return true
			}
			if o := objOf(info, as.Lhs[0]); o != nil {
				narrowed[o] = true
			}
			return true
		})
		if len(narrowed) == 0 {
			return
		}
		var usesNarrowed func(e ast.Expr) (arith bool, any bool)
		usesNarrowed = func(e ast.Expr) (bool, bool) {
			switch x := ast.Unparen(e).(type) {
			case *ast.Ident:
				return false, narrowed[objOf(info, x)]
			case *ast.BinaryExpr:
				switch x.Op {
				case token.ADD, token.SUB, token.MUL, token.QUO:
					_, a := usesNarrowed(x.X)
					_, b := usesNarrowed(x.Y)
					return a || b, a || b
				}
			case *ast.UnaryExpr:
				if x.Op == token.SUB {
					_, a := usesNarrowed(x.X)
					return a, a
				}
			case *ast.CallExpr:
				// a conversion int64(x)
				if tv, ok := info.Types[x.Fun]; ok && tv.IsType() && len(x.Args) == 1 {
					return usesNarrowed(x.Args[0])
				}
			}
			return false, false
		}
		inspectNoLit(body, func(nd ast.Node) bool {
			call, ok := nd.(*ast.CallExpr)
			if !ok || !isCall(info, call, "cty.NumberIntVal", "cty.NumberUIntVal", "cty.NumberFloatVal") || len(call.Args) != 1 {
				return true
			}
			arith, any := usesNarrowed(call.Args[0])
			if !any {
				return true
			}
			n++
			key := fmt.Sprintf("%s.%s/%s#%d", pkg, declName(fd), trunc(exprStr(call), 40), n)
			if arith {
				rr.Violation(key, call.Pos(), fmt.Sprintf("%s builds a number from Go machine arithmetic on integers narrowed out of big.Float operands: the operands may each be exact and the operator still overflows or wraps (MinInt64 / -1, MaxInt64 + 1), and the wrapped result is returned as if it were the exact answer", trunc(exprStr(call), 50)))
			} else {
				rr.OK(key, call.Pos(), "the narrowed integer is passed on unchanged")
			}
			return true
		})
	})
}

func runCSVReadersAlike(rr *RuleRun) {
	c := rr.Ctx
	pkg := "cty/function/stdlib"
	info := c.Info(pkg)
	for _, sp := range findSpecs(c, pkg) {
		tcb, ok1 := ast.Unparen(sp.TypeCB).(*ast.FuncLit)
		icb, ok2 := ast.Unparen(sp.ImplCB).(*ast.FuncLit)
		if !ok1 || !ok2 {
			continue
		}
		config := func(body *ast.BlockStmt) (map[string]string, bool) {
			readers := map[types.Object]bool{}
			inspectNoLit(body, func(n ast.Node) bool {
				as, ok := n.(*ast.AssignStmt)
				if !ok || len(as.Rhs) != 1 || len(as.Lhs) != 1 {
					return true
				}
				if call, ok := as.Rhs[0].(*ast.CallExpr); ok && isCall(info, call, "encoding/csv.NewReader") {
					if o := objOf(info, as.Lhs[0]); o != nil {
						readers[o] = true
					}
				}
				return true
			})
			if len(readers) == 0 {
				return nil, false
			}
			out := map[string]string{}
			inspectNoLit(body, func(n ast.Node) bool {
				as, ok := n.(*ast.AssignStmt)
				if !ok {
					return true
				}
				for i, l := range as.Lhs {
					if se, ok := l.(*ast.SelectorExpr); ok && readers[objOf(info, se.X)] && i < len(as.Rhs) {
						// only the options that decide how the text of a field is read (FieldsPerRecord, which the
						// Impl callback sets from the predicted type, validates row lengths and leaves the names alone)
						switch se.Sel.Name {
						case "Comma", "Comment", "LazyQuotes", "TrimLeadingSpace":
							out[se.Sel.Name] = exprStr(as.Rhs[i])
						}
					}
				}
				return true
			})
			return out, true
		}
		ct, ok1 := config(tcb.Body)
		ci, ok2 := config(icb.Body)
		if !ok1 || !ok2 {
			continue
		}
		key := fmt.Sprintf("%s.%s/csv.Reader configuration", pkg, sp.Name)
		var diffs []string
		for f, v := range ct {
			if ci[f] != v {
				diffs = append(diffs, fmt.Sprintf("%s = %s in Type but %q in Impl", f, v, ci[f]))
			}
		}
		for f, v := range ci {
			if _, ok := ct[f]; !ok {
				diffs = append(diffs, fmt.Sprintf("%s = %s in Impl only", f, v))
			}
		}
		sortStrings(diffs)
		if len(diffs) == 0 {
			rr.OK(key, sp.Lit.Pos(), "both callbacks set the same reader options")
		} else {
			rr.Violation(key, icb.Pos(), fmt.Sprintf("the two callbacks of %s parse the same document with differently configured csv readers (%s): the attribute names predicted from the header and the ones the rows are built with then disagree for some documents, and the result fails its own conformance check", sp.Name, strings.Join(diffs, "; ")))
		}
	}
}
