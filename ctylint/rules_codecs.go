package main

import (
	"fmt"
	"go/ast"
	"go/constant"
	"go/token"
	"go/types"
	"math/big"
	"sort"
	"strings"
)

func init() {
	register(&Rule{
		ID: "C15.dynamic-first", Prop: "C15", Floor: 1, Controls: 0,
		Doc: "in the JSON encoder the test for a dynamic type constraint (which wraps / unwraps the value together with its type) comes before the null shortcut: a typed null in a dynamic position keeps its type",
		Run: func(rr *RuleRun) { runDynamicFirst(rr, "C15", "cty/json") },
	})
	register(&Rule{
		ID: "C16.dynamic-first", Prop: "C16", Floor: 2, Controls: 0,
		Doc: "in the MessagePack encoder the test for a dynamic type constraint comes before the null shortcut and before the unknown-value branch: typed nulls and typed unknowns in a dynamic position keep their type",
		Run: func(rr *RuleRun) { runDynamicFirst(rr, "C16", "cty/msgpack") },
	})
	register(&Rule{
		ID: "C16.reject-first", Prop: "C16", Also: []string{"C15"}, Floor: 2, Controls: 0,
		Doc: "both encoders start by rejecting marked values with an error, and the JSON encoder rejects unknown values before any payload accessor",
		Run: runRejectFirst,
	})
	register(&Rule{
		ID: "C16.narrowing-exact", Prop: "C16", Also: []string{"C18", "C02", "C03", "C13", "C14", "C15"}, Floor: 8, Controls: 1,
		Doc: "a value obtained by narrowing a big.Float (Int64 / Uint64 / Float64 / Float32) is used only where the accuracy returned by the same call was compared with big.Exact on the way (an encoder that writes, or a bridge that stores, an inexact narrowing changes the number silently); a narrowing whose accuracy is discarded must not reach an encoder, a reflect setter or a number constructor",
		Run: runNarrowingExact,
	})
	register(&Rule{
		ID: "C16.refinement-keys", Prop: "C16", Floor: 6, Controls: 0,
		Doc: "every refinement key constant of the MessagePack unknown-value extension is written by the encoder and accepted by a case of the decoder; the dynamic wrapper is written with the array length the decoder requires",
		Run: runRefinementKeys,
	})
	register(&Rule{
		ID: "C18.width-table", Prop: "C18", Floor: 2, Controls: 0,
		Doc: "the per-width bounds used when decoding a number into a Go integer are exactly -2^(N-1), 2^(N-1)-1 (signed) and 2^N-1 (unsigned) for N = 8, 16, 32, 64, with a panicking residual",
		Run: runWidthTable,
	})
	register(&Rule{
		ID: "C18.range-test-before-set", Prop: "C18", Floor: 3, Controls: 0,
		Doc: "every reflect SetInt / SetUint is dominated by the exactness test and by comparisons of the narrowed value with the width's bounds; SetFloat is dominated, on the inexact path, by an infinity test that exits, conditioned on nothing but inexactness, and by a range test for float32 targets",
		Run: runRangeBeforeSet,
	})
	register(&Rule{
		ID: "C18.unknown-null-first", Prop: "C18", Floor: 1, Controls: 0,
		Doc: "fromCtyValue rejects unknown values before dispatching on the kind of the value (no per-kind decoder runs on an unknown value)",
		Run: runUnknownNullFirst,
	})
}

// ---------------------------------------------------------------------------
// dynamic-first

func topLevelIfs(body *ast.BlockStmt) []*ast.IfStmt {
	var out []*ast.IfStmt
	for _, st := range body.List {
		if ifs, ok := st.(*ast.IfStmt); ok {
			out = append(out, ifs)
		}
	}
	return out
}

func mentionsDynamicTest(info *types.Info, cond ast.Expr, tparam types.Object) bool {
	found := false
	ast.Inspect(cond, func(n ast.Node) bool {
		be, ok := n.(*ast.BinaryExpr)
		if !ok || be.Op != token.EQL {
			return true
		}
		if (objOf(info, be.X) == tparam && kindOfTypeExpr(info, be.Y) == "Dynamic") || (objOf(info, be.Y) == tparam && kindOfTypeExpr(info, be.X) == "Dynamic") {
			found = true
		}
		return true
	})
	return found
}

func runDynamicFirst(rr *RuleRun, prop, pkg string) {
	c := rr.Ctx
	info := c.Info(pkg)
	// encoders only: a decoder may accept a bare null first, since the encoder writes one only for a null of the dynamic type itself
	for _, name := range []string{"marshal"} {
		fd := rr.MustDecl(pkg, name)
		if fd == nil {
			continue
		}
		fn := info.Defs[fd.Name].(*types.Func)
		sig := fn.Type().(*types.Signature)
		var tparam, vparam types.Object
		for i := 0; i < sig.Params().Len(); i++ {
			if isCtyType(sig.Params().At(i).Type()) {
				tparam = info.Defs[paramIdent(fd, i)]
			}
			if isCtyValue(sig.Params().At(i).Type()) {
				vparam = info.Defs[paramIdent(fd, i)]
			}
		}
		key := pkg + "." + name
		if tparam == nil {
			rr.Broken("stale anchor: " + key + " has no cty.Type parameter")
			continue
		}
		var dyn, null, unk *ast.IfStmt
		for _, ifs := range topLevelIfs(fd.Body) {
			if dyn == nil && mentionsDynamicTest(info, ifs.Cond, tparam) {
				dyn = ifs
				continue
			}
			// null shortcut: encoder tests val.IsNull(); decoder returns NullVal(T)
			isNull := false
			if call, ok := ast.Unparen(ifs.Cond).(*ast.CallExpr); ok && isCall(info, call, "cty.Value.IsNull") && vparam != nil {
				if se, ok := call.Fun.(*ast.SelectorExpr); ok && objOf(info, se.X) == vparam {
					isNull = true
				}
			}
			ast.Inspect(ifs.Body, func(n ast.Node) bool {
				if call, ok := n.(*ast.CallExpr); ok && isCall(info, call, "cty.NullVal") && len(call.Args) == 1 && objOf(info, call.Args[0]) == tparam {
					isNull = true
				}
				return true
			})
			if isNull && null == nil {
				null = ifs
			}
			// unknown branch of the msgpack encoder: !val.IsKnown() with a body that encodes (does not merely return an error)
			if u, ok := ast.Unparen(ifs.Cond).(*ast.UnaryExpr); ok && u.Op == token.NOT && vparam != nil {
				if call, ok := ast.Unparen(u.X).(*ast.CallExpr); ok && isCall(info, call, "cty.Value.IsKnown") {
					encodes := false
					ast.Inspect(ifs.Body, func(n ast.Node) bool {
						if call, ok := n.(*ast.CallExpr); ok {
							if f := callee(info, call); f != nil && shortPkg(f.Pkg()) == pkg {
								encodes = true
							}
						}
						return true
					})
					if encodes && unk == nil {
						unk = ifs
					}
				}
			}
		}
		if dyn == nil || null == nil {
			rr.Violation(key+"/dynamic-before-null", fd.Pos(), fmt.Sprintf("expected a top-level dynamic-constraint branch and a null shortcut in %s (found dynamic: %v, null: %v)", name, dyn != nil, null != nil))
			continue
		}
		if dyn.Pos() < null.Pos() {
			rr.OK(key+"/dynamic-before-null", dyn.Pos(), "the dynamic-constraint branch precedes the null shortcut")
		} else {
			rr.Violation(key+"/dynamic-before-null", null.Pos(), "the null shortcut runs before the dynamic-constraint branch: a typed null in a dynamic position is written / read without its type and comes back as a null of the dynamic pseudo-type")
		}
		if unk != nil {
			if dyn.Pos() < unk.Pos() {
				rr.OK(key+"/dynamic-before-unknown", dyn.Pos(), "the dynamic-constraint branch precedes the unknown-value branch")
			} else {
				rr.Violation(key+"/dynamic-before-unknown", unk.Pos(), "the unknown-value branch runs before the dynamic-constraint branch: a typed (possibly refined) unknown in a dynamic position is written without its type and comes back as DynamicVal")
			}
		}
	}
}

func runRejectFirst(rr *RuleRun) {
	c := rr.Ctx
	for _, pkg := range []string{"cty/json", "cty/msgpack"} {
		info := c.Info(pkg)
		fd := rr.MustDecl(pkg, "marshal")
		if fd == nil {
			continue
		}
		key := pkg + ".marshal/marked-first"
		ok := false
		if len(fd.Body.List) > 0 {
			if ifs, isIf := fd.Body.List[0].(*ast.IfStmt); isIf {
				if call, isCallE := ast.Unparen(ifs.Cond).(*ast.CallExpr); isCallE && isCall(info, call, "cty.Value.IsMarked", "cty.Value.ContainsMarked") {
					if n := len(ifs.Body.List); n > 0 {
						if ret, isRet := ifs.Body.List[n-1].(*ast.ReturnStmt); isRet && len(ret.Results) == 1 && !isNilIdent(info, ret.Results[0]) {
							ok = true
						}
					}
				}
			}
		}
		if ok {
			rr.OK(key, fd.Pos(), "the first statement rejects marked values with an error")
		} else {
			rr.Violation(key, fd.Pos(), "the encoder does not start by rejecting marked values: marks would be dropped or the accessors below would panic")
		}
	}
}

// ---------------------------------------------------------------------------
// narrowing-exact

var narrowingMethods = map[string]bool{"math/big.Float.Int64": true, "math/big.Float.Uint64": true, "math/big.Float.Float64": true, "math/big.Float.Float32": true}

var lossySinks = map[string]bool{
	"reflect.Value.SetInt": true, "reflect.Value.SetUint": true, "reflect.Value.SetFloat": true,
}

func isEncoderSink(f *types.Func) bool {
	if f == nil {
		return false
	}
	if lossySinks[funcKey(f)] {
		return true
	}
	switch funcKey(f) {
	case "cty.NumberIntVal", "cty.NumberUIntVal", "cty.NumberFloatVal":
		return true // a number value built from the narrowed number
	case "strconv.FormatInt", "strconv.FormatUint", "strconv.FormatFloat", "strconv.AppendInt", "strconv.AppendUint", "strconv.AppendFloat", "strconv.Itoa":
		return true // the number's text, written out by a text encoder (JSON)
	}
	if f.Pkg() != nil && strings.Contains(f.Pkg().Path(), "vmihailenco/msgpack") && strings.HasPrefix(f.Name(), "Encode") {
		return true
	}
	return false
}

// floatRoundingAllowed: functions in which rounding a number to the nearest float is the documented behaviour
// (checked by C18.range-test-before-set instead).
var floatRoundingAllowed = map[string]string{
	"cty/gocty.fromCtyNumberFloat": "decoding into a Go float rounds by design; infinities and float32 overflow are checked by C18.range-test-before-set",
}

// isFailureReturnOperand: u is directly a result of a return statement that also
// returns the constant false or a non-nil error expression.
func isFailureReturnOperand(c *Ctx, info *types.Info, u *ast.Ident) bool {
	ret, ok := c.Parent(u).(*ast.ReturnStmt)
	if !ok || len(ret.Results) < 2 {
		return false
	}
	for _, r := range ret.Results {
		r = ast.Unparen(r)
		if r == ast.Expr(u) {
			continue
		}
		if tv, ok := info.Types[r]; ok {
			if tv.Value != nil && tv.Value.Kind() == constant.Bool && !constant.BoolVal(tv.Value) {
				return true
			}
			if !tv.IsNil() && tv.Type != nil && tv.Type.String() == "error" {
				if id, isID := r.(*ast.Ident); isID && id.Name == "nil" {
					continue
				}
				if _, isCall := r.(*ast.CallExpr); isCall {
					return true
				}
			}
		}
	}
	return false
}

func runNarrowingExact(rr *RuleRun) {
	c := rr.Ctx
	for _, pkg := range []string{"cty", "cty/msgpack", "cty/gocty", "cty/json", "cty/function/stdlib", "cty/convert"} {
		info := c.Info(pkg)
		for _, fd := range c.SortedDecls(pkg) {
			type site struct {
				as   *ast.AssignStmt
				x    types.Object
				acc  types.Object
				meth string
			}
			var sites []site
			ast.Inspect(fd.Body, func(n ast.Node) bool {
				as, ok := n.(*ast.AssignStmt)
				if !ok || len(as.Lhs) != 2 || len(as.Rhs) != 1 {
					return true
				}
				call, ok := ast.Unparen(as.Rhs[0]).(*ast.CallExpr)
				if !ok {
					return true
				}
				k := funcKey(callee(info, call))
				if !narrowingMethods[k] {
					return true
				}
				s := site{as: as, x: objOf(info, as.Lhs[0]), meth: strings.TrimPrefix(k, "math/big.Float.")}
				if id, ok := as.Lhs[1].(*ast.Ident); ok && id.Name != "_" {
					s.acc = objOf(info, id)
				}
				if s.x != nil {
					sites = append(sites, s)
				}
				return true
			})
			if len(sites) == 0 {
				continue
			}
			fname := pkg + "." + declName(fd)
			for _, s := range sites {
				key := fmt.Sprintf("%s/%s←%s", fname, s.x.Name(), s.meth)
				if why, ok := floatRoundingAllowed[fname]; ok && (s.meth == "Float64" || s.meth == "Float32") {
					rr.OKTrivial(key, s.as.Pos(), "tabled: "+why)
					continue
				}
				body := enclosingFuncBody(c, s.as)
				if body == nil {
					body = fd.Body
				}
				// uses of x
				var uses []*ast.Ident
				ast.Inspect(body, func(n ast.Node) bool {
					if id, ok := n.(*ast.Ident); ok && info.Uses[id] == s.x {
						uses = append(uses, id)
					}
					return true
				})
				if s.acc == nil {
					// discarded accuracy: only a problem when the value reaches an encoder / setter
					bad := false
					for _, u := range uses {
						// the use may be wrapped in arithmetic or a conversion: climb through expressions to the enclosing call
						var call *ast.CallExpr
						for p := c.Parent(u); p != nil; p = c.Parent(p) {
							if ce, ok := p.(*ast.CallExpr); ok {
								if f := callee(info, ce); f != nil {
									call = ce
									break
								}
								continue // a type conversion such as int64(x)
							}
							if _, ok := p.(ast.Expr); !ok {
								break
							}
						}
						if call != nil && isEncoderSink(callee(info, call)) {
							bad = true
							rr.Violation(key, u.Pos(), fmt.Sprintf("%s is the result of %s() whose accuracy is discarded, and it is written by %s: an inexact narrowing would change the number silently", s.x.Name(), s.meth, exprStr(call.Fun)))
						}
					}
					// two approximations compared with each other decide an ordering / equality of the numbers
					// they stand for: distinct numbers that narrow to the same machine value compare equal
					for _, u := range uses {
						be, ok := c.Parent(u).(*ast.BinaryExpr)
						if !ok || bad {
							continue
						}
						switch be.Op {
						case token.LSS, token.GTR, token.LEQ, token.GEQ, token.EQL, token.NEQ:
						default:
							continue
						}
						other := be.X
						if ast.Unparen(be.X) == ast.Expr(u) {
							other = be.Y
						}
						oo := objOf(info, other)
						if tv, isConst := info.Types[other]; (!isConst || tv.Value == nil) && !bad {
							approx := false
							for _, s2 := range sites {
								if s2.acc == nil && s2.x == oo && oo != nil {
									approx = true
								}
							}
							if !approx {
								bad = true
								rr.Violation(key, u.Pos(), fmt.Sprintf("%s is the result of %s() whose accuracy is discarded, and it is compared with %s (%s): a number that does not fit the machine type narrows to the type's limit (or loses its fraction), so the comparison equates / orders numbers that differ (use big.Float.Cmp, or test the accuracy)", s.x.Name(), s.meth, trunc(exprStr(other), 30), be.Op))
							}
						}
						for _, s2 := range sites {
							if s2.acc == nil && s2.x == oo && oo != nil {
								bad = true
								rr.Violation(key, u.Pos(), fmt.Sprintf("%s and %s are both results of %s() whose accuracy is discarded, and they are compared with each other (%s): two different numbers that narrow to the same machine value are then ordered / equated wrongly (use big.Float.Cmp)", s.x.Name(), oo.Name(), s.meth, be.Op))
							}
						}
					}
					if !bad {
						rr.Info(key, s.as.Pos(), "accuracy discarded; the value does not reach an encoder or setter and is not compared with another approximation")
					}
					continue
				}
				g := c.CFG(body, info)
				acc := s.acc
				spec := &FactSpec{Atom: func(cond ast.Expr, truth bool) []Fact {
					be, ok := ast.Unparen(cond).(*ast.BinaryExpr)
					if !ok {
						return nil
					}
					isAcc := func(e ast.Expr) bool { return objOf(info, e) == acc }
					isExact := func(e ast.Expr) bool { return isPkgConst(info, e, "math/big", "Exact") }
					if (isAcc(be.X) && isExact(be.Y)) || (isAcc(be.Y) && isExact(be.X)) {
						if (be.Op == token.EQL && truth) || (be.Op == token.NEQ && !truth) {
							return []Fact{{"exact", objKey(acc)}}
						}
					}
					return nil
				}}
				facts := g.MustFacts(spec)
				var badUse *ast.Ident
				for _, u := range uses {
					fs, ok := facts.At(u)
					if !ok {
						continue
					}
					if !fs.has("exact", objKey(acc)) {
						if isFailureReturnOperand(c, info, u) {
							continue // handed back next to a false flag / an error: the caller is told not to use it
						}
						badUse = u
						break
					}
				}
				if badUse != nil {
					rr.Violation(key, badUse.Pos(), fmt.Sprintf("%s (from %s()) is used at %s on a path where the accuracy %s was not compared with big.Exact: an inexact narrowing (a fraction, an out-of-range or too precise number) is then used as if it were the number", s.x.Name(), s.meth, c.PosStr(badUse.Pos()), acc.Name()))
				} else {
					rr.OK(key, s.as.Pos(), fmt.Sprintf("%d use(s) of %s, all under %s == big.Exact", len(uses), s.x.Name(), acc.Name()))
				}
			}
		}
	}
}

func isPkgConst(info *types.Info, e ast.Expr, pkgPath, name string) bool {
	var id *ast.Ident
	switch x := ast.Unparen(e).(type) {
	case *ast.Ident:
		id = x
	case *ast.SelectorExpr:
		id = x.Sel
	default:
		return false
	}
	o, ok := info.Uses[id].(*types.Const)
	return ok && o.Pkg() != nil && o.Pkg().Path() == pkgPath && o.Name() == name
}

// ---------------------------------------------------------------------------
// refinement keys

func runRefinementKeys(rr *RuleRun) {
	c := rr.Ctx
	pkg := "cty/msgpack"
	info := c.Info(pkg)
	enc, dec := rr.MustDecl(pkg, "marshalUnknownValue"), rr.MustDecl(pkg, "unmarshalUnknownValue")
	if enc == nil || dec == nil {
		return
	}
	// constants of type unknownValRefinementKey
	var keys []*types.Const
	scope := c.Pkg(pkg).Types.Scope()
	for _, n := range scope.Names() {
		if k, ok := scope.Lookup(n).(*types.Const); ok && namedType(k.Type()) == "cty/msgpack.unknownValRefinementKey" && !strings.HasPrefix(n, "verifctl") {
			keys = append(keys, k)
		}
	}
	sort.Slice(keys, func(i, j int) bool { return keys[i].Name() < keys[j].Name() })
	uses := func(fd *ast.FuncDecl, inCase bool) map[types.Object]bool {
		out := map[types.Object]bool{}
		ast.Inspect(fd.Body, func(n ast.Node) bool {
			if inCase {
				if cc, ok := n.(*ast.CaseClause); ok {
					for _, e := range cc.List {
						if o := objOf(info, e); o != nil {
							out[o] = true
						}
					}
				}
				return true
			}
			if id, ok := n.(*ast.Ident); ok {
				if o := info.Uses[id]; o != nil {
					out[o] = true
				}
			}
			return true
		})
		return out
	}
	written, accepted := uses(enc, false), uses(dec, true)
	vals := map[string]string{}
	for _, k := range keys {
		key := pkg + "." + k.Name()
		if prev, dup := vals[k.Val().ExactString()]; dup {
			rr.Violation(key, k.Pos(), fmt.Sprintf("refinement key %s has the same wire value %s as %s", k.Name(), k.Val().ExactString(), prev))
			continue
		}
		vals[k.Val().ExactString()] = k.Name()
		switch {
		case !written[k]:
			rr.Violation(key, k.Pos(), "the encoder never writes this refinement key: the refinement is lost on the wire")
		case !accepted[k]:
			rr.Violation(key, k.Pos(), "the decoder has no case for this refinement key: the refinement written by the encoder is ignored")
		default:
			rr.OK(key, k.Pos(), "written by marshalUnknownValue and accepted by a case of unmarshalUnknownValue (wire value "+k.Val().ExactString()+")")
		}
	}
	// dynamic wrapper length
	dm, du := rr.MustDecl(pkg, "dynamicVal.MarshalMsgpack"), rr.MustDecl(pkg, "unmarshalDynamic")
	if dm == nil || du == nil {
		return
	}
	var wrote, want *int64
	ast.Inspect(dm.Body, func(n ast.Node) bool {
		if call, ok := n.(*ast.CallExpr); ok && len(call.Args) == 1 {
			if f := callee(info, call); f != nil && f.Name() == "EncodeArrayLen" {
				if v, ok := constInt(info, call.Args[0]); ok {
					wrote = &v
				}
			}
		}
		return true
	})
	ast.Inspect(du.Body, func(n ast.Node) bool {
		if cc, ok := n.(*ast.CaseClause); ok {
			for _, e := range cc.List {
				if be, ok := ast.Unparen(e).(*ast.BinaryExpr); ok && be.Op == token.NEQ {
					if v, ok := constInt(info, be.Y); ok && v >= 0 {
						want = &v
					}
				}
			}
		}
		return true
	})
	key := pkg + ".dynamic-wrapper-length"
	if wrote == nil || want == nil {
		rr.Assumed(key, dm.Pos(), "wrapper length not found in its expected syntactic form")
	} else if *wrote != *want {
		rr.Violation(key, dm.Pos(), fmt.Sprintf("the encoder writes a %d-element wrapper but the decoder requires %d elements", *wrote, *want))
	} else {
		rr.OK(key, dm.Pos(), fmt.Sprintf("wrapper array length %d on both sides", *wrote))
	}
}

// ---------------------------------------------------------------------------
// C18

func runWidthTable(rr *RuleRun) {
	c := rr.Ctx
	pkg := "cty/gocty"
	info := c.Info(pkg)
	for _, spec := range []struct {
		fn     string
		signed bool
	}{{"fromCtyNumberInt", true}, {"fromCtyNumberUInt", false}} {
		fd := rr.MustDecl(pkg, spec.fn)
		if fd == nil {
			continue
		}
		var sw *ast.SwitchStmt
		tagName := ""
		isBits := func(e ast.Expr) bool {
			call, ok := ast.Unparen(e).(*ast.CallExpr)
			if !ok {
				return false
			}
			f := callee(info, call)
			return f != nil && f.Name() == "Bits"
		}
		ast.Inspect(fd.Body, func(n ast.Node) bool {
			if s, ok := n.(*ast.SwitchStmt); ok && s.Tag != nil && sw == nil {
				if isBits(s.Tag) {
					sw = s
				} else if id, ok := ast.Unparen(s.Tag).(*ast.Ident); ok {
					// switch bits := target.Type().Bits(); bits { … }  or  bits := …Bits() before the switch
					if as, ok := s.Init.(*ast.AssignStmt); ok && len(as.Lhs) == 1 && len(as.Rhs) == 1 && objOf(info, as.Lhs[0]) == objOf(info, id) && isBits(as.Rhs[0]) {
						sw, tagName = s, id.Name
					} else if o := objOf(info, id); o != nil {
						if _, idx, rhs := findDefine(info, fd.Body, o); rhs != nil && len(rhs) > idx && isBits(rhs[idx]) && countAssigns(info, fd.Body, o) == 0 {
							sw, tagName = s, id.Name
						}
					}
				}
			}
			return true
		})
		if sw == nil {
			// the table may live in a helper called with the bit width, or in a package-level map indexed by it
			if checkWidthTableElsewhere(rr, c, info, pkg, fd, spec.fn, spec.signed, isBits) {
				continue
			}
			rr.Assumed(pkg+"."+spec.fn+"/bounds", fd.Pos(), "the per-width bounds are not written as a switch on the bit width, a helper switching on it, or a table indexed by it: not decided")
			continue
		}
		seen := map[int64]bool{}
		residualPanics := false
		for _, cl := range sw.Body.List {
			cc := cl.(*ast.CaseClause)
			if cc.List == nil {
				for _, st := range cc.Body {
					if es, ok := st.(*ast.ExprStmt); ok {
						if call, ok := es.X.(*ast.CallExpr); ok && isBuiltin(info, call, "panic") {
							residualPanics = true
						}
					}
				}
				continue
			}
			for _, e := range cc.List {
				n, ok := constInt(info, e)
				if !ok {
					continue
				}
				seen[n] = true
				key := fmt.Sprintf("%s.%s/bits=%d", pkg, spec.fn, n)
				wantMax := new(big.Int).Lsh(big.NewInt(1), uint(n))
				wantMin := big.NewInt(0)
				if spec.signed {
					wantMax = new(big.Int).Lsh(big.NewInt(1), uint(n-1))
					wantMin = new(big.Int).Neg(wantMax)
				}
				wantMax.Sub(wantMax, big.NewInt(1))
				// evaluate the clause body for this width: constants, and arithmetic over the width
				// variable and over names assigned earlier in the clause (min = -max - 1, 1<<(bits-1) - 1)
				got := map[string]*big.Int{}
				env := map[string]constant.Value{}
				if tagName != "" {
					env[tagName] = constant.MakeInt64(n)
				}
				undecided := ""
				for _, st := range cc.Body {
					as, ok := st.(*ast.AssignStmt)
					if !ok || len(as.Lhs) != 1 || len(as.Rhs) != 1 {
						continue
					}
					v := evalConst(info, as.Rhs[0], env)
					if v == nil {
						undecided = exprStr(as.Lhs[0]) + " = " + exprStr(as.Rhs[0])
						continue
					}
					env[exprStr(as.Lhs[0])] = v
					if bi, ok := constant.Val(constant.ToInt(v)).(*big.Int); ok {
						got[exprStr(as.Lhs[0])] = bi
					} else if i64, ok := constant.Int64Val(constant.ToInt(v)); ok {
						got[exprStr(as.Lhs[0])] = big.NewInt(i64)
					} else if u64, ok := constant.Uint64Val(constant.ToInt(v)); ok {
						got[exprStr(as.Lhs[0])] = new(big.Int).SetUint64(u64)
					}
				}
				if undecided != "" {
					if _, haveMax := got["max"]; !haveMax || (spec.signed && got["min"] == nil) {
						rr.Assumed(key, cc.Pos(), "the bounds of this width are not compile-time computable ("+undecided+")")
						continue
					}
				}
				bad := ""
				if mx, ok := got["max"]; !ok || mx.Cmp(wantMax) != 0 {
					bad = fmt.Sprintf("max is %v, want %v", got["max"], wantMax)
				}
				if spec.signed {
					if mn, ok := got["min"]; !ok || mn.Cmp(wantMin) != 0 {
						bad += fmt.Sprintf(" min is %v, want %v", got["min"], wantMin)
					}
				}
				if bad != "" {
					rr.Violation(key, cc.Pos(), "wrong bounds for this width: "+bad)
				} else {
					rr.OK(key, cc.Pos(), fmt.Sprintf("bounds [%v, %v]", wantMin, wantMax))
				}
			}
		}
		for _, n := range []int64{8, 16, 32, 64} {
			if !seen[n] {
				rr.Violation(fmt.Sprintf("%s.%s/bits=%d", pkg, spec.fn, n), sw.Pos(), "no case for this integer width")
			}
		}
		if !residualPanics {
			rr.Violation(pkg+"."+spec.fn+"/residual", sw.Pos(), "the width switch has no panicking default: an unexpected width would use zero bounds")
		}
	}
}

func runRangeBeforeSet(rr *RuleRun) {
	c := rr.Ctx
	pkg := "cty/gocty"
	info := c.Info(pkg)
	for _, fd := range c.SortedDecls(pkg) {
		if c.FileOf(fd.Pos()) != "out.go" {
			continue
		}
		g := c.CFG(fd.Body, info)
		ast.Inspect(fd.Body, func(n ast.Node) bool {
			call, ok := n.(*ast.CallExpr)
			if !ok || len(call.Args) != 1 {
				return true
			}
			k := funcKey(callee(info, call))
			if k != "reflect.Value.SetInt" && k != "reflect.Value.SetUint" && k != "reflect.Value.SetFloat" {
				return true
			}
			x := objOf(info, call.Args[0])
			key := fmt.Sprintf("%s.%s/%s(%s)", pkg, declName(fd), strings.TrimPrefix(k, "reflect.Value."), exprStr(call.Args[0]))
			if x == nil {
				rr.Assumed(key, call.Pos(), "argument is not a plain variable")
				return true
			}
			if k == "reflect.Value.SetFloat" {
				checkSetFloat(rr, c, info, fd, g, call, x, key)
				return true
			}
			// integers: comparisons of x with both bounds (signed) / the upper bound (unsigned) that exit, on the way
			needs := []token.Token{token.GTR}
			if k == "reflect.Value.SetInt" {
				needs = append(needs, token.LSS)
			}
			spec := &FactSpec{Atom: func(cond ast.Expr, truth bool) []Fact {
				be, ok := ast.Unparen(cond).(*ast.BinaryExpr)
				if !ok || truth {
					return nil
				}
				if objOf(info, be.X) == x && (be.Op == token.GTR || be.Op == token.LSS) {
					if o := objOf(info, be.Y); o != nil {
						return []Fact{{"cmp" + be.Op.String() + o.Name(), objKey(x)}}
					}
				}
				return nil
			}}
			fs, ok := g.MustFacts(spec).At(call)
			if !ok {
				return true
			}
			var miss []string
			if !fs.has("cmp>max", objKey(x)) {
				miss = append(miss, "x > max")
			}
			if k == "reflect.Value.SetInt" && !fs.has("cmp<min", objKey(x)) {
				miss = append(miss, "x < min")
			}
			_ = needs
			if len(miss) > 0 {
				rr.Violation(key, call.Pos(), "the stored integer is not compared with the width's bound(s) on every path ("+strings.Join(miss, ", ")+" missing): an out-of-range number is stored truncated")
			} else {
				rr.OK(key, call.Pos(), "dominated by the comparisons with the width's bounds (exactness is checked by C16.narrowing-exact)")
			}
			return true
		})
	}
}

func checkSetFloat(rr *RuleRun, c *Ctx, info *types.Info, fd *ast.FuncDecl, g *FuncCFG, call *ast.CallExpr, x types.Object, key string) {
	// (1) an infinity test on x that exits, whose only enclosing condition is 'accuracy != big.Exact'
	var infIf *ast.IfStmt
	ast.Inspect(fd.Body, func(n ast.Node) bool {
		ifs, ok := n.(*ast.IfStmt)
		if !ok {
			return true
		}
		// the test itself, or a conjunction of it with the inexactness test (accuracy != big.Exact && math.IsInf(x, 0))
		cond := ast.Unparen(ifs.Cond)
		if be, ok := cond.(*ast.BinaryExpr); ok && be.Op == token.LAND {
			isInexact := func(e ast.Expr) bool {
				b2, ok := ast.Unparen(e).(*ast.BinaryExpr)
				return ok && b2.Op == token.NEQ && (isPkgConst(info, b2.Y, "math/big", "Exact") || isPkgConst(info, b2.X, "math/big", "Exact"))
			}
			switch {
			case isInexact(be.X):
				cond = ast.Unparen(be.Y)
			case isInexact(be.Y):
				cond = ast.Unparen(be.X)
			}
		}
		if cl, ok := cond.(*ast.CallExpr); ok && isCall(info, cl, "math.IsInf") && len(cl.Args) == 2 && objOf(info, cl.Args[0]) == x {
			if v, ok := constInt(info, cl.Args[1]); ok && v == 0 {
				for _, st := range ifs.Body.List {
					if _, ok := st.(*ast.ReturnStmt); ok {
						infIf = ifs
					}
				}
			}
		}
		return true
	})
	if infIf == nil {
		rr.Violation(key, call.Pos(), "no infinity test (math.IsInf(x, 0) with an error exit) protects the stored float: an out-of-range number is silently stored as an infinity")
		return
	}
	for p := c.Parent(infIf); p != nil && p != ast.Node(fd.Body); p = c.Parent(p) {
		ifs, ok := p.(*ast.IfStmt)
		if !ok {
			continue
		}
		be, ok := ast.Unparen(ifs.Cond).(*ast.BinaryExpr)
		if !ok || be.Op != token.NEQ || !(isPkgConst(info, be.Y, "math/big", "Exact") || isPkgConst(info, be.X, "math/big", "Exact")) {
			rr.Violation(key, infIf.Pos(), "the infinity test is additionally conditioned on '"+exprStr(ifs.Cond)+"': overflow in the direction that condition excludes is stored as an infinity")
			return
		}
	}
	if !g.Dominates(infIf.Cond, call) && !g.Dominates(c.Parent(infIf).(ast.Node), call) {
		// the enclosing if's condition dominates; the infinity test itself lies on the inexact path only
		outer := infIf
		for p := c.Parent(infIf); p != nil && p != ast.Node(fd.Body); p = c.Parent(p) {
			if ifs, ok := p.(*ast.IfStmt); ok {
				outer = ifs
			}
		}
		if !g.Dominates(outer.Cond, call) {
			rr.Violation(key, call.Pos(), "the infinity test does not lie on every path to the store")
			return
		}
	}
	// (2) float32 targets need a range test
	admits32 := false
	ast.Inspect(fd.Body, func(n ast.Node) bool {
		if cc, ok := n.(*ast.CaseClause); ok {
			for _, e := range cc.List {
				if isPkgConst(info, e, "reflect", "Float32") && cc.Pos() < call.Pos() && call.End() <= cc.End() {
					admits32 = true
				}
			}
		}
		return true
	})
	if admits32 {
		has := false
		ast.Inspect(fd.Body, func(n ast.Node) bool {
			if cl, ok := n.(*ast.CallExpr); ok && funcKey(callee(info, cl)) == "reflect.Value.OverflowFloat" && len(cl.Args) == 1 && objOf(info, cl.Args[0]) == x && g.Dominates(cl, call) {
				has = true
			}
			return true
		})
		if !has {
			rr.Violation(key+"/float32", call.Pos(), "the branch also serves float32 targets but nothing tests that the number fits a float32 (reflect.Value.OverflowFloat): 1e300 is stored into a float32 as +Inf without an error")
			return
		}
	}
	rr.OK(key, call.Pos(), "infinity test on the inexact path only; float32 range tested")
}

func runUnknownNullFirst(rr *RuleRun) {
	c := rr.Ctx
	pkg := "cty/gocty"
	info := c.Info(pkg)
	fd := rr.MustDecl(pkg, "fromCtyValue")
	if fd == nil {
		return
	}
	g := c.CFG(fd.Body, info)
	val := info.Defs[paramIdent(fd, 0)]
	// the kind dispatch: first switch statement whose cases call From*/fromCty* helpers
	var dispatch *ast.SwitchStmt
	for _, st := range fd.Body.List {
		if sw, ok := st.(*ast.SwitchStmt); ok {
			dispatch = sw
		}
	}
	if dispatch == nil || val == nil {
		rr.Broken("stale anchor: fromCtyValue has no top-level dispatch switch")
		return
	}
	spec := valueFacts(info, fd.Body)
	wr := g.Worlds(spec, []Fact{{"known", objKey(val)}, {"notnull", objKey(val)}}, nil, []string{objKey(val)})
	var anchor ast.Node = dispatch
	if dispatch.Tag != nil {
		anchor = dispatch.Tag
	} else if len(dispatch.Body.List) > 0 {
		if cc := dispatch.Body.List[0].(*ast.CaseClause); len(cc.List) > 0 {
			anchor = cc.List[0]
		}
	}
	// nulls of list, map and capsule types are passed on to their decoders by design, so only known-ness is required here
	for _, f := range []Fact{{"known", objKey(val)}} {
		key := pkg + ".fromCtyValue/" + f.Pred + "-before-dispatch"
		if h, reach := wr.Established(anchor, f); h || !reach {
			rr.OK(key, dispatch.Pos(), "established on every path to the kind dispatch")
		} else {
			rr.Violation(key, dispatch.Pos(), "the kind dispatch is reachable with a value that is not "+f.Pred+": the per-kind decoders call accessors that panic on it")
		}
	}
}

// evalConst evaluates an integer expression built from constants, the names in env, unary minus,
// + - * << >> and integer conversions. nil when it cannot be decided.
func evalConst(info *types.Info, e ast.Expr, env map[string]constant.Value) constant.Value {
	e = ast.Unparen(e)
	if tv, ok := info.Types[e]; ok && tv.Value != nil {
		return tv.Value
	}
	switch x := e.(type) {
	case *ast.Ident:
		if v, ok := env[x.Name]; ok {
			return v
		}
	case *ast.UnaryExpr:
		if v := evalConst(info, x.X, env); v != nil && (x.Op == token.SUB || x.Op == token.ADD) {
			return constant.UnaryOp(x.Op, v, 0)
		}
	case *ast.BinaryExpr:
		a, b := evalConst(info, x.X, env), evalConst(info, x.Y, env)
		if a == nil || b == nil {
			return nil
		}
		switch x.Op {
		case token.ADD, token.SUB, token.MUL:
			return constant.BinaryOp(constant.ToInt(a), x.Op, constant.ToInt(b))
		case token.SHL, token.SHR:
			if n, ok := constant.Uint64Val(constant.ToInt(b)); ok && n < 200 {
				return constant.Shift(constant.ToInt(a), x.Op, uint(n))
			}
		}
	case *ast.CallExpr:
		// integer conversion int64(x), uint(x) …
		if len(x.Args) == 1 {
			if tv, ok := info.Types[x.Fun]; ok && tv.IsType() {
				if b, ok := tv.Type.Underlying().(*types.Basic); ok && b.Info()&types.IsInteger != 0 {
					return evalConst(info, x.Args[0], env)
				}
			}
		}
	}
	return nil
}

// checkWidthTableElsewhere handles the two other shapes of the per-width bounds: a same-package helper that
// switches on its bit-width parameter and returns (min, max) / max, and a package-level map literal keyed by
// the width. Returns false when neither shape is present.
func checkWidthTableElsewhere(rr *RuleRun, c *Ctx, info *types.Info, pkg string, fd *ast.FuncDecl, fn string, signed bool, isBits func(ast.Expr) bool) bool {
	want := func(n int64) (*big.Int, *big.Int) {
		mx := new(big.Int).Lsh(big.NewInt(1), uint(n))
		mn := big.NewInt(0)
		if signed {
			mx = new(big.Int).Lsh(big.NewInt(1), uint(n-1))
			mn = new(big.Int).Neg(mx)
		}
		return mn, mx.Sub(mx, big.NewInt(1))
	}
	toBig := func(e ast.Expr) *big.Int {
		v := evalConst(info, e, nil)
		if v == nil {
			return nil
		}
		if bi, ok := constant.Val(constant.ToInt(v)).(*big.Int); ok {
			return bi
		}
		if i64, ok := constant.Int64Val(constant.ToInt(v)); ok {
			return big.NewInt(i64)
		}
		if u64, ok := constant.Uint64Val(constant.ToInt(v)); ok {
			return new(big.Int).SetUint64(u64)
		}
		return nil
	}
	found := false
	seen := map[int64]bool{}
	report := func(n int64, pos token.Pos, mn, mx *big.Int) {
		seen[n] = true
		key := fmt.Sprintf("%s.%s/bits=%d", pkg, fn, n)
		wmn, wmx := want(n)
		bad := ""
		if mx == nil || mx.Cmp(wmx) != 0 {
			bad = fmt.Sprintf("max is %v, want %v", mx, wmx)
		}
		if signed && (mn == nil || mn.Cmp(wmn) != 0) {
			bad += fmt.Sprintf(" min is %v, want %v", mn, wmn)
		}
		if bad != "" {
			rr.Violation(key, pos, "wrong bounds for this width: "+bad)
		} else {
			rr.OK(key, pos, fmt.Sprintf("bounds [%v, %v]", wmn, wmx))
		}
	}
	inspectNoLit(fd.Body, func(n ast.Node) bool {
		switch x := n.(type) {
		case *ast.CallExpr:
			// helper(target.Type().Bits())
			f := callee(info, x)
			if f == nil || shortPkg(f.Pkg()) != pkg || len(x.Args) != 1 || !isBits(x.Args[0]) {
				return true
			}
			hd := c.Decl(pkg, funcDeclKey(f))
			if hd == nil || hd.Body == nil {
				return true
			}
			po := info.Defs[paramIdent(hd, 0)]
			inspectNoLit(hd.Body, func(m ast.Node) bool {
				sw, ok := m.(*ast.SwitchStmt)
				if !ok || sw.Tag == nil || objOf(info, sw.Tag) != po {
					return true
				}
				for _, cl := range sw.Body.List {
					cc := cl.(*ast.CaseClause)
					for _, e := range cc.List {
						w, ok := constInt(info, e)
						if !ok {
							continue
						}
						for _, st := range cc.Body {
							ret, ok := st.(*ast.ReturnStmt)
							if !ok {
								continue
							}
							found = true
							switch len(ret.Results) {
							case 2:
								a, b := toBig(ret.Results[0]), toBig(ret.Results[1])
								if a != nil && b != nil && a.Cmp(b) > 0 {
									a, b = b, a
								}
								report(w, cc.Pos(), a, b)
							case 1:
								report(w, cc.Pos(), big.NewInt(0), toBig(ret.Results[0]))
							}
						}
					}
				}
				return true
			})
		case *ast.IndexExpr:
			// table[target.Type().Bits()]
			if !isBits(x.Index) {
				return true
			}
			v, ok := objOf(info, x.X).(*types.Var)
			if !ok || v.Pkg() == nil || v.Parent() != v.Pkg().Scope() {
				return true
			}
			for _, file := range c.Pkgs[pkg].Syntax {
				ast.Inspect(file, func(m ast.Node) bool {
					vs, ok := m.(*ast.ValueSpec)
					if !ok {
						return true
					}
					for i, nm := range vs.Names {
						if info.Defs[nm] != v || i >= len(vs.Values) {
							continue
						}
						lit, ok := vs.Values[i].(*ast.CompositeLit)
						if !ok {
							continue
						}
						for _, el := range lit.Elts {
							kv, ok := el.(*ast.KeyValueExpr)
							if !ok {
								continue
							}
							if w, ok := constInt(info, kv.Key); ok {
								found = true
								report(w, kv.Pos(), big.NewInt(0), toBig(kv.Value))
							}
						}
					}
					return true
				})
			}
		}
		return true
	})
	if found {
		for _, n := range []int64{8, 16, 32, 64} {
			if !seen[n] {
				rr.Violation(fmt.Sprintf("%s.%s/bits=%d", pkg, fn, n), fd.Pos(), "no entry for this integer width")
			}
		}
	}
	return found
}
