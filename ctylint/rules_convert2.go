package main

import (
	"fmt"
	"go/ast"
	"go/token"
	"go/types"
	"strings"

	"golang.org/x/tools/go/cfg"
)

func init() {
	register(&Rule{
		ID: "C08.result-depends-on-target", Prop: "C08", Floor: 20, Controls: 0,
		Doc: "in every conversion builder (a function with a target-type parameter returning a conversion closure) each successful return of the closure is data-dependent on the target type (or on an element conversion derived from it) or control-dependent on a condition that consults it: a result built from the input's type alone cannot conform to every requested type",
		Run: runResultDependsOnTarget,
	})
	register(&Rule{
		ID: "C08.dynamic-replace-fallback", Prop: "C08", Floor: 5, Controls: 0,
		Doc: "sibling agreement inside dynamicReplace: every branch for a compound target kind falls back to returning the target type unchanged when the source type has a different shape (no branch assumes the source shape)",
		Run: runDynamicReplaceFallback,
	})
	register(&Rule{
		ID: "C09.composition", Prop: "C09", Also: []string{"C08"}, Floor: 8, Controls: 1,
		Doc: "the value returned by a conversion call is used on the success path (passed on, stored, returned): a composition that calls the first conversion and then feeds the original input to the second discards its first stage",
		Run: runComposition,
	})
	register(&Rule{
		ID: "C09.slot-assigned", Prop: "C09", Floor: 1, Controls: 0,
		Doc: "where a slice of conversions declared outside a retry loop is filled by index inside it, every path through one inner iteration assigns that iteration's slot (nil or a conversion): a slot left over from a rejected candidate would be returned for the accepted one",
		Run: runSlotAssigned,
	})
	register(&Rule{
		ID: "C09.loopvar-capture", Prop: "C09", Also: []string{"C20", "C08"}, Floor: 0, Controls: 1,
		Doc: "under the module's Go version (< 1.22: one variable per loop) no closure that outlives its loop iteration (stored or returned) refers to the loop's variables: every such closure would see the values of the last iteration",
		Run: runLoopvarCapture,
	})
	register(&Rule{
		ID: "C09.unify-result-checked", Prop: "C09", Floor: 4, Controls: 0,
		Doc: "the conversions returned by a unification helper are indexed only after the returned type was tested (not NilType / of the expected kind) with an exit: a failed unification returns no conversions",
		Run: runUnifyResultChecked,
	})
}

// ---------------------------------------------------------------------------

func isConversionNamed(t types.Type) bool {
	n := namedType(t)
	return n == "cty/convert.conversion" || n == "cty/convert.Conversion"
}

func runResultDependsOnTarget(rr *RuleRun) {
	c := rr.Ctx
	pkg := "cty/convert"
	info := c.Info(pkg)
	for _, fd := range c.SortedDecls(pkg) {
		fn, _ := info.Defs[fd.Name].(*types.Func)
		if fn == nil {
			continue
		}
		sig := fn.Type().(*types.Signature)
		if sig.Results().Len() != 1 || !isConversionNamed(sig.Results().At(0).Type()) {
			continue
		}
		// the target: the last cty.Type parameter; conversion-typed parameters are derived from it by the caller
		dep := map[types.Object]bool{}
		var target types.Object
		for i := 0; i < sig.Params().Len(); i++ {
			pt := sig.Params().At(i).Type()
			if id := paramIdent(fd, i); id != nil {
				if isCtyType(pt) {
					target = info.Defs[id]
				}
				if isConversionNamed(pt) {
					dep[info.Defs[id]] = true
				}
			}
		}
		if target == nil {
			continue
		}
		dep[target] = true
		// closure over the whole builder: locals computed from the target (element conversions, stripped types)
		for changed := true; changed; {
			changed = false
			ast.Inspect(fd.Body, func(n ast.Node) bool {
				mark := func(lhs, rhs []ast.Expr) {
					m := false
					for _, e := range rhs {
						if mentionsAny(info, e, dep) {
							m = true
						}
					}
					if !m {
						return
					}
					for _, l := range lhs {
						root := l
						for {
							if ix, ok := ast.Unparen(root).(*ast.IndexExpr); ok {
								root = ix.X
								continue
							}
							break
						}
						if o, ok := objOf(info, root).(*types.Var); ok && o != nil && !dep[o] {
							dep[o] = true
							changed = true
						}
					}
				}
				switch x := n.(type) {
				case *ast.AssignStmt:
					mark(x.Lhs, x.Rhs)
				case *ast.ValueSpec:
					var l []ast.Expr
					for _, nm := range x.Names {
						l = append(l, nm)
					}
					mark(l, x.Values)
				case *ast.RangeStmt:
					var l []ast.Expr
					if x.Key != nil {
						l = append(l, x.Key)
					}
					if x.Value != nil {
						l = append(l, x.Value)
					}
					mark(l, []ast.Expr{x.X})
				}
				return true
			})
		}
		// the returned closures
		ast.Inspect(fd.Body, func(n ast.Node) bool {
			ret, ok := n.(*ast.ReturnStmt)
			if !ok || len(ret.Results) != 1 {
				return true
			}
			fl, ok := ast.Unparen(ret.Results[0]).(*ast.FuncLit)
			if !ok {
				return true
			}
			d2 := map[types.Object]bool{}
			for k := range dep {
				d2[k] = true
			}
			checkTypeDependence(rr, c, info, pkg+"."+declName(fd)+"$closure", fl.Body, d2, "the target type "+target.Name())
			return false
		})
	}
}

func runDynamicReplaceFallback(rr *RuleRun) {
	c := rr.Ctx
	pkg := "cty/convert"
	info := c.Info(pkg)
	fd := rr.MustDecl(pkg, "dynamicReplace")
	if fd == nil {
		return
	}
	in, out := info.Defs[paramIdent(fd, 0)], info.Defs[paramIdent(fd, 1)]
	for kind, cc := range kindClauses(info, fd) {
		switch kind {
		case "List", "Map", "Set", "Object", "Tuple":
		default:
			continue
		}
		// the clause must be about the target
		about := false
		for _, e := range cc.List {
			if call, ok := ast.Unparen(e).(*ast.CallExpr); ok {
				if se, ok := call.Fun.(*ast.SelectorExpr); ok && objOf(info, se.X) == out {
					about = true
				}
			}
		}
		if !about {
			continue
		}
		key := pkg + ".dynamicReplace[" + kind + "]"
		// a 'return out' reachable without consulting accessors of 'in': at clause top level, or inside a top-level if on kinds of in
		hasFallback := false
		for _, st := range cc.Body {
			switch s := st.(type) {
			case *ast.ReturnStmt:
				if len(s.Results) == 1 && objOf(info, s.Results[0]) == out {
					hasFallback = true
				}
			case *ast.IfStmt:
				if mentionsAny(info, s.Cond, map[types.Object]bool{in: true}) {
					for _, b := range s.Body.List {
						if r, ok := b.(*ast.ReturnStmt); ok && len(r.Results) == 1 && objOf(info, r.Results[0]) == out {
							// only counts as a fallback when the condition is a negative shape test
							if u, ok := ast.Unparen(s.Cond).(*ast.UnaryExpr); ok && u.Op == token.NOT {
								hasFallback = true
							}
							if be, ok := ast.Unparen(s.Cond).(*ast.BinaryExpr); ok && (be.Op == token.LOR || be.Op == token.LAND) {
								hasFallback = true
							}
						}
					}
				}
				// if in.IsX() {…} else if in.IsY() {…} else { return out }
				for e := s.Else; e != nil; {
					switch x := e.(type) {
					case *ast.IfStmt:
						e = x.Else
					case *ast.BlockStmt:
						for _, b := range x.List {
							if r, ok := b.(*ast.ReturnStmt); ok && len(r.Results) == 1 && objOf(info, r.Results[0]) == out && mentionsAny(info, s.Cond, map[types.Object]bool{in: true}) {
								hasFallback = true
							}
						}
						e = nil
					default:
						e = nil
					}
				}
			case *ast.SwitchStmt:
				// the same dispatch written as a tagless switch on the source's shape with 'default: return out'
				if s.Tag != nil {
					continue
				}
				onIn := false
				var def *ast.CaseClause
				for _, cl := range s.Body.List {
					c2 := cl.(*ast.CaseClause)
					if len(c2.List) == 0 {
						def = c2
					}
					for _, e := range c2.List {
						if mentionsAny(info, e, map[types.Object]bool{in: true}) {
							onIn = true
						}
					}
				}
				if onIn && def != nil {
					for _, b := range def.Body {
						if r, ok := b.(*ast.ReturnStmt); ok && len(r.Results) == 1 && objOf(info, r.Results[0]) == out {
							hasFallback = true
						}
					}
				}
			}
		}
		if hasFallback {
			rr.OK(key, cc.Pos(), "falls back to the unchanged target type for a source of another shape")
		} else {
			rr.Violation(key, cc.Pos(), fmt.Sprintf("the %s branch has no 'return %s' fallback for a source type of another shape, unlike its sibling branches: for an unknown or null input of another type it either calls a %s-only accessor on the source (panic) or builds a type that ignores the target", kind, out.Name(), kind))
		}
	}
}

// ---------------------------------------------------------------------------
// C09.composition

func runComposition(rr *RuleRun) {
	c := rr.Ctx
	pkg := "cty/convert"
	eachFuncBody(c, []string{pkg}, func(_ string, fd *ast.FuncDecl, body *ast.BlockStmt) {
		info := c.Info(pkg)
		type asg struct {
			st  *ast.AssignStmt
			val types.Object
			err types.Object
		}
		var sites []asg
		inspectNoLit(body, func(n ast.Node) bool {
			as, ok := n.(*ast.AssignStmt)
			if !ok || len(as.Lhs) != 2 || len(as.Rhs) != 1 {
				return true
			}
			call, ok := ast.Unparen(as.Rhs[0]).(*ast.CallExpr)
			if !ok || !isConversionNamed(info.TypeOf(call.Fun)) {
				return true
			}
			v, e := objOf(info, as.Lhs[0]), objOf(info, as.Lhs[1])
			if v == nil || e == nil {
				return true
			}
			sites = append(sites, asg{as, v, e})
			return true
		})
		if len(sites) == 0 {
			return
		}
		g := c.CFG(body, info)
		for _, s := range sites {
			key := fmt.Sprintf("%s.%s/%s←%s", pkg, declName(fd), s.val.Name(), exprStr(s.st.Rhs[0].(*ast.CallExpr).Fun))
			if c.IsControl(s.st.Pos()) {
				key = "control/" + key
			}
			if usedOnSuccess(g, info, s.st, s.val, s.err) {
				rr.OK(key, s.st.Pos(), "the converted value is read on the success path")
			} else {
				rr.Violation(key, s.st.Pos(), fmt.Sprintf("the value returned by %s is read only where %s != nil: on success it is discarded, so whatever follows works on the unconverted input (a composed conversion that drops its first stage)", exprStr(s.st.Rhs[0].(*ast.CallExpr).Fun), s.err.Name()))
			}
		}
	})
}

// usedOnSuccess: from the assignment, some path on which err is not known to be non-nil reads val.
func usedOnSuccess(g *FuncCFG, info *types.Info, st *ast.AssignStmt, val, errObj types.Object) bool {
	l, _, ok := g.locate(st)
	if !ok {
		return true
	}
	reads := func(n ast.Node) bool {
		found := false
		lhs := map[*ast.Ident]bool{}
		if as, ok := n.(*ast.AssignStmt); ok {
			for _, x := range as.Lhs {
				if id, ok := x.(*ast.Ident); ok {
					lhs[id] = true
				}
			}
		}
		ast.Inspect(n, func(x ast.Node) bool {
			if id, ok := x.(*ast.Ident); ok && !lhs[id] && info.Uses[id] == val {
				found = true
			}
			return true
		})
		return found
	}
	kills := func(n ast.Node) bool {
		if as, ok := n.(*ast.AssignStmt); ok && n != ast.Node(st) {
			for _, x := range as.Lhs {
				if objOf(info, x) == val {
					return true
				}
			}
		}
		return false
	}
	type item struct {
		b *cfg.Block
		i int
	}
	seen := map[int32]bool{}
	var dfs func(it item) bool
	dfs = func(it item) bool {
		for i := it.i; i < len(it.b.Nodes); i++ {
			n := it.b.Nodes[i]
			if reads(n) {
				return true
			}
			if kills(n) {
				return false
			}
		}
		cond, hasCond := g.condOf(it.b)
		for si, succ := range it.b.Succs {
			// skip the branch on which the error is known to be non-nil
			if hasCond && errNonNilBranch(info, cond, errObj, si == 0) {
				continue
			}
			if seen[succ.Index] {
				continue
			}
			seen[succ.Index] = true
			if dfs(item{succ, 0}) {
				return true
			}
		}
		return false
	}
	return dfs(item{l.b, l.i + 1})
}

// errNonNilBranch: taking this successor implies err != nil.
func errNonNilBranch(info *types.Info, cond ast.Expr, errObj types.Object, truth bool) bool {
	be, ok := ast.Unparen(cond).(*ast.BinaryExpr)
	if !ok {
		return false
	}
	isErr := func(e ast.Expr) bool { return objOf(info, e) == errObj }
	if (isErr(be.X) && isNilIdent(info, be.Y)) || (isErr(be.Y) && isNilIdent(info, be.X)) {
		if be.Op == token.NEQ {
			return truth
		}
		if be.Op == token.EQL {
			return !truth
		}
	}
	return false
}

// ---------------------------------------------------------------------------
// C09.slot-assigned

func runSlotAssigned(rr *RuleRun) {
	c := rr.Ctx
	pkg := "cty/convert"
	info := c.Info(pkg)
	for _, fd := range c.SortedDecls(pkg) {
		g := c.CFG(fd.Body, info)
		inspectNoLit(fd.Body, func(n ast.Node) bool {
			outer, ok := n.(*ast.RangeStmt)
			if !ok {
				return true
			}
			for _, st := range outer.Body.List {
				inner, ok := st.(*ast.RangeStmt)
				if !ok || inner.Key == nil {
					continue
				}
				idx := objOf(info, inner.Key)
				// slot arrays: S[idx] = ... with S declared before the outer loop
				slots := map[types.Object]bool{}
				inspectNoLit(inner.Body, func(m ast.Node) bool {
					if as, ok := m.(*ast.AssignStmt); ok {
						for _, l := range as.Lhs {
							if ix, ok := l.(*ast.IndexExpr); ok && objOf(info, ix.Index) == idx {
								if so := objOf(info, ix.X); so != nil && so.Pos() < outer.Pos() {
									if sl, ok := so.Type().Underlying().(*types.Slice); ok && (isConversionNamed(sl.Elem())) {
										slots[so] = true
									}
								}
							}
						}
					}
					return true
				})
				for so := range slots {
					so := so
					key := fmt.Sprintf("%s.%s/%s[%s]", pkg, declName(fd), so.Name(), idx.Name())
					spec := &FactSpec{Effects: func(n ast.Node) []Effect {
						as, ok := n.(*ast.AssignStmt)
						if !ok {
							return nil
						}
						for _, l := range as.Lhs {
							if ix, ok := l.(*ast.IndexExpr); ok && objOf(info, ix.X) == so && objOf(info, ix.Index) == idx {
								return []Effect{{Assert: &Fact{"slot", objKey(so)}}}
							}
						}
						return nil
					}, Atom: func(ast.Expr, bool) []Fact { return nil }}
					facts := g.MustFacts(spec)
					// the inner loop's head block: the one whose predecessor edges come from the inner body
					bad := token.NoPos
					for _, b := range g.G.Blocks {
						if b.Kind != cfg.KindRangeLoop || b.Stmt != ast.Stmt(inner) {
							continue
						}
						for _, pi := range g.preds[b.Index] {
							pb := g.G.Blocks[pi]
							if !blockInside(c, pb, inner.Body) {
								continue // the entry edge
							}
							fs := facts.AtEnd(pb)
							if fs == nil {
								continue
							}
							if !fs.has("slot", objKey(so)) {
								bad = blockPos(pb, inner.Body.Pos())
							}
						}
					}
					if bad.IsValid() {
						rr.Violation(key, bad, fmt.Sprintf("one path through an iteration of the inner loop reaches the next iteration without assigning %s[%s]; %s is declared outside the retry loop, so the slot keeps what a previously rejected candidate left there", so.Name(), idx.Name(), so.Name()))
					} else {
						rr.OK(key, inner.Pos(), "every path through an inner iteration assigns the slot")
					}
				}
			}
			return true
		})
	}
}

func blockInside(c *Ctx, b *cfg.Block, body *ast.BlockStmt) bool {
	if len(b.Nodes) > 0 {
		p := b.Nodes[0].Pos()
		return p >= body.Pos() && p <= body.End()
	}
	if b.Stmt != nil {
		return b.Stmt.Pos() >= body.Pos() && b.Stmt.End() <= body.End()
	}
	return false
}

func blockPos(b *cfg.Block, def token.Pos) token.Pos {
	if len(b.Nodes) > 0 {
		return b.Nodes[len(b.Nodes)-1].Pos()
	}
	if b.Stmt != nil {
		return b.Stmt.Pos()
	}
	return def
}

// ---------------------------------------------------------------------------
// C09.loopvar-capture

func goVersionBefore122(c *Ctx) (bool, string) {
	for _, p := range c.Pkgs {
		if p.Module != nil && p.Module.GoVersion != "" {
			v := p.Module.GoVersion
			parts := strings.Split(v, ".")
			if len(parts) >= 2 && parts[0] == "1" {
				minor := 0
				fmt.Sscanf(parts[1], "%d", &minor)
				return minor < 22, v
			}
			return false, v
		}
	}
	return false, "?"
}

func runLoopvarCapture(rr *RuleRun) {
	c := rr.Ctx
	old, ver := goVersionBefore122(c)
	eachFuncBody(c, allPkgs, func(pkg string, fd *ast.FuncDecl, body *ast.BlockStmt) {
		info := c.Info(pkg)
		inspectNoLit(body, func(n ast.Node) bool {
			var vars []types.Object
			var lbody *ast.BlockStmt
			switch x := n.(type) {
			case *ast.RangeStmt:
				if x.Tok != token.DEFINE {
					return true
				}
				for _, e := range []ast.Expr{x.Key, x.Value} {
					if e != nil {
						if o := objOf(info, e); o != nil {
							vars = append(vars, o)
						}
					}
				}
				lbody = x.Body
			case *ast.ForStmt:
				if as, ok := x.Init.(*ast.AssignStmt); ok && as.Tok == token.DEFINE {
					for _, e := range as.Lhs {
						if o := objOf(info, e); o != nil {
							vars = append(vars, o)
						}
					}
				}
				lbody = x.Body
			default:
				return true
			}
			if len(vars) == 0 {
				return true
			}
			set := map[types.Object]bool{}
			for _, v := range vars {
				set[v] = true
			}
			ast.Inspect(lbody, func(m ast.Node) bool {
				fl, ok := m.(*ast.FuncLit)
				if !ok {
					return true
				}
				if !mentionsAny(info, fl.Body, set) {
					return false
				}
				key := fmt.Sprintf("%s.%s/closure@loop(%s)", pkg, declName(fd), vars[0].Name())
				par := c.Parent(fl)
				escapes := true
				how := "stored"
				switch p := par.(type) {
				case *ast.CallExpr:
					if p.Fun == ast.Expr(fl) {
						escapes, how = false, "invoked immediately"
					} else {
						escapes, how = false, "passed as a callback"
					}
				case *ast.DeferStmt, *ast.GoStmt:
					escapes, how = false, "deferred"
				case *ast.ReturnStmt:
					how = "returned"
				}
				if gp, ok := c.Parent(par).(*ast.DeferStmt); ok && gp != nil {
					escapes, how = false, "deferred"
				}
				if !escapes {
					rr.OKTrivial(key, fl.Pos(), "closure referring to a loop variable is "+how+" within the iteration")
					return false
				}
				if !old {
					rr.OKTrivial(key, fl.Pos(), "go "+ver+": one variable per iteration")
					return false
				}
				rr.Violation(key, fl.Pos(), fmt.Sprintf("a closure that is %s refers to the loop variable %s; the module's go.mod says go %s (one variable per loop, not per iteration), so every such closure sees the value of the last iteration", how, vars[0].Name(), ver))
				return false
			})
			return true
		})
	})
}

// ---------------------------------------------------------------------------
// C09.unify-result-checked

func runUnifyResultChecked(rr *RuleRun) {
	c := rr.Ctx
	pkg := "cty/convert"
	info := c.Info(pkg)
	for _, fd := range c.SortedDecls(pkg) {
		type site struct {
			as    *ast.AssignStmt
			ty    types.Object
			convs types.Object
		}
		var sites []site
		inspectNoLit(fd.Body, func(n ast.Node) bool {
			as, ok := n.(*ast.AssignStmt)
			if !ok || len(as.Lhs) != 2 || len(as.Rhs) != 1 {
				return true
			}
			call, ok := ast.Unparen(as.Rhs[0]).(*ast.CallExpr)
			if !ok {
				return true
			}
			f := callee(info, call)
			if f == nil || shortPkg(f.Pkg()) != pkg {
				return true
			}
			sig := f.Type().(*types.Signature)
			if sig.Results().Len() != 2 || !isCtyType(sig.Results().At(0).Type()) {
				return true
			}
			if sl, ok := sig.Results().At(1).Type().Underlying().(*types.Slice); !ok || !isConversionNamed(sl.Elem()) {
				return true
			}
			t, cv := objOf(info, as.Lhs[0]), objOf(info, as.Lhs[1])
			if t != nil && cv != nil {
				sites = append(sites, site{as, t, cv})
			}
			return true
		})
		if len(sites) == 0 {
			continue
		}
		g := c.CFG(fd.Body, info)
		for _, s := range sites {
			s := s
			key := fmt.Sprintf("%s.%s/%s,%s←%s", pkg, declName(fd), s.ty.Name(), s.convs.Name(), exprStr(s.as.Rhs[0].(*ast.CallExpr).Fun))
			spec := &FactSpec{Atom: func(cond ast.Expr, truth bool) []Fact {
				cond = ast.Unparen(cond)
				// ty.IsXType() true, or ty == NilType false
				if call, ok := cond.(*ast.CallExpr); ok && truth {
					if se, ok := call.Fun.(*ast.SelectorExpr); ok && objOf(info, se.X) == s.ty && kindPredicate(funcKey(callee(info, call))) != "" {
						return []Fact{{"typed", objKey(s.ty)}}
					}
				}
				if be, ok := cond.(*ast.BinaryExpr); ok && be.Op == token.EQL && !truth {
					if (objOf(info, be.X) == s.ty && isPkgVar(info, be.Y, "cty", "NilType")) || (objOf(info, be.Y) == s.ty && isPkgVar(info, be.X, "cty", "NilType")) {
						return []Fact{{"typed", objKey(s.ty)}}
					}
				}
				return nil
			}}
			facts := g.MustFacts(spec)
			var idxUses []*ast.IndexExpr
			inspectNoLit(fd.Body, func(n ast.Node) bool {
				if ix, ok := n.(*ast.IndexExpr); ok && objOf(info, ix.X) == s.convs && ix.Pos() > s.as.Pos() {
					idxUses = append(idxUses, ix)
				}
				return true
			})
			if len(idxUses) == 0 {
				rr.OKTrivial(key, s.as.Pos(), "the conversions are not indexed here")
				continue
			}
			bad := false
			for _, ix := range idxUses {
				fs, ok := facts.At(ix)
				if ok && !fs.has("typed", objKey(s.ty)) {
					rr.Violation(key, ix.Pos(), fmt.Sprintf("%s is indexed although the type returned with it (%s) was not tested on the way: when the unification fails it returns no conversions and the index panics", s.convs.Name(), s.ty.Name()))
					bad = true
					break
				}
			}
			if !bad {
				rr.OK(key, s.as.Pos(), fmt.Sprintf("%d index use(s) of %s, all after a test of %s that exits on failure", len(idxUses), s.convs.Name(), s.ty.Name()))
			}
		}
	}
}
