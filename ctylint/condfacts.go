package main

import (
	"fmt"
	"go/ast"
	"go/token"
	"go/types"
	"os"
	"sort"
	"strings"
)

// CondFacts — the generic "what do the branch conditions on every path to this point say" analysis.
// Every atomic branch condition of a function becomes a fact T(cond) / F(cond) on the corresponding edge
// (conditions are decomposed over &&, ||, ! and tagged switches by the must-facts engine; a condition that
// is a single-assignment boolean variable is interpreted through its defining expression). A fact is
// killed when any variable occurring in its condition is assigned. Rules ask whether some fact matching a
// structural predicate holds on every path to a node.

type CondFacts struct {
	g     *FuncCFG
	info  *types.Info
	res   *FactResult
	exprs map[string]ast.Expr
}

// condKey renders a condition with the identity of every variable it mentions, so that the engine's
// kill-by-assigned-variable logic applies to it.
func condKey(info *types.Info, e ast.Expr) string {
	var keys []string
	seen := map[string]bool{}
	ast.Inspect(e, func(n ast.Node) bool {
		if id, ok := n.(*ast.Ident); ok {
			if v, ok := info.Uses[id].(*types.Var); ok && !v.IsField() {
				k := objKey(v)
				if !seen[k] {
					seen[k] = true
					keys = append(keys, k)
				}
			}
		}
		return true
	})
	sort.Strings(keys)
	return exprStr(e) + " |" + strings.Join(keys, ",")
}

func (c *Ctx) CondFacts(body *ast.BlockStmt, info *types.Info, extra func(n ast.Node) []Effect) *CondFacts {
	return c.CondFactsX(body, info, extra, nil)
}

// CondFactsX additionally lets a rule derive its own facts from a decided atomic condition.
func (c *Ctx) CondFactsX(body *ast.BlockStmt, info *types.Info, extra func(n ast.Node) []Effect, extraAtom func(cond ast.Expr, truth bool) []Fact) *CondFacts {
	cf := &CondFacts{g: c.CFG(body, info), info: info, exprs: map[string]ast.Expr{}}
	var spec *FactSpec
	depth := 0
	spec = &FactSpec{
		Atom: func(cond ast.Expr, truth bool) []Fact {
			cond = ast.Unparen(cond)
			var out []Fact
			// boolean alias: ok := x.IsKnown(); if !ok {…}
			if id, isId := cond.(*ast.Ident); isId && depth < 3 {
				if v, isVar := info.Uses[id].(*types.Var); isVar && !v.IsField() {
					if _, idx, rhs := findDefine(info, body, v); rhs != nil && len(rhs) > idx && countAssigns(info, body, v) == 0 {
						depth++
						out = append(out, cf.g.condFacts(spec, rhs[idx], truth)...)
						depth--
					}
				}
			}
			k := condKey(info, cond)
			if _, ok := cf.exprs[k]; !ok {
				cf.exprs[k] = cond
			}
			p := "F"
			if truth {
				p = "T"
			}
			if extraAtom != nil {
				out = append(out, extraAtom(cond, truth)...)
			}
			return append(out, Fact{p, k})
		},
		Effects: extra,
	}
	cf.res = cf.g.MustFacts(spec)
	return cf
}

// HoldsAt reports whether on every path to n some branch condition matching the predicate was decided the
// given way (match receives the condition and the truth value it is known to have).
func (cf *CondFacts) HoldsAt(n ast.Node, match func(cond ast.Expr, truth bool) bool) bool {
	fs, ok := cf.res.At(n)
	if os.Getenv("CTYLINT_DEBUG_CF") != "" {
		fmt.Fprintf(os.Stderr, "HoldsAt %s located=%v facts=%s\n", cf.g.ctx.PosStr(n.Pos()), ok, fs)
	}
	if !ok {
		return false
	}
	for f := range fs {
		if f.Pred != "T" && f.Pred != "F" {
			continue
		}
		if e, ok := cf.exprs[f.Subj]; ok && match(e, f.Pred == "T") {
			return true
		}
	}
	return false
}

// HasFact reports whether the named extra fact (asserted through the extra effects) holds at n.
func (cf *CondFacts) HasFact(n ast.Node, pred, subj string) bool {
	fs, ok := cf.res.At(n)
	return ok && fs.has(pred, subj)
}

func (cf *CondFacts) Located(n ast.Node) bool {
	_, ok := cf.res.At(n)
	return ok
}

// methodCond matches a condition of the form X.M() where X is the given object and M one of the names.
func methodCond(info *types.Info, cond ast.Expr, obj types.Object, names ...string) bool {
	call, ok := ast.Unparen(cond).(*ast.CallExpr)
	if !ok {
		return false
	}
	se, ok := call.Fun.(*ast.SelectorExpr)
	if !ok || objOf(info, se.X) != obj {
		return false
	}
	for _, n := range names {
		if se.Sel.Name == n {
			return true
		}
	}
	return false
}

// eqCond matches X == Y (in either order) where isX / isY recognise the operands.
func eqCond(cond ast.Expr, isX, isY func(ast.Expr) bool) bool {
	be, ok := ast.Unparen(cond).(*ast.BinaryExpr)
	if !ok || be.Op != token.EQL {
		return false
	}
	return (isX(be.X) && isY(be.Y)) || (isX(be.Y) && isY(be.X))
}
