package main

import (
	"fmt"
	"go/token"
	"go/types"
	"os"
	"sort"
	"strings"

	"golang.org/x/tools/go/ssa"
)

// dumpWrites prints every non-local write of the module with its target origin (calibration aid: -dumpwrites).
func dumpWrites(c *Ctx) {
	o := c.Own()
	var lines []string
	for _, fn := range o.moduleFuncs() {
		if c.IsControl(fn.Pos()) {
			continue
		}
		for _, w := range o.writesOf(fn, 0) {
			lines = append(lines, fmt.Sprintf("%-60s %-30s %-40s %s", fnKey(fn), c.PosStr(w.Pos), w.Kind, w.Target))
		}
	}
	sort.Strings(lines)
	for _, l := range lines {
		fmt.Fprintln(os.Stdout, l)
	}
}

func init() {
	register(&Rule{
		ID: "C20.no-payload-write", Prop: "C20", Also: []string{"C07", "C05", "C03", "C04", "C11", "C12", "C19", "C13", "C14"}, Floor: 60, Controls: 2,
		Doc: "no function writes (store, map update, in-place append, copy, delete, math/big mutator, sort, or a callee that writes through its parameter) to memory reached through an immutable payload field (Value.v, marker.realV/marks, unknownType.refinement, the typeImpl records) of anything it did not allocate itself",
		Run: runNoPayloadWrite,
	})
	register(&Rule{
		ID: "C20.no-global-write", Prop: "C20", Also: []string{"C16", "C15", "C02"}, Floor: 60, Controls: 1,
		Doc: "outside package initialisers no function writes a package-level variable or memory loaded from one (nothing shared is written after init)",
		Run: runNoGlobalWrite,
	})
	register(&Rule{
		ID: "C20.closure-state", Prop: "C20", Also: []string{"C08", "C09"}, Floor: 20, Controls: 1,
		Doc: "a closure that escapes its creator (returned, or stored) does not assign or write through its captured variables; deferred, immediately invoked and callback closures are exempt",
		Run: runClosureState,
	})
	register(&Rule{
		ID: "C20.builder-copy", Prop: "C20", Also: []string{"C05"}, Floor: 4, Controls: 1,
		Doc: "a refinement record is never shared between a value and a mutable builder: what is stored into unknownType.refinement is fresh, a copy() or another value's (immutable) record, never the builder's working object; what is stored into RefinementBuilder.wip is fresh or a copy(), never a value's record; every refinement copy() returns fresh memory",
		Run: runBuilderCopy,
	})
	register(&Rule{
		ID: "C20.set-storage", Prop: "C20", Also: []string{"C03", "C19"}, Floor: 8, Controls: 1,
		Doc: "every function returning a set (set.Set, ValueSet, PathSet) returns one whose hash-bucket map is fresh, and no bucket slice of one set is stored into another set's map without a copy while Add appends to buckets in place",
		Run: runSetStorage,
	})
	register(&Rule{
		ID: "C20.no-alias-out", Prop: "C20", Also: []string{"C07", "C02", "C19", "C15", "C16"}, Floor: 20, Controls: 1,
		Doc: "an exported function whose result is a Go reference (pointer, slice, map) does not hand out payload memory of a value or type without a copy; the documented read-only accessors are tabled by symbol",
		Run: runNoAliasOut,
	})
	register(&Rule{
		ID: "C20.no-retention-in", Prop: "C20", Also: []string{"C02", "C03"}, Floor: 20, Controls: 1,
		Doc: "an exported function of package cty does not store a caller-owned slice, map or pointer parameter itself (or a helper set — ValueSet, PathSet, set.Set — as a whole, which shares its hash buckets) into the payload of the value or type it builds (it stores a copy); documented ownership transfers are tabled by symbol",
		Run: runNoRetentionIn,
	})
}

func isInitFn(fn *ssa.Function) bool {
	for f := fn; f != nil; f = f.Parent() {
		if f.Parent() == nil {
			n := f.Name()
			return n == "init" || strings.HasPrefix(n, "init#")
		}
	}
	return false
}

func writeKey(fn *ssa.Function, w Write, a OAtom) string {
	k := w.Kind
	if i := strings.Index(k, " ("); i > 0 {
		k = k[:i]
	}
	via := a.Via
	if via == "" {
		via = a.Name
	}
	return fmt.Sprintf("%s/%s→%s", fnKey(fn), k, via)
}

func runNoPayloadWrite(rr *RuleRun) {
	o := rr.Ctx.Own()
	for _, fn := range o.moduleFuncs() {
		if isInitFn(fn) && fn.Parent() == nil {
			continue
		}
		ws := o.writesOf(fn, 0)
		if len(ws) == 0 {
			continue
		}
		bad := 0
		for _, w := range ws {
			if a, ok := w.Target.first(oPayload); ok {
				bad++
				rr.Violation(writeKey(fn, w, a), w.Pos, fmt.Sprintf("%s writes memory reached through %s (%s) of %s: target origin %s", w.Kind, a.Via, payloadFields[a.Via], nameOr(a.Name, "a shared value"), w.Target))
			}
		}
		if bad == 0 {
			rr.OK(fnKey(fn), fn.Pos(), fmt.Sprintf("%d heap write(s); none reaches an immutable payload (e.g. %s → %s)", len(ws), ws[0].Kind[:min(len(ws[0].Kind), 40)], ws[0].Target))
		}
	}
}

func nameOr(s, d string) string {
	if s == "" {
		return d
	}
	return s
}

func runNoGlobalWrite(rr *RuleRun) {
	o := rr.Ctx.Own()
	for _, fn := range o.moduleFuncs() {
		if isInitFn(fn) && fn.Parent() == nil {
			continue
		}
		ws := o.writesOf(fn, 0)
		if len(ws) == 0 {
			continue
		}
		bad := 0
		for _, w := range ws {
			if a, ok := w.Target.first(oGlobal); ok {
				bad++
				rr.Violation(writeKey(fn, w, a), w.Pos, fmt.Sprintf("%s writes package-level state %s after initialisation: target origin %s", w.Kind, a.Name, w.Target))
			}
		}
		if bad == 0 {
			rr.OKTrivial(fnKey(fn), fn.Pos(), fmt.Sprintf("%d heap write(s); none targets package-level state", len(ws)))
		}
	}
}

// ---------------------------------------------------------------------------
// closure-state

// closureUse classifies how a MakeClosure value is used by its creator.
func closureUse(mc *ssa.MakeClosure) (escapes bool, how string) {
	seen := map[ssa.Value]bool{}
	var visit func(v ssa.Value) (bool, string)
	visit = func(v ssa.Value) (bool, string) {
		if seen[v] {
			return false, ""
		}
		seen[v] = true
		refs := v.Referrers()
		if refs == nil {
			return false, ""
		}
		uses := []string{}
		for _, r := range *refs {
			switch t := r.(type) {
			case *ssa.Return:
				return true, "returned"
			case *ssa.Store:
				if t.Val == v {
					// stored into a local variable that is only called is still local; anything else escapes
					if root, _, ok := localCell(t.Addr); ok && !allocEscapes(root) {
						uses = append(uses, "local")
						continue
					}
					return true, "stored"
				}
			case *ssa.MapUpdate:
				if t.Value == v {
					return true, "stored in a map"
				}
			case *ssa.MakeInterface:
				if e, h := visit(t); e {
					return true, h
				}
			case *ssa.ChangeType:
				if e, h := visit(t); e {
					return true, h
				}
			case *ssa.Phi:
				if e, h := visit(t); e {
					return true, h
				}
			case *ssa.Defer:
				uses = append(uses, "deferred")
			case *ssa.Go:
				if t.Call.Value == v {
					uses = append(uses, "go")
				} else {
					uses = append(uses, "callback")
				}
			case *ssa.Call:
				if t.Call.Value == v {
					uses = append(uses, "invoked")
				} else {
					uses = append(uses, "callback")
				}
			}
		}
		return false, strings.Join(uses, ",")
	}
	return visit(mc)
}

// allocEscapes: the local is returned by address, stored elsewhere or captured by an escaping construct.
func allocEscapes(a *ssa.Alloc) bool {
	if a.Referrers() == nil {
		return false
	}
	for _, r := range *a.Referrers() {
		switch t := r.(type) {
		case *ssa.Return:
			return true
		case *ssa.Store:
			if t.Val == ssa.Value(a) {
				return true
			}
		case *ssa.MakeInterface:
			return true
		case *ssa.UnOp:
			// whole-struct load: the struct value (with the closure inside) may be returned
			if refs := t.Referrers(); refs != nil {
				for _, rr := range *refs {
					if _, ok := rr.(*ssa.Return); ok {
						return true
					}
					if st, ok := rr.(*ssa.Store); ok && st.Val == ssa.Value(t) {
						return true
					}
					if _, ok := rr.(*ssa.MakeInterface); ok {
						return true
					}
					if c, ok := rr.(ssa.CallInstruction); ok {
						_ = c
						return true
					}
				}
			}
		case ssa.CallInstruction:
			return true
		}
	}
	return false
}

func runClosureState(rr *RuleRun) {
	o := rr.Ctx.Own()
	for _, fn := range o.moduleFuncs() {
		for _, b := range fn.Blocks {
			for _, in := range b.Instrs {
				mc, ok := in.(*ssa.MakeClosure)
				if !ok {
					continue
				}
				cl := mc.Fn.(*ssa.Function)
				key := fnKey(cl)
				esc, how := closureUse(mc)
				if !esc {
					rr.OKTrivial(key, mc.Pos(), "closure does not escape its creator ("+nameOr(how, "unused")+")")
					continue
				}
				// shared cells: the free variables of the escaping closure, and those of nested closures bound to them
				bad := sharedWrites(o, cl, allFreeVars(cl), 0)
				if len(bad) == 0 {
					rr.OK(key, mc.Pos(), fmt.Sprintf("escaping closure (%s) with %d captured variable(s): none is written", how, len(cl.FreeVars)))
					continue
				}
				for _, v := range bad {
					rr.Violation(key+"/"+v.name, v.pos, fmt.Sprintf("closure %s by %s %s captured variable %q: every call of the shared closure (and every goroutine using it) writes the same cell", how, fnKey(fn), v.what, v.name))
				}
			}
		}
	}
}

type sharedWrite struct {
	name, what string
	pos        token.Pos
}

func allFreeVars(fn *ssa.Function) map[*ssa.FreeVar]bool {
	m := map[*ssa.FreeVar]bool{}
	for _, fv := range fn.FreeVars {
		m[fv] = true
	}
	return m
}

func sharedWrites(o *Own, fn *ssa.Function, shared map[*ssa.FreeVar]bool, depth int) []sharedWrite {
	var out []sharedWrite
	if depth > 4 || len(shared) == 0 {
		return nil
	}
	x := o.newCtx(fn, 0)
	isShared := func(v ssa.Value) (*ssa.FreeVar, bool) {
		fv, ok := v.(*ssa.FreeVar)
		return fv, ok && shared[fv]
	}
	for _, b := range fn.Blocks {
		for _, in := range b.Instrs {
			switch t := in.(type) {
			case *ssa.Store:
				if fv, ok := isShared(t.Addr); ok {
					out = append(out, sharedWrite{fv.Name(), "assigns", instrPos(in)})
					continue
				}
				if _, _, ok := localCell(t.Addr); ok {
					continue
				}
				for a := range x.origin(t.Addr) {
					if a.Class == oFreeVar {
						for fv := range shared {
							if fv.Name() == a.Name {
								out = append(out, sharedWrite{a.Name, "stores into memory held by", instrPos(in)})
							}
						}
					}
				}
			case *ssa.MapUpdate:
				for a := range x.origin(t.Map) {
					if a.Class == oFreeVar {
						for fv := range shared {
							if fv.Name() == a.Name {
								out = append(out, sharedWrite{a.Name, "updates the map held by", instrPos(in)})
							}
						}
					}
				}
			case *ssa.MakeClosure:
				inner := t.Fn.(*ssa.Function)
				sh := map[*ssa.FreeVar]bool{}
				for i, bnd := range t.Bindings {
					if _, ok := isShared(bnd); ok && i < len(inner.FreeVars) {
						sh[inner.FreeVars[i]] = true
					}
				}
				out = append(out, sharedWrites(o, inner, sh, depth+1)...)
			}
		}
	}
	return out
}

// ---------------------------------------------------------------------------
// builder-copy

const fkRefinement = "cty.unknownType.refinement"
const fkWip = "cty.RefinementBuilder.wip"

func storedFieldKey(st *ssa.Store) string {
	if fa, ok := st.Addr.(*ssa.FieldAddr); ok {
		return fieldKey(fa.X.Type().Underlying().(*types.Pointer).Elem(), fa.Field)
	}
	return ""
}

func runBuilderCopy(rr *RuleRun) {
	o := rr.Ctx.Own()
	for _, fn := range o.moduleFuncs() {
		if fn.Pkg == nil || shortPkg(fn.Pkg.Pkg) != "cty" {
			continue
		}
		x := o.newCtx(fn, 0)
		for _, b := range fn.Blocks {
			for _, in := range b.Instrs {
				st, ok := in.(*ssa.Store)
				if !ok {
					continue
				}
				switch storedFieldKey(st) {
				case fkRefinement:
					org := x.origin(st.Val)
					key := fnKey(fn) + "/unknownType.refinement"
					bad := ""
					for a := range org {
						if strings.Contains(a.Path, fkWip) {
							bad = "the builder's working object (" + a.String() + ")"
						} else if a.Class == oParam || a.Class == oGlobal || a.Class == oFreeVar {
							// a refinement handed in by an (unexported) caller: the caller's obligation — recorded, not reported
						}
					}
					if bad != "" {
						rr.Violation(key, instrPos(in), "the refinement stored into a new unknown value is "+bad+": later builder calls change a value that was already returned")
					} else {
						rr.OK(key, instrPos(in), "refinement of the new unknown value: "+org.String())
					}
				case fkWip:
					org := x.origin(st.Val)
					key := fnKey(fn) + "/RefinementBuilder.wip"
					if a, ok := org.first(oPayload); ok {
						rr.Violation(key, instrPos(in), "the builder's working object aliases "+a.Via+" of an existing value ("+org.String()+"): builder calls then rewrite that value's refinement in place")
					} else {
						rr.OK(key, instrPos(in), "builder working object: "+org.String())
					}
				}
			}
		}
	}
	// every copy() of a refinement returns fresh memory
	for _, fn := range o.moduleFuncs() {
		if fn.Name() != "copy" || fn.Signature.Recv() == nil || fn.Pkg == nil || shortPkg(fn.Pkg.Pkg) != "cty" {
			continue
		}
		if namedType(fn.Signature.Results().At(0).Type()) != "cty.unknownValRefinement" {
			continue
		}
		sum := o.retSummaryOf(fn, 0, 0, nil)
		key := fnKey(fn)
		if sum != nil && sum.only(oFresh) {
			rr.OK(key, fn.Pos(), "returns fresh memory")
		} else {
			rr.Violation(key, fn.Pos(), fmt.Sprintf("copy() does not return fresh memory: %s", sum))
		}
	}
}

// ---------------------------------------------------------------------------
// set-storage

var setResultPaths = map[string][]string{
	"cty/set.Set":  {"cty/set.Set.vals"},
	"cty.ValueSet": {"cty.ValueSet.s", "cty/set.Set.vals"},
	"cty.PathSet":  {"cty.PathSet.set", "cty/set.Set.vals"},
}

func setTypeKey(t types.Type) string {
	n := namedTypeNoPtr(t)
	if _, ok := setResultPaths[n]; ok {
		return n
	}
	return ""
}

func runSetStorage(rr *RuleRun) {
	o := rr.Ctx.Own()
	// (1) functions returning sets
	for _, fn := range o.moduleFuncs() {
		if !exportedAPI(fn) || fn.Signature.Results().Len() == 0 {
			continue
		}
		if fn.Origin() != nil && fn.Origin() != fn {
			continue // the generic body is analysed once
		}
		for i := 0; i < fn.Signature.Results().Len(); i++ {
			tk := setTypeKey(fn.Signature.Results().At(i).Type())
			if tk == "" {
				continue
			}
			key := fmt.Sprintf("%s/result%d", fnKey(fn), i)
			sum := o.retSummaryOf(fn, 0, i, setResultPaths[tk])
			if sum == nil {
				rr.Assumed(key, fn.Pos(), "result not summarised")
				continue
			}
			if sum.only(oFresh, oZero) {
				rr.OK(key, fn.Pos(), "the returned set owns a fresh bucket map")
				continue
			}
			if sum.has(oUnknown) && !sum.has(oStore) && !sum.has(oParam) && !sum.has(oPayload) {
				rr.Assumed(key, fn.Pos(), "bucket map origin not resolvable: "+sum.String())
				continue
			}
			if allowSetAlias[fnKey(fn)] != "" {
				rr.OKTrivial(key, fn.Pos(), "tabled: "+allowSetAlias[fnKey(fn)])
				continue
			}
			rr.Violation(key, fn.Pos(), "the returned set shares its bucket map with "+sum.String()+": mutating either set changes the other")
		}
	}
	// (2) bucket slices shared between maps while Add appends in place
	var shareSites, appendSites []string
	var appendPos, sharePos token.Pos
	for _, fn := range o.moduleFuncs() {
		og := fn
		if fn.Origin() != nil {
			og = fn.Origin()
		}
		if og.Pkg == nil || shortPkg(og.Pkg.Pkg) != "cty/set" || fn != og {
			continue
		}
		x := o.newCtx(fn, 0)
		for _, b := range fn.Blocks {
			for _, in := range b.Instrs {
				switch t := in.(type) {
				case *ssa.MapUpdate:
					if _, ok := t.Value.Type().Underlying().(*types.Slice); !ok {
						continue
					}
					mo, vo := x.origin(t.Map), x.origin(t.Value)
					// a bucket of some set stored into a map that is not that same bucket's own map update (Add/Remove rewrite their own bucket)
					if vo.has(oStore) && mo.only(oFresh, oZero) {
						shareSites = append(shareSites, fnKey(fn)+" at "+rr.Ctx.PosStr(instrPos(in)))
						sharePos = instrPos(in)
					}
				case *ssa.Call:
					if bi, ok := t.Call.Value.(*ssa.Builtin); ok && bi.Name() == "append" {
						if sl, ok := t.Call.Args[0].(*ssa.Slice); ok && sl.Max != nil {
							continue
						}
						if x.origin(t.Call.Args[0]).has(oStore) {
							appendSites = append(appendSites, fnKey(fn)+" at "+rr.Ctx.PosStr(instrPos(in)))
							appendPos = instrPos(in)
						}
					}
				}
			}
		}
	}
	if len(shareSites) > 0 && len(appendSites) > 0 {
		rr.Violation("cty/set.Set.vals/shared-bucket-append", appendPos, fmt.Sprintf("bucket slices are shared between sets (%s at %s) and appended to in place (%s): two owners write the same backing array", strings.Join(shareSites, "; "), rr.Ctx.PosStr(sharePos), strings.Join(appendSites, "; ")))
	} else {
		rr.OK("cty/set.Set.vals/shared-bucket-append", appendPos, fmt.Sprintf("in-place bucket appends: %d (%s); bucket slices copied between sets without a fresh slice: %d", len(appendSites), strings.Join(appendSites, "; "), len(shareSites)))
	}
}

var allowSetAlias = map[string]string{}

// ---------------------------------------------------------------------------
// no-alias-out

// aliasOutAllowed: exported accessors documented as handing out read-only internals.
var aliasOutAllowed = map[string]string{
	"cty.Type.AttributeTypes":     "documented: 'The returned map is provided for read access only'",
	"cty.Type.OptionalAttributes": "documented as read-only view of the optional-attribute set",
	"cty.Type.TupleElementTypes":  "documented: the caller must not modify the returned slice",
	"cty.Type.CapsuleOps":         "documented: the caller must not modify the returned operations",
	"cty.Value.EncapsulatedValue": "capsule contents are opaque application data, handed back as given",
}

func isMutableRef(t types.Type) bool {
	switch u := t.Underlying().(type) {
	case *types.Slice, *types.Map:
		return true
	case *types.Pointer:
		// pointers to immutable-by-API things are excluded
		n := namedType(u.Elem())
		if n == "cty.RefinementBuilder" {
			return false
		}
		return true
	}
	return false
}

// isMutableCarrier: a struct passed by value that wraps shared mutable storage (the mutable helper sets:
// copying the struct copies only the header, the hash buckets stay shared).
func isMutableCarrier(t types.Type) bool {
	n := namedTypeNoPtr(t)
	if i := strings.Index(n, "["); i >= 0 {
		n = n[:i]
	}
	switch n {
	case "cty.ValueSet", "cty.PathSet", "cty/set.Set":
		return true
	}
	if mi, ok := t.(*types.Interface); ok && mi != nil {
		return false
	}
	return false
}

// wholeCarrierPath: the origin path ends at a helper set as a whole (or at its bucket map), not at an
// immutable part of it (its rules, its element type).
func wholeCarrierPath(p string) bool {
	for _, suf := range []string{"cty.ValueSet.s", "cty.PathSet.set", "cty/set.Set.vals"} {
		if strings.HasSuffix(p, suf) {
			return true
		}
	}
	return false
}

// unboxedType: the static type of v before it was boxed into an interface.
func unboxedType(v ssa.Value) types.Type {
	for {
		switch x := v.(type) {
		case *ssa.MakeInterface:
			v = x.X
			continue
		case *ssa.ChangeType:
			v = x.X
			continue
		}
		return v.Type()
	}
}

func exportedAPI(fn *ssa.Function) bool {
	if fn.Parent() != nil || fn.Synthetic != "" {
		return false
	}
	obj, ok := fn.Object().(*types.Func)
	if !ok || obj == nil || !obj.Exported() {
		return false
	}
	if recv := obj.Type().(*types.Signature).Recv(); recv != nil {
		t := recv.Type()
		if p, ok := t.(*types.Pointer); ok {
			t = p.Elem()
		}
		if n, ok := t.(*types.Named); ok && !n.Obj().Exported() {
			return false
		}
	}
	return true
}

func runNoAliasOut(rr *RuleRun) {
	o := rr.Ctx.Own()
	for _, fn := range o.moduleFuncs() {
		if !exportedAPI(fn) || (fn.Origin() != nil && fn.Origin() != fn) {
			continue
		}
		pk := ""
		if fn.Pkg != nil {
			pk = shortPkg(fn.Pkg.Pkg)
		}
		// the codecs hand out encoded bytes: they too must be the caller's own (pooled buffers are the risk there)
		if pk != "cty" && pk != "cty/set" && pk != "cty/json" && pk != "cty/msgpack" {
			continue
		}
		for i := 0; i < fn.Signature.Results().Len(); i++ {
			rt := fn.Signature.Results().At(i).Type()
			if !isMutableRef(rt) {
				continue
			}
			key := fmt.Sprintf("%s/result%d", fnKey(fn), i)
			sum := o.retSummaryOf(fn, 0, i, nil)
			if sum == nil {
				rr.Assumed(key, fn.Pos(), "result not summarised")
				continue
			}
			if g, pooled := sum.first(oGlobal); pooled && g.Name == "sync.Pool" {
				rr.Violation(key, fn.Pos(), fmt.Sprintf("returns %s that aliases memory obtained from a sync.Pool (%s): the next user of the pool overwrites what the caller was given", rt.String(), sum))
				continue
			}
			a, bad := sum.first(oPayload)
			if !bad {
				a, bad = sum.first(oStore)
			}
			if !bad {
				rr.OK(key, fn.Pos(), "result origin "+sum.String())
				continue
			}
			if why, ok := aliasOutAllowed[fnKey(fn)]; ok {
				rr.OKTrivial(key, fn.Pos(), "tabled read-only accessor: "+why)
				continue
			}
			rr.Violation(key, fn.Pos(), fmt.Sprintf("returns %s reached through %s without a copy (%s): a caller mutating the result changes an existing value", rt.String(), a.Via, sum))
		}
	}
	for k := range aliasOutAllowed {
		found := false
		for _, fn := range o.moduleFuncs() {
			if fnKey(fn) == k {
				found = true
			}
		}
		if !found {
			rr.Broken("stale table row: " + k + " no longer exists")
		}
	}
}

// ---------------------------------------------------------------------------
// no-retention-in

var retentionAllowed = map[string]string{
	"cty.NumberVal":      "documented ownership transfer: 'the caller must not modify the given number after passing it'",
	"cty.CapsuleVal":     "capsule contents are an application pointer by design",
	"cty.Capsule":        "capsule types keep the reflect.Type they are given",
	"cty.CapsuleWithOps": "capsule types keep the operations they are given",
	"cty.Tuple":          "documented ownership transfer: 'the caller must no longer access the underlying array'",
}

func runNoRetentionIn(rr *RuleRun) {
	o := rr.Ctx.Own()
	seenAllowed := map[string]bool{}
	for _, fn := range o.moduleFuncs() {
		if !exportedAPI(fn) || fn.Pkg == nil || shortPkg(fn.Pkg.Pkg) != "cty" {
			continue
		}
		// reference-typed parameters owned by the caller
		var refParams []int
		for i, p := range fn.Params {
			if i == 0 && fn.Signature.Recv() != nil {
				continue
			}
			if isMutableRef(p.Type()) || isMutableCarrier(p.Type()) {
				refParams = append(refParams, i)
			}
		}
		if len(refParams) == 0 {
			continue
		}
		key := fnKey(fn)
		x := o.newCtx(fn, 0)
		var bad []string
		var badPos token.Pos
		stores := 0
		for _, b := range fn.Blocks {
			for _, in := range b.Instrs {
				st, ok := in.(*ssa.Store)
				if !ok {
					continue
				}
				fk := storedFieldKey(st)
				if why, ok := payloadFields[fk]; !ok || why == "" {
					continue
				}
				stores++
				for a := range x.origin(st.Val) {
					// the parameter itself, or a mutable carrier (a set wrapping its bucket map) read out of it
					if a.Class == oParam && (a.Path == "" || (isMutableCarrier(unboxedType(st.Val)) && wholeCarrierPath(a.Path))) {
						for _, i := range refParams {
							if a.Idx == i {
								what := "parameter " + a.Name
								if a.Path != "" {
									what += a.Path
								}
								bad = append(bad, fmt.Sprintf("%s is stored into %s", what, fk))
								badPos = instrPos(in)
							}
						}
					}
				}
			}
		}
		// helper constructors: a callee that stores its parameter into a payload (summary via return origin)
		for i := 0; i < fn.Signature.Results().Len(); i++ {
			rt := namedTypeNoPtr(fn.Signature.Results().At(i).Type())
			var paths [][]string
			switch rt {
			case "cty.Value":
				paths = [][]string{{"cty.Value.v"}}
			case "cty.Type":
				paths = [][]string{{"cty.Type.typeImpl"}}
			default:
				continue
			}
			for _, p := range paths {
				sum := o.retSummaryOf(fn, 0, i, p)
				for a := range sum {
					if a.Class == oParam && a.Path == "" {
						for _, pi := range refParams {
							if a.Idx == pi {
								bad = append(bad, fmt.Sprintf("parameter %s itself becomes the payload of the result", a.Name))
								badPos = fn.Pos()
							}
						}
					}
				}
			}
		}
		sort.Strings(bad)
		bad = uniqStrings(bad)
		if len(bad) == 0 {
			rr.OK(key, fn.Pos(), fmt.Sprintf("%d reference parameter(s), %d payload store(s): none stores a caller-owned reference", len(refParams), stores))
			continue
		}
		if why, ok := retentionAllowed[key]; ok {
			seenAllowed[key] = true
			rr.OKTrivial(key, fn.Pos(), "tabled: "+why)
			continue
		}
		rr.Violation(key, badPos, strings.Join(bad, "; ")+": the caller can change the value afterwards by mutating what it passed in")
	}
}

func uniqStrings(l []string) []string {
	var out []string
	for i, s := range l {
		if i == 0 || s != l[i-1] {
			out = append(out, s)
		}
	}
	return out
}
