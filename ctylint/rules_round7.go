package main

import (
	"fmt"
	"go/ast"
	"go/token"
	"go/types"
	"regexp"
	"strings"
)

// Round 7 — generic rules written after the `e` series of seeded changes:
//   C03.no-self-comparison            a comparison whose two sides are the same thing
//   C07.deep-function-descends        a deep (self-recursive) function leaves a compound value/type without descending
//   C02.typecheck-before-result       an operation method answers before its operands were type-checked
//   C13.guard-agrees-with-message     a rejection whose message says 'must not be greater than' rejects the bound itself
//   C19.guard-on-stale-type           a kind test on the type of an earlier version of a value guards the new one

func init() {
	register(&Rule{
		ID: "C03.no-self-comparison", Prop: "C03", Also: []string{"C01", "C02", "C05", "C07", "C08", "C09", "C19", "C20", "C15", "C16", "C18", "C11", "C13", "C14"}, Floor: 300, Controls: 1,
		Doc: "no comparison relates a thing to itself: the two sides of ==, !=, <, <=, >, >= and of the relational methods and helpers (Equals, RawEquals, Equivalent, Equal, Less, Cmp, HasPrefix, …) do not denote the same storage once single-assignment locals and the variables bound by type switches and type assertions are replaced by what they were defined from — an equivalence that reads one operand twice (aPath[i] against aPath[i]) calls every pair with that shape equal",
		Run: runNoSelfComparison,
	})
	register(&Rule{
		ID: "C07.deep-function-descends", Prop: "C07", Also: []string{"C01", "C06", "C08", "C15", "C16", "C19", "C03", "C12", "C13"}, Floor: 8, Controls: 1,
		Doc: "a deep function — one that calls itself on the members of its cty.Type / cty.Value subject (HasDynamicTypes, WithoutOptionalAttributesDeep, IsWhollyKnown, HasWhollyKnownType, UnknownAsNull, walk, transform, the encoders, …) — does not answer for a compound subject without descending: every return reached under a branch condition that establishes the subject is a collection, tuple or object (or can be iterated) lies in a branch that descended before it (a self-call on a member, or a call of another deep function), unless the conditions also establish that the subject is unknown, null or empty or that the member is primitive — a shortcut that looks one level down only answers wrongly for members nested deeper",
		Run: runDeepFunctionDescends,
	})
	register(&Rule{
		ID: "C02.typecheck-before-result", Prop: "C02", Also: []string{"C01", "C04"}, Floor: 12, Controls: 1,
		Doc: "an operation method of cty.Value that type-checks its operands (mustTypeCheck) returns a result only after that check ran: every return is dominated by the mustTypeCheck call, except the mark prologue (a return inside the branch taken for marked operands, which re-enters the method) — a result computed before the check is a value for operands of the wrong type, which the operation must reject",
		Run: runTypecheckBeforeResult,
	})
	register(&Rule{
		ID: "C13.guard-agrees-with-message", Prop: "C13", Also: []string{"C11", "C14", "C05", "C17", "C18", "C02"}, Floor: 9, Controls: 1,
		Doc: "a rejection agrees with the belief its own message states: where the branch of a guard fails with a message saying that a quantity 'must not be less / greater than' a bound, 'is less / greater than' it, 'must not be negative' or 'must be non-negative', every ordering comparison in the guard is strict (< or >) — a non-strict comparison rejects the bound itself, which the message declares acceptable, so the function fails inside its documented domain",
		Run: runGuardAgreesWithMessage,
	})
	register(&Rule{
		ID: "C19.guard-on-stale-type", Prop: "C19", Also: []string{"C04", "C06", "C08", "C11", "C12", "C15", "C16", "C01", "C13"}, Floor: 20, Controls: 1,
		Doc: "a local that holds the type of a value (ty := v.Type() / v.ty) is not consulted after v was replaced by something that may have another type: between the definition of ty and each kind test or member-type accessor on ty there is no assignment to v other than the type-preserving self-updates (v, m = v.Unmark(), v = v.WithMarks(…), …) — otherwise the tests steer the traversal of the new value by the shape of the old one (members dropped, accessors applied to the wrong kind)",
		Run: runGuardOnStaleType,
	})
}

// ---------------------------------------------------------------------------
// alias resolution shared by the rules of this file

type aliasEnv struct {
	info *types.Info
	body *ast.BlockStmt
	// objects bound by `switch v := X.(type)` → X
	tswitch map[types.Object]ast.Expr
	stable  map[types.Object]bool
}

func newAliasEnv(info *types.Info, body *ast.BlockStmt) *aliasEnv {
	env := &aliasEnv{info: info, body: body, tswitch: map[types.Object]ast.Expr{}, stable: map[types.Object]bool{}}
	ast.Inspect(body, func(n ast.Node) bool {
		ts, ok := n.(*ast.TypeSwitchStmt)
		if !ok {
			return true
		}
		as, ok := ts.Assign.(*ast.AssignStmt)
		if !ok || len(as.Rhs) != 1 {
			return true
		}
		ta, ok := as.Rhs[0].(*ast.TypeAssertExpr)
		if !ok {
			return true
		}
		for _, cl := range ts.Body.List {
			if o := info.Implicits[cl]; o != nil {
				env.tswitch[o] = ta.X
			}
		}
		return true
	})
	return env
}

// neverReassigned: a local variable that is assigned exactly where it is introduced.
func (env *aliasEnv) neverReassigned(v *types.Var) bool {
	if st, ok := env.stable[v]; ok {
		return st
	}
	st := countAssigns(env.info, env.body, v) == 0
	env.stable[v] = st
	return st
}

// canon renders e with single-assignment locals replaced by their definitions and type assertions
// dropped; ok is false when the expression contains anything whose value may differ between two
// evaluations (calls) or a local that is assigned more than once.
func (env *aliasEnv) canon(e ast.Expr, depth int) (string, bool) {
	if depth > 6 {
		return "", false
	}
	switch x := ast.Unparen(e).(type) {
	case *ast.Ident:
		o := env.info.Uses[x]
		if o == nil {
			o = env.info.Defs[x]
		}
		switch v := o.(type) {
		case *types.Var:
			if v.IsField() {
				return x.Name, true
			}
			if src, ok := env.tswitch[v]; ok {
				return env.canon(src, depth+1)
			}
			if v.Pkg() != nil && v.Parent() == v.Pkg().Scope() {
				return "pkg:" + v.Name(), true
			}
			if !env.neverReassigned(v) {
				return "", false
			}
			if _, idx, rhs := findDefine(env.info, env.body, v); rhs != nil {
				if len(rhs) > idx && len(rhs) > 1 {
					return env.canon(rhs[idx], depth+1)
				}
				if len(rhs) == 1 {
					// v := e   or   v, ok := e.(T)   or   v, ok := m[k]
					switch r := ast.Unparen(rhs[0]).(type) {
					case *ast.TypeAssertExpr:
						if idx == 0 {
							return env.canon(r.X, depth+1)
						}
					case *ast.IndexExpr:
						if idx == 0 {
							return env.canon(r, depth+1)
						}
					default:
						if idx == 0 {
							if _, isCall := r.(*ast.CallExpr); !isCall {
								return env.canon(r, depth+1)
							}
						}
					}
				}
				// defined from something computed (a call): the variable stands for itself
				return fmt.Sprintf("%s@%d", v.Name(), v.Pos()), true
			}
			// parameter, receiver, range variable: itself
			return fmt.Sprintf("%s@%d", v.Name(), v.Pos()), true
		case *types.Const:
			return "const:" + v.Name(), true
		case *types.Nil:
			return "nil", true
		}
		return "", false
	case *ast.SelectorExpr:
		if s, ok := env.canon(x.X, depth+1); ok {
			return s + "." + x.Sel.Name, true
		}
		// package-qualified identifier
		if id, ok := x.X.(*ast.Ident); ok {
			if _, isPkg := env.info.Uses[id].(*types.PkgName); isPkg {
				return id.Name + "." + x.Sel.Name, true
			}
		}
		return "", false
	case *ast.IndexExpr:
		a, ok1 := env.canon(x.X, depth+1)
		b, ok2 := env.canon(x.Index, depth+1)
		return a + "[" + b + "]", ok1 && ok2
	case *ast.StarExpr:
		s, ok := env.canon(x.X, depth+1)
		return "*" + s, ok
	case *ast.TypeAssertExpr:
		return env.canon(x.X, depth+1)
	case *ast.BasicLit:
		return x.Value, true
	}
	return "", false
}

func mentionsLocalOrParam(info *types.Info, e ast.Expr) bool {
	found := false
	ast.Inspect(e, func(n ast.Node) bool {
		if id, ok := n.(*ast.Ident); ok {
			if v, ok := info.Uses[id].(*types.Var); ok && !v.IsField() && v.Pkg() != nil && v.Parent() != v.Pkg().Scope() {
				found = true
			}
		}
		return !found
	})
	return found
}

// ---------------------------------------------------------------------------
// C03.no-self-comparison

var relationalNames = map[string]bool{
	"Equals": true, "RawEquals": true, "NotEqual": true, "Equivalent": true, "Equal": true, "Less": true,
	"LessThan": true, "GreaterThan": true, "LessThanOrEqualTo": true, "GreaterThanOrEqualTo": true,
	"Cmp": true, "Compare": true, "HasPrefix": true, "TestConformance": true, "SameRules": true,
	"rawNumberEqual": true, "DeepEqual": true, "EqualFold": true,
}

func runNoSelfComparison(rr *RuleRun) {
	c := rr.Ctx
	eachFuncBody(c, allPkgs, func(pkg string, fd *ast.FuncDecl, body *ast.BlockStmt) {
		if body == nil {
			return
		}
		info := c.Info(pkg)
		var env *aliasEnv
		n := 0
		check := func(at ast.Node, x, y ast.Expr, what string) {
			if env == nil {
				env = newAliasEnv(info, body)
			}
			n++
			key := fmt.Sprintf("%s.%s/%s %s ~ %s", pkg, declName(fd), what, trunc(exprStr(x), 30), trunc(exprStr(y), 30))
			if !mentionsLocalOrParam(info, x) || !mentionsLocalOrParam(info, y) {
				rr.OKTrivial(key, at.Pos(), "a side is a constant")
				return
			}
			cx, ok1 := env.canon(x, 0)
			cy, ok2 := env.canon(y, 0)
			if !ok1 || !ok2 {
				rr.OKTrivial(key, at.Pos(), "a side is computed (a call, or a local assigned more than once): not compared")
				return
			}
			if cx == cy {
				rr.Violation(key, at.Pos(), fmt.Sprintf("both sides of this %s denote the same thing (%s): after replacing single-assignment locals and type-switch / type-assertion bindings by what they were defined from, the comparison relates a value to itself, so it always answers 'equal' — two different values of this shape are taken for the same one", what, trunc(cx, 60)))
				return
			}
			rr.OK(key, at.Pos(), "the sides denote different storage")
		}
		inspectNoLit(body, func(nd ast.Node) bool {
			switch x := nd.(type) {
			case *ast.BinaryExpr:
				switch x.Op {
				case token.EQL, token.NEQ, token.LSS, token.LEQ, token.GTR, token.GEQ:
					check(x, x.X, x.Y, "comparison")
				}
			case *ast.CallExpr:
				switch fn := x.Fun.(type) {
				case *ast.SelectorExpr:
					if !relationalNames[fn.Sel.Name] {
						return true
					}
					if sel := info.Selections[fn]; sel != nil && len(x.Args) == 1 {
						// method: receiver against the sole argument, when of one type
						if tx, ty := info.TypeOf(fn.X), info.TypeOf(x.Args[0]); tx != nil && ty != nil && types.Identical(tx, ty) {
							check(x, fn.X, x.Args[0], fn.Sel.Name)
						}
					} else if sel == nil && len(x.Args) == 2 {
						check(x, x.Args[0], x.Args[1], fn.Sel.Name)
					}
				case *ast.Ident:
					if relationalNames[fn.Name] && len(x.Args) == 2 {
						check(x, x.Args[0], x.Args[1], fn.Name)
					}
				}
			}
			return true
		})
		_ = n
	})
}

// ---------------------------------------------------------------------------
// C07.deep-function-descends

var compoundKindPreds = map[string]bool{
	"IsCollectionType": true, "IsListType": true, "IsMapType": true, "IsSetType": true,
	"IsTupleType": true, "IsObjectType": true, "CanIterateElements": true,
}

var memberAccessors = map[string]bool{
	"ElementType": true, "TupleElementTypes": true, "TupleElementType": true, "AttributeTypes": true, "AttributeType": true,
	"ElementIterator": true, "Element": true, "AsValueSlice": true, "AsValueMap": true, "AsValueSet": true,
	"GetAttr": true, "Index": true, "Values": true, "Elem": true, "Field": true, "Key": true,
}

// deepFuncs finds the functions that call themselves with a subject that is not their own subject.
type deepFunc struct {
	pkg      string
	fd       *ast.FuncDecl
	obj      *types.Func
	subjects []types.Object // receiver / parameters of type cty.Type or cty.Value
	subjIdx  []int          // -1 receiver, else parameter index
}

func subjectsOf(info *types.Info, fd *ast.FuncDecl) ([]types.Object, []int) {
	var objs []types.Object
	var idx []int
	if fd.Recv != nil && len(fd.Recv.List) == 1 && len(fd.Recv.List[0].Names) == 1 {
		o := info.Defs[fd.Recv.List[0].Names[0]]
		if o != nil && (isCtyValue(o.Type()) || isCtyType(o.Type())) {
			objs, idx = append(objs, o), append(idx, -1)
		}
	}
	i := 0
	for _, f := range fd.Type.Params.List {
		for _, nm := range f.Names {
			if o := info.Defs[nm]; o != nil && (isCtyValue(o.Type()) || isCtyType(o.Type())) {
				objs, idx = append(objs, o), append(idx, i)
			}
			i++
		}
	}
	return objs, idx
}

// sameLevel: e denotes the subject itself or a same-level view of it (marks peeled, type of it).
func sameLevelOf(info *types.Info, body ast.Node, e ast.Expr, subj types.Object) bool {
	for depth := 0; depth < 8; depth++ {
		switch x := ast.Unparen(e).(type) {
		case *ast.Ident:
			o := objOf(info, x)
			if o == subj {
				return true
			}
			// a shadowing local defined from the subject at the same level: val, marks := val.Unmark()
			if v, ok := o.(*types.Var); ok && !v.IsField() && body != nil {
				if _, idx, rhs := findDefine(info, body, v); rhs != nil {
					if len(rhs) == 1 {
						e = rhs[0]
						continue
					}
					if idx < len(rhs) {
						e = rhs[idx]
						continue
					}
				}
			}
			return false
		case *ast.SelectorExpr:
			e = x.X
		case *ast.CallExpr:
			se, ok := x.Fun.(*ast.SelectorExpr)
			if !ok || memberAccessors[se.Sel.Name] {
				return false
			}
			e = se.X
		default:
			return false
		}
	}
	return false
}

func findDeepFuncs(c *Ctx) []*deepFunc {
	var out []*deepFunc
	for _, pkg := range allPkgs {
		info := c.Info(pkg)
		for _, fd := range c.SortedDecls(pkg) {
			if fd.Body == nil {
				continue
			}
			self, _ := info.Defs[fd.Name].(*types.Func)
			if self == nil {
				continue
			}
			subs, idx := subjectsOf(info, fd)
			if len(subs) == 0 {
				continue
			}
			d := &deepFunc{pkg: pkg, fd: fd, obj: self, subjects: subs, subjIdx: idx}
			if len(d.descents(info, fd.Body, nil)) > 0 {
				out = append(out, d)
			}
		}
	}
	return out
}

// descents lists the self-calls (and, when others is given, calls of other deep functions) in root whose
// subject arguments are not all the function's own subjects.
func (d *deepFunc) descents(info *types.Info, root ast.Node, others map[*types.Func]bool) []*ast.CallExpr {
	var out []*ast.CallExpr
	ast.Inspect(root, func(n ast.Node) bool {
		call, ok := n.(*ast.CallExpr)
		if !ok {
			return true
		}
		f := callee(info, call)
		if f == nil {
			return true
		}
		if f != d.obj {
			if others[f] {
				out = append(out, call)
			}
			return true
		}
		// self-call: some subject position receives something that is not the subject at the same level
		for k, s := range d.subjects {
			var arg ast.Expr
			if d.subjIdx[k] == -1 {
				if se, ok := call.Fun.(*ast.SelectorExpr); ok {
					arg = se.X
				}
			} else if d.subjIdx[k] < len(call.Args) {
				arg = call.Args[d.subjIdx[k]]
			}
			if arg != nil && !sameLevelOf(info, d.fd.Body, arg, s) {
				out = append(out, call)
				return true
			}
		}
		return true
	})
	return out
}

func runDeepFunctionDescends(rr *RuleRun) {
	c := rr.Ctx
	deep := findDeepFuncs(c)
	others := map[*types.Func]bool{}
	for _, d := range deep {
		others[d.obj] = true
	}
	// helpers that (transitively) call a deep function take part in the recursion: a branch that delegates to
	// one of them descends through it
	for changed := true; changed; {
		changed = false
		for _, pkg := range allPkgs {
			info := c.Info(pkg)
			for _, fd := range c.SortedDecls(pkg) {
				self, _ := info.Defs[fd.Name].(*types.Func)
				if self == nil || others[self] || fd.Body == nil {
					continue
				}
				calls := false
				ast.Inspect(fd.Body, func(n ast.Node) bool {
					if call, ok := n.(*ast.CallExpr); ok && !calls {
						if f := callee(info, call); f != nil && others[f] && f.Pkg() == self.Pkg() {
							calls = true
						}
					}
					return !calls
				})
				if calls && self.Pkg() != nil {
					// only unexported helpers: an exported entry point that happens to call a deep function is not
					// part of the recursion
					if !self.Exported() {
						others[self] = true
						changed = true
					}
				}
			}
		}
	}
	for _, d := range deep {
		info := c.Info(d.pkg)
		fd := d.fd
		name := d.pkg + "." + declName(fd)
		if len(d.subjects) > 2 {
			rr.Assumed(name, fd.Pos(), "more than two cty subjects: not interpreted")
			continue
		}
		// two subjects of one type are a relation (Equals, testConformance, compareTypes, dynamicReplace): a verdict
		// there may be decided by the pair without descending (a length or kind mismatch)
		if len(d.subjects) == 2 && types.Identical(d.subjects[0].Type(), d.subjects[1].Type()) {
			rr.Assumed(name, fd.Pos(), "a relation between two subjects of one type: a verdict may follow from the pair alone")
			continue
		}
		env := newAliasEnv(info, fd.Body)
		var cf *CondFacts
		isSubjectExpr := func(e ast.Expr) types.Object {
			// s, s.ty, s.Type(), or a single-assignment alias of one of them
			e = ast.Unparen(e)
			if id, ok := e.(*ast.Ident); ok {
				if v, ok := info.Uses[id].(*types.Var); ok && !v.IsField() && env.neverReassigned(v) {
					if _, idx, rhs := findDefine(info, fd.Body, v); rhs != nil && len(rhs) > idx && len(rhs) == 1 {
						e = ast.Unparen(rhs[0])
					}
				}
			}
			switch x := e.(type) {
			case *ast.Ident:
				o := objOf(info, x)
				for _, s := range d.subjects {
					if o == s {
						return s
					}
				}
			case *ast.SelectorExpr:
				if x.Sel.Name == "ty" {
					o := objOf(info, x.X)
					for _, s := range d.subjects {
						if o == s {
							return s
						}
					}
				}
			case *ast.CallExpr:
				if se, ok := x.Fun.(*ast.SelectorExpr); ok && se.Sel.Name == "Type" && len(x.Args) == 0 {
					o := objOf(info, se.X)
					for _, s := range d.subjects {
						if o == s {
							return s
						}
					}
				}
			}
			return nil
		}
		compoundSubj := func(cond ast.Expr, truth bool) types.Object {
			if !truth {
				return nil
			}
			call, ok := ast.Unparen(cond).(*ast.CallExpr)
			if !ok {
				return nil
			}
			se, ok := call.Fun.(*ast.SelectorExpr)
			if !ok || !compoundKindPreds[se.Sel.Name] {
				return nil
			}
			return isSubjectExpr(se.X)
		}
		// a fact of its own, so that 'list || tuple || set' establishes it too (the engine intersects the
		// facts of the alternatives of a disjunction)
		cf = c.CondFactsX(fd.Body, info, nil, func(cond ast.Expr, truth bool) []Fact {
			if s := compoundSubj(cond, truth); s != nil {
				return []Fact{{"COMPOUND", objKey(s)}}
			}
			return nil
		})
		compoundAt := func(n ast.Node) bool {
			for _, s := range d.subjects {
				if cf.HasFact(n, "COMPOUND", objKey(s)) {
					return true
				}
			}
			return false
		}
		excuseCond := func(cond ast.Expr, truth bool) bool {
			cond = ast.Unparen(cond)
			// unknown / null subject; empty subject; primitive member
			if call, ok := cond.(*ast.CallExpr); ok {
				if se, ok := call.Fun.(*ast.SelectorExpr); ok {
					switch se.Sel.Name {
					case "IsKnown", "IsWhollyKnown":
						return !truth && isSubjectExpr(se.X) != nil
					case "IsNull":
						return truth && isSubjectExpr(se.X) != nil
					case "IsPrimitiveType":
						return truth && isSubjectExpr(se.X) == nil
					}
				}
			}
			if be, ok := cond.(*ast.BinaryExpr); ok && be.Op == token.EQL && truth {
				zero := func(e ast.Expr) bool { v, ok := constInt(info, e); return ok && v == 0 }
				isLenCall := func(e ast.Expr) bool {
					call, ok := ast.Unparen(e).(*ast.CallExpr)
					if !ok {
						return false
					}
					if isBuiltin(info, call, "len") {
						return true
					}
					if se, ok := call.Fun.(*ast.SelectorExpr); ok && (se.Sel.Name == "LengthInt" || se.Sel.Name == "Length" || se.Sel.Name == "Len") {
						return true
					}
					return false
				}
				lenOf := func(e ast.Expr) bool {
					if isLenCall(e) {
						return true
					}
					// l := v.LengthInt() ; switch l { case 0:     or a local every assignment of which is a length
					id, isId := ast.Unparen(e).(*ast.Ident)
					if !isId {
						return false
					}
					v, isVar := info.Uses[id].(*types.Var)
					if !isVar || v.IsField() {
						return false
					}
					n, all := 0, true
					ast.Inspect(fd.Body, func(m ast.Node) bool {
						as, ok := m.(*ast.AssignStmt)
						if !ok || len(as.Lhs) != len(as.Rhs) {
							return true
						}
						for i, l := range as.Lhs {
							if lid, ok := l.(*ast.Ident); ok && (info.Defs[lid] == v || info.Uses[lid] == v) {
								n++
								if !isLenCall(as.Rhs[i]) {
									all = false
								}
							}
						}
						return true
					})
					return n > 0 && all
				}
				if (zero(be.X) && lenOf(be.Y)) || (zero(be.Y) && lenOf(be.X)) {
					return true
				}
				// ty.Equals(EmptyObject) is a call, handled below; t == cty.String etc: a primitive member
			}
			if call, ok := cond.(*ast.CallExpr); ok && truth {
				if se, ok := call.Fun.(*ast.SelectorExpr); ok && se.Sel.Name == "Equals" && len(call.Args) == 1 {
					if isPkgVar(info, call.Args[0], "cty", "EmptyObject", "EmptyTuple") {
						return true
					}
				}
			}
			return false
		}
		parents := map[ast.Node]ast.Node{}
		var stack []ast.Node
		ast.Inspect(fd.Body, func(n ast.Node) bool {
			if n == nil {
				stack = stack[:len(stack)-1]
				return true
			}
			if len(stack) > 0 {
				parents[n] = stack[len(stack)-1]
			}
			stack = append(stack, n)
			return true
		})
		firstStmt := func(n ast.Node) ast.Stmt {
			var list []ast.Stmt
			switch x := n.(type) {
			case *ast.CaseClause:
				list = x.Body
			case *ast.BlockStmt:
				list = x.List
			}
			for _, st := range list {
				if cf.Located(st) {
					return st
				}
			}
			return nil
		}
		reported := map[ast.Node]bool{}
		nret := 0
		inspectNoLit(fd.Body, func(n ast.Node) bool {
			ret, ok := n.(*ast.ReturnStmt)
			if !ok {
				return true
			}
			nret++
			key := fmt.Sprintf("%s/return %s", name, trunc(exprStr0(ret), 40))
			if !cf.Located(ret) {
				return true
			}
			if !compoundAt(ret) {
				rr.OKTrivial(key, ret.Pos(), "not under a condition that establishes a compound subject")
				return true
			}
			if cf.HoldsAt(ret, excuseCond) {
				rr.OK(key, ret.Pos(), "the subject is unknown, null or empty here, or its member is primitive: nothing to descend into")
				return true
			}
			// an error result: failing is not answering
			for _, r := range ret.Results {
				if t := info.TypeOf(r); t != nil && isErrorType(t) && !isNilIdent(info, r) {
					rr.OKTrivial(key, ret.Pos(), "an error return")
					return true
				}
			}
			// the outermost enclosing branch body at whose start the compound fact already holds
			var anchor ast.Node = fd.Body
			for p := parents[ret]; p != nil; p = parents[p] {
				switch p.(type) {
				case *ast.CaseClause, *ast.BlockStmt:
					if fs := firstStmt(p); fs != nil && cf.Located(fs) && compoundAt(fs) {
						anchor = p
					}
				}
			}
			ok = false
			for _, dc := range d.descents(info, anchor, others) {
				if dc.Pos() < ret.End() {
					ok = true
					break
				}
			}
			if ok {
				rr.OK(key, ret.Pos(), "the branch descended into the members before this return")
				return true
			}
			if reported[anchor] {
				return true
			}
			reported[anchor] = true
			rr.Violation(key, ret.Pos(), fmt.Sprintf("%s returns here for a subject that the branch conditions establish to be compound (a collection, tuple or object) although the branch made no descent — no call of %s on a member and no call of another deep function precedes the return in it — and nothing establishes that the subject is unknown, null or empty or that its member is primitive: whatever lies deeper than the members themselves is not looked at, so the answer is wrong for values or types nested two levels down", declName(fd), fd.Name.Name))
			return true
		})
		if nret == 0 {
			rr.OKTrivial(name, fd.Pos(), "no return statements")
		}
	}
}

func exprStr0(ret *ast.ReturnStmt) string {
	var parts []string
	for _, r := range ret.Results {
		parts = append(parts, exprStr(r))
	}
	return strings.Join(parts, ", ")
}

// ---------------------------------------------------------------------------
// C02.typecheck-before-result

func runTypecheckBeforeResult(rr *RuleRun) {
	c := rr.Ctx
	for _, pkg := range []string{"cty"} {
		info := c.Info(pkg)
		for _, fd := range c.SortedDecls(pkg) {
			if fd.Body == nil {
				continue
			}
			var tc *ast.CallExpr
			inspectNoLit(fd.Body, func(n ast.Node) bool {
				if call, ok := n.(*ast.CallExpr); ok && tc == nil && isCall(info, call, "cty.mustTypeCheck", "cty.typeCheck") {
					tc = call
				}
				return true
			})
			if tc == nil || declName(fd) == "mustTypeCheck" || declName(fd) == "typeCheck" {
				continue
			}
			g := c.CFG(fd.Body, info)
			// the statement that holds the call
			parents := map[ast.Node]ast.Node{}
			var stack []ast.Node
			ast.Inspect(fd.Body, func(n ast.Node) bool {
				if n == nil {
					stack = stack[:len(stack)-1]
					return true
				}
				if len(stack) > 0 {
					parents[n] = stack[len(stack)-1]
				}
				stack = append(stack, n)
				return true
			})
			for _, ret := range g.Returns() {
				key := fmt.Sprintf("%s.%s/return %s", pkg, declName(fd), trunc(exprStr0(ret), 40))
				if g.Dominates(tc, ret) {
					rr.OK(key, ret.Pos(), "after the operand type check")
					continue
				}
				// mark prologue: inside a branch whose condition asks for marks
				inPrologue := false
				for p := parents[ast.Node(ret)]; p != nil; p = parents[p] {
					if is, ok := p.(*ast.IfStmt); ok {
						ast.Inspect(is.Cond, func(m ast.Node) bool {
							if call, ok := m.(*ast.CallExpr); ok {
								if se, ok := call.Fun.(*ast.SelectorExpr); ok && (se.Sel.Name == "IsMarked" || se.Sel.Name == "ContainsMarked") {
									inPrologue = true
								}
							}
							return true
						})
					}
				}
				if inPrologue {
					rr.OKTrivial(key, ret.Pos(), "mark prologue")
					continue
				}
				if ret.Pos() > tc.Pos() {
					// after the check in the text but not dominated by it (the check sits in one arm): not decided
					rr.Assumed(key, ret.Pos(), "the type check is on another arm of a branch")
					continue
				}
				rr.Violation(key, ret.Pos(), fmt.Sprintf("%s returns a result here before its operands were type-checked (the return is not preceded by the mustTypeCheck call on every path and is not the mark prologue): for operands of the wrong type the operation yields a value instead of rejecting them", declName(fd)))
			}
		}
	}
}

// ---------------------------------------------------------------------------
// C13.guard-agrees-with-message

var strictBeliefRE = regexp.MustCompile(`(?i)(must not be (less|greater|smaller|larger) than|\b(is|are) (less|greater|smaller|larger) than|must not be negative|cannot be negative|must be non-negative)`)

func runGuardAgreesWithMessage(rr *RuleRun) {
	c := rr.Ctx
	eachFuncBody(c, allPkgs, func(pkg string, fd *ast.FuncDecl, body *ast.BlockStmt) {
		if body == nil {
			return
		}
		info := c.Info(pkg)
		inspectNoLit(body, func(n ast.Node) bool {
			is, ok := n.(*ast.IfStmt)
			if !ok || len(is.Body.List) == 0 {
				return true
			}
			// the branch fails at once: its first statement is a return or a panic carrying the message
			var msg string
			switch st := is.Body.List[0].(type) {
			case *ast.ReturnStmt:
				msg = firstStringLit(info, st)
			case *ast.ExprStmt:
				if call, ok := st.X.(*ast.CallExpr); ok && isBuiltin(info, call, "panic") {
					msg = firstStringLit(info, st)
				}
			}
			if m := moreThanRE.FindStringSubmatch(msg); m != nil {
				checkMoreThanCap(rr, c, info, pkg, fd, is, msg, m[1])
				return true
			}
			if msg == "" || !strictBeliefRE.MatchString(msg) {
				return true
			}
			key := fmt.Sprintf("%s.%s/guard %q", pkg, declName(fd), trunc(msg, 60))
			// ordering comparisons in the guard, with the polarity they have when the guard is true
			var nonStrict []string
			nrel := 0
			var walk func(e ast.Expr, neg bool)
			walk = func(e ast.Expr, neg bool) {
				switch x := ast.Unparen(e).(type) {
				case *ast.UnaryExpr:
					if x.Op == token.NOT {
						walk(x.X, !neg)
					}
				case *ast.BinaryExpr:
					switch x.Op {
					case token.LAND, token.LOR:
						walk(x.X, neg)
						walk(x.Y, neg)
					case token.LSS, token.GTR:
						nrel++
						if neg {
							nonStrict = append(nonStrict, "!("+exprStr(x)+")")
						}
					case token.LEQ, token.GEQ:
						nrel++
						if !neg {
							nonStrict = append(nonStrict, exprStr(x))
						}
					}
				}
			}
			walk(is.Cond, false)
			switch {
			case nrel == 0:
				rr.Assumed(key, is.Pos(), "the guard has no ordering comparison of its own (decided through a method or a flag)")
			case len(nonStrict) > 0:
				rr.Violation(key, is.Pos(), fmt.Sprintf("the guard rejects with the message %q, which declares the bound itself acceptable, but compares with %s: the boundary value is rejected too, so the function fails for an argument inside the domain its own message documents", trunc(msg, 80), strings.Join(nonStrict, ", ")))
			default:
				rr.OK(key, is.Pos(), "every ordering comparison of the guard is strict, as the message says")
			}
			return true
		})
	})
}

func firstStringLit(info *types.Info, n ast.Node) string {
	var out string
	ast.Inspect(n, func(m ast.Node) bool {
		if out != "" {
			return false
		}
		if bl, ok := m.(*ast.BasicLit); ok && bl.Kind == token.STRING {
			if tv, ok := info.Types[bl]; ok && tv.Value != nil {
				out = strings.Trim(tv.Value.ExactString(), `"`)
			} else {
				out = bl.Value
			}
		}
		return true
	})
	return out
}

// ---------------------------------------------------------------------------
// C19.guard-on-stale-type

var typePreservingSelfUpdates = map[string]bool{
	"Unmark": true, "UnmarkDeep": true, "UnmarkDeepWithPaths": true, "unmarkForce": true, "Mark": true,
	"WithMarks": true, "WithSameMarks": true, "MarkWithPaths": true, "RefineNotNull": true, "NewValue": true, "Refine": true,
}

var typeReaders = map[string]bool{
	"IsPrimitiveType": true, "IsCollectionType": true, "IsListType": true, "IsMapType": true, "IsSetType": true,
	"IsTupleType": true, "IsObjectType": true, "IsCapsuleType": true, "ElementType": true, "AttributeTypes": true,
	"AttributeType": true, "TupleElementTypes": true, "TupleElementType": true, "HasAttribute": true, "Length": true,
	"Equals": true, "HasDynamicTypes": true,
}

func runGuardOnStaleType(rr *RuleRun) {
	c := rr.Ctx
	eachFuncBody(c, allPkgs, func(pkg string, fd *ast.FuncDecl, body *ast.BlockStmt) {
		if body == nil {
			return
		}
		info := c.Info(pkg)
		// locals defined as  ty := v.Type()  /  ty := v.ty   with v a variable of type cty.Value
		type alias struct {
			ty  *types.Var
			of  types.Object
			def ast.Node
		}
		var aliases []alias
		inspectNoLit(body, func(n ast.Node) bool {
			as, ok := n.(*ast.AssignStmt)
			if !ok || as.Tok != token.DEFINE || len(as.Lhs) != len(as.Rhs) {
				return true
			}
			for i, l := range as.Lhs {
				id, ok := l.(*ast.Ident)
				if !ok {
					continue
				}
				tv, _ := info.Defs[id].(*types.Var)
				if tv == nil || !isCtyType(tv.Type()) {
					continue
				}
				var of types.Object
				switch r := ast.Unparen(as.Rhs[i]).(type) {
				case *ast.CallExpr:
					if se, ok := r.Fun.(*ast.SelectorExpr); ok && se.Sel.Name == "Type" && len(r.Args) == 0 {
						if rid, ok := ast.Unparen(se.X).(*ast.Ident); ok {
							of = objOf(info, rid)
						}
					}
				case *ast.SelectorExpr:
					if r.Sel.Name == "ty" {
						if rid, ok := ast.Unparen(r.X).(*ast.Ident); ok {
							of = objOf(info, rid)
						}
					}
				}
				if of == nil || !isCtyValue(of.Type()) {
					continue
				}
				aliases = append(aliases, alias{tv, of, as})
			}
			return true
		})
		if len(aliases) == 0 {
			return
		}
		g := c.CFG(body, info)
		for _, a := range aliases {
			key := fmt.Sprintf("%s.%s/%s := type of %s", pkg, declName(fd), a.ty.Name(), a.of.Name())
			if countAssigns(info, body, a.ty) > 0 {
				rr.Assumed(key, a.def.Pos(), "the type variable is itself reassigned")
				continue
			}
			// assignments to the value after the definition that may change its type
			var changes []ast.Node
			inspectNoLit(body, func(n ast.Node) bool {
				as, ok := n.(*ast.AssignStmt)
				if !ok || as.Pos() <= a.def.Pos() {
					return true
				}
				for i, l := range as.Lhs {
					id, ok := ast.Unparen(l).(*ast.Ident)
					if !ok {
						continue
					}
					if info.Uses[id] != a.of {
						continue
					}
					// which RHS feeds it
					var rhs ast.Expr
					if len(as.Rhs) == len(as.Lhs) {
						rhs = as.Rhs[i]
					} else if len(as.Rhs) == 1 {
						rhs = as.Rhs[0]
					}
					preserving := false
					if call, ok := ast.Unparen(rhs).(*ast.CallExpr); ok {
						if se, ok := call.Fun.(*ast.SelectorExpr); ok && typePreservingSelfUpdates[se.Sel.Name] && rootObj(info, se.X) == a.of {
							preserving = true
						}
					}
					if !preserving {
						changes = append(changes, as)
					}
				}
				return true
			})
			if len(changes) == 0 {
				rr.OKTrivial(key, a.def.Pos(), "the value is not replaced after its type was read")
				continue
			}
			bad := false
			inspectNoLit(body, func(n ast.Node) bool {
				if bad {
					return false
				}
				call, ok := n.(*ast.CallExpr)
				if !ok {
					return true
				}
				se, ok := call.Fun.(*ast.SelectorExpr)
				if !ok || !typeReaders[se.Sel.Name] {
					return true
				}
				id, ok := ast.Unparen(se.X).(*ast.Ident)
				if !ok || info.Uses[id] != a.ty {
					return true
				}
				for _, ch := range changes {
					if ch.Pos() < call.Pos() && g.Dominates(a.def, ch) && g.Dominates(ch, call) {
						bad = true
						rr.Violation(key, call.Pos(), fmt.Sprintf("%s.%s() consults the type read from %s before %s was replaced at %s (an assignment that is not one of the type-preserving self-updates): the test describes the old value, and the code it steers works on the new one — members the new value has are skipped and accessors are applied to a kind the value may no longer have", a.ty.Name(), se.Sel.Name, a.of.Name(), a.of.Name(), c.PosStr(ch.Pos())))
						return false
					}
				}
				return true
			})
			if !bad {
				rr.OK(key, a.def.Pos(), "no kind test or member-type accessor on the stored type is dominated by a replacement of the value")
			}
		}
	})
}

// ---------------------------------------------------------------------------
// C10.null-check-independent-of-type

func init() {
	register(&Rule{
		ID: "C10.null-check-independent-of-type", Prop: "C10", Also: []string{"C11"}, Floor: 1, Controls: 0,
		Doc: "in package function the rejection of a null argument (an ArgError returned under a condition X.IsNull()) does not depend on the argument's type: it is not reached only on paths that already decided whether the argument's type is the dynamic pseudo-type or conforms to the parameter's type — an untyped null (a null of the dynamic type) is null too, and a null check placed behind the dynamic-type branch lets it through to the callbacks of a parameter that does not allow nulls",
		Run: runNullCheckIndependentOfType,
	})
}

func runNullCheckIndependentOfType(rr *RuleRun) {
	c := rr.Ctx
	pkg := "cty/function"
	info := c.Info(pkg)
	mentionsTypeDecision := func(e ast.Expr) bool {
		found := false
		ast.Inspect(e, func(n ast.Node) bool {
			switch x := n.(type) {
			case *ast.SelectorExpr:
				if x.Sel.Name == "DynamicPseudoType" || x.Sel.Name == "TestConformance" || x.Sel.Name == "AllowDynamicType" {
					found = true
				}
			}
			return !found
		})
		return found
	}
	for _, fd := range c.SortedDecls(pkg) {
		if fd.Body == nil {
			continue
		}
		var cf *CondFacts
		inspectNoLit(fd.Body, func(n ast.Node) bool {
			ret, ok := n.(*ast.ReturnStmt)
			if !ok {
				return true
			}
			isArgErr := false
			for _, r := range ret.Results {
				if call, ok := ast.Unparen(r).(*ast.CallExpr); ok && isCall(info, call, pkg+".NewArgErrorf", pkg+".NewArgError") {
					isArgErr = true
				}
			}
			if !isArgErr {
				return true
			}
			if cf == nil {
				cf = c.CondFacts(fd.Body, info, nil)
			}
			isNullCond := func(cond ast.Expr, truth bool) bool {
				call, ok := ast.Unparen(cond).(*ast.CallExpr)
				if !ok || !truth {
					return false
				}
				se, ok := call.Fun.(*ast.SelectorExpr)
				return ok && se.Sel.Name == "IsNull" && isCtyValue(info.TypeOf(se.X))
			}
			if !cf.HoldsAt(ret, isNullCond) {
				return true
			}
			key := fmt.Sprintf("%s.%s/null rejection %s", pkg, declName(fd), trunc(exprStr(ret.Results[len(ret.Results)-1]), 50))
			if cf.HoldsAt(ret, func(cond ast.Expr, truth bool) bool { return mentionsTypeDecision(cond) }) {
				rr.Violation(key, ret.Pos(), "the rejection of a null argument is reached only after a decision on the argument's type (dynamic pseudo-type / conformance): a null of the dynamic type takes the other branch and is never rejected, so the callbacks of a parameter that does not allow nulls receive a null")
				return true
			}
			rr.OK(key, ret.Pos(), "the null check does not depend on the argument's type")
			return true
		})
	}
}

// ---------------------------------------------------------------------------
// C10.param-flags-not-rewritten

func init() {
	register(&Rule{
		ID: "C10.param-flags-not-rewritten", Prop: "C10", Also: []string{"C04", "C12"}, Floor: 1, Controls: 0,
		Doc: "package function never rewrites the contract of a parameter: no assignment targets the Type, AllowNull, AllowUnknown, AllowDynamicType or AllowMarked field of a function.Parameter (the flags are set in Spec literals by the function's author only; wrappers such as Unpredictable and WithNewDescriptions may change descriptions and the implementation) — a wrapper that flips a flag makes Call skip the unmarking, null or unknown handling the original function was declared with",
		Run: runParamFlagsNotRewritten,
	})
}

func runParamFlagsNotRewritten(rr *RuleRun) {
	c := rr.Ctx
	pkg := "cty/function"
	info := c.Info(pkg)
	contract := map[string]bool{"Type": true, "AllowNull": true, "AllowUnknown": true, "AllowDynamicType": true, "AllowMarked": true}
	n := 0
	for _, fd := range c.SortedDecls(pkg) {
		if fd.Body == nil {
			continue
		}
		ast.Inspect(fd.Body, func(m ast.Node) bool {
			var lhs []ast.Expr
			switch s := m.(type) {
			case *ast.AssignStmt:
				lhs = s.Lhs
			case *ast.IncDecStmt:
				lhs = []ast.Expr{s.X}
			}
			for _, l := range lhs {
				se, ok := ast.Unparen(l).(*ast.SelectorExpr)
				if !ok {
					continue
				}
				sel := info.Selections[se]
				if sel == nil || sel.Kind() != types.FieldVal {
					continue
				}
				if namedType(sel.Recv()) != "cty/function.Parameter" {
					continue
				}
				n++
				key := fmt.Sprintf("%s.%s/%s =", pkg, declName(fd), exprStr(se))
				if contract[se.Sel.Name] {
					rr.Violation(key, l.Pos(), fmt.Sprintf("the %s field of a function.Parameter is assigned here: the declared contract of an existing function's parameter is rewritten, so the derived function is called without the unmarking / null / unknown / type handling its specification promises", se.Sel.Name))
				} else {
					rr.OKTrivial(key, l.Pos(), "not a contract field")
				}
			}
			return true
		})
	}
	if n == 0 {
		rr.OKTrivial(pkg+"/no-parameter-field-writes", token.NoPos, "no field of a Parameter is assigned anywhere in the package")
	}
}

// ---------------------------------------------------------------------------
// C16.ext-codes-complete

func init() {
	register(&Rule{
		ID: "C16.ext-codes-complete", Prop: "C16", Also: []string{"C17"}, Floor: 2, Controls: 0,
		Doc: "the MessagePack decoder recognises an unknown value by the whole extension family: a function of package msgpack that looks at a peeked code either asks msgpcode.IsExt or, if it compares with individual extension codes, compares with every constant of package msgpcode named FixExt<n> / Ext<n> — the encoder leaves the choice of the extension header to the library (EncodeExtHeader picks fixext1/2/4/8/16 or ext8/16/32 by payload length), so a reader that knows only some of the codes fails on the writer's own output for payloads of the other lengths",
		Run: runExtCodesComplete,
	})
}

func runExtCodesComplete(rr *RuleRun) {
	c := rr.Ctx
	pkg := "cty/msgpack"
	info := c.Info(pkg)
	extName := regexp.MustCompile(`^(Fix)?Ext[0-9]+$`)
	// the family, read from the library package itself
	var family []string
	var codePkg *types.Package
	for _, imp := range c.Pkg(pkg).Types.Imports() {
		if strings.HasSuffix(imp.Path(), "/msgpcode") {
			codePkg = imp
		}
	}
	if codePkg == nil {
		rr.Broken("stale anchor: package msgpack no longer imports msgpcode")
		return
	}
	for _, nm := range codePkg.Scope().Names() {
		switch codePkg.Scope().Lookup(nm).(type) {
		case *types.Const, *types.Var:
		default:
			continue
		}
		if extName.MatchString(nm) {
			family = append(family, nm)
		}
	}
	if len(family) < 8 {
		rr.Broken(fmt.Sprintf("msgpcode declares %d extension codes, fewer than the 8 of the MessagePack specification", len(family)))
		return
	}
	for _, fd := range c.SortedDecls(pkg) {
		if fd.Body == nil {
			continue
		}
		used := map[string]token.Pos{}
		isExtCalls := 0
		ast.Inspect(fd.Body, func(n ast.Node) bool {
			switch x := n.(type) {
			case *ast.CallExpr:
				if f := callee(info, x); f != nil && f.Pkg() == codePkg && f.Name() == "IsExt" {
					isExtCalls++
					rr.OK(fmt.Sprintf("%s.%s/IsExt", pkg, declName(fd)), x.Pos(), "the whole extension family is asked for")
				}
			case *ast.SelectorExpr:
				if o := info.Uses[x.Sel]; o != nil && o.Pkg() == codePkg && o.Parent() == codePkg.Scope() && extName.MatchString(o.Name()) {
					if _, seen := used[o.Name()]; !seen {
						used[o.Name()] = x.Pos()
					}
				}
			}
			return true
		})
		if len(used) == 0 {
			continue
		}
		key := fmt.Sprintf("%s.%s/extension codes", pkg, declName(fd))
		var missing []string
		var first token.Pos
		for _, nm := range family {
			if p, ok := used[nm]; !ok {
				missing = append(missing, nm)
			} else if !first.IsValid() || p < first {
				first = p
			}
		}
		switch {
		case len(missing) == 0:
			rr.OK(key, first, "every extension code of msgpcode is compared with")
		case isExtCalls > 0:
			rr.Assumed(key, first, "some extension codes are singled out, and IsExt is asked as well")
		default:
			rr.Violation(key, first, fmt.Sprintf("the function compares a code with individual extension codes but not with %s (and does not ask msgpcode.IsExt): the encoder's extension header is chosen by the library from the payload length, so an unknown value whose refinements encode to one of the other lengths is not recognised and is handed to the decoder of ordinary values", strings.Join(missing, ", ")))
		}
	}
}

// ---------------------------------------------------------------------------
// C18.nil-before-empty

func init() {
	register(&Rule{
		ID: "C18.nil-is-null", Prop: "C18", Floor: 5, Controls: 0,
		Doc: "in package gocty a nil Go slice or map becomes null, never a value: inside a case of a switch on X.Kind() that is labelled with nilable kinds only (reflect.Slice, reflect.Map), every successful return (nil error) of something other than cty.NullVal lies on paths where X.IsNil() was tested and found false — an emptiness shortcut (Len() == 0) placed before the nil test turns a nil map into an empty one, so nil does not survive the round trip",
		Run: runNilIsNull,
	})
}

func runNilIsNull(rr *RuleRun) {
	c := rr.Ctx
	pkg := "cty/gocty"
	info := c.Info(pkg)
	nilable := map[string]bool{"Slice": true, "Map": true}
	for _, fd := range c.SortedDecls(pkg) {
		if fd.Body == nil {
			continue
		}
		var cf *CondFacts
		inspectNoLit(fd.Body, func(n ast.Node) bool {
			sw, ok := n.(*ast.SwitchStmt)
			if !ok || sw.Tag == nil {
				return true
			}
			tag, ok := ast.Unparen(sw.Tag).(*ast.CallExpr)
			if !ok {
				return true
			}
			se, ok := tag.Fun.(*ast.SelectorExpr)
			if !ok || se.Sel.Name != "Kind" || namedTypeNoPtr(info.TypeOf(se.X)) != "reflect.Value" {
				return true
			}
			subj := objOf(info, se.X)
			if subj == nil {
				return true
			}
			for _, cl := range sw.Body.List {
				cc := cl.(*ast.CaseClause)
				if len(cc.List) == 0 {
					continue
				}
				all := true
				var label []string
				for _, e := range cc.List {
					s, ok := ast.Unparen(e).(*ast.SelectorExpr)
					if !ok || !nilable[s.Sel.Name] {
						all = false
					} else {
						label = append(label, s.Sel.Name)
					}
				}
				if !all {
					continue
				}
				key := fmt.Sprintf("%s.%s/case reflect.%s", pkg, declName(fd), strings.Join(label, ","))
				bad := false
				nret := 0
				for _, st := range cc.Body {
					inspectNoLit(st, func(m ast.Node) bool {
						ret, ok := m.(*ast.ReturnStmt)
						if !ok || len(ret.Results) < 2 || bad {
							return true
						}
						if !isNilIdent(info, ret.Results[len(ret.Results)-1]) {
							return true // an error return
						}
						if call, ok := ast.Unparen(ret.Results[0]).(*ast.CallExpr); ok && isCall(info, call, "cty.NullVal") {
							return true
						}
						if !isCtyValue(info.TypeOf(ret.Results[0])) {
							return true
						}
						nret++
						if cf == nil {
							cf = c.CondFacts(fd.Body, info, nil)
						}
						if !cf.Located(ret) {
							return true
						}
						if !cf.HoldsAt(ret, func(cond ast.Expr, truth bool) bool { return !truth && methodCond(info, cond, subj, "IsNil") }) {
							bad = true
							rr.Violation(key, ret.Pos(), fmt.Sprintf("this successful return of %s is reached without %s.IsNil() having been tested (and found false): a nil Go %s takes this path and becomes a non-null value, so nil does not correspond to null and the round trip turns nil into an empty collection", trunc(exprStr(ret.Results[0]), 40), subj.Name(), strings.ToLower(strings.Join(label, "/"))))
						}
						return true
					})
				}
				if !bad {
					rr.OK(key, cc.Pos(), fmt.Sprintf("%d successful non-null return(s), each after the nil test", nret))
				}
			}
			return true
		})
	}
}

// ---------------------------------------------------------------------------
// C17.capped-hint-is-capacity-only

func init() {
	register(&Rule{
		ID: "C17.capped-hint-is-capacity-only", Prop: "C17", Also: []string{"C16"}, Floor: 1, Controls: 0,
		Doc: "a capped allocation hint is used as a capacity, never as a length: where a decoder sizes a slice with the result of a clamping helper (a function of the package that returns its integer parameter on one path and a constant on another, such as preallocLen) the result is the capacity argument of make (or the size hint of a map), and the slice is filled by append — used as the length, the slice is shorter than the announced element count for every input above the cap, and the indexed fill that goes with it runs off its end",
		Run: runCappedHintIsCapacityOnly,
	})
}

func runCappedHintIsCapacityOnly(rr *RuleRun) {
	c := rr.Ctx
	for _, pkg := range []string{"cty/msgpack", "cty/json"} {
		info := c.Info(pkg)
		// clamping helpers
		clamps := map[*types.Func]bool{}
		for _, fd := range c.SortedDecls(pkg) {
			if fd.Body == nil || fd.Recv != nil || fd.Type.Params.NumFields() != 1 || fd.Type.Results.NumFields() != 1 {
				continue
			}
			p := paramIdent(fd, 0)
			if p == nil {
				continue
			}
			po := info.Defs[p]
			if b, ok := po.Type().Underlying().(*types.Basic); !ok || b.Info()&types.IsInteger == 0 {
				continue
			}
			retParam, retConst := false, false
			inspectNoLit(fd.Body, func(n ast.Node) bool {
				if ret, ok := n.(*ast.ReturnStmt); ok && len(ret.Results) == 1 {
					if objOf(info, ret.Results[0]) == po {
						retParam = true
					} else if tv, ok := info.Types[ret.Results[0]]; ok && tv.Value != nil {
						retConst = true
					}
				}
				return true
			})
			if retParam && retConst {
				if f, ok := info.Defs[fd.Name].(*types.Func); ok {
					clamps[f] = true
				}
			}
		}
		if len(clamps) == 0 {
			rr.OKTrivial(pkg+"/no clamping helper", token.NoPos, "the package has no clamping helper")
			continue
		}
		for _, fd := range c.SortedDecls(pkg) {
			if fd.Body == nil {
				continue
			}
			ast.Inspect(fd.Body, func(n ast.Node) bool {
				mk, ok := n.(*ast.CallExpr)
				if !ok || !isBuiltin(info, mk, "make") || len(mk.Args) < 2 {
					return true
				}
				for i, a := range mk.Args[1:] {
					call, ok := ast.Unparen(a).(*ast.CallExpr)
					if !ok {
						continue
					}
					f := callee(info, call)
					if f == nil || !clamps[f] {
						continue
					}
					key := fmt.Sprintf("%s.%s/make(%s, …%s…)", pkg, declName(fd), exprStr(mk.Args[0]), f.Name())
					_, isSlice := info.TypeOf(mk.Args[0]).Underlying().(*types.Slice)
					if isSlice && i == 0 {
						rr.Violation(key, mk.Pos(), fmt.Sprintf("the capped hint %s is the LENGTH of the slice made here: for an announced count above the cap the slice is shorter than the number of elements the decoder goes on to read, so filling it by index panics (index out of range) on a well-formed document", exprStr(a)))
					} else {
						rr.OK(key, mk.Pos(), "capacity / size hint only")
					}
				}
				return true
			})
		}
	}
}

// ---------------------------------------------------------------------------
// C16.dynamic-wrapper-writes-type

func init() {
	register(&Rule{
		ID: "C16.dynamic-wrapper-writes-type", Prop: "C16", Also: []string{"C15"}, Floor: 2, Controls: 0,
		Doc: "the encoders of a value in a dynamically-typed position always write its type: in dynamicVal.MarshalMsgpack and in the JSON marshalDynamic every successful return (nil error) is preceded on every path by the serialisation of the value's type (Type.MarshalJSON / MarshalType) and by a call that writes the serialised type to the output — a shortcut that emits the value alone (an unknown value, a null) leaves the decoder without the type, and the value comes back as a value of the dynamic pseudo-type with its type and refinements lost",
		Run: runDynamicWrapperWritesType,
	})
}

func runDynamicWrapperWritesType(rr *RuleRun) {
	c := rr.Ctx
	for _, u := range []struct{ pkg, fn string }{{"cty/msgpack", "dynamicVal.MarshalMsgpack"}, {"cty/json", "marshalDynamic"}} {
		fd := rr.MustDecl(u.pkg, u.fn)
		if fd == nil {
			continue
		}
		info := c.Info(u.pkg)
		g := c.CFG(fd.Body, info)
		// the serialised type
		var tvar types.Object
		var tdef ast.Node
		inspectNoLit(fd.Body, func(n ast.Node) bool {
			as, ok := n.(*ast.AssignStmt)
			if !ok || len(as.Rhs) != 1 || tvar != nil {
				return true
			}
			call, ok := ast.Unparen(as.Rhs[0]).(*ast.CallExpr)
			if !ok {
				return true
			}
			f := callee(info, call)
			if f == nil || (f.Name() != "MarshalJSON" && f.Name() != "MarshalType") {
				return true
			}
			if id, ok := as.Lhs[0].(*ast.Ident); ok {
				tvar = objOf(info, id)
				tdef = as
			}
			return true
		})
		key := u.pkg + "." + u.fn
		if tvar == nil {
			rr.Violation(key+"/type", fd.Pos(), "the function never serialises the value's type (no call of Type.MarshalJSON / MarshalType whose result is kept): the dynamic wrapper is written without the type the decoder needs")
			continue
		}
		var writes []ast.Node
		inspectNoLit(fd.Body, func(n ast.Node) bool {
			call, ok := n.(*ast.CallExpr)
			if !ok || call.Pos() < tdef.End() {
				return true
			}
			for _, a := range call.Args {
				if mentionsObj(info, a, tvar) {
					writes = append(writes, call)
				}
			}
			return true
		})
		// a write that is made only 'if err == nil' (the steps before it succeeded) is as good as an unconditional
		// one for the successful returns: the node that must dominate them is then the error test itself
		for i, w := range writes {
			var anchor ast.Node = w
			for p := c.Parent(w); p != nil && p != ast.Node(fd.Body); p = c.Parent(p) {
				is, ok := p.(*ast.IfStmt)
				if !ok {
					continue
				}
				be, ok := ast.Unparen(is.Cond).(*ast.BinaryExpr)
				if ok && be.Op == token.EQL && isNilIdent(info, be.Y) && info.TypeOf(be.X) != nil && isErrorType(info.TypeOf(be.X)) && w.Pos() >= is.Body.Pos() && w.End() <= is.Body.End() {
					anchor = is.Cond
				} else {
					anchor = w
					break
				}
			}
			writes[i] = anchor
		}
		for _, ret := range g.Returns() {
			if len(ret.Results) == 0 {
				continue
			}
			last := ret.Results[len(ret.Results)-1]
			if t := info.TypeOf(last); t != nil && isErrorType(t) && !isNilIdent(info, last) {
				continue // a failure: an error is returned
			}
			k := fmt.Sprintf("%s/return %s", key, trunc(exprStr0(ret), 30))
			ok := false
			for _, w := range writes {
				if g.Dominates(w, ret) {
					ok = true
				}
			}
			if ok {
				rr.OK(k, ret.Pos(), "the serialised type was written on every path to this return")
			} else {
				rr.Violation(k, ret.Pos(), fmt.Sprintf("this successful return is not preceded on every path by a call that writes the serialised type (%s): some values are emitted without their type, so the decoder, which expects the wrapper, loses the type (an unknown value comes back as cty.DynamicVal without its type constraint and refinements) or fails on the encoder's own output", tvar.Name()))
			}
		}
	}
}


var moreThanRE = regexp.MustCompile(`(?i)\bmore than ([0-9]+)\b`)

// checkMoreThanCap: 'if len(X) >= N { fail "more than N …" }' inside a loop that appends to X is right only when the
// test comes before the append of the same iteration (N elements are there, one more is about to be added); placed
// after the append it rejects exactly N elements, which the message allows.
func checkMoreThanCap(rr *RuleRun, c *Ctx, info *types.Info, pkg string, fd *ast.FuncDecl, is *ast.IfStmt, msg, num string) {
	be, ok := ast.Unparen(is.Cond).(*ast.BinaryExpr)
	if !ok || (be.Op != token.GEQ && be.Op != token.GTR) {
		return
	}
	lc, ok := ast.Unparen(be.X).(*ast.CallExpr)
	if !ok || !isBuiltin(info, lc, "len") || len(lc.Args) != 1 {
		return
	}
	n, ok := constInt(info, be.Y)
	if !ok || fmt.Sprint(n) != num {
		return
	}
	x := objOf(info, lc.Args[0])
	if x == nil {
		return
	}
	// the enclosing loop body
	var loopBody *ast.BlockStmt
	for p := c.Parent(is); p != nil; p = c.Parent(p) {
		switch l := p.(type) {
		case *ast.ForStmt:
			loopBody = l.Body
		case *ast.RangeStmt:
			loopBody = l.Body
		}
		if loopBody != nil {
			break
		}
	}
	if loopBody == nil {
		return
	}
	key := fmt.Sprintf("%s.%s/cap %q", pkg, declName(fd), trunc(msg, 40))
	appendBefore, appendAfter := false, false
	inspectNoLit(loopBody, func(m ast.Node) bool {
		as, ok := m.(*ast.AssignStmt)
		if !ok || len(as.Lhs) != 1 || len(as.Rhs) != 1 || objOf(info, as.Lhs[0]) != x {
			return true
		}
		if call, ok := ast.Unparen(as.Rhs[0]).(*ast.CallExpr); ok && isBuiltin(info, call, "append") {
			if as.Pos() < is.Pos() {
				appendBefore = true
			} else {
				appendAfter = true
			}
		}
		return true
	})
	switch {
	case be.Op == token.GEQ && appendBefore:
		rr.Violation(key, is.Pos(), fmt.Sprintf("the cap 'len(%s) >= %s' is tested after the element of this iteration was appended, and fails with %q: a result of exactly %s elements is rejected although the message allows it (the test belongs before the append, where %s elements are there and one more is about to be added)", x.Name(), num, trunc(msg, 50), num, num))
	case be.Op == token.GTR && appendAfter && !appendBefore:
		rr.Violation(key, is.Pos(), fmt.Sprintf("the cap 'len(%s) > %s' is tested before the append of this iteration: %s+1 elements are accepted although the message draws the line at %s", x.Name(), num, num, num))
	default:
		rr.OK(key, is.Pos(), "the cap is tested on the side of the append that its message implies")
	}
}
