package main

import (
	"fmt"
	"go/ast"
	"go/constant"
	"go/token"
	"go/types"
	"sort"
	"strings"
)

// Round 8 — rules for functions that no rule looked into (found by a coverage census of the obligations):
//   C05.synthetic-range-exact       Value.Range describes a known value exactly
//   C01.typecheck-shape             typeCheck looks at every operand and ranks dynamic over unknown
//   C18.kind-families-complete      a reflect.Kind switch in gocty names whole families of numeric kinds

func init() {
	register(&Rule{
		ID: "C05.synthetic-range-exact", Prop: "C05", Also: []string{"C01"}, Floor: 3, Controls: 0,
		Doc: "Value.Range describes a known value exactly: the number range it synthesises has the receiver itself as both bounds with both bounds inclusive, the string range has the receiver's whole string as its prefix, the collection range built when the length is known uses one expression for both length bounds (and the widest range 0 … MaxInt otherwise), the range of a null says 'null', the range of an unrefined unknown says 'nullness unknown', and every synthetic range is marked not-null before it is returned — ValueRange.Includes and the range-based short-cuts of Equals, LessThan and GreaterThan take these ranges for the truth about known operands",
		Run: runSyntheticRangeExact,
	})
	register(&Rule{
		ID: "C01.typecheck-shape", Prop: "C01", Also: []string{"C02"}, Floor: 5, Controls: 0,
		Doc: "typeCheck, which decides for every arithmetic, comparison and logical operation whether to short-circuit, looks at every operand and ranks its answers: the loop over the operands has no exit other than the type-mismatch error; an operand of the dynamic pseudo-type is exempted from the type comparison before that comparison; the flag for an unknown operand is set from a test of that operand's payload; the result 'no short-circuit' (nil, nil) is returned only where both flags were tested and found false; and the unknown-typed short-circuit is returned only where the dynamic flag was found false (a dynamic operand makes the result type unknowable, so DynamicVal wins)",
		Run: runTypecheckShape,
	})
	register(&Rule{
		ID: "C18.kind-families-complete", Prop: "C18", Floor: 4, Controls: 0,
		Doc: "a switch on a reflect.Kind in package gocty that handles one width of a numeric family handles the whole family: if its cases name any signed integer kind they name Int, Int8, Int16, Int32 and Int64, if any unsigned kind then Uint, Uint8, Uint16, Uint32 and Uint64, if any float kind then Float32 and Float64 — a missing width makes that Go type unbridgeable in one direction while the other direction and ImpliedType still accept it",
		Run: runKindFamiliesComplete,
	})
}

// ---------------------------------------------------------------------------

func litField(lit *ast.CompositeLit, name string) ast.Expr {
	for _, el := range lit.Elts {
		if kv, ok := el.(*ast.KeyValueExpr); ok {
			if id, ok := kv.Key.(*ast.Ident); ok && id.Name == name {
				return kv.Value
			}
		}
	}
	return nil
}

func runSyntheticRangeExact(rr *RuleRun) {
	c := rr.Ctx
	info := c.Info("cty")
	fd := rr.MustDecl("cty", "Value.Range")
	if fd == nil {
		return
	}
	recv := info.Defs[fd.Recv.List[0].Names[0]]
	cf := c.CondFacts(fd.Body, info, nil)
	g := c.CFG(fd.Body, info)
	isTrue := func(e ast.Expr) bool {
		tv, ok := info.Types[e]
		return ok && tv.Value != nil && tv.Value.Kind() == constant.Bool && constant.BoolVal(tv.Value)
	}
	nlits := 0
	var synthVar types.Object
	// the function itself, and unexported helpers it hands the receiver to (the synthetic refinements may be
	// built in a function of their own)
	type unit struct {
		fd   *ast.FuncDecl
		subj types.Object
		cf   *CondFacts
	}
	units := []unit{{fd, recv, cf}}
	inspectNoLit(fd.Body, func(n ast.Node) bool {
		call, ok := n.(*ast.CallExpr)
		if !ok {
			return true
		}
		f := callee(info, call)
		if f == nil || f.Pkg() == nil || shortPkg(f.Pkg()) != "cty" || f.Exported() {
			return true
		}
		hd := c.Decl("cty", funcDeclKey(f))
		if hd == nil || hd.Body == nil || hd == fd || hd.Recv != nil {
			return true
		}
		for i, a := range call.Args {
			if objOf(info, a) == recv {
				if p := paramIdent(hd, i); p != nil {
					units = append(units, unit{hd, info.Defs[p], c.CondFacts(hd.Body, info, nil)})
					// the variable the helper's result is kept in
					if as, ok := c.Parent(call).(*ast.AssignStmt); ok && len(as.Lhs) == 1 {
						if o := objOf(info, as.Lhs[0]); o != nil && synthVar == nil {
							synthVar = o
						}
					}
				}
			}
		}
		return true
	})
	for _, u := range units {
		recv, cf := u.subj, u.cf
		where := "cty." + declName(u.fd)
		inspectNoLit(u.fd.Body, func(n ast.Node) bool {
			lit, ok := n.(*ast.CompositeLit)
			if !ok {
				return true
			}
			tn := namedTypeNoPtr(info.TypeOf(lit))
			key := where + "/" + strings.TrimPrefix(tn, "cty.")
			// remember the variable the synthetic refinement is kept in
			if u.fd == fd {
				if as, ok := c.Parent(c.Parent(lit)).(*ast.AssignStmt); ok && len(as.Lhs) == 1 {
					if o := objOf(info, as.Lhs[0]); o != nil && strings.HasPrefix(tn, "cty.refinement") && tn != "cty.refinementNullable" {
						synthVar = o
					}
				}
			}
			switch tn {
			case "cty.refinementNumber":
				nlits++
				mn, mx, mi, xi := litField(lit, "min"), litField(lit, "max"), litField(lit, "minInc"), litField(lit, "maxInc")
				switch {
				case mn == nil || mx == nil || objOf(info, mn) != recv || objOf(info, mx) != recv:
					rr.Violation(key, lit.Pos(), "the synthetic number range of a known value does not have the value itself as both its lower and its upper bound: the range reported for a known number is not the number")
				case mi == nil || xi == nil || !isTrue(mi) || !isTrue(xi):
					rr.Violation(key, lit.Pos(), "the synthetic number range of a known value does not include both of its (equal) bounds: a range [v, v) or (v, v] is empty, so Includes rejects the value itself and range-based comparisons with it give definite wrong answers")
				default:
					rr.OK(key, lit.Pos(), "min = max = the receiver, both inclusive")
				}
			case "cty.refinementString":
				nlits++
				p := litField(lit, "prefix")
				call, _ := ast.Unparen(p).(*ast.CallExpr)
				ok := false
				if call != nil {
					if se, isSel := call.Fun.(*ast.SelectorExpr); isSel && se.Sel.Name == "AsString" && objOf(info, se.X) == recv {
						ok = true
					}
				}
				if ok {
					rr.OK(key, lit.Pos(), "the prefix is the receiver's whole string")
				} else {
					rr.Violation(key, lit.Pos(), "the synthetic string range of a known value does not use the value's whole string as its prefix: the range admits strings the known value is not equal to, or excludes the value itself")
				}
			case "cty.refinementCollection":
				nlits++
				mn, mx := litField(lit, "minLen"), litField(lit, "maxLen")
				if mn == nil || mx == nil {
					rr.Violation(key, lit.Pos(), "a synthetic collection range leaves a length bound at its zero value")
					return true
				}
				knownLen := cf.HoldsAt(lit, func(cond ast.Expr, truth bool) bool {
					call, ok := ast.Unparen(cond).(*ast.CallExpr)
					if !ok || !truth {
						return false
					}
					se, ok := call.Fun.(*ast.SelectorExpr)
					return ok && se.Sel.Name == "IsKnown"
				})
				if knownLen {
					if exprStr(mn) == exprStr(mx) {
						rr.OK(key, lit.Pos(), "known length: both bounds are "+exprStr(mn))
					} else {
						rr.Violation(key, lit.Pos(), fmt.Sprintf("the length of the collection is known here, but the synthetic range has different bounds (%s … %s): the range reported for a known collection is not its length", exprStr(mn), exprStr(mx)))
					}
				} else {
					lo, ok1 := constInt(info, mn)
					tv, ok2 := info.Types[mx]
					wide := ok2 && tv.Value != nil && constant.Compare(tv.Value, token.GEQ, constant.MakeInt64(1<<31-1))
					if ok1 && lo == 0 && wide {
						rr.OK(key, lit.Pos(), "length not known: the widest range")
					} else {
						rr.Violation(key, lit.Pos(), "the length of the collection is not established to be known here, and the synthetic range is narrower than 0 … MaxInt: lengths the value may still have are excluded")
					}
				}
			}
			return true
		})
	}
	if nlits < 3 {
		rr.Assumed("cty.Value.Range/synthetic refinements", fd.Pos(), fmt.Sprintf("only %d synthetic number / string / collection refinements were found in Value.Range and the helpers it hands its receiver to: built somewhere this rule does not follow", nlits))
	}
	// the final return is dominated by setNull(tristateFalse) on the synthetic refinement
	var setNull ast.Node
	inspectNoLit(fd.Body, func(n ast.Node) bool {
		call, ok := n.(*ast.CallExpr)
		if !ok {
			return true
		}
		if se, ok := call.Fun.(*ast.SelectorExpr); ok && se.Sel.Name == "setNull" && len(call.Args) == 1 {
			if id, ok := ast.Unparen(call.Args[0]).(*ast.Ident); ok && id.Name == "tristateFalse" {
				setNull = call
			}
		}
		return true
	})
	for _, ret := range g.Returns() {
		if len(ret.Results) != 1 {
			continue
		}
		lit, ok := ast.Unparen(ret.Results[0]).(*ast.CompositeLit)
		if !ok || len(lit.Elts) != 2 {
			continue
		}
		second := lit.Elts[1]
		if kv, ok := second.(*ast.KeyValueExpr); ok {
			second = kv.Value
		}
		key := "cty.Value.Range/return " + trunc(exprStr(ret.Results[0]), 40)
		if id, ok := ast.Unparen(second).(*ast.Ident); ok && synthVar != nil && objOf(info, id) == synthVar {
			if setNull != nil && g.Dominates(setNull, ret) {
				rr.OK(key, ret.Pos(), "the synthetic range is marked not-null before it is returned")
			} else {
				rr.Violation(key, ret.Pos(), "the synthetic range of a known, non-null value is returned without setNull(tristateFalse) on every path: the range of a known value says it may be null, so definitely-not-null answers are lost")
			}
			continue
		}
		// a literal nullable refinement: null ⇒ tristateTrue
		if u, ok := ast.Unparen(second).(*ast.UnaryExpr); ok {
			if nl, ok := u.X.(*ast.CompositeLit); ok && namedTypeNoPtr(info.TypeOf(nl)) == "cty.refinementNullable" {
				isNull := litField(nl, "isNull")
				underNull := cf.HoldsAt(ret, func(cond ast.Expr, truth bool) bool { return truth && methodCond(info, cond, recv, "IsNull") })
				if underNull {
					if id, ok := ast.Unparen(isNull).(*ast.Ident); ok && id.Name == "tristateTrue" {
						rr.OK(key, ret.Pos(), "a null value reports 'null'")
					} else {
						rr.Violation(key, ret.Pos(), "the range returned for a value established to be null does not say 'null' (isNull: tristateTrue)")
					}
				}
			}
		}
	}
	// the placeholder for an unrefined unknown says 'nullness unknown'
	inspectNoLit(fd.Body, func(n ast.Node) bool {
		lit, ok := n.(*ast.CompositeLit)
		if !ok || namedTypeNoPtr(info.TypeOf(lit)) != "cty.refinementNullable" {
			return true
		}
		if _, inReturn := c.Parent(c.Parent(c.Parent(lit))).(*ast.ReturnStmt); inReturn {
			return true
		}
		isNull := litField(lit, "isNull")
		if isNull == nil {
			return true // the default branch for kinds without a range of their own (setNull follows)
		}
		key := "cty.Value.Range/unrefined unknown"
		if id, ok := ast.Unparen(isNull).(*ast.Ident); ok && id.Name == "tristateUnknown" {
			rr.OK(key, lit.Pos(), "nullness unknown")
		} else {
			rr.Violation(key, lit.Pos(), "the refinement made up for an unknown value without refinements claims to know its nullness ("+exprStr(isNull)+"): an unrefined unknown may be null or not")
		}
		return true
	})
}

// ---------------------------------------------------------------------------

func runTypecheckShape(rr *RuleRun) {
	c := rr.Ctx
	info := c.Info("cty")
	fd := rr.MustDecl("cty", "typeCheck")
	if fd == nil {
		return
	}
	// the variadic operand list
	var values types.Object
	for _, f := range fd.Type.Params.List {
		if _, ok := f.Type.(*ast.Ellipsis); ok && len(f.Names) == 1 {
			values = info.Defs[f.Names[0]]
		}
	}
	if values == nil {
		rr.Broken("stale anchor: typeCheck has no variadic operand parameter")
		return
	}
	var loop *wholeLoop
	inspectNoLit(fd.Body, func(n ast.Node) bool {
		if loop == nil {
			if wl := wholeSliceLoop(info, n, values); wl != nil {
				loop = wl
			}
		}
		return true
	})
	if loop == nil {
		rr.Violation("cty.typeCheck/loop", fd.Pos(), "typeCheck has no range loop over all its operands: operands that are not looked at can be unknown, dynamic or of the wrong type without the operation noticing")
		return
	}
	elem := loop.Elem
	cf := c.CondFacts(fd.Body, info, nil)
	// 1. no exit from the loop other than the error return
	bad := false
	inspectNoLit(loop.Body, func(n ast.Node) bool {
		switch x := n.(type) {
		case *ast.BranchStmt:
			if x.Tok == token.BREAK || x.Tok == token.GOTO {
				bad = true
				rr.Violation("cty.typeCheck/loop-exit", x.Pos(), "the loop over the operands is left early: the operands after the first one that sets a flag are neither type-checked nor examined for being unknown or dynamic")
			}
		case *ast.ReturnStmt:
			if len(x.Results) == 2 && isNilIdent(info, x.Results[1]) {
				bad = true
				rr.Violation("cty.typeCheck/loop-exit", x.Pos(), "the loop over the operands returns a non-error answer from inside: the remaining operands are never type-checked")
			}
		}
		return true
	})
	if !bad {
		rr.OK("cty.typeCheck/loop-exit", loop.Pos(), "every operand is visited unless a type mismatch is reported")
	}
	// 2. flags: which local is set under which test of the loop element
	flagOf := func(test func(cond ast.Expr, truth bool) bool) types.Object {
		var flag types.Object
		inspectNoLit(loop.Body, func(n ast.Node) bool {
			as, ok := n.(*ast.AssignStmt)
			if !ok || len(as.Lhs) != 1 || len(as.Rhs) != 1 || as.Tok != token.ASSIGN {
				return true
			}
			tv, ok := info.Types[as.Rhs[0]]
			if !ok || tv.Value == nil || tv.Value.Kind() != constant.Bool || !constant.BoolVal(tv.Value) {
				return true
			}
			if cf.HoldsAt(as, test) {
				flag = objOf(info, as.Lhs[0])
			}
			return true
		})
		return flag
	}
	mentionsElem := func(e ast.Expr) bool { return elem != nil && mentionsObj(info, e, elem) }
	isDynTest := func(cond ast.Expr, truth bool) bool {
		be, ok := ast.Unparen(cond).(*ast.BinaryExpr)
		if !ok || be.Op != token.EQL || !truth {
			return false
		}
		return (isPkgVar(info, be.Y, "cty", "DynamicPseudoType") && mentionsElem(be.X)) || (isPkgVar(info, be.X, "cty", "DynamicPseudoType") && mentionsElem(be.Y))
	}
	// `_, unknown := val.v.(*unknownType)` then `if unknown`: the engine resolves the boolean alias to its defining expression
	isUnkTest := func(cond ast.Expr, truth bool) bool {
		if !truth {
			return false
		}
		switch x := ast.Unparen(cond).(type) {
		case *ast.TypeAssertExpr:
			return namedType(info.TypeOf(x.Type)) == "cty.unknownType" && mentionsElem(x.X)
		case *ast.Ident:
			if v, ok := info.Uses[x].(*types.Var); ok {
				if _, _, rhs := findDefine(info, fd.Body, v); len(rhs) == 1 {
					if ta, ok := ast.Unparen(rhs[0]).(*ast.TypeAssertExpr); ok {
						return namedType(info.TypeOf(ta.Type)) == "cty.unknownType" && mentionsElem(ta.X)
					}
				}
			}
		case *ast.UnaryExpr:
		case *ast.CallExpr:
			if se, ok := x.Fun.(*ast.SelectorExpr); ok && se.Sel.Name == "IsKnown" {
				return false
			}
		}
		return false
	}
	isNotKnownTest := func(cond ast.Expr, truth bool) bool {
		if isUnkTest(cond, truth) {
			return true
		}
		if call, ok := ast.Unparen(cond).(*ast.CallExpr); ok && !truth {
			if se, ok := call.Fun.(*ast.SelectorExpr); ok && se.Sel.Name == "IsKnown" && mentionsElem(se.X) {
				return true
			}
		}
		return false
	}
	dynFlag, unkFlag := flagOf(isDynTest), flagOf(isNotKnownTest)
	if dynFlag == nil {
		rr.Violation("cty.typeCheck/dynamic-flag", loop.Pos(), "no flag is set under a test of the current operand's type against DynamicPseudoType: dynamically-typed operands are not told apart, so they are type-compared (and rejected) or the result type is claimed to be known")
	} else {
		rr.OK("cty.typeCheck/dynamic-flag", loop.Pos(), dynFlag.Name()+" is set where the current operand is of the dynamic pseudo-type")
	}
	if unkFlag == nil {
		rr.Violation("cty.typeCheck/unknown-flag", loop.Pos(), "no flag is set under a test that the current operand is unknown: unknown operands are not told apart, so the operation goes on to read their payload")
	} else {
		rr.OK("cty.typeCheck/unknown-flag", loop.Pos(), unkFlag.Name()+" is set where the current operand is unknown")
	}
	// 3. the type comparison is not reached for a dynamic operand
	inspectNoLit(loop.Body, func(n ast.Node) bool {
		call, ok := n.(*ast.CallExpr)
		if !ok {
			return true
		}
		se, ok := call.Fun.(*ast.SelectorExpr)
		if !ok || se.Sel.Name != "Equals" || !isCtyType(info.TypeOf(se.X)) || !mentionsElem(se.X) {
			return true
		}
		key := "cty.typeCheck/type-comparison"
		if cf.HoldsAt(call, func(cond ast.Expr, truth bool) bool { return isDynTest(cond, !truth) }) {
			rr.OK(key, call.Pos(), "reached only for operands that are not of the dynamic pseudo-type")
		} else {
			rr.Violation(key, call.Pos(), "the operand's type is compared with the required type without the operand having been found not to be dynamically typed: DynamicVal operands are rejected as type mismatches instead of short-circuiting to DynamicVal")
		}
		return true
	})
	// 4. the answers after the loop
	flagFalse := func(flag types.Object) func(ast.Expr, bool) bool {
		return func(cond ast.Expr, truth bool) bool {
			id, ok := ast.Unparen(cond).(*ast.Ident)
			return ok && !truth && flag != nil && info.Uses[id] == flag
		}
	}
	for _, ret := range c.CFG(fd.Body, info).Returns() {
		if ret.Pos() < loop.End() || len(ret.Results) != 2 || !isNilIdent(info, ret.Results[1]) {
			continue
		}
		key := "cty.typeCheck/return " + trunc(exprStr0(ret), 30)
		r0 := ast.Unparen(ret.Results[0])
		switch {
		case isNilIdent(info, r0):
			if cf.HoldsAt(ret, flagFalse(dynFlag)) && cf.HoldsAt(ret, flagFalse(unkFlag)) {
				rr.OK(key, ret.Pos(), "no short-circuit only where neither a dynamic nor an unknown operand was seen")
			} else {
				rr.Violation(key, ret.Pos(), "'no short-circuit' is answered on a path where the dynamic flag and the unknown flag were not both found false: the operation proceeds to read the payload of an unknown or dynamically-typed operand")
			}
		default:
			// &DynamicVal or &ret (an unknown of the result type)
			if u, ok := r0.(*ast.UnaryExpr); ok && isPkgVar(info, u.X, "cty", "DynamicVal") {
				rr.OK(key, ret.Pos(), "the dynamic short-circuit")
				continue
			}
			if cf.HoldsAt(ret, flagFalse(dynFlag)) {
				rr.OK(key, ret.Pos(), "the typed unknown short-circuit is given only where no operand was dynamically typed")
			} else {
				rr.Violation(key, ret.Pos(), "the typed unknown short-circuit is returned without the dynamic flag having been found false: with a dynamically-typed operand the result type is not knowable, yet the result claims the operation's result type")
			}
		}
	}
}

// ---------------------------------------------------------------------------

func runKindFamiliesComplete(rr *RuleRun) {
	c := rr.Ctx
	pkg := "cty/gocty"
	info := c.Info(pkg)
	families := [][]string{
		{"Int", "Int8", "Int16", "Int32", "Int64"},
		{"Uint", "Uint8", "Uint16", "Uint32", "Uint64"},
		{"Float32", "Float64"},
	}
	for _, fd := range c.SortedDecls(pkg) {
		if fd.Body == nil {
			continue
		}
		nsw := 0
		inspectNoLit(fd.Body, func(n ast.Node) bool {
			sw, ok := n.(*ast.SwitchStmt)
			if !ok || sw.Tag == nil || namedTypeNoPtr(info.TypeOf(sw.Tag)) != "reflect.Kind" {
				return true
			}
			have := map[string]bool{}
			for _, cl := range sw.Body.List {
				for _, e := range cl.(*ast.CaseClause).List {
					if se, ok := ast.Unparen(e).(*ast.SelectorExpr); ok {
						have[se.Sel.Name] = true
					}
				}
			}
			for _, fam := range families {
				any, missing := false, []string{}
				for _, k := range fam {
					if have[k] {
						any = true
					} else {
						missing = append(missing, k)
					}
				}
				if !any {
					continue
				}
				nsw++
				key := fmt.Sprintf("%s.%s/switch#%d %s family", pkg, declName(fd), nsw, fam[0])
				if len(missing) == 0 {
					rr.OK(key, sw.Pos(), "all widths are named")
				} else {
					sort.Strings(missing)
					rr.Violation(key, sw.Pos(), fmt.Sprintf("the switch handles some kinds of the %s family but not %s: Go values of those types fall to the residual branch and cannot be bridged in this direction, although the sibling functions accept them", fam[0], strings.Join(missing, ", ")))
				}
			}
			return true
		})
	}
}

// ---------------------------------------------------------------------------
// C01.type-mismatch-needs-wholly-known-types

func init() {
	register(&Rule{
		ID: "C01.type-mismatch-needs-wholly-known-types", Prop: "C01", Floor: 4, Controls: 0,
		Doc: "in package cty a definite False is concluded from a mismatch of types only for types that are wholly known: where a function returning a cty.Value returns False / BoolVal(false) under a branch condition that two types are not Equal, or that one does not conform to the other (TestConformance), every type taking part as a 'given' side was established free of dynamic placeholders on that path (HasDynamicTypes() false for it, or HasWhollyKnownType() true for the value it is the type of) — a comparison of the root with DynamicPseudoType is not enough: a known object with a DynamicVal nested inside has a type that differs from, and does not conform to, the type it will have once that part is known, so 'the types differ' does not show that the values differ",
		Run: runTypeMismatchNeedsWhollyKnown,
	})
}

func runTypeMismatchNeedsWhollyKnown(rr *RuleRun) {
	c := rr.Ctx
	info := c.Info("cty")
	for _, fd := range c.SortedDecls("cty") {
		if fd.Body == nil || fd.Type.Results == nil || fd.Type.Results.NumFields() != 1 {
			continue
		}
		if !isCtyValue(info.TypeOf(fd.Type.Results.List[0].Type)) {
			continue
		}
		var cf *CondFacts
		var env *aliasEnv
		// canonical text of a type expression: aliases resolved, v.Type() ≡ v.ty
		canonT := func(e ast.Expr) string {
			var rec func(e ast.Expr, depth int) string
			rec = func(e ast.Expr, depth int) string {
				e = ast.Unparen(e)
				if depth > 6 {
					return exprStr(e)
				}
				switch x := e.(type) {
				case *ast.Ident:
					if v, ok := info.Uses[x].(*types.Var); ok && !v.IsField() && env.neverReassigned(v) {
						if _, idx, rhs := findDefine(info, fd.Body, v); rhs != nil && len(rhs) > idx && len(rhs) == 1 {
							return rec(rhs[0], depth+1)
						}
					}
					if o := objOf(info, x); o != nil {
						return objKey(o)
					}
					return x.Name
				case *ast.SelectorExpr:
					return rec(x.X, depth+1) + "." + x.Sel.Name
				case *ast.CallExpr:
					if se, ok := x.Fun.(*ast.SelectorExpr); ok && len(x.Args) == 0 {
						if se.Sel.Name == "Type" && isCtyValue(info.TypeOf(se.X)) {
							return rec(se.X, depth+1) + ".ty"
						}
						return rec(se.X, depth+1) + "." + se.Sel.Name + "()"
					}
				}
				return exprStr(e)
			}
			return rec(e, 0)
		}
		// the type expressions a mismatch condition relies on as 'given' sides
		mismatchGivens := func(cond ast.Expr, truth bool) []ast.Expr {
			cond = ast.Unparen(cond)
			conformanceCall := func(e ast.Expr) *ast.CallExpr {
				e = ast.Unparen(e)
				if call, ok := e.(*ast.CallExpr); ok {
					if isBuiltin(info, call, "len") && len(call.Args) == 1 {
						e = ast.Unparen(call.Args[0])
						call, ok = e.(*ast.CallExpr)
						if !ok {
							return nil
						}
					}
					if se, ok := call.Fun.(*ast.SelectorExpr); ok && se.Sel.Name == "TestConformance" && len(call.Args) == 1 {
						return call
					}
				}
				return nil
			}
			switch x := cond.(type) {
			case *ast.CallExpr:
				if se, ok := x.Fun.(*ast.SelectorExpr); ok && se.Sel.Name == "Equals" && len(x.Args) == 1 && !truth && isCtyType(info.TypeOf(se.X)) && isCtyType(info.TypeOf(x.Args[0])) {
					return []ast.Expr{se.X, x.Args[0]}
				}
			case *ast.BinaryExpr:
				// TestConformance(...) != nil   /   len(TestConformance(...)) != 0   (the engine renders != as a false ==)
				if x.Op == token.EQL && !truth {
					for _, side := range []ast.Expr{x.X, x.Y} {
						if call := conformanceCall(side); call != nil {
							return []ast.Expr{call.Fun.(*ast.SelectorExpr).X}
						}
					}
				}
				if x.Op == token.GTR && truth {
					if call := conformanceCall(x.X); call != nil {
						return []ast.Expr{call.Fun.(*ast.SelectorExpr).X}
					}
				}
			}
			return nil
		}
		inspectNoLit(fd.Body, func(n ast.Node) bool {
			ret, ok := n.(*ast.ReturnStmt)
			if !ok || len(ret.Results) != 1 {
				return true
			}
			r := ast.Unparen(ret.Results[0])
			isFalse := isPkgVar(info, r, "cty", "False")
			if call, ok := r.(*ast.CallExpr); ok && isCall(info, call, "cty.BoolVal") && len(call.Args) == 1 {
				if tv, ok := info.Types[call.Args[0]]; ok && tv.Value != nil && tv.Value.String() == "false" {
					isFalse = true
				}
			}
			if !isFalse {
				return true
			}
			if cf == nil {
				cf = c.CondFacts(fd.Body, info, nil)
				env = newAliasEnv(info, fd.Body)
			}
			if !cf.Located(ret) {
				return true
			}
			type mm struct {
				why    string
				givens []ast.Expr
			}
			var ms []mm
			cf.HoldsAt(ret, func(cond ast.Expr, truth bool) bool {
				if g := mismatchGivens(cond, truth); g != nil {
					ms = append(ms, mm{exprStr(cond), g})
				}
				return false
			})
			if len(ms) == 0 {
				return true
			}
			// the facts come out of a map: decide in a fixed order so that the construct key is stable
			sort.Slice(ms, func(i, j int) bool { return ms[i].why < ms[j].why })
			dirtyOf := func(givens []ast.Expr) []string {
				var dirty []string
				for _, g := range givens {
					gt := canonT(g)
					clean := cf.HoldsAt(ret, func(cond ast.Expr, truth bool) bool {
						call, ok := ast.Unparen(cond).(*ast.CallExpr)
						if !ok {
							return false
						}
						se, ok := call.Fun.(*ast.SelectorExpr)
						if !ok || len(call.Args) != 0 {
							return false
						}
						switch se.Sel.Name {
						case "HasDynamicTypes":
							return !truth && canonT(se.X) == gt
						case "HasWhollyKnownType":
							return truth && canonT(se.X)+".ty" == gt
						}
						return false
					})
					if !clean {
						dirty = append(dirty, exprStr(g))
					}
				}
				return dirty
			}
			reported := false
			for _, m := range ms {
				if dirty := dirtyOf(m.givens); len(dirty) > 0 {
					key := fmt.Sprintf("cty.%s/False under %s", declName(fd), trunc(m.why, 50))
					rr.Violation(key, ret.Pos(), fmt.Sprintf("a definite False is returned because of a type mismatch (%s) although %s was not established free of dynamic placeholders on this path (no HasDynamicTypes() == false for it, no HasWhollyKnownType() for its value): a value with a DynamicVal nested inside has a type that will change once that part is known, so the values may still turn out equal / the element may still be a member, and the answer must be unknown", trunc(m.why, 60), strings.Join(dirty, " and ")))
					reported = true
					break
				}
			}
			if !reported {
				rr.OK(fmt.Sprintf("cty.%s/False under %s", declName(fd), trunc(ms[0].why, 50)), ret.Pos(), "every type the mismatch relies on was established free of dynamic placeholders")
			}
			return true
		})
	}
}

// ---------------------------------------------------------------------------
// C13.generic-fold-visits-every-operand

func init() {
	register(&Rule{
		ID: "C13.generic-fold-visits-every-operand", Prop: "C13", Also: []string{"C11", "C12", "C03"}, Floor: 1, Controls: 0,
		Doc: "a fold whose operation is a parameter applies it to every operand: in a loop that accumulates with acc = f(acc, x) where f is a function-typed parameter or captured variable — so the code cannot know f's algebra — no break, continue or successful return is taken under a condition on the accumulator (an 'already empty, nothing left to do' shortcut is right for intersection and subtraction and wrong for union and symmetric difference, which the same helper also serves)",
		Run: runGenericFoldVisitsEveryOperand,
	})
}

func runGenericFoldVisitsEveryOperand(rr *RuleRun) {
	c := rr.Ctx
	eachFuncBody(c, allPkgs, func(pkg string, fd *ast.FuncDecl, body *ast.BlockStmt) {
		if body == nil {
			return
		}
		info := c.Info(pkg)
		inspectNoLit(body, func(n ast.Node) bool {
			var loopBody *ast.BlockStmt
			switch l := n.(type) {
			case *ast.RangeStmt:
				loopBody = l.Body
			case *ast.ForStmt:
				loopBody = l.Body
			default:
				return true
			}
			// acc = f(acc, …) with f a function-typed variable
			var acc types.Object
			var fname string
			for _, st := range loopBody.List {
				as, ok := st.(*ast.AssignStmt)
				if !ok || len(as.Lhs) != 1 || len(as.Rhs) != 1 || as.Tok != token.ASSIGN {
					continue
				}
				call, ok := ast.Unparen(as.Rhs[0]).(*ast.CallExpr)
				if !ok || len(call.Args) < 2 {
					continue
				}
				fid, ok := ast.Unparen(call.Fun).(*ast.Ident)
				if !ok {
					continue
				}
				fv, ok := info.Uses[fid].(*types.Var)
				if !ok {
					continue
				}
				if _, isSig := fv.Type().Underlying().(*types.Signature); !isSig {
					continue
				}
				lo := objOf(info, as.Lhs[0])
				if lo != nil && objOf(info, call.Args[0]) == lo {
					acc, fname = lo, fid.Name
				}
			}
			if acc == nil {
				return true
			}
			key := fmt.Sprintf("%s.%s/fold %s = %s(%s, …)", pkg, declName(fd), acc.Name(), fname, acc.Name())
			bad := false
			var walk func(st ast.Stmt, conds []ast.Expr)
			check := func(at ast.Node, what string, conds []ast.Expr) {
				for _, cd := range conds {
					if mentionsObj(info, cd, acc) && !bad {
						bad = true
						rr.Violation(key, at.Pos(), fmt.Sprintf("the fold %s under the condition '%s', which looks at the accumulator: the operation %s is a parameter, so nothing entitles the loop to decide from the accumulated value that the remaining operands cannot change the result — operands are skipped for the operations that could still add members", what, trunc(exprStr(cd), 50), fname))
					}
				}
			}
			walk = func(st ast.Stmt, conds []ast.Expr) {
				switch x := st.(type) {
				case *ast.BlockStmt:
					for _, s := range x.List {
						walk(s, conds)
					}
				case *ast.IfStmt:
					walk(x.Body, append(append([]ast.Expr{}, conds...), x.Cond))
					if x.Else != nil {
						walk(x.Else, append(append([]ast.Expr{}, conds...), x.Cond))
					}
				case *ast.SwitchStmt:
					for _, cl := range x.Body.List {
						cc := cl.(*ast.CaseClause)
						cs := append([]ast.Expr{}, conds...)
						if x.Tag != nil {
							cs = append(cs, x.Tag)
						}
						cs = append(cs, cc.List...)
						for _, s := range cc.Body {
							walk(s, cs)
						}
					}
				case *ast.BranchStmt:
					if x.Tok == token.BREAK || x.Tok == token.CONTINUE {
						check(x, "is cut short ("+x.Tok.String()+")", conds)
					}
				case *ast.ReturnStmt:
					if n := len(x.Results); n > 0 {
						last := x.Results[n-1]
						if t := info.TypeOf(last); t != nil && isErrorType(t) && !isNilIdent(info, last) {
							return
						}
					}
					check(x, "returns early", conds)
				}
			}
			walk(loopBody, nil)
			if !bad {
				rr.OK(key, n.Pos(), "no exit of the loop depends on the accumulated value")
			}
			return true
		})
	})
}

// ---------------------------------------------------------------------------
// C20.derived-slice-is-fresh

func init() {
	register(&Rule{
		ID: "C20.derived-slice-is-fresh", Prop: "C20", Also: []string{"C19"}, Floor: 2, Controls: 0,
		Doc: "an exported function or method that derives a longer value of a named slice type of the module (cty.Path) from one it was given does not return append(given, …): the result of append shares the given slice's backing array whenever its capacity allows, so two values derived from the same base (base.Index(0), base.Index(1)) are one array and the second derivation rewrites the first — the derived slice is made fresh (make + copy) or the base's capacity is clipped (given[:len:len])",
		Run: runDerivedSliceIsFresh,
	})
}

func runDerivedSliceIsFresh(rr *RuleRun) {
	c := rr.Ctx
	for _, pkg := range []string{"cty", "cty/convert", "cty/function", "cty/set"} {
		info := c.Info(pkg)
		for _, fd := range c.SortedDecls(pkg) {
			if fd.Body == nil || !fd.Name.IsExported() {
				continue
			}
			// receiver / parameters of a named slice type of this module
			given := map[types.Object]bool{}
			add := func(id *ast.Ident) {
				o := info.Defs[id]
				if o == nil {
					return
				}
				n, ok := o.Type().(*types.Named)
				if !ok || n.Obj().Pkg() == nil || !strings.HasPrefix(n.Obj().Pkg().Path(), modPath) {
					return
				}
				if _, isSlice := n.Underlying().(*types.Slice); isSlice {
					given[o] = true
				}
			}
			if fd.Recv != nil {
				for _, f := range fd.Recv.List {
					for _, nm := range f.Names {
						add(nm)
					}
				}
			}
			for _, f := range fd.Type.Params.List {
				for _, nm := range f.Names {
					add(nm)
				}
			}
			if len(given) == 0 {
				continue
			}
			key := pkg + "." + declName(fd)
			bad := false
			nret := 0
			inspectNoLit(fd.Body, func(n ast.Node) bool {
				ret, ok := n.(*ast.ReturnStmt)
				if !ok {
					return true
				}
				for _, r := range ret.Results {
					nret++
					call, ok := ast.Unparen(r).(*ast.CallExpr)
					if !ok || !isBuiltin(info, call, "append") || len(call.Args) < 2 {
						continue
					}
					base := ast.Unparen(call.Args[0])
					if sl, ok := base.(*ast.SliceExpr); ok && sl.Slice3 {
						continue // capacity clipped
					}
					if o := objOf(info, base); o != nil && given[o] && !bad {
						bad = true
						rr.Violation(key, ret.Pos(), fmt.Sprintf("%s returns append(%s, …) on the slice it was given: whenever %s has spare capacity the result shares its backing array, so a second value derived from the same %s overwrites the element the first derivation added — values that were handed out change afterwards", declName(fd), o.Name(), o.Name(), o.Name()))
					}
				}
				return true
			})
			if !bad && nret > 0 {
				rr.OKTrivial(key, fd.Pos(), "no result is an append onto a given slice")
			}
		}
	}
}

// ---------------------------------------------------------------------------
// C17.module-error-not-discarded

func init() {
	register(&Rule{
		ID: "C17.module-error-not-discarded", Prop: "C17", Also: []string{"C15", "C16", "C08", "C09", "C11", "C18", "C19", "C04", "C13", "C14"}, Floor: 3, Controls: 0,
		Doc: "no call of a function of this module that returns an error is written as a bare statement: the error of a nested encoder, decoder, conversion or walk is looked at (assigned, returned, tested) — a discarded error lets the caller report success with a truncated or partial result; the three call sites whose callee cannot fail for the arguments given are tabled with the reason",
		Run: runModuleErrorNotDiscarded,
	})
}

var discardedErrorOK = map[string]string{
	"cty.Value.ContainsMarked→cty.Walk":                                           "the callback given here returns a nil error on every path, and Walk returns only what the callback returns",
	"cty/msgpack.marshalUnknownValue→cty/msgpack.marshal":                         "encodes a [number, bool] tuple of a known finite bound into an in-memory buffer: neither kind has a failing branch in marshal",
	"cty.Value.MarkWithPaths→cty.TransformWithTransformer/blank":                  "TransformWithTransformer returns only the errors of the transformer's own Enter / Exit, and applyPathValueMarksTransformer returns a nil error from both on every path",
	"cty.Value.UnmarkDeep→cty.TransformWithTransformer/blank":                     "TransformWithTransformer returns only the errors of the transformer's own Enter / Exit, and unmarkTransformer returns a nil error from both on every path",
	"cty.Value.UnmarkDeepWithPaths→cty.TransformWithTransformer/blank":            "TransformWithTransformer returns only the errors of the transformer's own Enter / Exit, and unmarkTransformer returns a nil error from both on every path",
	"cty/function/stdlib.parseRFC3339→cty/function/stdlib.parseNanoseconds/blank": "called only after the caller has checked that the fraction starts with '.' and consists of digits, which are the only things parseNanoseconds can object to",
}

func runModuleErrorNotDiscarded(rr *RuleRun) {
	c := rr.Ctx
	seenOK := map[string]bool{}
	eachFuncBody(c, allPkgs, func(pkg string, fd *ast.FuncDecl, body *ast.BlockStmt) {
		if body == nil {
			return
		}
		info := c.Info(pkg)
		inspectNoLit(body, func(n ast.Node) bool {
			var call *ast.CallExpr
			blank := false
			switch x := n.(type) {
			case *ast.ExprStmt:
				call, _ = x.X.(*ast.CallExpr)
			case *ast.AssignStmt:
				// v, _ := f(): the error result is assigned to the blank identifier
				if len(x.Rhs) == 1 && len(x.Lhs) >= 2 {
					if id, ok := x.Lhs[len(x.Lhs)-1].(*ast.Ident); ok && id.Name == "_" {
						call, _ = x.Rhs[0].(*ast.CallExpr)
						blank = true
					}
				}
			}
			if call == nil {
				return true
			}
			f := callee(info, call)
			if f == nil || f.Pkg() == nil || !strings.HasPrefix(f.Pkg().Path(), modPath) {
				return true
			}
			sig, ok := f.Type().(*types.Signature)
			if !ok || sig.Results().Len() == 0 || !isErrorType(sig.Results().At(sig.Results().Len()-1).Type()) {
				return true
			}
			if blank && sig.Results().Len() != len(n.(*ast.AssignStmt).Lhs) {
				return true
			}
			k := fmt.Sprintf("%s.%s→%s", pkg, declName(fd), funcKey(f))
			if blank {
				k += "/blank"
			}
			if why, ok := discardedErrorOK[k]; ok {
				seenOK[k] = true
				rr.OKTrivial(k, call.Pos(), "tabled: "+why)
				return true
			}
			if blank {
				rr.Violation(k, call.Pos(), fmt.Sprintf("the error returned by %s is assigned to the blank identifier: if the nested step fails, its value result (the zero Value) is used as if it were the answer — a later method call on it panics, or a wrong value is returned with a nil error", funcKey(f)))
				return true
			}
			rr.Violation(k, call.Pos(), fmt.Sprintf("the error returned by %s is discarded (the call is a bare statement): if the nested step fails, this function goes on and reports success with whatever was produced so far — a truncated encoding, a partial result", funcKey(f)))
			return true
		})
	})
	for k := range discardedErrorOK {
		if !seenOK[k] {
			rr.Info("stale exemption "+k, token.NoPos, "the tabled call site no longer exists")
		}
	}
}

// wholeLoop is a loop that visits every element of one slice variable, in either of the two forms the tree and
// its refactorings use: `for _, v := range S` and `for i := 0; i < len(S); i++ { v := S[i] … }`.
type wholeLoop struct {
	Stmt ast.Stmt
	Body *ast.BlockStmt
	Elem types.Object // the variable holding the element (nil when the element is only written S[i])
}

func (w *wholeLoop) Pos() token.Pos { return w.Stmt.Pos() }
func (w *wholeLoop) End() token.Pos { return w.Stmt.End() }

func wholeSliceLoop(info *types.Info, n ast.Node, slice types.Object) *wholeLoop {
	switch x := n.(type) {
	case *ast.RangeStmt:
		if objOf(info, x.X) == slice {
			var el types.Object
			if x.Value != nil {
				el = objOf(info, x.Value)
			}
			wl := &wholeLoop{Stmt: x, Body: x.Body, Elem: el}
			if el == nil && x.Key != nil {
				wl.Elem = indexedElemVar(info, x.Body, slice, objOf(info, x.Key))
			}
			return wl
		}
	case *ast.ForStmt:
		// for i := 0; i < len(S); i++
		as, ok := x.Init.(*ast.AssignStmt)
		if !ok || len(as.Lhs) != 1 || len(as.Rhs) != 1 {
			return nil
		}
		if v, ok := constInt(info, as.Rhs[0]); !ok || v != 0 {
			return nil
		}
		idx := objOf(info, as.Lhs[0])
		cond, ok := x.Cond.(*ast.BinaryExpr)
		if !ok || cond.Op != token.LSS || objOf(info, cond.X) != idx {
			return nil
		}
		ln, ok := ast.Unparen(cond.Y).(*ast.CallExpr)
		if !ok || !isBuiltin(info, ln, "len") || len(ln.Args) != 1 || objOf(info, ln.Args[0]) != slice {
			return nil
		}
		inc, ok := x.Post.(*ast.IncDecStmt)
		if !ok || inc.Tok != token.INC || objOf(info, inc.X) != idx {
			return nil
		}
		return &wholeLoop{Stmt: x, Body: x.Body, Elem: indexedElemVar(info, x.Body, slice, idx)}
	}
	return nil
}

// indexedElemVar: the local defined as S[i] by a leading statement of the loop body.
func indexedElemVar(info *types.Info, body *ast.BlockStmt, slice, idx types.Object) types.Object {
	if idx == nil {
		return nil
	}
	for _, st := range body.List {
		as, ok := st.(*ast.AssignStmt)
		if !ok || as.Tok != token.DEFINE || len(as.Lhs) != 1 || len(as.Rhs) != 1 {
			return nil
		}
		if ix, ok := ast.Unparen(as.Rhs[0]).(*ast.IndexExpr); ok && objOf(info, ix.X) == slice && objOf(info, ix.Index) == idx {
			return objOf(info, as.Lhs[0])
		}
	}
	return nil
}
