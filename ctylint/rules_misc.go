package main

import (
	"fmt"
	"go/ast"
	"go/token"
	"go/types"
	"strings"
)

func init() {
	register(&Rule{
		ID: "C11.nil-on-infinity", Prop: "C11", Also: []string{"C02", "C13", "C14"}, Floor: 5, Controls: 1,
		Doc: "(*big.Float).Int returns nil for an infinity: wherever its *big.Int result is dereferenced, the call is dominated by a test that the float is finite (IsInf exit, IsInt, or the returned accuracy compared with big.Exact); comparing the cty value with the infinity singletons by == does not count (pointer identity)",
		Run: runNilOnInfinity,
	})
	register(&Rule{
		ID: "C11.float-nan", Prop: "C11", Also: []string{"C17", "C16", "C13", "C14"}, Floor: 2, Controls: 1,
		Doc: "a float64 produced by math.Log/Log2/Log10/Pow/Sqrt/Mod/Acos/Asin, by a float division, or read from MessagePack input reaches cty.NumberFloatVal only through a math.IsNaN test (NumberFloatVal panics on NaN, so the standard function would report an internal panic)",
		Run: runFloatNaN,
	})
	register(&Rule{
		ID: "C11.negative-count", Prop: "C11", Also: []string{"C13", "C14"}, Floor: 2, Controls: 1,
		Doc: "an int filled from an argument by gocty.FromCtyValue reaches strings.Repeat, a make size or a slice bound only after a '< 0' test on the same variable (those panic on negative counts)",
		Run: runNegativeCount,
	})
	register(&Rule{
		ID: "C11.compare-by-identity", Prop: "C11", Also: []string{"C15", "C12", "C04", "C17", "C07", "C13", "C14"}, Floor: 30, Controls: 1,
		Doc: "Go == / != between two cty.Value or two cty.Type operands is used only against a package-level singleton (NilVal, DynamicVal, True, False, the primitive types, the dynamic pseudo-type, NilType): comparing two arbitrary values or types with == is pointer identity posing as equality and panics at run time on uncomparable payloads (object, tuple, map types)",
		Run: runCompareByIdentity,
	})
}

// ---------------------------------------------------------------------------

func eachFuncBody(c *Ctx, pkgs []string, f func(pkg string, fd *ast.FuncDecl, body *ast.BlockStmt)) {
	for _, pkg := range pkgs {
		for _, fd := range c.SortedDecls(pkg) {
			f(pkg, fd, fd.Body)
			ast.Inspect(fd.Body, func(n ast.Node) bool {
				if fl, ok := n.(*ast.FuncLit); ok {
					f(pkg, fd, fl.Body)
				}
				return true
			})
		}
		// function literals in package-level variable initialisers (the standard functions' callbacks)
		for _, file := range c.Pkgs[pkg].Syntax {
			for _, d := range file.Decls {
				gd, ok := d.(*ast.GenDecl)
				if !ok {
					continue
				}
				for _, sp := range gd.Specs {
					vs, ok := sp.(*ast.ValueSpec)
					if !ok || len(vs.Names) == 0 {
						continue
					}
					// a synthetic declaration carrying the variable's name, for keys and messages
					pseudo := &ast.FuncDecl{Name: vs.Names[0], Type: &ast.FuncType{Params: &ast.FieldList{}}}
					for _, v := range vs.Values {
						ast.Inspect(v, func(n ast.Node) bool {
							if fl, ok := n.(*ast.FuncLit); ok {
								f(pkg, pseudo, fl.Body)
							}
							return true
						})
					}
				}
			}
		}
	}
}

var allPkgs = []string{"cty", "cty/convert", "cty/function", "cty/function/stdlib", "cty/gocty", "cty/json", "cty/msgpack", "cty/set", "cty/ctystrings"}

func runNilOnInfinity(rr *RuleRun) {
	c := rr.Ctx
	eachFuncBody(c, allPkgs, func(pkg string, fd *ast.FuncDecl, body *ast.BlockStmt) {
		info := c.Info(pkg)
		inspectNoLit(body, func(n ast.Node) bool {
			as, ok := n.(*ast.AssignStmt)
			if !ok || len(as.Lhs) != 2 || len(as.Rhs) != 1 {
				return true
			}
			call, ok := ast.Unparen(as.Rhs[0]).(*ast.CallExpr)
			if !ok || funcKey(callee(info, call)) != "math/big.Float.Int" {
				return true
			}
			bi := objOf(info, as.Lhs[0])
			if bi == nil {
				return true
			}
			var acc types.Object
			if id, ok := as.Lhs[1].(*ast.Ident); ok && id.Name != "_" {
				acc = objOf(info, id)
			}
			recvStr := exprStr(call.Fun.(*ast.SelectorExpr).X)
			// dereferences of bi: method calls on it, or passing it to a math/big method
			var derefs []ast.Node
			inspectNoLit(body, func(m ast.Node) bool {
				cl, ok := m.(*ast.CallExpr)
				if !ok {
					return true
				}
				if se, ok := cl.Fun.(*ast.SelectorExpr); ok && objOf(info, se.X) == bi {
					derefs = append(derefs, cl)
				}
				if f := callee(info, cl); f != nil && f.Pkg() != nil && f.Pkg().Path() == "math/big" {
					for _, a := range cl.Args {
						if objOf(info, a) == bi {
							derefs = append(derefs, cl)
						}
					}
				}
				if f := callee(info, cl); f != nil && funcKey(f) == "reflect.ValueOf" && len(cl.Args) == 1 && objOf(info, cl.Args[0]) == bi {
					derefs = append(derefs, cl) // .Elem() of a nil pointer panics
				}
				return true
			})
			key := fmt.Sprintf("%s.%s/%s.Int", pkg, declName(fd), recvStr)
			if len(derefs) == 0 {
				rr.OKTrivial(key, as.Pos(), "the *big.Int result is not dereferenced")
				return true
			}
			g := c.CFG(body, info)
			spec := &FactSpec{Atom: func(cond ast.Expr, truth bool) []Fact {
				cond = ast.Unparen(cond)
				if cl, ok := cond.(*ast.CallExpr); ok {
					if se, ok := cl.Fun.(*ast.SelectorExpr); ok && exprStr(se.X) == recvStr {
						switch funcKey(callee(info, cl)) {
						case "math/big.Float.IsInf":
							if !truth {
								return []Fact{{"finite", recvStr}}
							}
						case "math/big.Float.IsInt":
							if truth {
								return []Fact{{"finite", recvStr}}
							}
						}
					}
				}
				if be, ok := cond.(*ast.BinaryExpr); ok && acc != nil && ((be.Op == token.NEQ && !truth) || (be.Op == token.EQL && truth)) {
					// accA != accB is false: both narrowings have the same accuracy
					xo, yo := objOf(info, be.X), objOf(info, be.Y)
					if xo != nil && yo != nil && (xo == acc || yo == acc) && isAccuracy(xo.Type()) && isAccuracy(yo.Type()) {
						other := xo
						if xo == acc {
							other = yo
						}
						return []Fact{{"sameacc", objKey(other)}}
					}
				}
				if be, ok := cond.(*ast.BinaryExpr); ok {
					// some accuracy variable compared with big.Exact
					for _, pair := range [][2]ast.Expr{{be.X, be.Y}, {be.Y, be.X}} {
						if o := objOf(info, pair[0]); o != nil && isAccuracy(o.Type()) && isPkgConst(info, pair[1], "math/big", "Exact") {
							if (be.Op == token.EQL && truth) || (be.Op == token.NEQ && !truth) {
								return []Fact{{"exactacc", objKey(o)}}
							}
						}
					}
				}
				if be, ok := cond.(*ast.BinaryExpr); ok && acc != nil {
					if (objOf(info, be.X) == acc && isPkgConst(info, be.Y, "math/big", "Exact")) || (objOf(info, be.Y) == acc && isPkgConst(info, be.X, "math/big", "Exact")) {
						if (be.Op == token.EQL && truth) || (be.Op == token.NEQ && !truth) {
							return []Fact{{"finite", recvStr}}
						}
					}
				}
				return nil
			}}
			facts := g.MustFacts(spec)
			for _, d := range derefs {
				fs, ok := facts.At(d)
				if !ok {
					continue
				}
				finite := fs.has("finite", recvStr)
				if !finite && acc != nil {
					// the accuracy equals another accuracy that was compared with big.Exact
					for ft := range fs {
						if ft.Pred == "sameacc" && fs.has("exactacc", ft.Subj) {
							finite = true
						}
					}
					if fs.has("exactacc", objKey(acc)) {
						finite = true
					}
				}
				if !finite {
					rr.Violation(key, d.Pos(), fmt.Sprintf("%s.Int(nil) returns a nil *big.Int when %s is an infinity, and the result is dereferenced at %s without a dominating finiteness test (IsInf exit / IsInt / accuracy == big.Exact): an infinite number that is not the package singleton (e.g. cty.NumberFloatVal(math.Inf(1))) causes a nil-pointer panic", recvStr, recvStr, c.PosStr(d.Pos())))
					return true
				}
			}
			rr.OK(key, as.Pos(), fmt.Sprintf("%d dereference(s), all dominated by a finiteness test on %s", len(derefs), recvStr))
			return true
		})
	})
}

// ---------------------------------------------------------------------------

var nanSources = map[string]bool{"math.Log": true, "math.Log2": true, "math.Log10": true, "math.Log1p": true, "math.Pow": true, "math.Sqrt": true, "math.Mod": true, "math.Acos": true, "math.Asin": true, "math.Remainder": true}

func mayBeNaN(info *types.Info, e ast.Expr) string {
	why := ""
	ast.Inspect(e, func(n ast.Node) bool {
		switch x := n.(type) {
		case *ast.CallExpr:
			f := callee(info, x)
			if k := funcKey(f); nanSources[k] {
				why = k
			}
			// a float read from the wire can be any bit pattern, NaN included
			if f != nil && f.Pkg() != nil && strings.Contains(f.Pkg().Path(), "msgpack") && (f.Name() == "DecodeFloat64" || f.Name() == "DecodeFloat32") {
				why = "the decoder's " + f.Name() + " (the input may encode NaN)"
			}
		case *ast.BinaryExpr:
			if x.Op == token.QUO {
				if b, ok := info.TypeOf(x).Underlying().(*types.Basic); ok && b.Info()&types.IsFloat != 0 {
					if info.Types[x].Value == nil && why == "" {
						why = "a float division"
					}
				}
			}
		}
		return true
	})
	return why
}

func runFloatNaN(rr *RuleRun) {
	c := rr.Ctx
	eachFuncBody(c, []string{"cty/function/stdlib", "cty", "cty/convert", "cty/gocty", "cty/msgpack", "cty/json"}, func(pkg string, fd *ast.FuncDecl, body *ast.BlockStmt) {
		info := c.Info(pkg)
		inspectNoLit(body, func(n ast.Node) bool {
			call, ok := n.(*ast.CallExpr)
			if !ok || !isCall(info, call, "cty.NumberFloatVal") || len(call.Args) != 1 {
				return true
			}
			arg := call.Args[0]
			why := mayBeNaN(info, arg)
			argObj := objOf(info, arg)
			if why == "" && argObj != nil {
				// a local defined once from a NaN-producing expression
				if st, idx, rhs := findDefine(info, body, argObj); st != nil && idx < len(rhs) && countAssigns(info, body, argObj) == 0 {
					why = mayBeNaN(info, rhs[idx])
				}
			}
			if why == "" {
				return true
			}
			key := fmt.Sprintf("%s.%s/NumberFloatVal(%s)", pkg, declName(fd), trunc(exprStr(arg), 40))
			guarded := false
			if argObj != nil {
				g := c.CFG(body, info)
				spec := &FactSpec{Atom: func(cond ast.Expr, truth bool) []Fact {
					if cl, ok := ast.Unparen(cond).(*ast.CallExpr); ok && isCall(info, cl, "math.IsNaN") && len(cl.Args) == 1 && objOf(info, cl.Args[0]) == argObj && !truth {
						return []Fact{{"notnan", objKey(argObj)}}
					}
					return nil
				}}
				if fs, ok := g.MustFacts(spec).At(call); ok && fs.has("notnan", objKey(argObj)) {
					guarded = true
				}
			}
			if guarded {
				rr.OK(key, call.Pos(), "dominated by a math.IsNaN exit on the same variable")
			} else {
				rr.Violation(key, call.Pos(), fmt.Sprintf("the argument is computed by %s, which yields NaN for part of its domain, and reaches NumberFloatVal (which panics on NaN) without a math.IsNaN test", why))
			}
			return true
		})
	})
}

// ---------------------------------------------------------------------------

func runNegativeCount(rr *RuleRun) {
	c := rr.Ctx
	eachFuncBody(c, []string{"cty/function/stdlib"}, func(pkg string, fd *ast.FuncDecl, body *ast.BlockStmt) {
		info := c.Info(pkg)
		// ints filled by gocty.FromCtyValue(x, &n)
		filled := map[types.Object]token.Pos{}
		inspectNoLit(body, func(n ast.Node) bool {
			call, ok := n.(*ast.CallExpr)
			if !ok || !isCall(info, call, "cty/gocty.FromCtyValue") || len(call.Args) != 2 {
				return true
			}
			if u, ok := ast.Unparen(call.Args[1]).(*ast.UnaryExpr); ok && u.Op == token.AND {
				if o := objOf(info, u.X); o != nil {
					if b, ok := o.Type().Underlying().(*types.Basic); ok && b.Info()&types.IsInteger != 0 && b.Info()&types.IsUnsigned == 0 {
						filled[o] = call.Pos()
					}
				}
			}
			return true
		})
		if len(filled) == 0 {
			return
		}
		g := c.CFG(body, info)
		for o := range filled {
			o := o
			spec := &FactSpec{Atom: func(cond ast.Expr, truth bool) []Fact {
				be, ok := ast.Unparen(cond).(*ast.BinaryExpr)
				if !ok {
					return nil
				}
				zero := func(e ast.Expr) bool { v, ok := constInt(info, e); return ok && v == 0 }
				one := func(e ast.Expr) bool { v, ok := constInt(info, e); return ok && v == 1 }
				isO := func(e ast.Expr) bool { return objOf(info, e) == o }
				nonneg := false
				switch {
				case isO(be.X) && be.Op == token.LSS && (zero(be.Y) || one(be.Y)) && !truth: // !(n < 0)
					nonneg = true
				case isO(be.X) && be.Op == token.LEQ && zero(be.Y) && !truth: // !(n <= 0)
					nonneg = true
				case isO(be.X) && (be.Op == token.GEQ && zero(be.Y) || be.Op == token.GTR && zero(be.Y)) && truth:
					nonneg = true
				case isO(be.Y) && be.Op == token.GTR && zero(be.X) && !truth: // !(0 > n)
					nonneg = true
				}
				if nonneg {
					return []Fact{{"nonneg", objKey(o)}}
				}
				return nil
			}}
			facts := g.MustFacts(spec)
			inspectNoLit(body, func(n ast.Node) bool {
				var sink string
				var at ast.Node
				switch x := n.(type) {
				case *ast.CallExpr:
					if isCall(info, x, "strings.Repeat") && len(x.Args) == 2 && objOf(info, x.Args[1]) == o {
						sink, at = "strings.Repeat", x
					}
					if isBuiltin(info, x, "make") {
						for _, a := range x.Args[1:] {
							if objOf(info, a) == o {
								sink, at = "make", x
							}
						}
					}
				case *ast.SliceExpr:
					for _, b := range []ast.Expr{x.Low, x.High, x.Max} {
						if b != nil && objOf(info, b) == o {
							sink, at = "a slice bound", x
						}
					}
				}
				if sink == "" {
					return true
				}
				key := fmt.Sprintf("%s.%s/%s→%s", pkg, declName(fd), o.Name(), strings.Fields(sink)[len(strings.Fields(sink))-1])
				fs, ok := facts.At(at)
				if !ok {
					return true
				}
				if fs.has("nonneg", objKey(o)) {
					rr.OK(key, at.Pos(), "dominated by a '< 0' exit on "+o.Name())
				} else {
					rr.Violation(key, at.Pos(), fmt.Sprintf("%s is decoded from an argument and used as the count of %s without a '< 0' test: a negative argument panics inside the implementation", o.Name(), sink))
				}
				return true
			})
		}
	})
}

// ---------------------------------------------------------------------------

var valueSingletons = []string{"NilVal", "DynamicVal", "True", "False", "Zero", "PositiveInfinity", "NegativeInfinity", "EmptyObjectVal", "EmptyTupleVal"}
var typeSingletons = []string{"Bool", "Number", "String", "DynamicPseudoType", "NilType", "EmptyObject", "EmptyTuple"}

func runCompareByIdentity(rr *RuleRun) {
	c := rr.Ctx
	eachFuncBody(c, allPkgs, func(pkg string, fd *ast.FuncDecl, body *ast.BlockStmt) {
		info := c.Info(pkg)
		inspectNoLit(body, func(n ast.Node) bool {
			check := func(x, y ast.Expr, pos token.Pos, op string) {
				tx, ty := info.TypeOf(x), info.TypeOf(y)
				if tx == nil || ty == nil {
					return
				}
				isV := isCtyValue(tx) && isCtyValue(ty)
				isT := isCtyType(tx) && isCtyType(ty)
				if !isV && !isT {
					return
				}
				single := isPkgVar(info, x, "cty", valueSingletons...) || isPkgVar(info, y, "cty", valueSingletons...) ||
					isPkgVar(info, x, "cty", typeSingletons...) || isPkgVar(info, y, "cty", typeSingletons...)
				key := fmt.Sprintf("%s.%s/%s %s %s", pkg, declName(fd), trunc(exprStr(x), 30), op, trunc(exprStr(y), 30))
				if single {
					// a number singleton compared by identity as the guard of a rejection: a number that is equal to
					// the singleton but was computed (a different *big.Float) walks past the rejection
					if isV && op == "==" && (isPkgVar(info, x, "cty", numberSingletons...) || isPkgVar(info, y, "cty", numberSingletons...)) {
						if ifs := identityGuardsRejection(c, info, n); ifs != nil {
							rr.Violation(key, pos, fmt.Sprintf("the rejection guarded by 'if %s' recognises the number only by identity with the package variable (== on cty.Value compares the *big.Float pointers): an equal number that was computed or parsed — cty.NumberIntVal(0), cty.NumberFloatVal(math.Inf(1)) — is not rejected; compare the value (RawEquals, or the payload's Sign() / IsInf())", trunc(exprStr(ifs.Cond), 60)))
							return
						}
					}
					rr.OKTrivial(key, pos, "compared with a package-level singleton")
					return
				}
				if why, ok := identityAllowed[fmt.Sprintf("%s.%s/%s%s%s", pkg, declName(fd), exprStr(x), op, exprStr(y))]; ok {
					rr.OKTrivial(key, pos, "tabled: "+why)
					return
				}
				what := "cty.Value"
				if isT {
					what = "cty.Type"
				}
				rr.Violation(key, pos, fmt.Sprintf("two arbitrary %s operands are compared with %s: that is identity of the Go representation, not %s equality — equal values can compare different, and the comparison panics at run time when both hold an uncomparable payload (object / tuple / map representations); use Equals / RawEquals", what, op, what))
			}
			switch x := n.(type) {
			case *ast.BinaryExpr:
				if x.Op == token.EQL || x.Op == token.NEQ {
					check(x.X, x.Y, x.Pos(), x.Op.String())
				}
			case *ast.SwitchStmt:
				if x.Tag != nil && (isCtyValue(info.TypeOf(x.Tag)) || isCtyType(info.TypeOf(x.Tag))) {
					for _, cl := range x.Body.List {
						for _, e := range cl.(*ast.CaseClause).List {
							check(x.Tag, e, e.Pos(), "switch ==")
						}
					}
				}
			}
			return true
		})
	})
}

// identityAllowed: == between two non-singleton operands that is sound, keyed by function and operands.
var identityAllowed = map[string]string{
	"cty.Type.Equals/t==other": "evaluated only when one operand is NilType (a nil implementation): the comparison cannot meet two uncomparable payloads and asks exactly 'are both NilType'",
}

func isAccuracy(t types.Type) bool { return namedType(t) == "math/big.Accuracy" }

var numberSingletons = []string{"Zero", "PositiveInfinity", "NegativeInfinity"}

// identityGuardsRejection: n is a comparison that, when true, makes the condition of an if statement true (it is
// the condition or a disjunct of it), and the body of that if returns a non-nil error.
func identityGuardsRejection(c *Ctx, info *types.Info, n ast.Node) *ast.IfStmt {
	var child ast.Node = n
	for p := c.Parent(n); p != nil; child, p = p, c.Parent(p) {
		switch x := p.(type) {
		case *ast.ParenExpr:
			continue
		case *ast.BinaryExpr:
			if x.Op == token.LOR {
				continue
			}
			return nil
		case *ast.IfStmt:
			if ast.Node(x.Cond) != child {
				return nil
			}
			rejects := false
			inspectNoLit(x.Body, func(m ast.Node) bool {
				if ret, ok := m.(*ast.ReturnStmt); ok && len(ret.Results) > 0 {
					last := ret.Results[len(ret.Results)-1]
					if t := info.TypeOf(last); t != nil && namedType(t) == "error" || t != nil && types.Implements(t, errorIface()) {
						if !isNilIdent(info, last) {
							rejects = true
						}
					}
				}
				return true
			})
			if rejects {
				return x
			}
			return nil
		default:
			return nil
		}
	}
	return nil
}

func errorIface() *types.Interface {
	return types.Universe.Lookup("error").Type().Underlying().(*types.Interface)
}
