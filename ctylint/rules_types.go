package main

import (
	"fmt"
	"go/ast"
	"go/token"
	"go/types"
	"regexp"
	"sort"
	"strconv"
	"strings"
)

func init() {
	register(&Rule{
		ID: "C07.equals-field-coverage", Prop: "C07", Floor: 8, Controls: 1,
		Doc: "every implementation of typeImpl: Equals asserts other.typeImpl to the receiver's own concrete type and reads every non-sigil field from both sides (ranged fields also compared by length; pointer implementations compared by identity)",
		Run: runEqualsFieldCoverage,
	})
	register(&Rule{
		ID: "C07.json-tags", Prop: "C07", Floor: 1,
		Doc: "the type names Type.MarshalJSON writes equal the case labels Type.UnmarshalJSON accepts; the optional-attribute list is written exactly when the reader has a branch consuming it",
		Run: runJSONTags,
	})
	register(&Rule{
		ID: "C07.strip-rebuilds-everything", Prop: "C07", Floor: 5, Also: []string{"C06"},
		Doc: "WithoutOptionalAttributesDeep rebuilds every compound kind from recursive results and never constructs an object type with optional attributes",
		Run: runStripRebuilds,
	})
}

// typeImplImpls lists the named types of package cty that implement typeImpl.
func typeImplImpls(c *Ctx) []types.Type {
	pkg := c.Pkg("cty").Types
	obj := pkg.Scope().Lookup("typeImpl")
	if obj == nil {
		return nil
	}
	iface, ok := obj.Type().Underlying().(*types.Interface)
	if !ok {
		return nil
	}
	var out []types.Type
	names := pkg.Scope().Names()
	sort.Strings(names)
	for _, n := range names {
		tn, ok := pkg.Scope().Lookup(n).(*types.TypeName)
		if !ok || tn.IsAlias() {
			continue
		}
		if _, isIface := tn.Type().Underlying().(*types.Interface); isIface {
			continue
		}
		if n == "typeImplSigil" {
			continue
		}
		if types.Implements(tn.Type(), iface) {
			out = append(out, tn.Type())
		} else if types.Implements(types.NewPointer(tn.Type()), iface) {
			out = append(out, types.NewPointer(tn.Type()))
		}
	}
	return out
}

func runEqualsFieldCoverage(rr *RuleRun) {
	c := rr.Ctx
	info := c.Info("cty")
	for _, impl := range typeImplImpls(c) {
		name := namedType(impl)
		base := strings.TrimPrefix(name, "cty.")
		fd := c.Decl("cty", base+".Equals")
		key := name + ".Equals"
		if fd == nil {
			// Type embeds typeImpl and therefore implements it by promotion; it is the wrapper, not an implementation
			if base == "Type" {
				continue
			}
			rr.Broken("implementation " + name + " has no Equals declaration")
			continue
		}
		if base == "Type" {
			continue
		}
		recvObj := info.Defs[fd.Recv.List[0].Names[0]]
		otherObj := info.Defs[paramIdent(fd, 0)]
		_, isPtr := impl.(*types.Pointer)
		// 1. assertion of other.typeImpl to own type
		var asserted types.Object
		bad := ""
		ast.Inspect(fd.Body, func(n ast.Node) bool {
			as, ok := n.(*ast.AssignStmt)
			if !ok || len(as.Lhs) != 2 || len(as.Rhs) != 1 {
				return true
			}
			ta, ok := as.Rhs[0].(*ast.TypeAssertExpr)
			if !ok || ta.Type == nil {
				return true
			}
			se, ok := ast.Unparen(ta.X).(*ast.SelectorExpr)
			if !ok || se.Sel.Name != "typeImpl" || objOf(info, se.X) != otherObj {
				return true
			}
			if !types.Identical(info.TypeOf(ta.Type), impl) {
				bad = "other.typeImpl is asserted to " + info.TypeOf(ta.Type).String() + ", not to the receiver's own type"
				return true
			}
			if id, ok := as.Lhs[0].(*ast.Ident); ok && id.Name != "_" {
				asserted = info.Defs[id]
			}
			bad = ""
			return true
		})
		st, _ := impl.Underlying().(*types.Struct)
		if p, ok := impl.(*types.Pointer); ok {
			st, _ = p.Elem().Underlying().(*types.Struct)
		}
		var fields []string
		if st != nil {
			for i := 0; i < st.NumFields(); i++ {
				f := st.Field(i)
				if f.Embedded() && f.Name() == "typeImplSigil" {
					continue
				}
				fields = append(fields, f.Name())
			}
		}
		if bad != "" {
			rr.Violation(key, fd.Pos(), bad)
			continue
		}
		if asserted == nil {
			if len(fields) == 0 {
				// field-less implementation: a comma-ok with blank value is enough
				okAssert := false
				ast.Inspect(fd.Body, func(n ast.Node) bool {
					if ta, ok := n.(*ast.TypeAssertExpr); ok && ta.Type != nil && types.Identical(info.TypeOf(ta.Type), impl) {
						okAssert = true
					}
					return true
				})
				if okAssert {
					rr.OK(key, fd.Pos(), "field-less implementation; kind assertion present")
				} else {
					rr.Violation(key, fd.Pos(), "Equals does not assert other.typeImpl to the receiver's own type")
				}
				continue
			}
			rr.Violation(key, fd.Pos(), "Equals does not bind other.typeImpl asserted to the receiver's own type: no field of the other type can be compared")
			continue
		}
		if isPtr {
			// identity comparison between asserted and receiver
			found := false
			ast.Inspect(fd.Body, func(n ast.Node) bool {
				be, ok := n.(*ast.BinaryExpr)
				if !ok || be.Op != token.EQL {
					return true
				}
				a, b := objOf(info, be.X), objOf(info, be.Y)
				if (a == asserted && b == recvObj) || (a == recvObj && b == asserted) {
					found = true
				}
				return true
			})
			if found {
				rr.OK(key, fd.Pos(), "pointer implementation compared by identity")
			} else {
				rr.Violation(key, fd.Pos(), "capsule identity is not compared (asserted other == receiver missing)")
			}
			continue
		}
		// 2. every field read on both sides
		reads := map[string]map[types.Object]bool{}
		ranged := map[string]bool{}
		lenCmp := map[string]bool{}
		elems := map[string]map[types.Object]bool{} // container fields whose members are looked at (indexed or ranged), per side
		noteElems := func(e ast.Expr) {
			if se, ok := ast.Unparen(e).(*ast.SelectorExpr); ok {
				if o := objOf(info, se.X); o == recvObj || o == asserted {
					if elems[se.Sel.Name] == nil {
						elems[se.Sel.Name] = map[types.Object]bool{}
					}
					elems[se.Sel.Name][o] = true
				}
			}
		}
		ast.Inspect(fd.Body, func(n ast.Node) bool {
			switch x := n.(type) {
			case *ast.IndexExpr:
				noteElems(x.X)
			case *ast.SelectorExpr:
				if o := objOf(info, x.X); o == recvObj || o == asserted {
					if reads[x.Sel.Name] == nil {
						reads[x.Sel.Name] = map[types.Object]bool{}
					}
					reads[x.Sel.Name][o] = true
				}
			case *ast.RangeStmt:
				noteElems(x.X)
				if se, ok := ast.Unparen(x.X).(*ast.SelectorExpr); ok {
					if o := objOf(info, se.X); o == recvObj || o == asserted {
						ranged[se.Sel.Name] = true
					}
				}
			case *ast.BinaryExpr:
				if x.Op == token.NEQ || x.Op == token.EQL {
					f1, o1 := lenOfField(info, x.X)
					f2, o2 := lenOfField(info, x.Y)
					if f1 != "" && f1 == f2 && ((o1 == recvObj && o2 == asserted) || (o1 == asserted && o2 == recvObj)) {
						lenCmp[f1] = true
					}
				}
			}
			return true
		})
		var problems []string
		// nil-ness of a container field is representation, not identity
		ast.Inspect(fd.Body, func(n ast.Node) bool {
			be, ok := n.(*ast.BinaryExpr)
			if !ok || (be.Op != token.EQL && be.Op != token.NEQ) {
				return true
			}
			for _, pair := range [][2]ast.Expr{{be.X, be.Y}, {be.Y, be.X}} {
				se, ok := ast.Unparen(pair[0]).(*ast.SelectorExpr)
				if !ok || !isNilIdent(info, pair[1]) {
					continue
				}
				if o := objOf(info, se.X); o == recvObj || o == asserted {
					if ft := fieldType(st, se.Sel.Name); ft != nil {
						switch ft.Underlying().(type) {
						case *types.Map, *types.Slice:
							problems = append(problems, fmt.Sprintf("field %s is compared with nil: whether an empty container is nil or allocated is a matter of representation, so two structurally identical types can compare unequal", se.Sel.Name))
						}
					}
				}
			}
			return true
		})
		// a condition that looks at a field of one side only decides differently when the operands are swapped
		ast.Inspect(fd.Body, func(n ast.Node) bool {
			is, ok := n.(*ast.IfStmt)
			if !ok {
				return true
			}
			sides := map[types.Object]bool{}
			ast.Inspect(is.Cond, func(m ast.Node) bool {
				if se, ok := m.(*ast.SelectorExpr); ok {
					if o := objOf(info, se.X); (o == recvObj || o == asserted) && fieldType(st, se.Sel.Name) != nil {
						sides[o] = true
					}
				}
				return true
			})
			if len(sides) == 1 {
				problems = append(problems, fmt.Sprintf("the condition '%s' consults a field of one operand only: swapping the operands can change the answer, so equality is not symmetric", trunc(exprStr(is.Cond), 50)))
			}
			return true
		})
		for _, f := range fields {
			if !reads[f][recvObj] || !reads[f][asserted] {
				problems = append(problems, fmt.Sprintf("field %s is not compared between the receiver and the other type", f))
			}
			if ft := fieldType(st, f); ft != nil {
				switch ft.Underlying().(type) {
				case *types.Map, *types.Slice:
					if !elems[f][recvObj] || !elems[f][asserted] {
						problems = append(problems, fmt.Sprintf("the members of container field %s are not compared on both sides (only its size or nothing is looked at): two types whose %s differ in content compare equal", f, f))
					}
				}
			}
			if ranged[f] && !lenCmp[f] {
				problems = append(problems, fmt.Sprintf("field %s is ranged over on one side without comparing lengths: extra members of the other side go unnoticed", f))
			}
		}
		hasFalse := false
		ast.Inspect(fd.Body, func(n ast.Node) bool {
			if r, ok := n.(*ast.ReturnStmt); ok && len(r.Results) == 1 {
				if id, ok := r.Results[0].(*ast.Ident); ok && id.Name == "false" {
					hasFalse = true
				}
				if _, ok := r.Results[0].(*ast.Ident); !ok {
					hasFalse = true // returns a computed comparison
				}
			}
			return true
		})
		if !hasFalse {
			problems = append(problems, "Equals can never answer false")
		}
		if len(problems) > 0 {
			rr.Violation(key, fd.Pos(), strings.Join(problems, "; "))
		} else {
			rr.OK(key, fd.Pos(), "asserts own type; compares fields "+strings.Join(fields, ","))
		}
	}
}

func fieldType(st *types.Struct, name string) types.Type {
	for i := 0; st != nil && i < st.NumFields(); i++ {
		if st.Field(i).Name() == name {
			return st.Field(i).Type()
		}
	}
	return nil
}

func lenOfField(info *types.Info, e ast.Expr) (string, types.Object) {
	call, ok := ast.Unparen(e).(*ast.CallExpr)
	if !ok || !isBuiltin(info, call, "len") || len(call.Args) != 1 {
		return "", nil
	}
	se, ok := ast.Unparen(call.Args[0]).(*ast.SelectorExpr)
	if !ok {
		return "", nil
	}
	return se.Sel.Name, objOf(info, se.X)
}

var quotedWord = regexp.MustCompile(`"([a-z]+)"`)

func runJSONTags(rr *RuleRun) {
	c := rr.Ctx
	info := c.Info("cty")
	w := rr.MustDecl("cty", "Type.MarshalJSON")
	r := rr.MustDecl("cty", "Type.UnmarshalJSON")
	if w == nil || r == nil {
		return
	}
	written := map[string]bool{}
	ast.Inspect(w.Body, func(n ast.Node) bool {
		switch x := n.(type) {
		case *ast.BasicLit:
			if x.Kind == token.STRING {
				if s, err := strconv.Unquote(x.Value); err == nil {
					for _, m := range quotedWord.FindAllStringSubmatch(s, -1) {
						written[m[1]] = true
					}
				}
			}
		case *ast.CompositeLit:
			// []byte{'"','b','o','o','l','"'}
			var sb strings.Builder
			for _, el := range x.Elts {
				if bl, ok := el.(*ast.BasicLit); ok && bl.Kind == token.CHAR {
					if s, err := strconv.Unquote(bl.Value); err == nil {
						sb.WriteString(s)
					}
				}
			}
			for _, m := range quotedWord.FindAllStringSubmatch(sb.String(), -1) {
				written[m[1]] = true
			}
		}
		return true
	})
	accepted := map[string]bool{}
	ast.Inspect(r.Body, func(n ast.Node) bool {
		sw, ok := n.(*ast.SwitchStmt)
		if !ok || sw.Tag == nil {
			return true
		}
		if t := info.TypeOf(sw.Tag); t == nil || !types.Identical(t.Underlying(), types.Typ[types.String]) {
			return true
		}
		for _, cl := range sw.Body.List {
			for _, e := range cl.(*ast.CaseClause).List {
				if tv, ok := info.Types[e]; ok && tv.Value != nil {
					if s, err := strconv.Unquote(tv.Value.ExactString()); err == nil {
						accepted[s] = true
					}
				}
			}
		}
		return true
	})
	var onlyW, onlyR []string
	for k := range written {
		if !accepted[k] {
			onlyW = append(onlyW, k)
		}
	}
	for k := range accepted {
		if !written[k] {
			onlyR = append(onlyR, k)
		}
	}
	sort.Strings(onlyW)
	sort.Strings(onlyR)
	key := "cty.Type.MarshalJSON~UnmarshalJSON"
	if len(written) < 9 {
		rr.Broken(fmt.Sprintf("extracted only %d written type names from MarshalJSON (want 9): the extraction idiom changed", len(written)))
		return
	}
	if len(onlyW)+len(onlyR) > 0 {
		rr.Violation(key, w.Pos(), fmt.Sprintf("type-name tables disagree: written but not accepted %v; accepted but never written %v", onlyW, onlyR))
		return
	}
	// optional attributes: writer consults OptionalAttributes; reader calls ObjectWithOptionalAttrs under dec.More()
	writesOpt, readsOpt := false, false
	ast.Inspect(w.Body, func(n ast.Node) bool {
		if call, ok := n.(*ast.CallExpr); ok && isCall(info, call, "cty.Type.OptionalAttributes") {
			writesOpt = true
		}
		return true
	})
	ast.Inspect(r.Body, func(n ast.Node) bool {
		if call, ok := n.(*ast.CallExpr); ok && isCall(info, call, "cty.ObjectWithOptionalAttrs") {
			readsOpt = true
		}
		return true
	})
	if writesOpt != readsOpt {
		rr.Violation(key, w.Pos(), fmt.Sprintf("optional-attribute list: writer emits it = %v, reader consumes it = %v", writesOpt, readsOpt))
		return
	}
	var l []string
	for k := range written {
		l = append(l, k)
	}
	sort.Strings(l)
	rr.OK(key, w.Pos(), "writer and reader agree on "+strings.Join(l, ","))
}

func runStripRebuilds(rr *RuleRun) {
	c := rr.Ctx
	info := c.Info("cty")
	fd := rr.MustDecl("cty", "Type.WithoutOptionalAttributesDeep")
	if fd == nil {
		return
	}
	self := info.Defs[fd.Name]
	// locals filled from recursive calls
	filled := map[types.Object]bool{}
	isRec := func(e ast.Expr) bool {
		call, ok := ast.Unparen(e).(*ast.CallExpr)
		return ok && callee(info, call) == self
	}
	ast.Inspect(fd.Body, func(n ast.Node) bool {
		as, ok := n.(*ast.AssignStmt)
		if !ok || len(as.Lhs) != 1 || len(as.Rhs) != 1 || !isRec(as.Rhs[0]) {
			return true
		}
		if ix, ok := as.Lhs[0].(*ast.IndexExpr); ok {
			if o := objOf(info, ix.X); o != nil {
				filled[o] = true
			}
		}
		return true
	})
	// a helper of the package that returns a fresh container filled by recursive results (the member loop
	// of the tuple / object branch moved into a function of its own)
	helperFills := func(e ast.Expr) bool {
		call, ok := ast.Unparen(e).(*ast.CallExpr)
		if !ok {
			return false
		}
		f := callee(info, call)
		if f == nil || f.Pkg() == nil || shortPkg(f.Pkg()) != "cty" {
			return false
		}
		hd := c.Decl("cty", funcDeclKey(f))
		if hd == nil || hd.Body == nil || hd == fd {
			return false
		}
		hfilled := map[types.Object]bool{}
		ast.Inspect(hd.Body, func(n ast.Node) bool {
			as, ok := n.(*ast.AssignStmt)
			if !ok || len(as.Lhs) != 1 || len(as.Rhs) != 1 || !isRec(as.Rhs[0]) {
				return true
			}
			if ix, ok := as.Lhs[0].(*ast.IndexExpr); ok {
				if o := objOf(info, ix.X); o != nil {
					hfilled[o] = true
				}
			}
			return true
		})
		okAll, n := true, 0
		ast.Inspect(hd.Body, func(n2 ast.Node) bool {
			if ret, ok := n2.(*ast.ReturnStmt); ok && len(ret.Results) == 1 {
				n++
				if o := objOf(info, ret.Results[0]); o == nil || !hfilled[o] {
					okAll = false
				}
			}
			return true
		})
		return n > 0 && okAll
	}
	want := map[string]bool{"cty.List": false, "cty.Map": false, "cty.Set": false, "cty.Tuple": false, "cty.Object": false}
	ast.Inspect(fd.Body, func(n ast.Node) bool {
		call, ok := n.(*ast.CallExpr)
		if !ok {
			return true
		}
		k := funcKey(callee(info, call))
		if k == "cty.ObjectWithOptionalAttrs" {
			rr.Violation("cty.Type.WithoutOptionalAttributesDeep/ObjectWithOptionalAttrs", call.Pos(), "the stripper itself constructs an object type with optional attributes")
			return true
		}
		if _, ok := want[k]; !ok || len(call.Args) != 1 {
			return true
		}
		key := "cty.Type.WithoutOptionalAttributesDeep/" + strings.TrimPrefix(k, "cty.")
		a := call.Args[0]
		switch {
		case isRec(a):
			rr.OK(key, call.Pos(), "rebuilt from the recursive result")
			want[k] = true
		case objOf(info, a) != nil && filled[objOf(info, a)]:
			rr.OK(key, call.Pos(), "rebuilt from a fresh container filled by recursive results")
			want[k] = true
		case helperFills(a):
			rr.OK(key, call.Pos(), "rebuilt from the result of a helper that fills a fresh container with recursive results")
			want[k] = true
		default:
			rr.Violation(key, call.Pos(), "compound type rebuilt from "+exprStr(a)+", which does not come from the recursive stripping of its members")
			want[k] = true
		}
		return true
	})
	for k, seen := range want {
		if !seen {
			rr.Violation("cty.Type.WithoutOptionalAttributesDeep/"+strings.TrimPrefix(k, "cty."), fd.Pos(), "no rebuilding call of "+k+" in the stripper")
		}
	}
}

func init() {
	register(&Rule{
		ID: "C07.conformance-structure", Prop: "C07", Floor: 6,
		Doc: "testConformance: each both-sides compound branch recurses with a member type of 'given' first and the corresponding member of 'want' second, and the fall-through residual appends an error (non-conformance always reports at least one error)",
		Run: runConformanceStructure,
	})
}

func runConformanceStructure(rr *RuleRun) {
	c := rr.Ctx
	info := c.Info("cty")
	fd := rr.MustDecl("cty", "testConformance")
	if fd == nil {
		return
	}
	self := info.Defs[fd.Name]
	given := info.Defs[paramIdent(fd, 0)]
	want := info.Defs[paramIdent(fd, 1)]
	errsP := info.Defs[paramIdent(fd, 3)]
	// taint locals derived from given / want
	derives := func(root types.Object) map[types.Object]bool {
		m := map[types.Object]bool{root: true}
		for changed := true; changed; {
			changed = false
			ast.Inspect(fd.Body, func(n ast.Node) bool {
				switch s := n.(type) {
				case *ast.AssignStmt:
					for i, l := range s.Lhs {
						lo := objOf(info, l)
						if lo == nil || m[lo] {
							continue
						}
						var r ast.Expr
						if len(s.Rhs) == len(s.Lhs) {
							r = s.Rhs[i]
						} else if len(s.Rhs) == 1 {
							r = s.Rhs[0]
						}
						if r != nil && mentions(info, r, m) {
							m[lo] = true
							changed = true
						}
					}
				case *ast.RangeStmt:
					if mentions(info, s.X, m) {
						for _, e := range []ast.Expr{s.Key, s.Value} {
							if e != nil {
								if lo := objOf(info, e); lo != nil && !m[lo] {
									m[lo] = true
									changed = true
								}
							}
						}
					}
				}
				return true
			})
		}
		return m
	}
	gset, wset := derives(given), derives(want)
	// the index expression givenElems[i] mentions i (derived from want's range) as well: judge by the base
	base := func(e ast.Expr) ast.Expr {
		for {
			switch x := ast.Unparen(e).(type) {
			case *ast.IndexExpr:
				e = x.X
				continue
			}
			return e
		}
	}
	for _, st := range fd.Body.List {
		ifs, ok := st.(*ast.IfStmt)
		if !ok {
			continue
		}
		be, ok := ast.Unparen(ifs.Cond).(*ast.BinaryExpr)
		if !ok || be.Op != token.LAND {
			continue
		}
		kx, ky := "", ""
		if cx, ok := ast.Unparen(be.X).(*ast.CallExpr); ok {
			kx = kindPredicate(funcKey(callee(info, cx)))
		}
		if cy, ok := ast.Unparen(be.Y).(*ast.CallExpr); ok {
			ky = kindPredicate(funcKey(callee(info, cy)))
		}
		if kx == "" || kx != ky {
			continue
		}
		key := "cty.testConformance/" + kx
		found := false
		var scan func(body ast.Node, binfo *types.Info, gs, ws map[types.Object]bool, g, w types.Object, depth int)
		scan = func(body ast.Node, binfo *types.Info, gs, ws map[types.Object]bool, g, w types.Object, depth int) {
			ast.Inspect(body, func(n ast.Node) bool {
				call, ok := n.(*ast.CallExpr)
				if !ok || len(call.Args) < 2 {
					return true
				}
				f := callee(binfo, call)
				if f == nil {
					return true
				}
				if f == self {
					found = true
					a0, a1 := base(call.Args[0]), base(call.Args[1])
					g0 := mentions(binfo, a0, gs) && !mentions(binfo, a0, map[types.Object]bool{w: true})
					w1 := mentions(binfo, a1, ws) && !mentions(binfo, a1, map[types.Object]bool{g: true})
					if g0 && w1 {
						rr.OK(key, call.Pos(), "recurses on (member of given, member of want)")
					} else {
						rr.Violation(key, call.Pos(), fmt.Sprintf("recursive conformance call compares %s with %s: not (member of given, member of want)", exprStr(call.Args[0]), exprStr(call.Args[1])))
					}
					return true
				}
				// a same-package helper that receives the two sides in separate parameters
				if depth > 0 && f.Pkg() != nil && shortPkg(f.Pkg()) == "cty" {
					cd := findFuncDecl(f)
					if cd == nil || cd.Body == nil {
						return true
					}
					var gp, wp types.Object
					for i, a := range call.Args {
						id := paramIdent(cd, i)
						if id == nil {
							continue
						}
						po := binfo.Defs[id]
						isG := mentions(binfo, a, gs) && !mentions(binfo, a, ws)
						isW := mentions(binfo, a, ws) && !mentions(binfo, a, gs)
						if isG && gp == nil {
							gp = po
						} else if isW && wp == nil {
							wp = po
						}
					}
					if gp != nil && wp != nil {
						// the helper's parameters play the roles; locals derived from them are found by name flow inside it
						hg, hw := map[types.Object]bool{gp: true}, map[types.Object]bool{wp: true}
						for changed := true; changed; {
							changed = false
							ast.Inspect(cd.Body, func(m ast.Node) bool {
								if as, ok := m.(*ast.AssignStmt); ok && len(as.Lhs) == len(as.Rhs) {
									for i, l := range as.Lhs {
										if lo := objOf(binfo, l); lo != nil {
											if !hg[lo] && mentions(binfo, as.Rhs[i], hg) && !mentions(binfo, as.Rhs[i], hw) {
												hg[lo], changed = true, true
											}
											if !hw[lo] && mentions(binfo, as.Rhs[i], hw) && !mentions(binfo, as.Rhs[i], hg) {
												hw[lo], changed = true, true
											}
										}
									}
								}
								return true
							})
						}
						scan(cd.Body, binfo, hg, hw, gp, wp, depth-1)
					}
				}
				return true
			})
		}
		installFindFuncDecl(c)
		scan(ifs.Body, info, gset, wset, given, want, 2)
		if !found {
			rr.Violation(key, ifs.Pos(), "compound branch does not recurse into member types")
		}
		if r, ok := ifs.Body.List[len(ifs.Body.List)-1].(*ast.ReturnStmt); !ok || len(r.Results) != 0 {
			rr.Violation(key+"/return", ifs.Pos(), "compound branch falls through to the residual")
		}
	}
	// residual: last statement appends to *errs
	last := fd.Body.List[len(fd.Body.List)-1]
	okRes := false
	if as, ok := last.(*ast.AssignStmt); ok && len(as.Lhs) == 1 && len(as.Rhs) == 1 {
		if se, ok := as.Lhs[0].(*ast.StarExpr); ok && objOf(info, se.X) == errsP {
			if call, ok := as.Rhs[0].(*ast.CallExpr); ok && isBuiltin(info, call, "append") && len(call.Args) >= 2 {
				okRes = true
			}
		}
	}
	if okRes {
		rr.OK("cty.testConformance/residual", last.Pos(), "fall-through appends an error")
	} else {
		rr.Violation("cty.testConformance/residual", last.Pos(), "the fall-through of testConformance does not append an error: a non-conforming pair can report zero errors")
	}
}
