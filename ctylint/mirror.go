package main

import (
	"fmt"
	"go/ast"
	"go/token"
	"go/types"
	"strings"
)

// SIB — mirror agreement between two sibling functions. Each body is rendered to a
// canonical token sequence: local variables are alpha-renamed by first occurrence,
// string literals are blanked, every other identifier and every operator is kept —
// and, for side A, passed through the pair's mirror map (min↔max, Lower↔Upper, <↔>).
// The two sequences must be equal. A one-sided edit (one comparison flipped, one
// bound forgotten) breaks the mirror; an edit applied consistently to both does not.

type mirrorPair struct {
	Prop  string
	Also  []string
	Pkg   string
	A, B  string
	Names map[string]string // identifier mirror map (applied symmetrically)
	Why   string
}

var opMirror = map[token.Token]token.Token{
	token.LSS: token.GTR, token.GTR: token.LSS, token.LEQ: token.GEQ, token.GEQ: token.LEQ,
}

var mirrorPairs = []mirrorPair{
	{Prop: "C01", Also: []string{"C02"}, Pkg: "cty", A: "Value.LessThan", B: "Value.GreaterThan",
		Names: map[string]string{"LessThan": "GreaterThan", "NumberUpperBound": "NumberLowerBound"},
		Why:   "LessThan and GreaterThan are the same computation with the operands' roles swapped: a range shortcut or comparison changed on one side only makes a<b disagree with b>a"},
	{Prop: "C05", Pkg: "cty", A: "RefinementBuilder.NumberRangeLowerBound", B: "RefinementBuilder.NumberRangeUpperBound",
		Names: map[string]string{"min": "max", "minInc": "maxInc", "GreaterThan": "LessThan", "GreaterThanOrEqualTo": "LessThanOrEqualTo", "NegativeInfinity": "PositiveInfinity"},
		Why:   "the keep-the-tighter-bound logic of the lower and the upper bound are mirror images; a tie-break inverted on one side widens the range"},
	{Prop: "C05", Pkg: "cty", A: "ValueRange.NumberLowerBound", B: "ValueRange.NumberUpperBound",
		Names: map[string]string{"min": "max", "minInc": "maxInc", "NegativeInfinity": "PositiveInfinity"},
		Why:   "the reported lower and upper bound are read out of the refinement by mirror-image code"},
}

func init() {
	byProp := map[string]int{}
	for _, p := range mirrorPairs {
		byProp[p.Prop]++
	}
	for _, prop := range []string{"C01", "C05"} {
		prop := prop
		var also []string
		for _, p := range mirrorPairs {
			if p.Prop == prop {
				also = append(also, p.Also...)
			}
		}
		register(&Rule{
			ID: prop + ".mirror", Prop: prop, Also: also, Floor: byProp[prop], Controls: 0,
			Doc: "sibling functions that are mirror images of each other (lower/upper bound, less/greater) are equal after alpha-renaming locals, blanking string literals and applying the mirror map (min↔max, Lower↔Upper, <↔>): a one-sided edit is reported",
			Run: func(rr *RuleRun) { runMirror(rr, prop) },
		})
	}
}

type canonTok struct {
	s   string
	pos token.Pos
	fn  *types.Func // set for identifiers naming a package-level function
}

func canonBody(info *types.Info, fd *ast.FuncDecl, names map[string]string, mirrored bool) []canonTok {
	full := map[string]string{}
	for k, v := range names {
		full[k] = v
		full[v] = k
	}
	// the functions' own names are mirrored through the same map (recursion in the mark prologue)
	mapName := func(n string) string {
		if !mirrored {
			return n
		}
		if m, ok := full[n]; ok {
			return m
		}
		return n
	}
	local := map[types.Object]string{}
	var out []canonTok
	emit := func(s string, p token.Pos) { out = append(out, canonTok{s: s, pos: p}) }
	// receiver, parameters and results are locals too
	var visit func(n ast.Node) bool
	visit = func(n ast.Node) bool {
		switch x := n.(type) {
		case nil:
			return true
		case *ast.CommentGroup, *ast.Comment:
			return false
		case *ast.Ident:
			obj := info.ObjectOf(x)
			if v, ok := obj.(*types.Var); ok && !v.IsField() && v.Pkg() != nil && v.Parent() != v.Pkg().Scope() {
				nm, ok := local[obj]
				if !ok {
					nm = fmt.Sprintf("v%d", len(local)+1)
					local[obj] = nm
				}
				emit(nm, x.Pos())
				return false
			}
			if x.Name == "_" {
				emit("_", x.Pos())
				return false
			}
			emit(mapName(x.Name), x.Pos())
			if f, ok := obj.(*types.Func); ok && f.Type().(*types.Signature).Recv() == nil {
				out[len(out)-1].fn = f
			}
			return false
		case *ast.BasicLit:
			if x.Kind == token.STRING {
				emit("STR", x.Pos())
			} else {
				emit(x.Value, x.Pos())
			}
			return false
		case *ast.BinaryExpr:
			op := x.Op
			if m, ok := opMirror[op]; ok && mirrored {
				op = m
			}
			emit("(", x.Pos())
			ast.Inspect(x.X, visit)
			emit(op.String(), x.OpPos)
			ast.Inspect(x.Y, visit)
			emit(")", x.End())
			return false
		case *ast.ParenExpr:
			ast.Inspect(x.X, visit)
			return false
		case *ast.UnaryExpr:
			emit("u"+x.Op.String(), x.Pos())
		case *ast.AssignStmt:
			emit("assign"+x.Tok.String(), x.Pos())
		case *ast.IncDecStmt:
			emit("incdec"+x.Tok.String(), x.Pos())
		case *ast.BranchStmt:
			emit("branch"+x.Tok.String(), x.Pos())
		default:
			emit(strings.TrimPrefix(fmt.Sprintf("%T", n), "*ast."), n.Pos())
		}
		return true
	}
	// bind receiver and parameters first, in declaration order, so that they get the same ordinals on both sides
	bind := func(fl *ast.FieldList) {
		if fl == nil {
			return
		}
		for _, f := range fl.List {
			for _, nm := range f.Names {
				if o := info.Defs[nm]; o != nil {
					local[o] = fmt.Sprintf("v%d", len(local)+1)
				}
			}
		}
	}
	bind(fd.Recv)
	bind(fd.Type.Params)
	bind(fd.Type.Results)
	ast.Inspect(fd.Body, func(n ast.Node) bool {
		if n == nil {
			emit("end", token.NoPos)
			return true
		}
		return visit(n)
	})
	return out
}

// mirrorDiverge returns the first index at which the two canonical sequences
// differ (len of both when they agree). Two different package-level helper
// functions at the same position count as equal when they are themselves mirror
// images of each other under the pair's map (a block extracted on both sides).
func mirrorDiverge(c *Ctx, info *types.Info, p mirrorPair, ta, tb []canonTok, depth int) int {
	i := 0
	for i < len(ta) && i < len(tb) {
		if ta[i].s != tb[i].s {
			if depth < 3 && ta[i].fn != nil && tb[i].fn != nil && ta[i].fn.Pkg() == tb[i].fn.Pkg() {
				da, db := c.Decl(p.Pkg, ta[i].fn.Name()), c.Decl(p.Pkg, tb[i].fn.Name())
				if da != nil && db != nil {
					ha, hb := canonBody(info, da, p.Names, true), canonBody(info, db, p.Names, false)
					if j := mirrorDiverge(c, info, p, ha, hb, depth+1); j == len(ha) && j == len(hb) {
						i++
						continue
					}
				}
			}
			return i
		}
		i++
	}
	if i == len(ta) && i == len(tb) {
		return i
	}
	return i
}

func runMirror(rr *RuleRun, prop string) {
	c := rr.Ctx
	for _, p := range mirrorPairs {
		if p.Prop != prop {
			continue
		}
		fa, fb := rr.MustDecl(p.Pkg, p.A), rr.MustDecl(p.Pkg, p.B)
		if fa == nil || fb == nil {
			continue
		}
		info := c.Info(p.Pkg)
		ta := canonBody(info, fa, p.Names, true)
		tb := canonBody(info, fb, p.Names, false)
		key := p.Pkg + "." + p.A + "~" + strings.TrimPrefix(p.B, strings.SplitN(p.A, ".", 2)[0]+".")
		i := mirrorDiverge(c, info, p, ta, tb, 0)
		if i == len(ta) && i == len(tb) {
			rr.OK(key, fa.Pos(), fmt.Sprintf("mirror images agree on %d canonical tokens", len(ta)))
			continue
		}
		pa, pb := fa.Pos(), fb.Pos()
		sa, sb := "<end>", "<end>"
		if i < len(ta) {
			sa = ta[i].s
			if ta[i].pos.IsValid() {
				pa = ta[i].pos
			}
		}
		if i < len(tb) {
			sb = tb[i].s
			if tb[i].pos.IsValid() {
				pb = tb[i].pos
			}
		}
		// One side may have been restructured (an early return, a merged condition, a temporary removed) without
		// any change to what it computes. When the statement skeletons differ, compare what the two sides are
		// made of instead: the same calls, operators and constants on both sides is agreement; a difference made
		// only of relational names or operators is the one-sided edit this rule is about; anything else is not
		// comparable and is recorded as such, not reported.
		if skA, skB := mirrorSkeleton(ta), mirrorSkeleton(tb); skA != skB {
			onlyA, onlyB := mirrorBagDiff(ta, tb)
			onlyA, onlyB = mirrorCancelInversions(onlyA, onlyB)
			if len(onlyA) == 0 && len(onlyB) == 0 {
				rr.OK(key, fa.Pos(), "the two sides are written differently but are made of the same calls, operators and constants under the mirror map")
				continue
			}
			relational := true
			for _, t := range append(append([]string{}, onlyA...), onlyB...) {
				if !mirrorRelationalTok(p, t) {
					relational = false
				}
			}
			if (len(onlyA) == 0) != (len(onlyB) == 0) {
				// one side has everything the other has, and more: something is computed on one side only
				rr.Violation(key, pb, fmt.Sprintf("%s and %s are written differently, and one of them has calls, operators or constants the other lacks altogether (only in the mirror of the first: %v; only in the second: %v): %s", p.A, p.B, onlyA, onlyB, p.Why))
				continue
			}
			if !relational || len(onlyA) != len(onlyB) {
				rr.Assumed(key, fa.Pos(), fmt.Sprintf("one side was restructured and the two are no longer comparable token by token (only in the mirror of %s: %v; only in %s: %v): no verdict", p.A, onlyA, p.B, onlyB))
				continue
			}
			rr.Violation(key, pb, fmt.Sprintf("%s and %s are written differently, and the mirror of the first uses %v where the second uses %v: %s", p.A, p.B, onlyA, onlyB, p.Why))
			continue
		}
		rr.Violation(key, pb, fmt.Sprintf("%s and %s stop being mirror images at %s (mirrored %q) vs %s (%q): %s", p.A, p.B, c.PosStr(pa), sa, c.PosStr(pb), sb, p.Why))
	}
}

// mirrorStructural: tokens that render statement and expression shapes (as opposed to names, operators, constants).
func mirrorStructural(t string) bool {
	if t == "(" || t == ")" || t == "end" || t == "_" || t == "STR" || strings.HasPrefix(t, "assign") || strings.HasPrefix(t, "branch") || strings.HasPrefix(t, "incdec") {
		return true
	}
	if len(t) > 1 && t[0] == 'v' && strings.Trim(t[1:], "0123456789") == "" {
		return true // a local variable
	}
	switch t {
	case "&&", "||":
		return true // merged or split conditions
	}
	return len(t) > 4 && (strings.HasSuffix(t, "Stmt") || strings.HasSuffix(t, "Expr") || strings.HasSuffix(t, "Clause") || strings.HasSuffix(t, "Lit") || strings.HasSuffix(t, "Type") || t == "Field" || t == "FieldList" || t == "Ellipsis")
}

func mirrorSkeleton(ts []canonTok) string {
	var b strings.Builder
	for _, t := range ts {
		if mirrorStructural(t.s) {
			b.WriteString(t.s)
			b.WriteByte(' ')
		}
	}
	return b.String()
}

// mirrorBagDiff: the non-structural tokens that occur more often on one side than on the other.
func mirrorBagDiff(ta, tb []canonTok) (onlyA, onlyB []string) {
	cnt := map[string]int{}
	for _, t := range ta {
		if !mirrorStructural(t.s) {
			cnt[t.s]++
		}
	}
	for _, t := range tb {
		if !mirrorStructural(t.s) {
			cnt[t.s]--
		}
	}
	var ks []string
	for k := range cnt {
		ks = append(ks, k)
	}
	sortStrings(ks)
	for _, k := range ks {
		for i := 0; i < cnt[k]; i++ {
			onlyA = append(onlyA, k)
		}
		for i := 0; i < -cnt[k]; i++ {
			onlyB = append(onlyB, k)
		}
	}
	return
}

func mirrorRelationalTok(p mirrorPair, t string) bool {
	switch t {
	case "<", ">", "<=", ">=", "True", "False", "LessThan", "GreaterThan", "LessThanOrEqualTo", "GreaterThanOrEqualTo", "Equals":
		return true
	}
	for k, v := range p.Names {
		if t == k || t == v {
			return true
		}
	}
	return false
}

// mirrorCancelInversions: where one side was restructured, a condition may have been inverted on the way
// (x != nil { A } else { B }  ↔  x == nil { B }; A): an == on one side against a != on the other, and a
// stray negation, are part of the restructuring, not a difference in what is computed.
func mirrorCancelInversions(a, b []string) ([]string, []string) {
	cancel := func(a, b []string, x, y string) ([]string, []string) {
		for {
			i, j := indexOfStr(a, x), indexOfStr(b, y)
			if i < 0 || j < 0 {
				return a, b
			}
			a = append(append([]string{}, a[:i]...), a[i+1:]...)
			b = append(append([]string{}, b[:j]...), b[j+1:]...)
		}
	}
	a, b = cancel(a, b, "==", "!=")
	a, b = cancel(a, b, "!=", "==")
	drop := func(l []string, x string) []string {
		var out []string
		for _, t := range l {
			if t != x {
				out = append(out, t)
			}
		}
		return out
	}
	return drop(a, "u!"), drop(b, "u!")
}

func indexOfStr(l []string, x string) int {
	for i, t := range l {
		if t == x {
			return i
		}
	}
	return -1
}
