package main

import (
	"go/ast"
	"go/token"
	"go/types"
	"sort"
	"strings"

	"golang.org/x/tools/go/cfg"
)

// FuncCFG wraps a go/cfg graph of one function body (or function literal body).
type FuncCFG struct {
	G         *cfg.CFG
	Body      *ast.BlockStmt
	Info      *types.Info
	ctx       *Ctx
	where     map[ast.Node]loc // top-level block nodes
	idom      []int
	preds     [][]int32
	domsets   []map[int32]bool
	reach     []bool
	dimFilter []string
}

type loc struct {
	b *cfg.Block
	i int
}

func (c *Ctx) CFG(body *ast.BlockStmt, info *types.Info) *FuncCFG {
	if f, ok := c.cfgs[body]; ok {
		return f
	}
	mayReturn := func(call *ast.CallExpr) bool {
		if isBuiltin(info, call, "panic") {
			return false
		}
		if isCall(info, call, "os.Exit", "log.Fatal", "log.Fatalf", "log.Panicf", "log.Panic") {
			return false
		}
		return true
	}
	g := cfg.New(body, mayReturn)
	f := &FuncCFG{G: g, Body: body, Info: info, ctx: c, where: map[ast.Node]loc{}}
	for _, b := range g.Blocks {
		for i, n := range b.Nodes {
			f.where[n] = loc{b, i}
		}
	}
	f.preds = make([][]int32, len(g.Blocks))
	for _, b := range g.Blocks {
		for _, s := range b.Succs {
			f.preds[s.Index] = append(f.preds[s.Index], b.Index)
		}
	}
	c.cfgs[body] = f
	return f
}

// locate finds the block node containing n (n may be nested inside it) and the
// path of ancestors from that block node down to n.
func (f *FuncCFG) locate(n ast.Node) (loc, []ast.Node, bool) {
	var chain []ast.Node
	cur := n
	for cur != nil {
		chain = append(chain, cur)
		if l, ok := f.where[cur]; ok {
			// reverse chain: top → n
			for i, j := 0, len(chain)-1; i < j; i, j = i+1, j-1 {
				chain[i], chain[j] = chain[j], chain[i]
			}
			return l, chain, true
		}
		if cur == ast.Node(f.Body) {
			break
		}
		cur = f.ctx.Parent(cur)
	}
	return loc{}, nil, false
}

// condOf returns the branch condition of a block with two successors and
// whether it is meaningful: (expr, true) where Succs[0] is taken when expr is
// true. For tagged switches the condition is synthesised as Tag == caseExpr.
func (f *FuncCFG) condOf(b *cfg.Block) (ast.Expr, bool) {
	if len(b.Succs) != 2 || len(b.Nodes) == 0 {
		return nil, false
	}
	last, ok := b.Nodes[len(b.Nodes)-1].(ast.Expr)
	if !ok {
		return nil, false
	}
	switch b.Succs[0].Kind {
	case cfg.KindIfThen, cfg.KindForBody:
		return last, true
	case cfg.KindSwitchCaseBody:
		par := f.ctx.Parent(last)
		cc, ok := par.(*ast.CaseClause)
		if !ok {
			return nil, false
		}
		bs, _ := f.ctx.Parent(cc).(*ast.BlockStmt)
		if bs == nil {
			return nil, false
		}
		switch sw := f.ctx.Parent(bs).(type) {
		case *ast.SwitchStmt:
			if sw.Tag == nil {
				return last, true
			}
			return &ast.BinaryExpr{X: sw.Tag, Op: token.EQL, Y: last, OpPos: last.Pos()}, true
		}
		return nil, false
	}
	return nil, false
}

// ---------------------------------------------------------------------------
// Must-facts: a forward dataflow whose state is a set of facts that hold on
// every path. Conditions are decomposed over &&, ||, ! here; rules only
// interpret atomic conditions.

type Fact struct{ Pred, Subj string }

type factSet map[Fact]struct{}

func (s factSet) has(p, subj string) bool { _, ok := s[Fact{p, subj}]; return ok }
func (s factSet) clone() factSet {
	o := make(factSet, len(s))
	for k := range s {
		o[k] = struct{}{}
	}
	return o
}
func (s factSet) String() string {
	var l []string
	for k := range s {
		l = append(l, k.Pred+"("+k.Subj+")")
	}
	sort.Strings(l)
	return strings.Join(l, ",")
}

// Effect is one consequence of executing a node.
type Effect struct {
	Assert    *Fact  // holds afterwards on every continuing path
	CopyFrom  string // facts of subject CopyFrom also hold for CopyTo
	CopyTo    string
	DropMarks bool  // mark facts are not copied (Unmark results)
	Keep      *Fact // this fact, if it held before the node, survives the node's assignment kill
	ImplyIf   *Fact // after the node: wherever ImplyIf holds, ImplyThen holds too
	ImplyThen *Fact
	// Filter (worlds engine only): after the node a world survives only if Filter says so; sat tells
	// whether the world satisfies a fact (facts on untracked atoms are satisfiable both ways).
	Filter func(sat func(Fact) bool) bool
}

type FactSpec struct {
	// Atom interprets an atomic condition with the given truth value.
	Atom func(cond ast.Expr, truth bool) []Fact
	// Effects returns what executing node n establishes: asserted facts
	// (the path continues only if they hold) and fact copies between subjects.
	Effects func(n ast.Node) []Effect
	// Entry facts.
	Entry []Fact
	// Invariants hold at every point, whatever was assigned (facts about index-parametrised subjects).
	Invariants []Fact
}

type FactResult struct {
	f    *FuncCFG
	spec *FactSpec
	in   []factSet // nil = unreachable
}

func (f *FuncCFG) condFacts(spec *FactSpec, e ast.Expr, truth bool) []Fact {
	e = ast.Unparen(e)
	switch x := e.(type) {
	case *ast.UnaryExpr:
		if x.Op == token.NOT {
			return f.condFacts(spec, x.X, !truth)
		}
	case *ast.BinaryExpr:
		switch x.Op {
		case token.LAND:
			if truth {
				return append(f.condFacts(spec, x.X, true), f.condFacts(spec, x.Y, true)...)
			}
			return intersectFacts(f.condFacts(spec, x.X, false), f.condFacts(spec, x.Y, false))
		case token.LOR:
			if !truth {
				return append(f.condFacts(spec, x.X, false), f.condFacts(spec, x.Y, false)...)
			}
			return intersectFacts(f.condFacts(spec, x.X, true), f.condFacts(spec, x.Y, true))
		case token.NEQ:
			// a != b  ≡ !(a == b)
			eq := *x
			eq.Op = token.EQL
			return spec.Atom(&eq, !truth)
		}
	}
	return spec.Atom(e, truth)
}

func intersectFacts(a, b []Fact) []Fact {
	var out []Fact
	for _, x := range a {
		for _, y := range b {
			if x == y {
				out = append(out, x)
				break
			}
		}
	}
	return out
}

// identKeys lists the "name@pos" keys of objects assigned by node n.
func (f *FuncCFG) assignedKeys(n ast.Node) []string {
	var keys []string
	addLHS := func(e ast.Expr) {
		// assignment to x, x.f, x[i], *x — all kill facts mentioning x
		for {
			switch y := ast.Unparen(e).(type) {
			case *ast.SelectorExpr:
				e = y.X
				continue
			case *ast.IndexExpr:
				e = y.X
				continue
			case *ast.StarExpr:
				e = y.X
				continue
			case *ast.Ident:
				if o := objOf(f.Info, y); o != nil {
					keys = append(keys, objKey(o))
				}
			}
			return
		}
	}
	switch s := n.(type) {
	case *ast.AssignStmt:
		for _, l := range s.Lhs {
			addLHS(l)
		}
	case *ast.IncDecStmt:
		addLHS(s.X)
	case *ast.ValueSpec:
		for _, id := range s.Names {
			if o := f.Info.Defs[id]; o != nil {
				keys = append(keys, objKey(o))
			}
		}
	case *ast.Ident: // range Key/Value appear as bare nodes (and so does a bare range operand, which is only read)
		if rs, ok := f.ctx.Parent(s).(*ast.RangeStmt); ok && rs.X == ast.Expr(s) && rs.Key != ast.Expr(s) && rs.Value != ast.Expr(s) {
			break
		}
		if o := objOf(f.Info, s); o != nil {
			keys = append(keys, objKey(o))
		}
	}
	// &x passed anywhere: treat as assigned
	inspectNoLit(n, func(x ast.Node) bool {
		if u, ok := x.(*ast.UnaryExpr); ok && u.Op == token.AND {
			addLHS(u.X)
		}
		return true
	})
	return keys
}

func objKey(o types.Object) string {
	return o.Name() + "@" + itoa(int(o.Pos()))
}

func itoa(n int) string {
	if n == 0 {
		return "0"
	}
	var b [20]byte
	i := len(b)
	neg := n < 0
	if neg {
		n = -n
	}
	for n > 0 {
		i--
		b[i] = byte('0' + n%10)
		n /= 10
	}
	if neg {
		i--
		b[i] = '-'
	}
	return string(b[i:])
}

func (f *FuncCFG) transfer(spec *FactSpec, s factSet, n ast.Node) factSet {
	var kept []Fact
	if spec.Effects != nil {
		for _, e := range spec.Effects(n) {
			if e.Keep != nil {
				if _, ok := s[*e.Keep]; ok {
					kept = append(kept, *e.Keep)
				}
			}
		}
	}
	defer func() {
		for _, k := range kept {
			s[k] = struct{}{}
		}
		for _, k := range spec.Invariants {
			s[k] = struct{}{}
		}
	}()
	// kills first (a self copy x := x.Unmark() keeps everything but the mark facts of x)
	selfCopy := map[string]bool{}
	if spec.Effects != nil {
		for _, e := range spec.Effects(n) {
			if e.CopyTo != "" && e.CopyTo == e.CopyFrom {
				selfCopy[e.CopyTo] = true
			}
		}
	}
	if keys := f.assignedKeys(n); len(keys) > 0 {
		for k := range s {
			if selfCopy[k.Subj] && k.Pred != "unmarked" && k.Pred != "deepunmarked" && k.Pred != "marked" {
				continue
			}
			for _, key := range keys {
				if strings.Contains(k.Subj, key) {
					delete(s, k)
					break
				}
			}
		}
	}
	if spec.Effects != nil {
		for _, e := range spec.Effects(n) {
			if e.Assert != nil {
				s[*e.Assert] = struct{}{}
			}
			if e.ImplyIf != nil && e.ImplyThen != nil {
				if _, ok := s[*e.ImplyIf]; ok {
					s[*e.ImplyThen] = struct{}{}
				}
			}
			if e.CopyTo != "" && e.CopyTo != e.CopyFrom {
				var add []Fact
				for k := range s {
					if k.Subj == e.CopyFrom || strings.HasPrefix(k.Subj, e.CopyFrom+".") {
						if e.DropMarks && (k.Pred == "unmarked" || k.Pred == "deepunmarked") {
							continue
						}
						if k.Subj == e.CopyFrom+".v" {
							continue
						}
						add = append(add, Fact{k.Pred, e.CopyTo + strings.TrimPrefix(k.Subj, e.CopyFrom)})
					}
				}
				for _, a := range add {
					s[a] = struct{}{}
				}
			}
		}
	}
	return s
}

func (f *FuncCFG) MustFacts(spec *FactSpec) *FactResult {
	nb := len(f.G.Blocks)
	in := make([]factSet, nb)
	entry := factSet{}
	for _, e := range spec.Entry {
		entry[e] = struct{}{}
	}
	in[0] = entry
	work := []int32{0}
	inWork := make([]bool, nb)
	inWork[0] = true
	for len(work) > 0 {
		bi := work[0]
		work = work[1:]
		inWork[bi] = false
		b := f.G.Blocks[bi]
		s := in[bi].clone()
		for _, n := range b.Nodes {
			s = f.transfer(spec, s, n)
		}
		cond, hasCond := f.condOf(b)
		for si, succ := range b.Succs {
			out := s
			if hasCond {
				out = s.clone()
				for _, ft := range f.condFacts(spec, cond, si == 0) {
					out[ft] = struct{}{}
				}
			}
			old := in[succ.Index]
			var nw factSet
			if old == nil {
				nw = out.clone()
			} else {
				nw = factSet{}
				for k := range old {
					if _, ok := out[k]; ok {
						nw[k] = struct{}{}
					}
				}
				if len(nw) == len(old) {
					continue
				}
			}
			in[succ.Index] = nw
			if !inWork[succ.Index] {
				work = append(work, succ.Index)
				inWork[succ.Index] = true
			}
		}
	}
	return &FactResult{f: f, spec: spec, in: in}
}

// At returns the facts that hold on every path just before n is evaluated.
// ok is false when n is not part of this function's graph or is unreachable.
func (r *FactResult) At(n ast.Node) (factSet, bool) {
	l, chain, ok := r.f.locate(n)
	if !ok || r.in[l.b.Index] == nil {
		return nil, false
	}
	s := r.in[l.b.Index].clone()
	for i := 0; i < l.i; i++ {
		s = r.f.transfer(r.spec, s, l.b.Nodes[i])
	}
	// inside the block node: short-circuit operators establish facts for their right operand
	for i := 0; i+1 < len(chain); i++ {
		if be, ok := chain[i].(*ast.BinaryExpr); ok && (be.Op == token.LAND || be.Op == token.LOR) {
			if chain[i+1] == ast.Node(be.Y) {
				for _, ft := range r.f.condFacts(r.spec, be.X, be.Op == token.LAND) {
					s[ft] = struct{}{}
				}
			}
		}
	}
	return s, true
}

// Reachable reports whether the block holding n is reachable from entry.
func (r *FactResult) Reachable(n ast.Node) bool {
	l, _, ok := r.f.locate(n)
	return ok && r.in[l.b.Index] != nil
}

// ---------------------------------------------------------------------------
// Plain dominance between nodes

func (f *FuncCFG) computeIdom() {
	if f.idom != nil {
		return
	}
	n := len(f.G.Blocks)
	// iterative dominator sets (graphs are small)
	dom := make([]map[int32]bool, n)
	all := map[int32]bool{}
	for i := 0; i < n; i++ {
		all[int32(i)] = true
	}
	reach := make([]bool, n)
	var dfs func(i int32)
	dfs = func(i int32) {
		if reach[i] {
			return
		}
		reach[i] = true
		for _, s := range f.G.Blocks[i].Succs {
			dfs(s.Index)
		}
	}
	dfs(0)
	for i := 0; i < n; i++ {
		if i == 0 {
			dom[i] = map[int32]bool{0: true}
		} else {
			dom[i] = all
		}
	}
	changed := true
	for changed {
		changed = false
		for i := 1; i < n; i++ {
			if !reach[i] {
				continue
			}
			var nw map[int32]bool
			for _, p := range f.preds[i] {
				if !reach[p] {
					continue
				}
				if nw == nil {
					nw = map[int32]bool{}
					for k := range dom[p] {
						nw[k] = true
					}
				} else {
					for k := range nw {
						if !dom[p][k] {
							delete(nw, k)
						}
					}
				}
			}
			if nw == nil {
				nw = map[int32]bool{}
			}
			nw[int32(i)] = true
			if len(nw) != len(dom[i]) {
				dom[i] = nw
				changed = true
			}
		}
	}
	f.idom = make([]int, n)
	f.domsets = dom
	f.reach = reach
}

// Dominates reports whether node a is executed on every path to node b.
func (f *FuncCFG) Dominates(a, b ast.Node) bool {
	f.computeIdom()
	la, _, ok1 := f.locate(a)
	lb, _, ok2 := f.locate(b)
	if !ok1 || !ok2 {
		return false
	}
	if la.b == lb.b {
		return la.i < lb.i || (la.i == lb.i && a.Pos() <= b.Pos())
	}
	return f.domsets[lb.b.Index][la.b.Index]
}

// ReachableNode reports whether n's block is reachable from the entry block.
func (f *FuncCFG) ReachableNode(n ast.Node) bool {
	f.computeIdom()
	l, _, ok := f.locate(n)
	return ok && f.reach[l.b.Index]
}

// Returns lists the reachable return statements of the function body
// (not those of nested function literals).
func (f *FuncCFG) Returns() []*ast.ReturnStmt {
	f.computeIdom()
	var out []*ast.ReturnStmt
	for _, b := range f.G.Blocks {
		if !f.reach[b.Index] {
			continue
		}
		for _, n := range b.Nodes {
			if r, ok := n.(*ast.ReturnStmt); ok {
				out = append(out, r)
			}
		}
	}
	sort.Slice(out, func(i, j int) bool { return out[i].Pos() < out[j].Pos() })
	return out
}

// AtEnd returns the facts that hold on every path at the end of block b (nil if unreachable).
func (r *FactResult) AtEnd(b *cfg.Block) factSet {
	if r.in[b.Index] == nil {
		return nil
	}
	s := r.in[b.Index].clone()
	for _, n := range b.Nodes {
		s = r.f.transfer(r.spec, s, n)
	}
	return s
}
