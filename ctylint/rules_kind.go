package main

import (
	"fmt"
	"go/ast"
	"go/types"
	"strings"
)

// kindRow is one entry of the kind-dispatch coverage table: the function named
// must test (directly or in same-module callees that receive the subject) every
// kind in Want on the subject, and its residual must be Residual ("" = any).
type kindRow struct {
	Prop     string
	Pkg      string
	Func     string
	Subject  string // "recv", "recv.ty", "param:<name>", "param:<name>.ty"
	Want     []string
	Residual string
	Depth    int
	Why      string
}

var compound5 = []string{"List", "Map", "Set", "Object", "Tuple"}
var nine = []string{"Bool", "Number", "String", "List", "Map", "Set", "Object", "Tuple", "Dynamic"}
var nineNoDyn = []string{"Bool", "Number", "String", "List", "Map", "Set", "Object", "Tuple", "Capsule"}
var eightConcrete = []string{"Bool", "Number", "String", "List", "Map", "Set", "Object", "Tuple"}

var kindTable = []kindRow{
	// C07
	{"C07", "cty", "Type.HasDynamicTypes", "recv", allKinds, "panic", 0, "'has dynamic types' must look inside every compound kind"},
	{"C07", "cty", "Type.WithoutOptionalAttributesDeep", "recv", allKinds, "panic", 0, "stripping must rebuild every compound kind"},
	{"C07", "cty", "Type.MarshalJSON", "recv", allKinds, "panic", 0, "type serialization covers every implementation (capsule ⇒ error)"},
	{"C07", "cty", "testConformance", "param:given", compound5, "", 0, "conformance recurses into every compound kind (given side)"},
	{"C07", "cty", "testConformance", "param:want", append([]string{"Dynamic"}, compound5...), "", 0, "conformance recurses into every compound kind (want side) and accepts the placeholder"},
	// C03
	{"C03", "cty", "Value.Equals", "recv.ty", nineNoDyn, "panic", 0, "equality has a branch per kind"},
	{"C03", "cty", "Value.RawEquals", "recv.ty", allKinds, "panic", 0, "raw equality has a branch per kind"},
	{"C03", "cty", "appendSetHashBytes", "param:val.ty", nineNoDyn, "panic", 0, "hashing has a branch per kind"},
	{"C03", "cty", "setRules.Less", "recv.Type", []string{"Bool", "Number", "String"}, "", 0, "total order on primitives, hash fallback otherwise"},
	// C19
	{"C19", "cty", "walk", "param:val.ty", compound5, "", 2, "walk descends into every compound kind"},
	{"C19", "cty", "transform", "param:val.ty", compound5, "", 1, "transform rebuilds every compound kind"},
	{"C19", "cty", "elementIterator", "param:val.ty", compound5, "panic", 0, "element iteration covers every compound kind"},
	{"C19", "cty", "canElementIterator", "param:val.ty", compound5, "", 0, "CanIterateElements agrees with ElementIterator"},
	{"C19", "cty", "UnknownAsNull", "param:val.ty", compound5, "", 1, "UnknownAsNull descends into every compound kind"},
	// C15
	{"C15", "cty/json", "marshal", "param:t", nine, "panic", 0, "JSON encoder covers every capsule-free kind"},
	{"C15", "cty/json", "unmarshal", "param:t", nine, "error", 0, "JSON decoder covers every capsule-free kind"},
	// C16
	{"C16", "cty/msgpack", "marshal", "param:ty", nine, "panic", 0, "msgpack encoder covers every capsule-free kind"},
	{"C16", "cty/msgpack", "unmarshal", "param:ty", nine, "error", 0, "msgpack decoder covers every capsule-free kind"},
	// C08 / C09
	{"C08", "cty/convert", "getConversionKnown", "param:in", append([]string{"Dynamic"}, eightConcrete...), "", 0, "conversion lookup considers every source kind"},
	{"C08", "cty/convert", "getConversionKnown", "param:out", append([]string{"Dynamic"}, eightConcrete...), "", 0, "conversion lookup considers every target kind"},
	{"C08", "cty/convert", "dynamicReplace", "param:out", allKinds, "panic", 0, "the result type of a null / unknown conversion is computed for every target kind (the residual panics)"},
}

func init() {
	props := map[string]int{}
	for _, r := range kindTable {
		if r.Want != nil {
			props[r.Prop]++
		}
	}
	for _, p := range []string{"C03", "C07", "C08", "C15", "C16", "C19"} {
		p := p
		register(&Rule{
			ID: p + ".kind-total", Prop: p, Floor: props[p], Controls: ctlCount(p),
			Doc: "kind-dispatch coverage: each tabled entry function tests every required kind on its subject type (directly or in callees that receive the subject) and keeps its panicking / error residual",
			Run: func(rr *RuleRun) { runKindTotal(rr, p) },
		})
	}
}

func ctlCount(p string) int {
	if p == "C07" {
		return 1
	}
	return 0
}

func resolveSubject(info *types.Info, fd *ast.FuncDecl, s string) string {
	switch {
	case s == "recv":
		return recvKey(info, fd)
	case strings.HasPrefix(s, "recv."):
		if k := recvKey(info, fd); k != "" {
			return k + "." + strings.TrimPrefix(s, "recv.")
		}
	case strings.HasPrefix(s, "param:"):
		name := strings.TrimPrefix(s, "param:")
		suffix := ""
		if i := strings.IndexByte(name, '.'); i >= 0 {
			name, suffix = name[:i], name[i:]
		}
		if k := paramKeyByName(info, fd, name); k != "" {
			return k + suffix
		}
	}
	return ""
}

func runKindTotal(rr *RuleRun, prop string) {
	c := rr.Ctx
	for _, row := range kindTable {
		if row.Prop != prop || row.Want == nil {
			continue
		}
		fd := rr.MustDecl(row.Pkg, row.Func)
		if fd == nil {
			continue
		}
		checkKindRow(rr, c, fd, row)
	}
	// positive controls: functions named verifctlKind* in control files are checked against all kinds
	for short := range c.Pkgs {
		for name, fd := range c.Decls(short) {
			if strings.HasPrefix(name, "Type.verifctlKind") && c.IsControl(fd.Pos()) && prop == "C07" {
				checkKindRow(rr, c, fd, kindRow{Prop: prop, Pkg: short, Func: name, Subject: "recv", Want: allKinds, Residual: "panic"})
			}
		}
	}
}

func checkKindRow(rr *RuleRun, c *Ctx, fd *ast.FuncDecl, row kindRow) {
	info := c.InfoFor(fd.Pos())
	sk := resolveSubject(info, fd, row.Subject)
	key := fmt.Sprintf("%s.%s[%s]", row.Pkg, row.Func, row.Subject)
	if sk == "" {
		rr.Broken("stale table row: subject " + row.Subject + " of " + row.Pkg + "." + row.Func + " does not resolve")
		return
	}
	res := kindsOf(c, fd, []string{sk}, row.Depth)
	if miss := res.missing(row.Want); len(miss) > 0 {
		rr.Violation(key, fd.Pos(), fmt.Sprintf("no branch for kind(s) %s (tested: %s) — %s", strings.Join(miss, ","), res.list(), row.Why))
		return
	}
	// a residual requirement means "not silent": a panic and an error return both reject an unhandled kind
	// (which of the two a function uses is a matter of how its switches are nested, not of behaviour)
	if row.Residual != "" && res.Residual == "none" {
		rr.Violation(key, fd.Pos(), fmt.Sprintf("residual case is %q, want %q: an unhandled kind must not fall through silently", res.Residual, row.Residual))
		return
	}
	rr.OK(key, fd.Pos(), fmt.Sprintf("covers %s; residual %s", res.list(), res.Residual))
}
