package main

import (
	"fmt"
	"go/ast"
	"go/token"
	"go/types"
	"sort"
	"strings"
)

func init() {
	register(&Rule{
		ID: "C03.operand-symmetry", Prop: "C03", Also: []string{"C01"}, Floor: 3, Controls: 1,
		Doc: "in a function of two cty.Value operands, wherever two arms of one switch / if-chain have conditions that are each other's image under swapping the operands, their bodies are each other's image too: a one-sided edit of one arm makes the operation asymmetric (a.Equals(b) ≠ b.Equals(a))",
		Run: runOperandSymmetry,
	})
	register(&Rule{
		ID: "C06.normalise-before-lookup", Prop: "C06", Also: []string{"C02", "C15"}, Floor: 3, Controls: 1,
		Doc: "a string parameter used as the key of a payload map, an attribute-type map or an optional-attribute set is NFC-normalised first (names and keys are stored normalised, so a lookup with the raw name misses the member)",
		Run: runNormaliseBeforeLookup,
	})
	register(&Rule{
		ID: "C03.equivalence-uses-equals", Prop: "C03", Also: []string{"C01"}, Floor: 3, Controls: 0,
		Doc: "set membership is decided by Equals being known and true: setRules.Equivalent calls Value.Equals and never uses RawEquals (which equates unknowns); Set.Remove shrinks a bucket only where an Equivalent comparison was made on the way",
		Run: runEquivalenceUsesEquals,
	})
	register(&Rule{
		ID: "C07.json-names-encoded", Prop: "C07", Also: []string{"C15", "C16"}, Floor: 1, Controls: 0,
		Doc: "Type.MarshalJSON produces every attribute or optional name through encoding/json (json.Marshal); it does not format strings with fmt or strconv quoting, whose escapes are not JSON",
		Run: runJSONNamesEncoded,
	})
	register(&Rule{
		ID: "C20.no-param-write", Prop: "C20", Also: []string{"C09"}, Floor: 10, Controls: 1,
		Doc: "an exported function of packages cty, cty/convert and cty/function does not write (directly or through callees) into a slice or map it received as an argument: the caller's data is an input, not scratch space",
		Run: runNoParamWrite,
	})
}

// ---------------------------------------------------------------------------
// canonical text with operand substitution and commutative normalisation

type canonCtx struct {
	info   *types.Info
	subst  map[types.Object]string
	locals map[types.Object]string
}

func (cc *canonCtx) ident(id *ast.Ident) string {
	o := cc.info.ObjectOf(id)
	if s, ok := cc.subst[o]; ok {
		return s
	}
	if v, ok := o.(*types.Var); ok && !v.IsField() && v.Pkg() != nil && v.Parent() != v.Pkg().Scope() {
		if s, ok := cc.locals[o]; ok {
			return s
		}
		s := fmt.Sprintf("l%d", len(cc.locals)+1)
		cc.locals[o] = s
		return s
	}
	return id.Name
}

func (cc *canonCtx) expr(e ast.Expr) string {
	switch x := e.(type) {
	case nil:
		return ""
	case *ast.Ident:
		return cc.ident(x)
	case *ast.ParenExpr:
		return cc.expr(x.X)
	case *ast.BasicLit:
		if x.Kind == token.STRING {
			return "STR"
		}
		return x.Value
	case *ast.SelectorExpr:
		return cc.expr(x.X) + "." + x.Sel.Name
	case *ast.CallExpr:
		var as []string
		for _, a := range x.Args {
			as = append(as, cc.expr(a))
		}
		return cc.expr(x.Fun) + "(" + strings.Join(as, ",") + ")"
	case *ast.UnaryExpr:
		return x.Op.String() + cc.expr(x.X)
	case *ast.StarExpr:
		return "*" + cc.expr(x.X)
	case *ast.BinaryExpr:
		a, b := cc.expr(x.X), cc.expr(x.Y)
		switch x.Op {
		case token.LAND, token.LOR:
			// flatten and sort: a && b ≡ b && a for the side-effect-free predicates compared here
			parts := cc.flatten(x, x.Op)
			sort.Strings(parts)
			return "(" + strings.Join(parts, " "+x.Op.String()+" ") + ")"
		}
		return "(" + a + " " + x.Op.String() + " " + b + ")"
	case *ast.TypeAssertExpr:
		return cc.expr(x.X) + ".(" + exprStr(x.Type) + ")"
	case *ast.IndexExpr:
		return cc.expr(x.X) + "[" + cc.expr(x.Index) + "]"
	case *ast.CompositeLit:
		var els []string
		for _, el := range x.Elts {
			els = append(els, cc.expr(el))
		}
		return exprStr(x.Type) + "{" + strings.Join(els, ",") + "}"
	case *ast.KeyValueExpr:
		return cc.expr(x.Key) + ":" + cc.expr(x.Value)
	case *ast.FuncLit:
		return "func{" + cc.stmts(x.Body.List) + "}"
	}
	return exprStr(e)
}

func (cc *canonCtx) flatten(e ast.Expr, op token.Token) []string {
	if be, ok := ast.Unparen(e).(*ast.BinaryExpr); ok && be.Op == op {
		return append(cc.flatten(be.X, op), cc.flatten(be.Y, op)...)
	}
	return []string{cc.expr(e)}
}

func (cc *canonCtx) stmts(list []ast.Stmt) string {
	var out []string
	for _, s := range list {
		out = append(out, cc.stmt(s))
	}
	return strings.Join(out, ";")
}

func (cc *canonCtx) stmt(s ast.Stmt) string {
	switch x := s.(type) {
	case *ast.ReturnStmt:
		var r []string
		for _, e := range x.Results {
			r = append(r, cc.expr(e))
		}
		return "return " + strings.Join(r, ",")
	case *ast.ExprStmt:
		return cc.expr(x.X)
	case *ast.AssignStmt:
		var l, r []string
		for _, e := range x.Rhs {
			r = append(r, cc.expr(e))
		}
		for _, e := range x.Lhs {
			l = append(l, cc.expr(e))
		}
		return strings.Join(l, ",") + x.Tok.String() + strings.Join(r, ",")
	case *ast.IfStmt:
		out := "if "
		if x.Init != nil {
			out += cc.stmt(x.Init) + ";"
		}
		out += cc.expr(x.Cond) + "{" + cc.stmts(x.Body.List) + "}"
		if x.Else != nil {
			out += "else{" + cc.stmt(x.Else) + "}"
		}
		return out
	case *ast.BlockStmt:
		return cc.stmts(x.List)
	case *ast.SwitchStmt:
		out := "switch " + cc.expr(x.Tag) + "{"
		for _, cl := range x.Body.List {
			c := cl.(*ast.CaseClause)
			var es []string
			for _, e := range c.List {
				es = append(es, cc.expr(e))
			}
			sort.Strings(es)
			out += "case " + strings.Join(es, ",") + ":" + cc.stmts(c.Body) + ";"
		}
		return out + "}"
	case *ast.ForStmt:
		return "for " + cc.stmtOrEmpty(x.Init) + ";" + cc.expr(x.Cond) + ";" + cc.stmtOrEmpty(x.Post) + "{" + cc.stmts(x.Body.List) + "}"
	case *ast.RangeStmt:
		return "range " + cc.expr(x.Key) + "," + cc.expr(x.Value) + ":=" + cc.expr(x.X) + "{" + cc.stmts(x.Body.List) + "}"
	case *ast.BranchStmt:
		return x.Tok.String()
	case *ast.IncDecStmt:
		return cc.expr(x.X) + x.Tok.String()
	case *ast.DeclStmt:
		return "decl"
	}
	return fmt.Sprintf("%T", s)
}

func (cc *canonCtx) stmtOrEmpty(s ast.Stmt) string {
	if s == nil {
		return ""
	}
	return cc.stmt(s)
}

type arm struct {
	cond []ast.Expr
	body []ast.Stmt
	pos  token.Pos
}

// armsOf lists the multi-arm constructs of a body: tagless switches and if/else-if chains.
func armsOf(body ast.Node) [][]arm {
	var out [][]arm
	seenIf := map[*ast.IfStmt]bool{}
	ast.Inspect(body, func(n ast.Node) bool {
		switch x := n.(type) {
		case *ast.FuncLit:
			return false
		case *ast.SwitchStmt:
			if x.Tag != nil {
				return true
			}
			var as []arm
			for _, cl := range x.Body.List {
				c := cl.(*ast.CaseClause)
				if c.List != nil {
					as = append(as, arm{c.List, c.Body, c.Pos()})
				}
			}
			if len(as) >= 2 {
				out = append(out, as)
			}
		case *ast.BlockStmt:
			// consecutive plain if statements (no else, no init) of one statement list: the same thing as an
			// if / else-if chain whose arms all exit, or whose conditions exclude each other
			var run []arm
			flush := func() {
				if len(run) >= 2 {
					out = append(out, run)
				}
				run = nil
			}
			for _, st := range x.List {
				if is, ok := st.(*ast.IfStmt); ok && is.Else == nil && is.Init == nil {
					run = append(run, arm{[]ast.Expr{is.Cond}, is.Body.List, is.Pos()})
				} else {
					flush()
				}
			}
			flush()
		case *ast.IfStmt:
			if seenIf[x] {
				return true
			}
			var as []arm
			for cur := x; cur != nil; {
				seenIf[cur] = true
				if cur.Init == nil {
					as = append(as, arm{[]ast.Expr{cur.Cond}, cur.Body.List, cur.Pos()})
				}
				next, _ := cur.Else.(*ast.IfStmt)
				cur = next
			}
			if len(as) >= 2 {
				out = append(out, as)
			}
		}
		return true
	})
	return out
}

func runOperandSymmetry(rr *RuleRun) {
	c := rr.Ctx
	info := c.Info("cty")
	for _, fd := range c.SortedDecls("cty") {
		// exactly two cty.Value operands (receiver + parameter, or two parameters)
		var ops []types.Object
		if fd.Recv != nil && len(fd.Recv.List) == 1 && len(fd.Recv.List[0].Names) == 1 {
			if o := info.Defs[fd.Recv.List[0].Names[0]]; o != nil && isCtyValue(o.Type()) {
				ops = append(ops, o)
			}
		}
		for _, f := range fd.Type.Params.List {
			for _, nm := range f.Names {
				if o := info.Defs[nm]; o != nil && isCtyValue(o.Type()) {
					ops = append(ops, o)
				}
			}
		}
		if len(ops) != 2 {
			continue
		}
		a, b := ops[0], ops[1]
		canon := func(ar arm, swap bool) (string, string) {
			s := map[types.Object]string{a: "$1", b: "$2"}
			if swap {
				s = map[types.Object]string{a: "$2", b: "$1"}
			}
			cc := &canonCtx{info: info, subst: s, locals: map[types.Object]string{}}
			var cs []string
			for _, e := range ar.cond {
				cs = append(cs, cc.expr(e))
			}
			sort.Strings(cs)
			return strings.Join(cs, " , "), cc.stmts(ar.body)
		}
		pairs := 0
		for _, group := range armsOf(fd.Body) {
			for i := range group {
				ci, bi := canon(group[i], false)
				sci, sbi := canon(group[i], true)
				if sci == ci {
					continue // self-symmetric condition
				}
				for j := range group {
					if j <= i {
						continue
					}
					cj, bj := canon(group[j], false)
					if cj != sci {
						continue
					}
					pairs++
					key := fmt.Sprintf("cty.%s/%s ⇄ %s", declName(fd), trunc(ci, 50), trunc(cj, 50))
					if c.IsControl(fd.Pos()) {
						key = "control/" + key
					}
					if bj == sbi {
						rr.OK(key, group[i].pos, "the two arms are each other's image under swapping "+a.Name()+" and "+b.Name())
					} else {
						rr.Violation(key, group[j].pos, fmt.Sprintf("the conditions of these two arms are each other's image under swapping %s and %s, but their bodies are not: the operation treats its operands differently (%s.%s(%s) and %s.%s(%s) can disagree)", a.Name(), b.Name(), a.Name(), fd.Name.Name, b.Name(), b.Name(), fd.Name.Name, a.Name()))
					}
					_ = bi
				}
			}
		}
	}
}

// ---------------------------------------------------------------------------
// C06.normalise-before-lookup

func isNameMap(t types.Type) bool {
	m, ok := t.Underlying().(*types.Map)
	if !ok {
		return false
	}
	b, ok := m.Key().Underlying().(*types.Basic)
	if !ok || b.Kind() != types.String {
		return false
	}
	if isCtyType(m.Elem()) {
		return true
	}
	if i, ok := m.Elem().Underlying().(*types.Interface); ok && i.Empty() {
		return true
	}
	if s, ok := m.Elem().Underlying().(*types.Struct); ok && s.NumFields() == 0 {
		return true
	}
	return false
}

func runNormaliseBeforeLookup(rr *RuleRun) {
	runNormaliseBeforeLookupIn(rr, "cty")
	// the JSON decoder looks attribute names read from the document up in the requested object type: for
	// every valid document the implied type (whose names cty.Object normalises) must accept the document
	runNormaliseBeforeLookupIn(rr, "cty/json")
}

func runNormaliseBeforeLookupIn(rr *RuleRun, pkg string) {
	c := rr.Ctx
	info := c.Info(pkg)
	for _, fd := range c.SortedDecls(pkg) {
		if pkg == "cty" && !fd.Name.IsExported() {
			continue
		}
		// string parameters (package cty) / names read from the input by a call (package json)
		params := map[types.Object]bool{}
		if pkg == "cty" {
			for _, f := range fd.Type.Params.List {
				for _, nm := range f.Names {
					if o := info.Defs[nm]; o != nil {
						if bt, ok := o.Type().Underlying().(*types.Basic); ok && bt.Kind() == types.String {
							params[o] = true
						}
					}
				}
			}
		} else {
			inspectNoLit(fd.Body, func(n ast.Node) bool {
				as, ok := n.(*ast.AssignStmt)
				if !ok || len(as.Rhs) != 1 || len(as.Lhs) != 2 {
					return true
				}
				call, ok := ast.Unparen(as.Rhs[0]).(*ast.CallExpr)
				if !ok || isCall(info, call, "cty.NormalizeString", "cty/ctystrings.Normalize") {
					return true
				}
				if o := objOf(info, as.Lhs[0]); o != nil {
					if bt, ok := o.Type().Underlying().(*types.Basic); ok && bt.Kind() == types.String {
						params[o] = true
					}
				}
				return true
			})
		}
		if len(params) == 0 {
			continue
		}
		var sites []*ast.IndexExpr
		inspectNoLit(fd.Body, func(n ast.Node) bool {
			if ix, ok := n.(*ast.IndexExpr); ok && isNameMap(info.TypeOf(ix.X)) && params[objOf(info, ix.Index)] {
				sites = append(sites, ix)
			}
			return true
		})
		if len(sites) == 0 {
			continue
		}
		g := c.CFG(fd.Body, info)
		spec := &FactSpec{
			Atom: func(ast.Expr, bool) []Fact { return nil },
			Effects: func(n ast.Node) []Effect {
				as, ok := n.(*ast.AssignStmt)
				if !ok || len(as.Lhs) != 1 || len(as.Rhs) != 1 {
					return nil
				}
				o := objOf(info, as.Lhs[0])
				if o == nil || !params[o] {
					return nil
				}
				if call, ok := ast.Unparen(as.Rhs[0]).(*ast.CallExpr); ok && isCall(info, call, "cty.NormalizeString", "cty/ctystrings.Normalize") && len(call.Args) == 1 && objOf(info, call.Args[0]) == o {
					return []Effect{{Assert: &Fact{"normalised", objKey(o)}}}
				}
				return nil
			},
		}
		facts := g.MustFacts(spec)
		for _, ix := range sites {
			o := objOf(info, ix.Index)
			key := fmt.Sprintf("%s.%s/%s[%s]", pkg, declName(fd), trunc(exprStr(ix.X), 40), o.Name())
			fs, ok := facts.At(ix)
			if !ok {
				continue
			}
			if fs.has("normalised", objKey(o)) {
				rr.OK(key, ix.Pos(), o.Name()+" is NFC-normalised before it is used as a key")
			} else {
				rr.Violation(key, ix.Pos(), fmt.Sprintf("the name %s is used as a map key without having been passed through NormalizeString: the stored names are NFC-normalised, so a canonically equivalent but differently composed name misses its member (and a plain lookup then yields a null)", o.Name()))
			}
		}
	}
}

// ---------------------------------------------------------------------------
// C03.equivalence-uses-equals

func runEquivalenceUsesEquals(rr *RuleRun) {
	c := rr.Ctx
	info := c.Info("cty")
	fd := rr.MustDecl("cty", "setRules.Equivalent")
	if fd != nil {
		equals, raw, isKnown := 0, 0, 0
		var rawPos token.Pos
		ast.Inspect(fd.Body, func(n ast.Node) bool {
			if call, ok := n.(*ast.CallExpr); ok {
				switch funcKey(callee(info, call)) {
				case "cty.Value.Equals":
					equals++
				case "cty.Value.RawEquals":
					raw++
					rawPos = call.Pos()
				case "cty.Value.IsKnown":
					isKnown++
				}
			}
			return true
		})
		key := "cty.setRules.Equivalent"
		switch {
		case raw > 0:
			rr.Violation(key, rawPos, "set equivalence uses RawEquals: raw equality equates unknown values (and partly unknown structures) that Equals leaves undecided, so two members that may turn out different collapse into one")
		case equals == 0:
			rr.Violation(key, fd.Pos(), "set equivalence is no longer decided by Value.Equals")
		default:
			_ = isKnown
			rr.OK(key, fd.Pos(), "decided by Value.Equals (an unknown result is not equivalent); no RawEquals")
		}
	}
	// Remove shrinks a bucket only after an equivalence comparison
	pinfo := c.Info("cty/set")
	if rd := rr.MustDecl("cty/set", "Set.Remove"); rd != nil {
		g := c.CFG(rd.Body, pinfo)
		var scans []ast.Node
		var shrinks []ast.Node
		inspectNoLit(rd.Body, func(n ast.Node) bool {
			switch x := n.(type) {
			case *ast.CallExpr:
				if callsEquivalent(c, pinfo, x, 2) {
					scans = append(scans, x)
				}
				if isBuiltin(pinfo, x, "delete") {
					shrinks = append(shrinks, x)
				}
			case *ast.AssignStmt:
				for _, l := range x.Lhs {
					if ix, ok := l.(*ast.IndexExpr); ok {
						if se, ok := ast.Unparen(ix.X).(*ast.SelectorExpr); ok && se.Sel.Name == "vals" {
							shrinks = append(shrinks, x)
						}
					}
				}
			}
			return true
		})
		for _, sh := range shrinks {
			key := fmt.Sprintf("cty/set.Set.Remove/%s", trunc(nodeStr(sh), 40))
			ok := false
			for _, sc := range scans {
				if sc.Pos() < sh.Pos() && g.Dominates(sc, sh) {
					ok = true
				}
			}
			if ok {
				rr.OK(key, sh.Pos(), "dominated by an equivalence comparison")
			} else {
				rr.Violation(key, sh.Pos(), "a member is removed on a path that made no equivalence comparison: a value that merely shares the hash bucket (or is unknown) is deleted")
			}
		}
	}
}

// ---------------------------------------------------------------------------
// C07.json-names-encoded

func runJSONNamesEncoded(rr *RuleRun) {
	c := rr.Ctx
	info := c.Info("cty")
	fd := rr.MustDecl("cty", "Type.MarshalJSON")
	if fd == nil {
		return
	}
	var bad []string
	var pos token.Pos
	ast.Inspect(fd.Body, func(n ast.Node) bool {
		call, ok := n.(*ast.CallExpr)
		if !ok {
			return true
		}
		f := callee(info, call)
		if f == nil || f.Pkg() == nil {
			return true
		}
		switch f.Pkg().Path() {
		case "fmt":
			if strings.HasPrefix(f.Name(), "Fprint") || strings.HasPrefix(f.Name(), "Sprint") || strings.HasPrefix(f.Name(), "Append") {
				// formatting a name or any string operand
				for _, a := range call.Args[1:] {
					if bt, ok := info.TypeOf(a).Underlying().(*types.Basic); ok && bt.Info()&types.IsString != 0 && info.Types[a].Value == nil {
						bad = append(bad, exprStr(call.Fun))
						pos = call.Pos()
					}
				}
			}
		case "strconv":
			if strings.HasPrefix(f.Name(), "Quote") || strings.HasPrefix(f.Name(), "AppendQuote") {
				bad = append(bad, exprStr(call.Fun))
				pos = call.Pos()
			}
		}
		return true
	})
	if len(bad) > 0 {
		rr.Violation("cty.Type.MarshalJSON", pos, "a string is written with "+strings.Join(bad, ", ")+" instead of encoding/json: Go quoting uses escapes (\\a, \\v, \\x00, \\U…) that are not JSON, so a type with such a name does not survive serialization")
	} else {
		rr.OK("cty.Type.MarshalJSON", fd.Pos(), "strings are produced by encoding/json only")
	}
}

// ---------------------------------------------------------------------------
// C20.no-param-write

var paramWriteAllowed = map[string]string{
	"cty.Path.NewError":       "",
	"cty.PathSet.Add":         "mutable helper set by design (documented)",
	"cty.PathSet.AddAllSteps": "mutable helper set by design (documented)",
	"cty.PathSet.Remove":      "mutable helper set by design (documented)",
	"cty.ValueSet.Add":        "mutable helper set by design (documented)",
	"cty.ValueSet.Remove":     "mutable helper set by design (documented)",
	"cty/set.Set.Add":         "mutable set by design",
	"cty/set.Set.Remove":      "mutable set by design",
}

func runNoParamWrite(rr *RuleRun) {
	o := rr.Ctx.Own()
	for _, fn := range o.moduleFuncs() {
		if !exportedAPI(fn) || (fn.Origin() != nil && fn.Origin() != fn) || fn.Pkg == nil {
			continue
		}
		pk := shortPkg(fn.Pkg.Pkg)
		if pk != "cty" && pk != "cty/convert" && pk != "cty/function" {
			continue
		}
		// slice / map parameters (not the receiver)
		var idxs []int
		for i, p := range fn.Params {
			if i == 0 && fn.Signature.Recv() != nil {
				continue
			}
			switch p.Type().Underlying().(type) {
			case *types.Slice, *types.Map:
				idxs = append(idxs, i)
			}
		}
		if len(idxs) == 0 {
			continue
		}
		key := fnKey(fn)
		pw := o.paramWrites(fn, 0)
		bad := ""
		for k, wi := range pw {
			for _, i := range idxs {
				if k.Idx == i {
					bad = fmt.Sprintf("parameter %s%s is written: %s", fn.Params[i].Name(), pathSuffix(k.Path), wi.What)
				}
			}
		}
		if bad == "" {
			rr.OK(key, fn.Pos(), fmt.Sprintf("%d slice/map parameter(s), none written", len(idxs)))
			continue
		}
		if why, ok := paramWriteAllowed[key]; ok && why != "" {
			rr.OKTrivial(key, fn.Pos(), "tabled: "+why)
			continue
		}
		rr.Violation(key, fn.Pos(), bad+": the caller's argument is modified as a side effect, so what the caller (or a later stage using the same slice) sees afterwards is no longer what was passed in")
	}
}

// ---------------------------------------------------------------------------
// C04.rebuild-keeps-marks

func init() {
	register(&Rule{
		ID: "C04.rebuild-keeps-marks", Prop: "C04", Also: []string{"C08"}, Floor: 1, Controls: 1,
		Doc: "in package convert, a value that is replaced by a fresh null or unknown built from its own type (v = cty.NullVal(v.Type()…)) keeps its marks: the replacement is wrapped in WithSameMarks(v) / WithMarks, or v is established unmarked — a type carries no marks, so rebuilding from it alone drops them",
		Run: runRebuildKeepsMarks,
	})
}

func runRebuildKeepsMarks(rr *RuleRun) {
	c := rr.Ctx
	pkg := "cty/convert"
	eachFuncBody(c, []string{pkg}, func(_ string, fd *ast.FuncDecl, body *ast.BlockStmt) {
		info := c.Info(pkg)
		var facts *WorldResult
		retOf := map[*ast.AssignStmt]*ast.ReturnStmt{}
		retVar := map[*ast.AssignStmt]types.Object{}
		inspectNoLit(body, func(n ast.Node) bool {
			as, ok := n.(*ast.AssignStmt)
			if ret, isRet := n.(*ast.ReturnStmt); isRet && len(ret.Results) == 1 && fd.Body == body && fd.Type.Results != nil && len(fd.Type.Results.List) == 1 {
				// a helper `func(v cty.Value) cty.Value` whose result stands in for v: treat `return E` as `v = E`
				var vp types.Object
				nv := 0
				for _, f := range fd.Type.Params.List {
					for _, nm := range f.Names {
						if o := info.Defs[nm]; o != nil && isCtyValue(o.Type()) {
							vp = o
							nv++
						}
					}
				}
				if nv == 1 && isCtyValue(info.TypeOf(ret.Results[0])) {
					as = &ast.AssignStmt{Lhs: []ast.Expr{&ast.Ident{Name: vp.Name(), NamePos: ret.Pos()}}, TokPos: ret.Pos(), Tok: token.ASSIGN, Rhs: ret.Results}
					retOf[as] = ret
					retVar[as] = vp
					ok = true
				}
			}
			if !ok || len(as.Lhs) != 1 || len(as.Rhs) != 1 {
				return true
			}
			v := objOf(info, as.Lhs[0])
			if rv, isSynth := retVar[as]; isSynth {
				v = rv
			}
			if v == nil || !isCtyValue(v.Type()) {
				return true
			}
			var at ast.Node = as
			if r, isSynth := retOf[as]; isSynth {
				at = r
			}
			// RHS contains NullVal/UnknownVal(... v.Type() ...)
			rebuilt := false
			ast.Inspect(as.Rhs[0], func(m ast.Node) bool {
				call, ok := m.(*ast.CallExpr)
				if !ok || !isCall(info, call, "cty.NullVal", "cty.UnknownVal") || len(call.Args) != 1 {
					return true
				}
				ast.Inspect(call.Args[0], func(k ast.Node) bool {
					if tc, ok := k.(*ast.CallExpr); ok && isCall(info, tc, "cty.Value.Type") {
						if se, ok := tc.Fun.(*ast.SelectorExpr); ok && objOf(info, se.X) == v {
							rebuilt = true
						}
					}
					return true
				})
				return true
			})
			if !rebuilt {
				return true
			}
			key := fmt.Sprintf("%s.%s/%s = %s", pkg, declName(fd), v.Name(), trunc(exprStr(as.Rhs[0]), 40))
			if c.IsControl(as.Pos()) {
				key = "control/" + key
			}
			// wrapped?
			if call, ok := ast.Unparen(as.Rhs[0]).(*ast.CallExpr); ok {
				switch funcKey(callee(info, call)) {
				case "cty.Value.WithSameMarks":
					for _, a := range call.Args {
						if objOf(info, a) == v {
							rr.OK(key, as.Pos(), "the replacement is wrapped in WithSameMarks("+v.Name()+")")
							return true
						}
					}
				case "cty.Value.WithMarks":
					rr.OK(key, as.Pos(), "the replacement is wrapped in WithMarks(...)")
					return true
				}
			}
			if facts == nil {
				facts = c.CFG(body, info).WorldsFocusedDims(valueFacts(info, body), []Fact{{"unmarked", objKey(v)}}, nil, []string{objKey(v)}, []string{"M", "DM"})
			}
			if h, reach := facts.Established(at, Fact{"unmarked", objKey(v)}); h || !reach {
				rr.OK(key, as.Pos(), v.Name()+" is established unmarked here")
				return true
			}
			rr.Violation(key, as.Pos(), fmt.Sprintf("%s is replaced by a value built from its type alone; if %s was marked (a marked null element, for example) its marks are dropped from the conversion result", v.Name(), v.Name()))
			return true
		})
	})
}
