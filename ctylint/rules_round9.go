package main

import (
	"fmt"
	"go/ast"
	"go/token"
	"go/types"
	"strings"
)

// Round 9 — two more rules for clusters of seeded changes that kept coming back:
//   C11.returned-type-has-a-handled-kind   the Type callback returns a type of a kind the Impl callback panics on
//   C11.index-guard-admits-length          an index is guarded by a comparison with the length that lets the length itself through

func init() {
	register(&Rule{
		ID: "C11.returned-type-has-a-handled-kind", Prop: "C11", Also: []string{"C13", "C12"}, Floor: 1, Controls: 0,
		Doc: "where the Impl callback of a standard function dispatches on the kind of its return type and panics in the residual case, the Type callback returns only types of the kinds the dispatch handles (or the dynamic pseudo-type): every successful return of the Type callback is a type constructor of a handled kind, or the type of an argument that was established to be of a handled kind on that path — returning the type of an argument of a parameter declared cty.DynamicPseudoType without such a test (a one-argument shortcut) lets a set, map, object or string through to the panic",
		Run: runReturnedTypeHasHandledKind,
	})
	register(&Rule{
		ID: "C11.index-guard-admits-length", Prop: "C11", Also: []string{"C13", "C14", "C17", "C08", "C19", "C02"}, Floor: 3, Controls: 1,
		Doc: "an index is not guarded by a comparison that lets the length itself through: where S[i] is evaluated on paths on which the only established relation between i and len(S) is i <= len(S) (the rejection was written i > len(S)) and nothing establishes i < len(S), the index equal to the length — one past the last element — reaches the indexing and panics; the guard the code wrote shows the author meant to exclude it",
		Run: runIndexGuardAdmitsLength,
	})
}

var kindOfPredicate = map[string]string{
	"IsListType": "List", "IsSetType": "Set", "IsMapType": "Map", "IsTupleType": "Tuple", "IsObjectType": "Object",
	"IsCapsuleType": "Capsule",
}

var kindOfConstructor = map[string]string{
	"cty.List": "List", "cty.Set": "Set", "cty.Map": "Map", "cty.Tuple": "Tuple", "cty.Object": "Object",
	"cty.ObjectWithOptionalAttrs": "Object", "cty.Capsule": "Capsule", "cty.CapsuleWithOps": "Capsule",
}

func runReturnedTypeHasHandledKind(rr *RuleRun) {
	c := rr.Ctx
	pkg := "cty/function/stdlib"
	info := c.Info(pkg)
	for _, sp := range findSpecs(c, pkg) {
		tcb, ok1 := ast.Unparen(sp.TypeCB).(*ast.FuncLit)
		icb, ok2 := ast.Unparen(sp.ImplCB).(*ast.FuncLit)
		if !ok1 || !ok2 || len(icb.Type.Params.List) < 2 {
			continue
		}
		// the return-type parameter of Impl
		var retParam types.Object
		n := 0
		for _, f := range icb.Type.Params.List {
			for _, nm := range f.Names {
				if n == 1 {
					retParam = info.Defs[nm]
				}
				n++
			}
		}
		if retParam == nil {
			continue
		}
		// a top-level tagless switch on kind predicates of retType with a panicking default
		handled := map[string]bool{}
		var sw *ast.SwitchStmt
		for _, st := range icb.Body.List {
			s, ok := st.(*ast.SwitchStmt)
			if !ok || s.Tag != nil {
				continue
			}
			h := map[string]bool{}
			panics, onRet := false, true
			for _, cl := range s.Body.List {
				cc := cl.(*ast.CaseClause)
				if len(cc.List) == 0 {
					for _, b := range cc.Body {
						if es, ok := b.(*ast.ExprStmt); ok {
							if call, ok := es.X.(*ast.CallExpr); ok && isBuiltin(info, call, "panic") {
								panics = true
							}
						}
					}
					continue
				}
				for _, e := range cc.List {
					found := false
					for _, cj := range strings.Split("", "") {
						_ = cj
					}
					ast.Inspect(e, func(m ast.Node) bool {
						call, ok := m.(*ast.CallExpr)
						if !ok {
							return true
						}
						se, ok := call.Fun.(*ast.SelectorExpr)
						if ok && objOf(info, se.X) == retParam {
							if k, ok := kindOfPredicate[se.Sel.Name]; ok {
								h[k] = true
								found = true
							} else if se.Sel.Name == "IsCollectionType" {
								h["List"], h["Set"], h["Map"] = true, true, true
								found = true
							} else if se.Sel.Name == "IsPrimitiveType" {
								h["Primitive"] = true
								found = true
							}
						}
						return true
					})
					if !found {
						onRet = false
					}
				}
			}
			if panics && onRet && len(h) > 0 {
				handled, sw = h, s
				break
			}
		}
		if sw == nil {
			continue
		}
		var hs []string
		for k := range handled {
			hs = append(hs, k)
		}
		sortStrings(hs)
		// arguments of parameters declared with the dynamic pseudo-type
		var argsParam types.Object
		if len(tcb.Type.Params.List) > 0 && len(tcb.Type.Params.List[0].Names) > 0 {
			argsParam = info.Defs[tcb.Type.Params.List[0].Names[0]]
		}
		anyKindParam := func() bool {
			ps := append([]*paramInfo{}, sp.Params...)
			if sp.VarParam != nil {
				ps = append(ps, sp.VarParam)
			}
			for _, p := range ps {
				if p.TypeExpr != nil && isPkgVar(info, p.TypeExpr, "cty", "DynamicPseudoType") {
					return true
				}
			}
			return false
		}()
		cf := c.CondFacts(tcb.Body, info, nil)
		env := newAliasEnv(info, tcb.Body)
		// is e an argument (args[k], a range variable over args, or a same-level view of one)?
		var isArg func(e ast.Expr, depth int) bool
		isArg = func(e ast.Expr, depth int) bool {
			if depth > 5 {
				return false
			}
			switch x := ast.Unparen(e).(type) {
			case *ast.IndexExpr:
				return objOf(info, x.X) == argsParam
			case *ast.Ident:
				v, ok := info.Uses[x].(*types.Var)
				if !ok {
					return false
				}
				// range variable over args
				isRangeVar := false
				ast.Inspect(tcb.Body, func(m ast.Node) bool {
					if rs, ok := m.(*ast.RangeStmt); ok && rs.Value != nil && info.Defs[identOf(rs.Value)] == v && objOf(info, rs.X) == argsParam {
						isRangeVar = true
					}
					return true
				})
				if isRangeVar {
					return true
				}
				if env.neverReassigned(v) {
					if _, idx, rhs := findDefine(info, tcb.Body, v); rhs != nil {
						if len(rhs) == 1 {
							if call, ok := ast.Unparen(rhs[0]).(*ast.CallExpr); ok {
								if se, ok := call.Fun.(*ast.SelectorExpr); ok && (se.Sel.Name == "Unmark" || se.Sel.Name == "UnmarkDeep") && idx == 0 {
									return isArg(se.X, depth+1)
								}
							}
							if idx == 0 {
								return isArg(rhs[0], depth+1)
							}
						}
					}
				}
			}
			return false
		}
		// the value whose type e denotes: E.Type() or a single-assignment alias of it
		typeOfWhat := func(e ast.Expr) ast.Expr {
			e = ast.Unparen(e)
			if id, ok := e.(*ast.Ident); ok {
				if v, ok := info.Uses[id].(*types.Var); ok && env.neverReassigned(v) {
					if _, idx, rhs := findDefine(info, tcb.Body, v); rhs != nil && len(rhs) == 1 && idx == 0 {
						e = ast.Unparen(rhs[0])
					}
				}
			}
			if call, ok := e.(*ast.CallExpr); ok {
				if se, ok := call.Fun.(*ast.SelectorExpr); ok && se.Sel.Name == "Type" && len(call.Args) == 0 && isCtyValue(info.TypeOf(se.X)) {
					return se.X
				}
			}
			return nil
		}
		inspectNoLit(tcb.Body, func(m ast.Node) bool {
			ret, ok := m.(*ast.ReturnStmt)
			if !ok || len(ret.Results) != 2 || !isNilIdent(info, ret.Results[1]) {
				return true
			}
			x := ast.Unparen(ret.Results[0])
			key := fmt.Sprintf("%s.%s.Type/return %s", pkg, sp.Name, trunc(exprStr(x), 40))
			why := fmt.Sprintf("the Impl callback handles return types of kind %s and panics otherwise", strings.Join(hs, ", "))
			if isPkgVar(info, x, "cty", "DynamicPseudoType") {
				rr.OKTrivial(key, ret.Pos(), "the dynamic pseudo-type")
				return true
			}
			if call, ok := x.(*ast.CallExpr); ok {
				if k, ok := kindOfConstructor[funcKey(callee(info, call))]; ok {
					if handled[k] {
						rr.OK(key, ret.Pos(), "a "+k+" type, which the Impl callback handles")
					} else {
						rr.Violation(key, ret.Pos(), fmt.Sprintf("the Type callback returns a %s type, but %s: the call passes the type check and then fails with an internal panic", k, why))
					}
					return true
				}
			}
			if isPkgVar(info, x, "cty", "String", "Number", "Bool") {
				if handled["Primitive"] {
					rr.OK(key, ret.Pos(), "a primitive type, which the Impl callback handles")
				} else {
					rr.Violation(key, ret.Pos(), fmt.Sprintf("the Type callback returns a primitive type, but %s", why))
				}
				return true
			}
			if of := typeOfWhat(x); of != nil && isArg(of, 0) && anyKindParam {
				// a kind fact about this argument's type on the path
				established := cf.HoldsAt(ret, func(cond ast.Expr, truth bool) bool {
					call, ok := ast.Unparen(cond).(*ast.CallExpr)
					if !ok || !truth {
						return false
					}
					se, ok := call.Fun.(*ast.SelectorExpr)
					if !ok {
						return false
					}
					k, isKind := kindOfPredicate[se.Sel.Name]
					if !isKind || !handled[k] {
						return false
					}
					w := typeOfWhat(se.X)
					return w != nil && exprStr(w) == exprStr(of)
				})
				if established {
					rr.OK(key, ret.Pos(), "the argument was established to be of a handled kind")
				} else {
					rr.Violation(key, ret.Pos(), fmt.Sprintf("the Type callback returns the type of the argument %s, whose parameter is declared cty.DynamicPseudoType, on a path where no test established its kind; %s — an argument of another kind passes the type check and the call then fails with an internal panic instead of an argument error", exprStr(of), why))
				}
				return true
			}
			rr.Assumed(key, ret.Pos(), "a computed type whose kind this rule does not derive")
			return true
		})
	}
}

func identOf(e ast.Expr) *ast.Ident {
	id, _ := ast.Unparen(e).(*ast.Ident)
	return id
}

func sortStrings(s []string) {
	for i := 1; i < len(s); i++ {
		for j := i; j > 0 && s[j] < s[j-1]; j-- {
			s[j], s[j-1] = s[j-1], s[j]
		}
	}
}

// ---------------------------------------------------------------------------

func runIndexGuardAdmitsLength(rr *RuleRun) {
	c := rr.Ctx
	eachFuncBody(c, allPkgs, func(pkg string, fd *ast.FuncDecl, body *ast.BlockStmt) {
		if body == nil {
			return
		}
		info := c.Info(pkg)
		var cf *CondFacts
		var env *aliasEnv
		inspectNoLit(body, func(n ast.Node) bool {
			ix, ok := n.(*ast.IndexExpr)
			if !ok {
				return true
			}
			switch info.TypeOf(ix.X).Underlying().(type) {
			case *types.Slice, *types.Array:
			case *types.Basic: // string
			default:
				return true
			}
			iv, ok := objOf(info, ix.Index).(*types.Var)
			if !ok || iv.IsField() {
				return true
			}
			// an assignment target is not a read
			if as, ok := c.Parent(ix).(*ast.AssignStmt); ok {
				for _, l := range as.Lhs {
					if l == ast.Expr(ix) {
						// still an indexing that panics when out of range: keep it
					}
				}
			}
			if cf == nil {
				cf = c.CondFacts(body, info, nil)
				env = newAliasEnv(info, body)
			}
			if !cf.Located(ix) {
				return true
			}
			sx, okx := env.canon(ix.X, 0)
			if !okx {
				return true
			}
			// is e the length of S (len(S), or a single-assignment alias of it)?
			var isLen func(e ast.Expr, depth int) bool
			isLen = func(e ast.Expr, depth int) bool {
				if depth > 4 {
					return false
				}
				e = ast.Unparen(e)
				if call, ok := e.(*ast.CallExpr); ok && isBuiltin(info, call, "len") && len(call.Args) == 1 {
					s, ok := env.canon(call.Args[0], 0)
					return ok && s == sx
				}
				if id, ok := e.(*ast.Ident); ok {
					if v, ok := info.Uses[id].(*types.Var); ok && !v.IsField() && env.neverReassigned(v) {
						if _, idx, rhs := findDefine(info, body, v); rhs != nil && len(rhs) > idx && len(rhs) == len(lhsCount(rhs)) {
							return isLen(rhs[idx], depth+1)
						}
					}
				}
				return false
			}
			isIdx := func(e ast.Expr) bool { return objOf(info, e) == types.Object(iv) }
			strong, weak := false, false
			var weakCond string
			cf.HoldsAt(ix, func(cond ast.Expr, truth bool) bool {
				be, ok := ast.Unparen(cond).(*ast.BinaryExpr)
				if !ok {
					return false
				}
				op := be.Op
				var l, r = be.X, be.Y
				if isLen(l, 0) && isIdx(r) {
					// len OP i  ⇒  i OP' len
					l, r = r, l
					switch op {
					case token.LSS:
						op = token.GTR
					case token.GTR:
						op = token.LSS
					case token.LEQ:
						op = token.GEQ
					case token.GEQ:
						op = token.LEQ
					}
				}
				if !isIdx(l) || !isLen(r, 0) {
					return false
				}
				if !truth {
					switch op {
					case token.LSS:
						op = token.GEQ
					case token.GEQ:
						op = token.LSS
					case token.GTR:
						op = token.LEQ
					case token.LEQ:
						op = token.GTR
					case token.EQL:
						op = token.NEQ
					default:
						return false
					}
				}
				switch op {
				case token.LSS:
					strong = true
				case token.LEQ:
					weak = true
					weakCond = exprStr(cond)
				}
				return false
			})
			key := fmt.Sprintf("%s.%s/%s[%s]", pkg, declName(fd), trunc(exprStr(ix.X), 30), iv.Name())
			switch {
			case strong:
				rr.OK(key, ix.Pos(), "the index was established to be less than the length")
			case weak:
				// a loop bounded by i < len in its header is invisible to the branch facts only if it is not a branch: it is one
				rr.Violation(key, ix.Pos(), fmt.Sprintf("%s is indexed with %s on a path where the only established relation between them is %s <= len(%s) (from the guard '%s'): the length itself — one past the last element — is let through and the indexing panics", exprStr(ix.X), iv.Name(), iv.Name(), trunc(exprStr(ix.X), 30), trunc(weakCond, 50)))
			default:
				rr.OKTrivial(key, ix.Pos(), "no comparison of this index with the length on the path: not decided")
			}
			return true
		})
	})
}

func lhsCount(rhs []ast.Expr) []ast.Expr { return rhs }

// ---------------------------------------------------------------------------
// C15.elements-decoded-through-dispatcher

func init() {
	register(&Rule{
		ID: "C15.elements-decoded-through-dispatcher", Prop: "C15", Also: []string{"C16", "C17"}, Floor: 12, Controls: 0,
		Doc: "in both decoders every member of a collection or structure is decoded through the dispatcher: the kind-specific decoding functions (unmarshalPrimitive, unmarshalList, … — the functions the dispatcher 'unmarshal' calls from its kind switch) are called from nowhere else, so the handling the dispatcher does before the switch (a null, the dynamic wrapper, an unknown-value extension) applies at every depth — a member decoded by a kind-specific function directly (a fast path for primitive elements) rejects the null members the encoder writes",
		Run: runElementsDecodedThroughDispatcher,
	})
}

func runElementsDecodedThroughDispatcher(rr *RuleRun) {
	c := rr.Ctx
	for _, pkg := range []string{"cty/json", "cty/msgpack"} {
		info := c.Info(pkg)
		disp := rr.MustDecl(pkg, "unmarshal")
		if disp == nil {
			continue
		}
		dispObj := info.Defs[disp.Name]
		// the kind-specific decoders: in-package callees of the dispatcher that take the decoder state
		kindDecoders := map[*types.Func]bool{}
		inspectNoLit(disp.Body, func(n ast.Node) bool {
			if call, ok := n.(*ast.CallExpr); ok {
				if f := callee(info, call); f != nil && f.Pkg() != nil && shortPkg(f.Pkg()) == pkg && types.Object(f) != dispObj && strings.HasPrefix(f.Name(), "unmarshal") {
					kindDecoders[f] = true
				}
			}
			return true
		})
		if len(kindDecoders) < 6 {
			rr.Broken(fmt.Sprintf("stale anchor: the dispatcher %s.unmarshal calls %d kind-specific decoders, expected at least 6", pkg, len(kindDecoders)))
			continue
		}
		for _, fd := range c.SortedDecls(pkg) {
			if fd.Body == nil || fd == disp {
				continue
			}
			ast.Inspect(fd.Body, func(n ast.Node) bool {
				call, ok := n.(*ast.CallExpr)
				if !ok {
					return true
				}
				f := callee(info, call)
				if f == nil || !kindDecoders[f] {
					return true
				}
				rr.Violation(fmt.Sprintf("%s.%s/call %s", pkg, declName(fd), f.Name()), call.Pos(), fmt.Sprintf("%s calls the kind-specific decoder %s directly instead of going through the dispatcher: what the dispatcher does first (a null member, a dynamically-typed member, an unknown-value extension) is skipped for the members decoded here, so the decoder rejects documents the encoder writes", declName(fd), f.Name()))
				return true
			})
		}
		var names []string
		for f := range kindDecoders {
			names = append(names, f.Name())
		}
		sortStrings(names)
		for _, nm := range names {
			rr.OK(fmt.Sprintf("%s.%s/callers", pkg, nm), disp.Pos(), "called by the dispatcher only")
		}
	}
}

// ---------------------------------------------------------------------------
// C16.no-lossy-go-conversion

func init() {
	register(&Rule{
		ID: "C16.no-lossy-go-conversion", Prop: "C16", Also: []string{"C15", "C18", "C02", "C14"}, Floor: 10, Controls: 1,
		Doc: "the packages that carry numbers across a boundary (cty, cty/json, cty/msgpack, cty/gocty) contain no Go conversion of a float64 to float32, or of an integer or float to an integer type of fewer bits, other than one whose result is converted back and compared with the original on the way: such a conversion rounds or wraps silently (an exactly representable float64 with a short mantissa but an exponent outside single precision becomes 0 or an infinity), and nothing downstream can tell",
		Run: runNoLossyGoConversion,
	})
}

func numericBits(b *types.Basic) (bits int, float bool, ok bool) {
	switch b.Kind() {
	case types.Int8, types.Uint8:
		return 8, false, true
	case types.Int16, types.Uint16:
		return 16, false, true
	case types.Int32, types.Uint32:
		return 32, false, true
	case types.Int64, types.Uint64, types.Int, types.Uint, types.Uintptr:
		return 64, false, true
	case types.Float32:
		return 32, true, true
	case types.Float64:
		return 64, true, true
	case types.UntypedInt, types.UntypedFloat, types.UntypedRune:
		return 0, false, false
	}
	return 0, false, false
}

func runNoLossyGoConversion(rr *RuleRun) {
	c := rr.Ctx
	eachFuncBody(c, []string{"cty", "cty/json", "cty/msgpack", "cty/gocty"}, func(pkg string, fd *ast.FuncDecl, body *ast.BlockStmt) {
		if body == nil {
			return
		}
		info := c.Info(pkg)
		inspectNoLit(body, func(n ast.Node) bool {
			call, ok := n.(*ast.CallExpr)
			if !ok || len(call.Args) != 1 {
				return true
			}
			tv, ok := info.Types[call.Fun]
			if !ok || !tv.IsType() {
				return true
			}
			to, ok := tv.Type.Underlying().(*types.Basic)
			if !ok {
				return true
			}
			fromT := info.TypeOf(call.Args[0])
			if fromT == nil {
				return true
			}
			from, ok := fromT.Underlying().(*types.Basic)
			if !ok {
				return true
			}
			if atv, ok := info.Types[call.Args[0]]; ok && atv.Value != nil {
				return true // a constant: checked by the compiler
			}
			tb, tf, ok1 := numericBits(to)
			fb, ff, ok2 := numericBits(from)
			if !ok1 || !ok2 {
				return true
			}
			key := fmt.Sprintf("%s.%s/%s", pkg, declName(fd), trunc(exprStr(call), 40))
			lossy := (ff && tf && tb < fb) || (!tf && tb < fb) || (ff && !tf && tb < 64)
			// an integer conversion that changes signedness without gaining bits wraps too: a uint64 of 2^63 or
			// more becomes a negative int, a negative int a huge unsigned number
			signFlip := !ff && !tf && isUnsignedBasic(from) != isUnsignedBasic(to) && (isUnsignedBasic(to) || tb <= fb)
			if signFlip && !lossy {
				if why, ok := hashConversions[pkg+"."+declName(fd)]; ok {
					rr.OKTrivial(key, call.Pos(), "tabled: "+why)
					return true
				}
				rr.Violation(key, call.Pos(), fmt.Sprintf("%s converts a %s to %s: the two types have different signedness and the target has no more bits, so values in the upper half of the unsigned range (or negative values) wrap around silently — an index of 2^63 or more becomes negative and passes an upper-bound test", exprStr(call), from.Name(), to.Name()))
				return true
			}
			if !lossy {
				rr.OKTrivial(key, call.Pos(), "not a narrowing conversion")
				return true
			}
			// converted back and compared? float64(float32(x)) == x
			if p, ok := c.Parent(call).(*ast.CallExpr); ok && len(p.Args) == 1 {
				if ptv, ok := info.Types[p.Fun]; ok && ptv.IsType() {
					if be, ok := c.Parent(p).(*ast.BinaryExpr); ok && (be.Op == token.EQL || be.Op == token.NEQ) {
						rr.OK(key, call.Pos(), "converted back and compared with the original")
						return true
					}
				}
			}
			rr.Violation(key, call.Pos(), fmt.Sprintf("%s converts a %s to %s, which has fewer bits: values outside the narrower type's range or precision are rounded, flushed to zero, turned into an infinity or wrapped without any indication, and the result is used as if it were the number", exprStr(call), from.Name(), to.Name()))
			return true
		})
	})
}

func isUnsignedBasic(b *types.Basic) bool { return b.Info()&types.IsUnsigned != 0 }

// hashConversions: functions whose result is a hash — any int will do, so wrapping an unsigned checksum into an
// int loses nothing. Keyed by symbol.
var hashConversions = map[string]string{
	"cty.setRules.Hash":     "the result is a hash bucket number; wrapping the unsigned checksum is harmless",
	"cty.pathSetRules.Hash": "the result is a hash bucket number; wrapping the unsigned checksum is harmless",
}
