package main

import (
	"go/ast"
	"go/constant"
	"go/token"
	"go/types"
	"strings"
)

// subjKey renders an access path rooted at a types.Object. "" = not a path.
func subjKey(info *types.Info, e ast.Expr) string {
	switch x := ast.Unparen(e).(type) {
	case *ast.Ident:
		o := objOf(info, x)
		if o == nil {
			return ""
		}
		if _, ok := o.(*types.Var); !ok {
			return ""
		}
		return objKey(o)
	case *ast.SelectorExpr:
		if sel, ok := info.Selections[x]; ok && sel.Kind() == types.FieldVal {
			if b := subjKey(info, x.X); b != "" {
				return b + "." + x.Sel.Name
			}
			return ""
		}
		// package-qualified variable
		if o, ok := info.Uses[x.Sel].(*types.Var); ok {
			return objKey(o)
		}
	case *ast.CallExpr:
		// nullary pure getters used as paths: v.Type()
		if len(x.Args) == 0 {
			if se, ok := ast.Unparen(x.Fun).(*ast.SelectorExpr); ok {
				if f := callee(info, x); f != nil && funcKey(f) == "cty.Value.Type" {
					if b := subjKey(info, se.X); b != "" {
						return b + ".ty"
					}
				}
			}
		}
	case *ast.IndexExpr:
		b := subjKey(info, x.X)
		if b == "" {
			return ""
		}
		if tv, ok := info.Types[x.Index]; ok && tv.Value != nil {
			return b + "[" + tv.Value.ExactString() + "]"
		}
		if k := subjKey(info, x.Index); k != "" {
			return b + "[" + k + "]"
		}
	case *ast.StarExpr:
		if b := subjKey(info, x.X); b != "" {
			return "*" + b
		}
	}
	return ""
}

// displaySubj strips the @pos decorations for messages.
func displaySubj(s string) string {
	var b strings.Builder
	skip := false
	for _, r := range s {
		if r == '@' {
			skip = true
			continue
		}
		if skip && r >= '0' && r <= '9' {
			continue
		}
		skip = false
		b.WriteRune(r)
	}
	return b.String()
}

// findDefine finds the := / var definition that introduces obj inside root and
// returns the defining statement, the index of obj on its LHS and the RHS list.
func findDefine(info *types.Info, root ast.Node, obj types.Object) (ast.Node, int, []ast.Expr) {
	var st ast.Node
	var idx int
	var rhs []ast.Expr
	ast.Inspect(root, func(n ast.Node) bool {
		if st != nil {
			return false
		}
		switch s := n.(type) {
		case *ast.AssignStmt:
			if s.Tok != token.DEFINE {
				return true
			}
			for i, l := range s.Lhs {
				if id, ok := l.(*ast.Ident); ok && info.Defs[id] == obj {
					st, idx, rhs = s, i, s.Rhs
					return false
				}
			}
		case *ast.ValueSpec:
			for i, id := range s.Names {
				if info.Defs[id] == obj {
					st, idx, rhs = s, i, s.Values
					return false
				}
			}
		}
		return true
	})
	return st, idx, rhs
}

// countAssigns counts plain assignments (=, op=, ++) to obj inside root.
func countAssigns(info *types.Info, root ast.Node, obj types.Object) int {
	n := 0
	ast.Inspect(root, func(x ast.Node) bool {
		switch s := x.(type) {
		case *ast.AssignStmt:
			if s.Tok == token.DEFINE {
				// a := redefinition of an existing var in the same scope counts
				for _, l := range s.Lhs {
					if id, ok := l.(*ast.Ident); ok && info.Defs[id] == nil && info.Uses[id] == obj {
						n++
					}
				}
				return true
			}
			for _, l := range s.Lhs {
				if id, ok := ast.Unparen(l).(*ast.Ident); ok && info.Uses[id] == obj {
					n++
				}
			}
		case *ast.IncDecStmt:
			if id, ok := ast.Unparen(s.X).(*ast.Ident); ok && info.Uses[id] == obj {
				n++
			}
		case *ast.UnaryExpr:
			if s.Op == token.AND {
				if id, ok := ast.Unparen(s.X).(*ast.Ident); ok && info.Uses[id] == obj {
					n++
				}
			}
		case *ast.RangeStmt:
			if s.Tok == token.ASSIGN {
				for _, l := range []ast.Expr{s.Key, s.Value} {
					if id, ok := l.(*ast.Ident); ok && info.Uses[id] == obj {
						n++
					}
				}
			}
		}
		return true
	})
	return n
}

// valueFacts builds the FactSpec for the typestate vocabulary of cty.Value:
// preds known/unknown, notnull/null, unmarked, deepunmarked, whollyknown and
// kind=<K>/kind!=<K> on .ty paths. root is the enclosing function (for def lookup).
func valueFacts(info *types.Info, root ast.Node) *FactSpec {
	methodOn := func(e ast.Expr) (recv ast.Expr, key string, call *ast.CallExpr) {
		c, ok := ast.Unparen(e).(*ast.CallExpr)
		if !ok {
			return nil, "", nil
		}
		se, ok := ast.Unparen(c.Fun).(*ast.SelectorExpr)
		if !ok {
			return nil, "", nil
		}
		f := callee(info, c)
		if f == nil {
			return nil, "", nil
		}
		return se.X, funcKey(f), c
	}
	var atom func(cond ast.Expr, truth bool) []Fact
	atom = func(cond ast.Expr, truth bool) []Fact {
		cond = ast.Unparen(cond)
		// method predicates
		if recv, key, call := methodOn(cond); call != nil {
			s := subjKey(info, recv)
			if s == "" {
				return nil
			}
			switch key {
			case "cty.Value.IsKnown":
				if truth {
					return []Fact{{"known", s}}
				}
				return []Fact{{"unknown", s}}
			case "cty.Value.IsWhollyKnown":
				if truth {
					return []Fact{{"known", s}, {"whollyknown", s}}
				}
			case "cty.Value.IsNull":
				if truth {
					return []Fact{{"null", s}, {"known", s}}
				}
				return []Fact{{"notnull", s}}
			case "cty.Value.IsMarked":
				if !truth {
					return []Fact{{"unmarked", s}}
				}
			case "cty.Value.ContainsMarked":
				if !truth {
					return []Fact{{"unmarked", s}, {"deepunmarked", s}}
				}
			}
			if k := kindPredicate(key); k != "" {
				tk := s
				if truth {
					return []Fact{{"kind=" + k, tk}}
				}
				return []Fact{{"kind!=" + k, tk}}
			}
			return nil
		}
		// definitelyNotNull(x)
		if c, ok := cond.(*ast.CallExpr); ok && len(c.Args) == 1 && isCall(info, c, "cty.definitelyNotNull") && truth {
			if s := subjKey(info, c.Args[0]); s != "" {
				return []Fact{{"notnull", s}}
			}
		}
		// comma-ok identifiers and nil tests of mustTypeCheck results
		if id, ok := cond.(*ast.Ident); ok {
			obj := objOf(info, id)
			if obj == nil {
				return nil
			}
			st, idx, rhs := findDefine(info, root, obj)
			if st == nil || countAssigns(info, root, obj) > 0 {
				return nil
			}
			// isKnown, isNull := in.IsKnown(), in.IsNull(): a boolean local bound once to a predicate
			if as, ok := st.(*ast.AssignStmt); ok && len(as.Lhs) == len(rhs) && idx < len(rhs) {
				if c, ok := ast.Unparen(rhs[idx]).(*ast.CallExpr); ok {
					if _, key, _ := methodOn(c); strings.HasPrefix(key, "cty.Value.Is") || strings.HasPrefix(key, "cty.Type.Is") {
						return atom(c, truth)
					}
				}
				return nil
			}
			if idx != 1 || len(rhs) != 1 {
				return nil
			}
			if ta, ok := ast.Unparen(rhs[0]).(*ast.TypeAssertExpr); ok && ta.Type != nil {
				s := subjKey(info, ta.X)
				if s == "" {
					return nil
				}
				// x.v.(*unknownType)
				if strings.HasSuffix(s, ".v") && namedType(info.TypeOf(ta.Type)) == "cty.unknownType" {
					s = strings.TrimSuffix(s, ".v")
					if truth {
						return []Fact{{"unknown", s}}
					}
					return []Fact{{"known", s}}
				}
				if strings.HasSuffix(s, ".v") && namedType(info.TypeOf(ta.Type)) == "cty.marker" && !truth {
					return []Fact{{"unmarked", strings.TrimSuffix(s, ".v")}}
				}
			}
			return nil
		}
		if be, ok := cond.(*ast.BinaryExpr); ok && be.Op == token.EQL {
			x, y := ast.Unparen(be.X), ast.Unparen(be.Y)
			if isNilIdent(info, x) {
				x, y = y, x
			}
			if isNilIdent(info, y) {
				// sc == nil where sc := mustTypeCheck(req, ret, operands...)
				if id, ok := x.(*ast.Ident); ok {
					obj := objOf(info, id)
					if obj != nil {
						st, idx, rhs := findDefine(info, root, obj)
						if st != nil && idx == 0 && len(rhs) == 1 {
							if c, ok := ast.Unparen(rhs[0]).(*ast.CallExpr); ok && isCall(info, c, "cty.mustTypeCheck") && truth && len(c.Args) >= 3 && !c.Ellipsis.IsValid() {
								// reassignments inside the non-nil branch do not matter for the nil edge
								var out []Fact
								req := kindOfTypeExpr(info, c.Args[0])
								for _, a := range c.Args[2:] {
									if s := subjKey(info, a); s != "" {
										out = append(out, Fact{"known", s})
										if req != "" {
											out = append(out, Fact{"kind=" + req, s + ".ty"})
										}
									}
								}
								return out
							}
						}
					}
				}
				// x.v == nil
				if s := subjKey(info, x); strings.HasSuffix(s, ".v") {
					if truth {
						return []Fact{{"null", strings.TrimSuffix(s, ".v")}}
					}
					return []Fact{{"notnull", strings.TrimSuffix(s, ".v")}}
				}
				return nil
			}
			// kind tests by identity: t == cty.Number
			for i := 0; i < 2; i++ {
				if k := kindOfTypeExpr(info, y); k != "" {
					if s := subjKey(info, x); s != "" && isCtyType(info.TypeOf(x)) {
						if truth {
							return []Fact{{"kind=" + k, s}}
						}
						return []Fact{{"kind!=" + k, s}}
					}
				}
				x, y = y, x
			}
		}
		return nil
	}
	effects := func(n ast.Node) []Effect {
		var out []Effect
		// a panicking payload assertion x.v.(T) that is evaluated unconditionally by this node: afterwards
		// x is known, non-null and unmarked (the assertion would have panicked on nil, the unknown sigil or a marker)
		if _, isBlockish := n.(*ast.BlockStmt); !isBlockish {
			commaOK := map[*ast.TypeAssertExpr]bool{}
			if as, ok := n.(*ast.AssignStmt); ok && len(as.Lhs) == 2 && len(as.Rhs) == 1 {
				if ta, ok := ast.Unparen(as.Rhs[0]).(*ast.TypeAssertExpr); ok {
					commaOK[ta] = true
				}
			}
			if vs, ok := n.(*ast.ValueSpec); ok && len(vs.Names) == 2 && len(vs.Values) == 1 {
				if ta, ok := ast.Unparen(vs.Values[0]).(*ast.TypeAssertExpr); ok {
					commaOK[ta] = true
				}
			}
			var walk func(x ast.Node)
			walk = func(x ast.Node) {
				ast.Inspect(x, func(m ast.Node) bool {
					switch y := m.(type) {
					case *ast.FuncLit:
						return false
					case *ast.BinaryExpr:
						if y.Op == token.LAND || y.Op == token.LOR {
							walk(y.X) // the right operand is evaluated conditionally
							return false
						}
					case *ast.TypeAssertExpr:
						if y.Type == nil || commaOK[y] {
							return true
						}
						if sk := subjKey(info, y.X); strings.HasSuffix(sk, ".v") {
							tn := namedType(info.TypeOf(y.Type))
							if tn != "cty.marker" && tn != "cty.unknownType" {
								subj := strings.TrimSuffix(sk, ".v")
								out = append(out, Effect{Assert: &Fact{"notnull", subj}}, Effect{Assert: &Fact{"known", subj}}, Effect{Assert: &Fact{"unmarked", subj}})
							}
						}
					}
					return true
				})
			}
			switch st := n.(type) {
			case *ast.IfStmt, *ast.ForStmt, *ast.SwitchStmt, *ast.TypeSwitchStmt, *ast.RangeStmt, *ast.CaseClause:
				_ = st // compound statements never appear as cfg nodes
			default:
				walk(n)
			}
		}
		switch s := n.(type) {
		case *ast.ExprStmt:
			if recv, key, call := methodOn(s.X); call != nil && key == "cty.Value.assertUnmarked" {
				if k := subjKey(info, recv); k != "" {
					out = append(out, Effect{Assert: &Fact{"unmarked", k}})
				}
			}
		case *ast.AssignStmt:
			if len(s.Rhs) == 1 && len(s.Lhs) >= 1 {
				lhs := subjKey(info, s.Lhs[0])
				if lhs == "" {
					break
				}
				if recv, key, call := methodOn(s.Rhs[0]); call != nil {
					from := subjKey(info, recv)
					switch key {
					case "cty.Value.Unmark", "cty.Value.unmarkForce":
						if from != "" {
							// from == lhs (x, m := x.Unmark()): a self copy — only the mark state changes
							out = append(out, Effect{CopyFrom: from, CopyTo: lhs, DropMarks: true})
						}
						out = append(out, Effect{Assert: &Fact{"unmarked", lhs}})
					case "cty.Value.UnmarkDeep", "cty.Value.UnmarkDeepWithPaths":
						if from != "" {
							out = append(out, Effect{CopyFrom: from, CopyTo: lhs, DropMarks: true})
						}
						out = append(out, Effect{Assert: &Fact{"unmarked", lhs}}, Effect{Assert: &Fact{"deepunmarked", lhs}})
					case "cty.Value.Type":
						// ty := val.Type(): the local is an alias of the value's type
						if from != "" && len(s.Lhs) == 1 {
							out = append(out, Effect{CopyFrom: from + ".ty", CopyTo: lhs})
						}
					}
				} else if len(s.Lhs) == 1 && (isCtyValue(info.TypeOf(s.Rhs[0])) || isCtyType(info.TypeOf(s.Rhs[0]))) {
					if from := subjKey(info, s.Rhs[0]); from != "" && from != lhs {
						out = append(out, Effect{CopyFrom: from, CopyTo: lhs})
					}
				}
			}
		}
		return out
	}
	return &FactSpec{Atom: atom, Effects: effects}
}

func isNilIdent(info *types.Info, e ast.Expr) bool {
	id, ok := ast.Unparen(e).(*ast.Ident)
	if !ok {
		return false
	}
	_, isNil := info.Uses[id].(*types.Nil)
	return isNil
}

// kindPredicate maps a Type predicate method to the kind (or kind class) it tests.
func kindPredicate(key string) string {
	switch key {
	case "cty.Type.IsListType":
		return "List"
	case "cty.Type.IsMapType":
		return "Map"
	case "cty.Type.IsSetType":
		return "Set"
	case "cty.Type.IsObjectType":
		return "Object"
	case "cty.Type.IsTupleType":
		return "Tuple"
	case "cty.Type.IsCapsuleType":
		return "Capsule"
	case "cty.Type.IsPrimitiveType":
		return "Primitive"
	case "cty.Type.IsCollectionType":
		return "Collection"
	}
	return ""
}

// kindOfTypeExpr maps an expression denoting one of the singleton types to its kind.
func kindOfTypeExpr(info *types.Info, e ast.Expr) string {
	switch {
	case isPkgVar(info, e, "cty", "Bool"):
		return "Bool"
	case isPkgVar(info, e, "cty", "Number"):
		return "Number"
	case isPkgVar(info, e, "cty", "String"):
		return "String"
	case isPkgVar(info, e, "cty", "DynamicPseudoType"):
		return "Dynamic"
	}
	return ""
}

var allKinds = []string{"Bool", "Number", "String", "List", "Map", "Set", "Object", "Tuple", "Capsule", "Dynamic"}

func expandKind(k string) []string {
	switch k {
	case "Primitive":
		return []string{"Bool", "Number", "String"}
	case "Collection":
		return []string{"List", "Map", "Set"}
	}
	return []string{k}
}

func constInt(info *types.Info, e ast.Expr) (int64, bool) {
	if tv, ok := info.Types[e]; ok && tv.Value != nil && tv.Value.Kind() == constant.Int {
		return constant.Int64Val(tv.Value)
	}
	return 0, false
}
