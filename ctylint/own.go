package main

import (
	"fmt"
	"go/token"
	"go/types"
	"sort"
	"strings"
	"unicode/utf8"

	"golang.org/x/tools/go/ssa"
	"golang.org/x/tools/go/ssa/ssautil"
)

func ssautilAllFunctions(p *ssa.Program) map[*ssa.Function]bool { return ssautil.AllFunctions(p) }

// OWN — ownership / aliasing / effects over go/ssa.
//
// origin(v) is the set of places the memory behind v may come from:
//   fresh    allocated by this function (or by a callee summarised as returning fresh memory)
//   param    reachable from parameter #Idx (receiver = 0 for methods)
//   payload  reached through an immutable-payload field (Value.v, marker.realV/marks,
//            unknownType.refinement, the fields of the typeImpl structs, refinement structs)
//            of something that is NOT fresh (Root keeps the parameter index when known)
//   store    reached through a container-storage field (set.Set.vals) of something not fresh
//   global   a package-level variable
//   freevar  a captured variable of a closure
//   zero     nil / constant
//   unknown  not resolvable (dynamic call result, unmodelled instruction)

type OClass int

const (
	oFresh OClass = iota
	oParam
	oPayload
	oStore
	oGlobal
	oFreeVar
	oZero
	oUnknown
)

func (c OClass) String() string {
	return [...]string{"fresh", "param", "payload", "store", "global", "freevar", "zero", "unknown"}[c]
}

type OAtom struct {
	Class OClass
	Idx   int    // parameter index for oParam, root parameter for oPayload/oStore (-1 unknown)
	Via   string // fields crossed, e.g. "cty.Value.v"
	Name  string // parameter / global / freevar name
	Path  string // struct fields crossed since the root parameter ("|"-joined, at most maxPath)
}

const maxPath = 4

func splitPath(p string) []string {
	if p == "" {
		return nil
	}
	return strings.Split(p, "|")
}

func extendPath(p, fk string) string {
	if strings.HasSuffix(p, "…") {
		return p
	}
	if p == "" {
		return fk
	}
	if strings.Count(p, "|")+1 >= maxPath {
		return p + "|…"
	}
	return p + "|" + fk
}

func (a OAtom) String() string {
	s := a.Class.String()
	if a.Name != "" {
		s += ":" + a.Name
	}
	if a.Via != "" {
		s += " via " + a.Via
	}
	return s
}

type OSet map[OAtom]struct{}

func (s OSet) add(a OAtom) { s[a] = struct{}{} }
func (s OSet) addAll(o OSet) {
	for a := range o {
		s[a] = struct{}{}
	}
}
func (s OSet) has(c OClass) bool {
	for a := range s {
		if a.Class == c {
			return true
		}
	}
	return false
}
func (s OSet) only(cs ...OClass) bool {
	for a := range s {
		ok := false
		for _, c := range cs {
			if a.Class == c {
				ok = true
			}
		}
		if !ok {
			return false
		}
	}
	return true
}
func (s OSet) String() string {
	var l []string
	for a := range s {
		l = append(l, a.String())
	}
	sort.Strings(l)
	return "{" + strings.Join(l, ", ") + "}"
}
func (s OSet) first(c OClass) (OAtom, bool) {
	var l []OAtom
	for a := range s {
		if a.Class == c {
			l = append(l, a)
		}
	}
	if len(l) == 0 {
		return OAtom{}, false
	}
	sort.Slice(l, func(i, j int) bool { return l[i].String() < l[j].String() })
	return l[0], true
}

// payloadFields: struct fields through which immutable payload memory is reached.
// Keyed "pkg.Type.field"; the value is the reason.
var payloadFields = map[string]string{
	"cty.Value.v":                 "the payload of a value",
	"cty.marker.realV":            "the payload under a mark wrapper",
	"cty.marker.marks":            "the mark set of a marked value",
	"cty.unknownType.refinement":  "the refinement record of an unknown value",
	"cty.typeObject.AttrTypes":    "attribute types of an object type",
	"cty.typeObject.AttrOptional": "optional-attribute set of an object type",
	"cty.typeTuple.ElemTypes":     "element types of a tuple type",
	"cty.Type.typeImpl":           "the implementation record of a type",
	"cty.capsuleType.Ops":         "capsule operations",
}

// storageFields: container storage shared between copies unless copied.
var storageFields = map[string]string{
	"cty/set.Set.vals": "hash buckets of a set",
}

func fieldKey(st types.Type, idx int) string {
	t := st
	if p, ok := t.Underlying().(*types.Pointer); ok {
		t = p.Elem()
	}
	name := namedType(t)
	s, ok := t.Underlying().(*types.Struct)
	if !ok || idx >= s.NumFields() {
		return name + ".?"
	}
	return name + "." + s.Field(idx).Name()
}

// Own is the per-program analysis state.
type Own struct {
	c           *Ctx
	prog        *ssa.Program
	retMemo     map[retKey]OSet
	retPrev     map[retKey]OSet // the previous round of the summary fixpoint (see warm)
	wrPrev      map[*ssa.Function]map[paramPath]writeInfo
	WarmRounds  int
	inflightRet map[retKey]bool
	wrMemo      map[*ssa.Function]map[paramPath]writeInfo
	retainM     map[*ssa.Function]map[int]string
	inflight    map[*ssa.Function]bool
	Assumed     int
}

type writeInfo struct {
	Pos  token.Pos
	What string
}

func (c *Ctx) Own() *Own {
	if c.own == nil {
		c.own = &Own{c: c, prog: c.SSA(), retMemo: map[retKey]OSet{}, inflightRet: map[retKey]bool{}, wrMemo: map[*ssa.Function]map[paramPath]writeInfo{}, retainM: map[*ssa.Function]map[int]string{}, inflight: map[*ssa.Function]bool{}}
		c.own.warm()
	}
	return c.own
}

// warm computes the callee summaries (which parameters a function writes through, where its results come
// from) for every function of the module as a fixpoint, in one canonical order, before any rule asks for one.
// The summaries are memoised and recursion is cut where a function is already being summarised; without this
// a summary computed inside such a cut was memoised in its truncated form, so what a rule saw depended on
// which rules had run before it (`-prop C19` saw fewer writes than `-prop all`). Each round recomputes every
// summary, answering a cut with the previous round's summary instead of 'nothing known'; the facts only grow,
// and the rounds stop when a round adds nothing.
func (o *Own) warm() {
	fns := o.moduleFuncs()
	size := func() int {
		n := 0
		for _, m := range o.wrMemo {
			n += 1 + len(m)
		}
		for _, s := range o.retMemo {
			n += 1 + len(s)
		}
		return n
	}
	last := -1
	for round := 0; round < 12; round++ {
		o.wrPrev, o.retPrev = o.wrMemo, o.retMemo
		o.wrMemo, o.retMemo = map[*ssa.Function]map[paramPath]writeInfo{}, map[retKey]OSet{}
		for _, fn := range fns {
			o.paramWrites(fn, 0)
			res := fn.Signature.Results()
			for i := 0; i < res.Len(); i++ {
				if isRefLike(res.At(i).Type()) {
					o.retSummaryOf(fn, 0, i, nil)
				}
			}
		}
		o.WarmRounds = round + 1
		n := size()
		if n == last {
			break
		}
		last = n
	}
}

type cellPath []string // field keys crossed from the alloc root

// localCell resolves an address to (alloc root, path) when it lies inside a local Alloc.
func localCell(addr ssa.Value) (*ssa.Alloc, cellPath, bool) {
	var path cellPath
	for {
		switch x := addr.(type) {
		case *ssa.Alloc:
			// reverse path
			for i, j := 0, len(path)-1; i < j; i, j = i+1, j-1 {
				path[i], path[j] = path[j], path[i]
			}
			return x, path, true
		case *ssa.FieldAddr:
			path = append(path, fieldKey(x.X.Type().Underlying().(*types.Pointer).Elem(), x.Field))
			addr = x.X
		case *ssa.IndexAddr:
			if _, isArr := x.X.Type().Underlying().(*types.Pointer); isArr {
				path = append(path, "[*]")
				addr = x.X
				continue
			}
			return nil, nil, false
		default:
			return nil, nil, false
		}
	}
}

func pathPrefix(a, b cellPath) bool { // a is a prefix of b
	if len(a) > len(b) {
		return false
	}
	for i := range a {
		if a[i] != b[i] {
			return false
		}
	}
	return true
}

type octx struct {
	o     *Own
	fn    *ssa.Function
	depth int
	memo  map[ssa.Value]OSet
	busy  map[ssa.Value]bool
	pbusy map[pathMemoKey]bool
}

type pathMemoKey struct {
	v ssa.Value
	p string
}

func (o *Own) newCtx(fn *ssa.Function, depth int) *octx {
	return &octx{o: o, fn: fn, depth: depth, memo: map[ssa.Value]OSet{}, busy: map[ssa.Value]bool{}, pbusy: map[pathMemoKey]bool{}}
}

func one(a OAtom) OSet { return OSet{a: {}} }

// cross applies the crossing of struct field fk to a base origin set.
func cross(base OSet, fk string) OSet {
	why, isPayload := payloadFields[fk]
	if isPayload && why == "" {
		isPayload = false
	}
	_, isStore := storageFields[fk]
	out := OSet{}
	for a := range base {
		switch a.Class {
		case oFresh, oZero:
			out.add(a) // object under construction by this function
		case oUnknown, oGlobal, oFreeVar:
			if isPayload {
				out.add(OAtom{Class: oPayload, Idx: -1, Via: fk, Name: a.Name})
			} else if isStore {
				out.add(OAtom{Class: oStore, Idx: -1, Via: fk, Name: a.Name})
			} else {
				out.add(a)
			}
		case oParam, oPayload, oStore:
			n := a
			if a.Idx >= 0 {
				n.Path = extendPath(a.Path, fk)
			}
			if isPayload {
				n.Class, n.Via = oPayload, fk
			} else if isStore && a.Class != oPayload {
				n.Class, n.Via = oStore, fk
			}
			out.add(n)
		}
	}
	return out
}

func isRefLike(t types.Type) bool {
	switch u := t.Underlying().(type) {
	case *types.Pointer, *types.Slice, *types.Map, *types.Chan, *types.Interface, *types.Signature:
		return true
	case *types.Struct:
		for i := 0; i < u.NumFields(); i++ {
			if isRefLike(u.Field(i).Type()) {
				return true
			}
		}
	case *types.Array:
		return isRefLike(u.Elem())
	case *types.Tuple:
		for i := 0; i < u.Len(); i++ {
			if isRefLike(u.At(i).Type()) {
				return true
			}
		}
	}
	return false
}

func (x *octx) origin(v ssa.Value) OSet {
	if s, ok := x.memo[v]; ok {
		return s
	}
	if x.busy[v] {
		return OSet{}
	}
	x.busy[v] = true
	s := x.origin1(v)
	delete(x.busy, v)
	x.memo[v] = s
	return s
}

func (x *octx) paramIndex(p *ssa.Parameter) int {
	for i, q := range x.fn.Params {
		if q == p {
			return i
		}
	}
	return -1
}

func (x *octx) origin1(v ssa.Value) OSet {
	switch t := v.(type) {
	case *ssa.Const:
		return one(OAtom{Class: oZero})
	case *ssa.Function, *ssa.Builtin:
		return one(OAtom{Class: oZero})
	case *ssa.Parameter:
		return one(OAtom{Class: oParam, Idx: x.paramIndex(t), Name: t.Name()})
	case *ssa.FreeVar:
		return one(OAtom{Class: oFreeVar, Name: t.Name()})
	case *ssa.Global:
		return one(OAtom{Class: oGlobal, Name: t.Name()})
	case *ssa.Alloc, *ssa.MakeSlice, *ssa.MakeMap, *ssa.MakeChan, *ssa.MakeClosure:
		return one(OAtom{Class: oFresh})
	case *ssa.BinOp:
		if _, ok := t.Type().Underlying().(*types.Basic); ok {
			return one(OAtom{Class: oFresh}) // strings/numbers are values
		}
		return one(OAtom{Class: oUnknown, Name: "binop"})
	case *ssa.MakeInterface:
		return x.origin(t.X)
	case *ssa.ChangeType:
		return x.origin(t.X)
	case *ssa.ChangeInterface:
		return x.origin(t.X)
	case *ssa.Convert:
		if b, ok := t.Type().Underlying().(*types.Basic); ok && b.Kind() != types.UnsafePointer {
			return one(OAtom{Class: oFresh})
		}
		if _, ok := t.Type().Underlying().(*types.Slice); ok {
			if _, ok := t.X.Type().Underlying().(*types.Basic); ok { // []byte(string)
				return one(OAtom{Class: oFresh})
			}
		}
		return x.origin(t.X)
	case *ssa.SliceToArrayPointer:
		return x.origin(t.X)
	case *ssa.TypeAssert:
		return x.origin(t.X)
	case *ssa.Slice:
		return x.origin(t.X)
	case *ssa.FieldAddr:
		if root, path, ok := localCell(t); ok {
			_ = path
			// address inside a local: the memory itself is this function's
			_ = root
			return one(OAtom{Class: oFresh})
		}
		return cross(x.origin(t.X), fieldKey(t.X.Type().Underlying().(*types.Pointer).Elem(), t.Field))
	case *ssa.Field:
		return x.originPath(t.X, []string{fieldKey(t.X.Type(), t.Field)}, t)
	case *ssa.IndexAddr:
		if _, _, ok := localCell(t); ok {
			return one(OAtom{Class: oFresh})
		}
		return x.origin(t.X)
	case *ssa.Index:
		return x.origin(t.X)
	case *ssa.Lookup:
		if b, ok := t.X.Type().Underlying().(*types.Basic); ok && b.Info()&types.IsString != 0 {
			return one(OAtom{Class: oFresh})
		}
		return x.origin(t.X)
	case *ssa.Range:
		return x.origin(t.X)
	case *ssa.Next:
		if r, ok := t.Iter.(*ssa.Range); ok {
			return x.origin(r.X)
		}
		return one(OAtom{Class: oUnknown, Name: "next"})
	case *ssa.Extract:
		switch tu := t.Tuple.(type) {
		case *ssa.Call:
			return x.callOrigin(tu, t.Index)
		default:
			return x.origin(t.Tuple)
		}
	case *ssa.Phi:
		out := OSet{}
		for _, e := range t.Edges {
			out.addAll(x.origin(e))
		}
		return out
	case *ssa.UnOp:
		if t.Op != token.MUL {
			return one(OAtom{Class: oFresh})
		}
		return x.load(t)
	case *ssa.Call:
		return x.callOrigin(t, 0)
	}
	return one(OAtom{Class: oUnknown, Name: fmt.Sprintf("%T", v)})
}

// load: origin of the value read by *addr.
func (x *octx) load(u *ssa.UnOp) OSet {
	if !isRefLike(u.Type()) {
		return one(OAtom{Class: oFresh})
	}
	root, path, ok := localCell(u.X)
	if !ok {
		// through a pointer that is not a local: contained in that memory
		return x.origin(u.X)
	}
	return x.loadCell(u, root, path)
}

// loadCell: origin of what the local cell (root, path) holds just before 'at'
// (at == nil: anywhere in the function, flow-insensitively).
func (x *octx) loadCell(at ssa.Instruction, root *ssa.Alloc, path cellPath) OSet {
	out := OSet{}
	if !x.reachingStores(at, root, path, out) {
		out.add(OAtom{Class: oZero})
	}
	return out
}

// originPath: origin of v after crossing the struct fields in path (field-sensitive
// for local struct values and for results of summarised callees).
func (x *octx) originPath(v ssa.Value, path []string, at ssa.Instruction) OSet {
	if len(path) == 0 {
		return x.origin(v)
	}
	if len(path) > 0 && path[len(path)-1] == "…" {
		path = path[:len(path)-1]
	}
	switch t := v.(type) {
	case *ssa.UnOp:
		if t.Op == token.MUL {
			if root, p, ok := localCell(t.X); ok {
				return x.loadCell(t, root, append(append(cellPath{}, p...), path...))
			}
		}
	case *ssa.Alloc:
		// pointer to a local struct (e.g. a builder under construction)
		return x.loadCell(at, t, append(cellPath{}, path...))
	case *ssa.FieldAddr, *ssa.IndexAddr:
		if root, p, ok := localCell(t); ok {
			return x.loadCell(at, root, append(append(cellPath{}, p...), path...))
		}
	case *ssa.Phi:
		key := pathMemoKey{v, strings.Join(path, "|")}
		if x.pbusy[key] {
			return OSet{}
		}
		x.pbusy[key] = true
		defer delete(x.pbusy, key)
		out := OSet{}
		for _, e := range t.Edges {
			out.addAll(x.originPath(e, path, at))
		}
		return out
	case *ssa.MakeInterface:
		return x.originPath(t.X, path, at)
	case *ssa.ChangeType:
		return x.originPath(t.X, path, at)
	case *ssa.TypeAssert:
		return x.originPath(t.X, path, at)
	case *ssa.Extract:
		switch tu := t.Tuple.(type) {
		case *ssa.Call:
			return x.callOriginPath(tu, t.Index, path)
		case *ssa.TypeAssert:
			return x.originPath(tu.X, path, at)
		}
	case *ssa.Call:
		return x.callOriginPath(t, 0, path)
	}
	o := x.origin(v)
	for _, fk := range path {
		o = cross(o, fk)
	}
	return o
}

// reachingStores walks backwards from 'at' collecting stores into the cell.
func (x *octx) reachingStores(at ssa.Instruction, root *ssa.Alloc, path cellPath, out OSet) bool {
	found := false
	contribute := func(in *ssa.Store) (kills bool) {
		r2, p2, ok := localCell(in.Addr)
		if !ok || r2 != root {
			return false
		}
		switch {
		case pathPrefix(p2, path):
			// the store covers the cell (exactly, or a whole enclosing struct)
			var rest []string
			for _, fk := range path[len(p2):] {
				if fk != "[*]" {
					rest = append(rest, fk)
				}
			}
			out.addAll(x.originPath(in.Val, rest, in))
			found = true
			return !containsIndex(p2)
		case pathPrefix(path, p2):
			// partial overwrite of a sub-part: contributes
			out.addAll(x.origin(in.Val))
			found = true
		}
		return false
	}
	takesAddr := func(in ssa.CallInstruction) {
		for _, a := range in.Common().Args {
			if r2, _, ok := localCell(a); ok && r2 == root {
				out.add(OAtom{Class: oUnknown, Name: "address taken by call"})
				found = true
			}
		}
	}
	if at == nil {
		for _, b := range x.fn.Blocks {
			for _, in := range b.Instrs {
				switch t := in.(type) {
				case *ssa.Store:
					contribute(t)
				case ssa.CallInstruction:
					takesAddr(t)
				}
			}
		}
		return found
	}
	visited := map[*ssa.BasicBlock]bool{}
	b := at.Block()
	start := 0
	for i, in := range b.Instrs {
		if in == at {
			start = i
			break
		}
	}
	var walk func(b *ssa.BasicBlock, idx int, first bool)
	walk = func(b *ssa.BasicBlock, idx int, first bool) {
		if !first {
			if visited[b] {
				return
			}
			visited[b] = true
		}
		for i := idx - 1; i >= 0; i-- {
			switch in := b.Instrs[i].(type) {
			case *ssa.Store:
				if contribute(in) {
					return // killed on this path
				}
			case ssa.CallInstruction:
				takesAddr(in)
			}
		}
		for _, p := range b.Preds {
			walk(p, len(p.Instrs), false)
		}
	}
	walk(b, start, true)
	return found
}

func containsIndex(p cellPath) bool {
	for _, s := range p {
		if s == "[*]" {
			return true
		}
	}
	return false
}

var bigMutators = map[string]bool{
	"Set": true, "SetInt": true, "SetFloat64": true, "SetPrec": true, "SetMode": true, "Add": true, "Sub": true, "Mul": true, "Quo": true,
	"Neg": true, "Abs": true, "Copy": true, "Sqrt": true, "SetString": true, "Parse": true, "SetInf": true, "SetMantExp": true, "SetRat": true,
	"SetInt64": true, "SetUint64": true, "UnmarshalText": true, "GobDecode": true, "Scan": true, "SetBytes": true, "SetBit": true, "SetBits": true,
	"Rem": true, "Mod": true, "Div": true, "DivMod": true, "QuoRem": true, "Exp": true, "Lsh": true, "Rsh": true, "And": true, "Or": true, "Xor": true, "Not": true,
	"SetFrac": true, "SetFrac64": true, "Inv": true, "UnmarshalJSON": true, "AndNot": true, "GCD": true, "ModInverse": true, "ModSqrt": true, "MulRange": true, "Binomial": true, "Rand": true,
}

func isBigType(t types.Type) bool {
	n := namedType(t)
	return n == "math/big.Float" || n == "math/big.Int" || n == "math/big.Rat"
}

func staticCallee(call ssa.CallInstruction) *ssa.Function {
	return call.Common().StaticCallee()
}

// callOrigin: origin of result #idx of a call.
func (x *octx) callOrigin(call *ssa.Call, idx int) OSet { return x.callOriginPath(call, idx, nil) }

// callOriginPath: origin of result #idx of a call after crossing path.
func (x *octx) callOriginPath(call *ssa.Call, idx int, path []string) OSet {
	o := x.callOriginPath1(call, idx, path)
	return o
}

func crossAll(o OSet, path []string) OSet {
	for _, fk := range path {
		o = cross(o, fk)
	}
	return o
}

func (x *octx) callOriginPath1(call *ssa.Call, idx int, path []string) OSet {
	cc := call.Common()
	if b, ok := cc.Value.(*ssa.Builtin); ok {
		switch b.Name() {
		case "append":
			o := OSet{}
			o.addAll(x.origin(cc.Args[0]))
			o.add(OAtom{Class: oFresh})
			// drop zero (append(nil, ...))
			delete(o, OAtom{Class: oZero})
			return crossAll(o, path)
		case "new", "make":
			return crossAll(one(OAtom{Class: oFresh}), path)
		}
		return crossAll(one(OAtom{Class: oFresh}), path)
	}
	if cc.IsInvoke() {
		// interface method: refinement copy() is tabled as fresh (each implementation is checked separately)
		if cc.Method.Name() == "copy" && namedType(cc.Value.Type()) == "cty.unknownValRefinement" {
			return crossAll(one(OAtom{Class: oFresh}), path)
		}
		return crossAll(one(OAtom{Class: oUnknown, Name: "invoke " + cc.Method.Name()}), path)
	}
	callee := cc.StaticCallee()
	if callee == nil {
		return crossAll(one(OAtom{Class: oUnknown, Name: "dynamic call"}), path)
	}
	// sync.Pool hands out memory that stays owned by the (package-level) pool
	if callee.Signature.Recv() != nil && namedType(callee.Signature.Recv().Type()) == "sync.Pool" && callee.Name() == "Get" {
		return crossAll(one(OAtom{Class: oGlobal, Name: "sync.Pool"}), path)
	}
	// a bytes.Buffer's Bytes() aliases the buffer
	if callee.Signature.Recv() != nil && namedType(callee.Signature.Recv().Type()) == "bytes.Buffer" && callee.Name() == "Bytes" {
		return x.originPath(cc.Args[0], path, call)
	}
	// math/big methods return their receiver
	if callee.Signature.Recv() != nil && isBigType(callee.Signature.Recv().Type()) {
		res := callee.Signature.Results()
		if res.Len() > idx && isBigType(res.At(idx).Type()) && bigMutators[callee.Name()] {
			return x.originPath(cc.Args[0], path, call)
		}
		if callee.Name() == "Int" || callee.Name() == "Rat" { // f.Int(z) returns z or a new value
			o := OSet{}
			o.addAll(x.origin(cc.Args[1]))
			o.add(OAtom{Class: oFresh})
			delete(o, OAtom{Class: oZero})
			return crossAll(o, path)
		}
		return crossAll(one(OAtom{Class: oFresh}), path)
	}
	if callee.Pkg == nil || !strings.HasPrefix(callee.Pkg.Pkg.Path(), modPath) {
		if callee.Pkg != nil {
			switch callee.Pkg.Pkg.Path() {
			case "strings", "strconv", "fmt", "sort", "unicode/utf8", "bytes", "errors", "math", "math/big", "encoding/json", "time", "regexp", "reflect":
				return crossAll(one(OAtom{Class: oFresh}), path)
			}
		}
		if callee.Pkg == nil && callee.Origin() != nil && callee.Origin().Pkg != nil && strings.HasPrefix(callee.Origin().Pkg.Pkg.Path(), modPath) {
			// instantiated generic of this module
		} else if callee.Synthetic != "" && callee.Pkg == nil {
			// wrappers / bound methods / instantiations: fall through to summary
		} else {
			return crossAll(one(OAtom{Class: oUnknown, Name: "external " + callee.String()}), path)
		}
	}
	sum := x.o.retSummaryOf(callee, x.depth, idx, path)
	if sum == nil {
		return crossAll(one(OAtom{Class: oUnknown, Name: "call " + callee.Name()}), path)
	}
	out := OSet{}
	for a := range sum {
		if a.Idx >= 0 && (a.Class == oParam || a.Class == oPayload || a.Class == oStore) {
			if a.Idx < len(cc.Args) {
				out.addAll(x.originPath(cc.Args[a.Idx], splitPath(a.Path), call))
			} else {
				out.add(OAtom{Class: oUnknown, Name: "param?"})
			}
			continue
		}
		if a.Class == oFreeVar {
			out.add(OAtom{Class: oUnknown, Name: "callee freevar"})
			continue
		}
		out.add(a)
	}
	return out
}

const ownMaxDepth = 5

// retSummaryOf: origins (in callee terms) of result #idx of fn after crossing path.
func (o *Own) retSummaryOf(fn *ssa.Function, depth int, idx int, path []string) OSet {
	key := retKey{fn, idx, strings.Join(path, "|")}
	if s, ok := o.retMemo[key]; ok {
		return s
	}
	if fn.Blocks == nil {
		return nil
	}
	if depth >= ownMaxDepth || o.inflightRet[key] {
		return o.retPrev[key] // nil in the first round: 'nothing known'
	}
	o.inflightRet[key] = true
	defer delete(o.inflightRet, key)
	x := o.newCtx(fn, depth+1)
	if idx >= fn.Signature.Results().Len() {
		return nil
	}
	sum := OSet{}
	for _, b := range fn.Blocks {
		for _, in := range b.Instrs {
			if r, ok := in.(*ssa.Return); ok && idx < len(r.Results) {
				v := r.Results[idx]
				if !isRefLike(v.Type()) {
					sum.add(OAtom{Class: oFresh})
					continue
				}
				sum.addAll(x.originPath(v, path, r))
			}
		}
	}
	o.retMemo[key] = sum
	return sum
}

type retKey struct {
	fn   *ssa.Function
	idx  int
	path string
}

// ---------------------------------------------------------------------------
// Writes

type Write struct {
	Instr  ssa.Instruction
	Pos    token.Pos
	Kind   string // store | mapupdate | append | copy | delete | clear | mutator <name> | sort | call <callee>(param i)
	Target OSet
}

// writesOf lists the heap writes of fn with the origin of their targets. Writes
// into this function's own locals / fresh memory are omitted.
func (o *Own) writesOf(fn *ssa.Function, depth int) []Write {
	x := o.newCtx(fn, depth)
	var out []Write
	addSet := func(in ssa.Instruction, kind string, t OSet) {
		if t.only(oFresh, oZero) {
			return
		}
		out = append(out, Write{Instr: in, Pos: instrPos(in), Kind: kind, Target: t})
	}
	add := func(in ssa.Instruction, kind string, target ssa.Value) { addSet(in, kind, x.origin(target)) }
	for _, b := range fn.Blocks {
		for _, in := range b.Instrs {
			switch t := in.(type) {
			case *ssa.Store:
				if _, _, ok := localCell(t.Addr); ok {
					continue
				}
				add(in, "store", t.Addr)
			case *ssa.MapUpdate:
				add(in, "mapupdate", t.Map)
			case ssa.CallInstruction:
				cc := t.Common()
				if bi, ok := cc.Value.(*ssa.Builtin); ok {
					switch bi.Name() {
					case "append":
						// in-place when capacity allows
						if len(cc.Args) > 0 {
							if sl, ok := cc.Args[0].(*ssa.Slice); ok && sl.Max != nil {
								continue // capacity clipped
							}
							add(in, "append", cc.Args[0])
						}
					case "copy":
						add(in, "copy", cc.Args[0])
					case "delete":
						add(in, "delete", cc.Args[0])
					case "clear":
						add(in, "clear", cc.Args[0])
					}
					continue
				}
				if cc.IsInvoke() {
					continue
				}
				callee := cc.StaticCallee()
				if callee == nil {
					continue
				}
				if callee.Signature.Recv() != nil && isBigType(callee.Signature.Recv().Type()) {
					if bigMutators[callee.Name()] {
						add(in, "mutator big."+callee.Name(), cc.Args[0])
					}
					if (callee.Name() == "Int" || callee.Name() == "Rat") && len(cc.Args) > 1 {
						add(in, "mutator big."+callee.Name()+"(z)", cc.Args[1])
					}
					continue
				}
				if callee.Pkg != nil && callee.Pkg.Pkg.Path() == "sort" {
					switch callee.Name() {
					case "Slice", "SliceStable", "Sort", "Stable", "Strings", "Ints", "Float64s":
						add(in, "sort."+callee.Name(), cc.Args[0])
					}
					continue
				}
				if !inModule(callee) {
					continue
				}
				pw := o.paramWrites(callee, depth+1)
				var pks []paramPath
				for k := range pw {
					pks = append(pks, k)
				}
				sort.Slice(pks, func(i, j int) bool {
					if pks[i].Idx != pks[j].Idx {
						return pks[i].Idx < pks[j].Idx
					}
					return pks[i].Path < pks[j].Path
				})
				for _, k := range pks {
					if k.Idx < len(cc.Args) {
						tgt := x.originPath(cc.Args[k.Idx], splitPath(k.Path), in)
						what := pw[k].What
						if len(what) > 160 {
							cut := 160
							for cut > 0 && !utf8.RuneStart(what[cut]) {
								cut--
							}
							what = what[:cut] + "…"
						}
						addSet(in, fmt.Sprintf("call %s (writes through its parameter #%d%s: %s)", callee.Name(), k.Idx, pathSuffix(k.Path), what), tgt)
					}
				}
			}
		}
	}
	return out
}

func inModule(fn *ssa.Function) bool {
	if fn.Pkg != nil {
		return strings.HasPrefix(fn.Pkg.Pkg.Path(), modPath)
	}
	if og := fn.Origin(); og != nil && og.Pkg != nil {
		return strings.HasPrefix(og.Pkg.Pkg.Path(), modPath)
	}
	if fn.Synthetic != "" {
		// wrappers: decide by the object
		if obj := fn.Object(); obj != nil && obj.Pkg() != nil {
			return strings.HasPrefix(obj.Pkg().Path(), modPath)
		}
	}
	return false
}

func instrPos(in ssa.Instruction) token.Pos {
	if p := in.Pos(); p.IsValid() {
		return p
	}
	// fall back to the nearest positioned instruction in the block
	b := in.Block()
	for _, x := range b.Instrs {
		if x.Pos().IsValid() {
			return x.Pos()
		}
	}
	if fn := in.Parent(); fn != nil {
		return fn.Pos()
	}
	return token.NoPos
}

// paramWrites: (parameter, field path) pairs through which fn (transitively) writes memory.
func (o *Own) paramWrites(fn *ssa.Function, depth int) map[paramPath]writeInfo {
	if m, ok := o.wrMemo[fn]; ok {
		return m
	}
	if fn.Blocks == nil {
		return nil
	}
	if depth >= ownMaxDepth || o.inflight[fn] {
		return o.wrPrev[fn]
	}
	o.inflight[fn] = true
	ws := o.writesOf(fn, depth)
	delete(o.inflight, fn)
	m := map[paramPath]writeInfo{}
	for _, w := range ws {
		for a := range w.Target {
			if (a.Class == oParam || a.Class == oPayload || a.Class == oStore) && a.Idx >= 0 {
				k := paramPath{a.Idx, a.Path}
				if _, ok := m[k]; !ok {
					m[k] = writeInfo{Pos: w.Pos, What: w.Kind + " at " + o.c.PosStr(w.Pos)}
				}
			}
		}
	}
	o.wrMemo[fn] = m
	return m
}

type paramPath struct {
	Idx  int
	Path string
}

// moduleFuncs lists every function with a body that belongs to the module
// (including anonymous functions and instantiations), deterministic order.
func (o *Own) moduleFuncs() []*ssa.Function {
	var out []*ssa.Function
	seen := map[*ssa.Function]bool{}
	var addFn func(fn *ssa.Function)
	addFn = func(fn *ssa.Function) {
		if fn == nil || seen[fn] || fn.Blocks == nil {
			return
		}
		seen[fn] = true
		out = append(out, fn)
		for _, an := range fn.AnonFuncs {
			addFn(an)
		}
	}
	var shorts []string
	for s := range o.c.ssaPkgs {
		shorts = append(shorts, s)
	}
	sort.Strings(shorts)
	for _, s := range shorts {
		p := o.c.ssaPkgs[s]
		if p == nil || !strings.HasPrefix(p.Pkg.Path(), modPath) {
			continue
		}
		var names []string
		for n := range p.Members {
			names = append(names, n)
		}
		sort.Strings(names)
		for _, n := range names {
			switch m := p.Members[n].(type) {
			case *ssa.Function:
				addFn(m)
			case *ssa.Type:
				if nt, ok := m.Type().(*types.Named); ok {
					for i := 0; i < nt.NumMethods(); i++ {
						addFn(o.prog.FuncValue(nt.Method(i)))
					}
				}
			}
		}
	}
	// instantiations of this module's generic functions
	for fn := range ssautilAllFunctions(o.prog) {
		if fn.Origin() != nil && fn.Origin() != fn && inModule(fn) && fn.Synthetic == "" || (fn.Origin() != nil && fn.Origin() != fn && inModule(fn)) {
			addFn(fn)
		}
	}
	sort.SliceStable(out, func(i, j int) bool { return false })
	return out
}

// fnKey is a symbolic, line-free name for an SSA function.
func fnKey(fn *ssa.Function) string {
	if fn.Parent() != nil {
		// anonymous: parent key + ordinal
		p := fn.Parent()
		for i, a := range p.AnonFuncs {
			if a == fn {
				return fmt.Sprintf("%s$%d", fnKey(p), i+1)
			}
		}
	}
	if obj, ok := fn.Object().(*types.Func); ok && obj != nil {
		return funcKey(obj)
	}
	s := fn.String()
	s = strings.ReplaceAll(s, modPath+"/", "")
	return s
}

func pathSuffix(p string) string {
	if p == "" {
		return ""
	}
	return " ." + strings.ReplaceAll(p, "|", " .")
}
