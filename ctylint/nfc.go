package main

import (
	"go/constant"

	"golang.org/x/text/unicode/norm"
)

// nfcBoundaryAfter: no rune following r can combine with it under NFC.
func nfcBoundaryAfter(r rune) bool {
	return norm.NFC.PropertiesString(string(r)).BoundaryAfter()
}

func constantInt64(v constant.Value) (int64, bool) {
	if v.Kind() != constant.Int {
		return 0, false
	}
	return constant.Int64Val(v)
}

func constantString(v constant.Value) string {
	if v.Kind() == constant.String {
		return constant.StringVal(v)
	}
	return ""
}
