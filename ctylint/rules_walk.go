package main

import (
	"fmt"
	"go/ast"
	"go/token"
	"go/types"
	"sort"
	"strings"

	"golang.org/x/tools/go/ssa"
)

func init() {
	register(&Rule{
		ID: "C19.rebuild-preserves-marks", Prop: "C19", Also: []string{"C04"}, Floor: 8, Controls: 0,
		Doc: "in transform, after the value's own marks were peeled off, every value handed to the Exit callback is either the original (still marked) value or a rebuilt container wrapped in WithMarks(marks) with the marks of that same Unmark — never the unmarked copy",
		Run: runRebuildPreservesMarks,
	})
	register(&Rule{
		ID: "C19.transformer-purity", Prop: "C19", Also: []string{"C20"}, Floor: 4, Controls: 0,
		Doc: "the transformers behind MarkWithPaths / UnmarkDeep do not write caller-owned memory: applyPathValueMarksTransformer never writes through its receiver (the caller's path-marks slice), and a Path handed to Enter/Exit is retained only as a copy",
		Run: runTransformerPurity,
	})
	register(&Rule{
		ID: "C20.order-free-results", Prop: "C20", Also: []string{"C19", "C01", "C03"}, Floor: 40, Controls: 1,
		Doc: "no range over a Go map decides a result by iteration order: early exits of one loop all have the same outcome, and a loop whose body (transitively) invokes caller-supplied callbacks or appends to a result in iteration order ranges over sorted keys instead of the map",
		Run: runOrderFree,
	})
}

// ---------------------------------------------------------------------------

func runRebuildPreservesMarks(rr *RuleRun) {
	c := rr.Ctx
	info := c.Info("cty")
	fd := rr.MustDecl("cty", "transform")
	if fd == nil {
		return
	}
	// rawVal, marks := val.Unmark()
	var val, raw, marks types.Object
	inspectNoLit(fd.Body, func(n ast.Node) bool {
		as, ok := n.(*ast.AssignStmt)
		if !ok || len(as.Lhs) != 2 || len(as.Rhs) != 1 || raw != nil {
			return true
		}
		if call, ok := ast.Unparen(as.Rhs[0]).(*ast.CallExpr); ok && isCall(info, call, "cty.Value.Unmark") {
			val = objOf(info, call.Fun.(*ast.SelectorExpr).X)
			raw, marks = objOf(info, as.Lhs[0]), objOf(info, as.Lhs[1])
		}
		return true
	})
	if raw == nil || marks == nil || val == nil {
		rr.Broken("stale anchor: transform no longer peels marks with Unmark")
		return
	}
	// the variable passed to t.Exit
	var newVal types.Object
	inspectNoLit(fd.Body, func(n ast.Node) bool {
		if call, ok := n.(*ast.CallExpr); ok && len(call.Args) == 2 {
			if se, ok := call.Fun.(*ast.SelectorExpr); ok && se.Sel.Name == "Exit" {
				if f := callee(info, call); f != nil && funcKey(f) == "cty.Transformer.Exit" {
					newVal = objOf(info, call.Args[1])
				}
			}
		}
		return true
	})
	if newVal == nil {
		rr.Broken("stale anchor: transform no longer calls Transformer.Exit with a variable")
		return
	}
	n := 0
	inspectNoLit(fd.Body, func(nd ast.Node) bool {
		as, ok := nd.(*ast.AssignStmt)
		if !ok || len(as.Lhs) != 1 || len(as.Rhs) != 1 || objOf(info, as.Lhs[0]) != newVal {
			return true
		}
		if call, ok := ast.Unparen(as.Rhs[0]).(*ast.CallExpr); ok {
			if f := callee(info, call); f != nil && funcKey(f) == "cty.Transformer.Exit" {
				return true // the reassignment from Exit itself
			}
		}
		n++
		key := fmt.Sprintf("cty.transform/%s = %s", newVal.Name(), trunc(exprStr(as.Rhs[0]), 40))
		rhs := ast.Unparen(as.Rhs[0])
		switch {
		case objOf(info, rhs) == val:
			rr.OK(key, as.Pos(), "the original, still marked value")
		case objOf(info, rhs) == raw:
			rr.Violation(key, as.Pos(), fmt.Sprintf("the unmarked copy %s is passed on: the value's own marks are dropped on this branch (an identity transformation must return an equal value)", raw.Name()))
		default:
			call, ok := rhs.(*ast.CallExpr)
			if ok && isCall(info, call, "cty.Value.WithMarks") && len(call.Args) == 1 && objOf(info, call.Args[0]) == marks {
				rr.OK(key, as.Pos(), "rebuilt container re-marked with the marks that were peeled off")
			} else {
				rr.Violation(key, as.Pos(), fmt.Sprintf("a rebuilt value is passed on without .WithMarks(%s): the marks peeled off %s are lost", marks.Name(), val.Name()))
			}
		}
		return true
	})
	if n == 0 {
		rr.Broken("stale anchor: no assignment to the value handed to Exit found in transform")
	}
}

// ---------------------------------------------------------------------------

func runTransformerPurity(rr *RuleRun) {
	o := rr.Ctx.Own()
	for _, fn := range o.moduleFuncs() {
		if fn.Pkg == nil || shortPkg(fn.Pkg.Pkg) != "cty" || fn.Signature.Recv() == nil {
			continue
		}
		recvName := namedType(fn.Signature.Recv().Type())
		switch fn.Name() {
		case "Enter", "Exit":
		default:
			continue
		}
		key := fnKey(fn)
		ws := o.writesOf(fn, 0)
		// (1) the apply transformer never writes through its receiver
		if recvName == "cty.applyPathValueMarksTransformer" {
			bad := false
			for _, w := range ws {
				for a := range w.Target {
					if (a.Class == oParam || a.Class == oStore || a.Class == oPayload) && a.Idx == 0 {
						rr.Violation(key+"/receiver-write", w.Pos, fmt.Sprintf("%s writes memory reached through its receiver (%s): the path-marks slice belongs to the caller of MarkWithPaths, which may apply it again", w.Kind, a))
						bad = true
					}
				}
			}
			if !bad {
				rr.OK(key+"/receiver-write", fn.Pos(), "does not write through its receiver")
			}
		}
		// (2) the Path parameter is retained only as a copy
		x := o.newCtx(fn, 0)
		var pathIdx = -1
		for i, p := range fn.Params {
			if namedTypeNoPtr(p.Type()) == "cty.Path" {
				pathIdx = i
			}
		}
		if pathIdx < 0 {
			continue
		}
		bad := false
		for _, b := range fn.Blocks {
			for _, in := range b.Instrs {
				var stored ssa.Value
				switch t := in.(type) {
				case *ssa.Store:
					if _, _, ok := localCell(t.Addr); ok {
						continue
					}
					stored = t.Val
				case *ssa.MapUpdate:
					stored = t.Value
				default:
					continue
				}
				if !isRefLike(stored.Type()) {
					continue
				}
				for a := range x.origin(stored) {
					if a.Class == oParam && a.Idx == pathIdx && a.Path == "" {
						rr.Violation(key+"/path-retained", instrPos(in), "the Path handed to this callback is stored without a copy; its backing array is reused for the next call, so the recorded path changes later")
						bad = true
					}
				}
			}
		}
		// appends that place the path (or a struct containing it) into retained memory
		for _, b := range fn.Blocks {
			for _, in := range b.Instrs {
				call, ok := in.(*ssa.Call)
				if !ok {
					continue
				}
				if bi, ok := call.Call.Value.(*ssa.Builtin); !ok || bi.Name() != "append" || len(call.Call.Args) < 2 {
					continue
				}
				if x.origin(call.Call.Args[0]).only(oFresh, oZero) {
					continue
				}
				for a := range x.origin(call.Call.Args[1]) {
					if a.Class == oParam && a.Idx == pathIdx && a.Path == "" {
						rr.Violation(key+"/path-retained", instrPos(in), "the Path handed to this callback is appended to retained state without a copy; its backing array is reused for the next call")
						bad = true
					}
				}
			}
		}
		if !bad {
			rr.OK(key+"/path-retained", fn.Pos(), "the Path parameter is not retained, or only as a copy")
		}
	}
}

// ---------------------------------------------------------------------------
// ORDER

// callsCallback: does the function (transitively, same module, static calls) invoke a function-typed
// value or an interface method received through a parameter?
func callsCallback(c *Ctx, info *types.Info, body ast.Node, depth int, seen map[*ast.FuncDecl]bool, params map[types.Object]bool) string {
	found := ""
	ast.Inspect(body, func(n ast.Node) bool {
		if found != "" {
			return false
		}
		call, ok := n.(*ast.CallExpr)
		if !ok {
			return true
		}
		// dynamic call through a caller-supplied function: a named callback type (cty.ElementCallback), or —
		// in the loop's own function only — a function-typed parameter
		if id, ok := ast.Unparen(call.Fun).(*ast.Ident); ok {
			if v, ok := info.Uses[id].(*types.Var); ok && !v.IsField() {
				if _, ok := v.Type().Underlying().(*types.Signature); ok {
					if strings.HasSuffix(namedType(v.Type()), "Callback") {
						found = "the callback " + id.Name
						return false
					}
					if params != nil && params[v] {
						found = "the function parameter " + id.Name
						return false
					}
				}
			}
		}
		if se, ok := ast.Unparen(call.Fun).(*ast.SelectorExpr); ok {
			if sel, ok := info.Selections[se]; ok && sel.Kind() == types.MethodVal {
				if _, isIface := sel.Recv().Underlying().(*types.Interface); isIface {
					// interface method on a parameter-like variable (not error / fmt.Stringer on values)
					if id, ok := ast.Unparen(se.X).(*ast.Ident); ok {
						if v, ok := info.Uses[id].(*types.Var); ok && !v.IsField() {
							n := namedType(sel.Recv())
							if n == "cty.Transformer" || strings.HasSuffix(n, "Callback") {
								found = "the " + n + " method " + se.Sel.Name
								return false
							}
						}
					}
				}
			}
		}
		if depth > 0 {
			if f := callee(info, call); f != nil && f.Pkg() != nil && strings.HasPrefix(f.Pkg().Path(), modPath) {
				if cd := findFuncDecl(f); cd != nil && cd.Body != nil && !seen[cd] {
					seen[cd] = true
					if w := callsCallback(c, c.InfoFor(cd.Pos()), cd.Body, depth-1, seen, nil); w != "" {
						found = w + " (via " + f.Name() + ")"
					}
				}
			}
		}
		return true
	})
	return found
}

func runOrderFree(rr *RuleRun) {
	c := rr.Ctx
	installFindFuncDecl(c)
	eachFuncBody(c, allPkgs, func(pkg string, fd *ast.FuncDecl, body *ast.BlockStmt) {
		info := c.Info(pkg)
		n := 0
		inspectNoLit(body, func(nd ast.Node) bool {
			rs, ok := nd.(*ast.RangeStmt)
			if !ok {
				return true
			}
			if _, isMap := info.TypeOf(rs.X).Underlying().(*types.Map); !isMap {
				return true
			}
			n++
			key := fmt.Sprintf("%s.%s/range %s", pkg, declName(fd), trunc(exprStr(rs.X), 40))
			// (1) early exits with different outcomes
			type exit struct {
				sig string
				pos token.Pos
			}
			var exits []exit
			var lastAssign = map[*ast.BranchStmt]string{}
			var walk func(list []ast.Stmt, pending string)
			walk = func(list []ast.Stmt, pending string) {
				cur := pending
				for _, st := range list {
					switch s := st.(type) {
					case *ast.AssignStmt:
						cur = nodeStr(s)
					case *ast.ReturnStmt:
						exits = append(exits, exit{returnSig(info, s), s.Pos()})
					case *ast.BranchStmt:
						if s.Tok == token.BREAK || (s.Tok == token.CONTINUE && s.Label != nil) || s.Tok == token.GOTO {
							lastAssign[s] = cur
							lbl := ""
							if s.Label != nil {
								lbl = " " + s.Label.Name
							}
							exits = append(exits, exit{s.Tok.String() + lbl + " after " + cur, s.Pos()})
						}
					case *ast.IfStmt:
						walk(s.Body.List, cur)
						if eb, ok := s.Else.(*ast.BlockStmt); ok {
							walk(eb.List, cur)
						} else if ei, ok := s.Else.(*ast.IfStmt); ok {
							walk([]ast.Stmt{ei}, cur)
						}
					case *ast.BlockStmt:
						walk(s.List, cur)
					case *ast.SwitchStmt:
						for _, cl := range s.Body.List {
							walk(cl.(*ast.CaseClause).Body, cur)
						}
					case *ast.ForStmt, *ast.RangeStmt:
						// exits of nested loops belong to them, except returns
						ast.Inspect(st, func(m ast.Node) bool {
							if _, ok := m.(*ast.FuncLit); ok {
								return false
							}
							if r, ok := m.(*ast.ReturnStmt); ok {
								exits = append(exits, exit{returnSig(info, r), r.Pos()})
							}
							return true
						})
					}
				}
			}
			walk(rs.Body.List, "")
			sigs := map[string]token.Pos{}
			for _, e := range exits {
				if _, ok := sigs[e.sig]; !ok {
					sigs[e.sig] = e.pos
				}
			}
			if len(sigs) >= 2 {
				var l []string
				for s := range sigs {
					l = append(l, s)
				}
				sort.Strings(l)
				// error-only differences are out of scope: all exits return a non-nil error / or differ only in messages
				if !allErrorExits(l) {
					rr.Violation(key+"/exits", exits[0].pos, fmt.Sprintf("the loop ranges over a Go map and has early exits with different outcomes {%s}: which one is taken first depends on the iteration order, so repeating the call on the same values can give different results", strings.Join(l, " | ")))
					return true
				}
			}
			// (3) a flag raised on some iterations of a loop that can also exit early: after an early exit the
			// flag says only which members happened to be visited first
			if v, pos, why := orderSensitiveFlag(c, info, body, rs); v != "" {
				rr.Violation(key+"/flag", pos, fmt.Sprintf("the loop ranges over a Go map, can leave early (break), and raises the flag %s on other iterations; %s: after an early exit the flag only tells which members were visited first, so the result depends on the iteration order", v, why))
				return true
			}
			// (4) a slice filled in iteration order and returned without an unconditional sort
			if nm, pos := unsortedAccumulation(c, info, body, rs); nm != "" {
				rr.Violation(key+"/accumulate", pos, fmt.Sprintf("the loop ranges over a Go map and appends to %s in iteration order, and %s is returned on a path on which no sort of it is certain to have run: the order of the result changes from call to call", nm, nm))
				return true
			}
			// (2) caller-supplied callbacks invoked once per iteration
			params := map[types.Object]bool{}
			if fd.Type != nil && fd.Type.Params != nil {
				for _, f := range fd.Type.Params.List {
					for _, nm := range f.Names {
						if o := info.Defs[nm]; o != nil {
							params[o] = true
						}
					}
				}
			}
			if w := callsCallback(c, info, rs.Body, 2, map[*ast.FuncDecl]bool{}, params); w != "" {
				rr.Violation(key+"/callbacks", rs.Pos(), fmt.Sprintf("the loop ranges over a Go map and its body invokes %s once per iteration: the sequence of callback invocations (and whatever they accumulate) depends on the iteration order", w))
				return true
			}
			rr.OK(key, rs.Pos(), fmt.Sprintf("%d early exit kind(s); no caller-supplied callback in the body", len(sigs)))
			return true
		})
	})
}

func returnSig(info *types.Info, r *ast.ReturnStmt) string {
	var parts []string
	for _, e := range r.Results {
		t := info.TypeOf(e)
		if t != nil && t.String() == "error" && !isNilIdent(info, e) {
			parts = append(parts, "<error>")
			continue
		}
		parts = append(parts, exprStr(e))
	}
	s := "return " + strings.Join(parts, ", ")
	return s
}

func allErrorExits(sigs []string) bool {
	for _, s := range sigs {
		if !strings.Contains(s, "<error>") {
			return false
		}
	}
	return true
}

// orderSensitiveFlag finds, for a range-over-map loop with an unlabelled break, a variable declared
// outside the loop that is assigned on non-exiting iterations and read after the loop without the read
// being conditioned on a variable the breaking path sets. Returns the variable's name, the position of
// the offending read and an explanation ("" when there is none).
func orderSensitiveFlag(c *Ctx, info *types.Info, body *ast.BlockStmt, rs *ast.RangeStmt) (string, token.Pos, string) {
	// breaks of this loop and the variables their statement lists assign before them
	breakVars := map[types.Object]bool{}
	hasBreak := false
	var scan func(list []ast.Stmt, inNested bool)
	scan = func(list []ast.Stmt, inNested bool) {
		for i, st := range list {
			switch x := st.(type) {
			case *ast.BranchStmt:
				if x.Tok == token.BREAK && x.Label == nil && !inNested {
					hasBreak = true
					for _, prev := range list[:i] {
						if as, ok := prev.(*ast.AssignStmt); ok {
							for _, l := range as.Lhs {
								if o := objOf(info, l); o != nil {
									breakVars[o] = true
								}
							}
						}
					}
				}
			case *ast.IfStmt:
				scan(x.Body.List, inNested)
				if eb, ok := x.Else.(*ast.BlockStmt); ok {
					scan(eb.List, inNested)
				} else if ei, ok := x.Else.(*ast.IfStmt); ok {
					scan([]ast.Stmt{ei}, inNested)
				}
			case *ast.BlockStmt:
				scan(x.List, inNested)
			case *ast.SwitchStmt:
				// a break inside a switch leaves the switch, not the loop
				for _, cl := range x.Body.List {
					scan(cl.(*ast.CaseClause).Body, true)
				}
			case *ast.ForStmt:
				scan(x.Body.List, true)
			case *ast.RangeStmt:
				scan(x.Body.List, true)
			}
		}
	}
	scan(rs.Body.List, false)
	if !hasBreak {
		return "", token.NoPos, ""
	}
	// flags: variables declared outside the loop, assigned inside it, not on a breaking path
	flags := map[types.Object]bool{}
	inspectNoLit(rs.Body, func(n ast.Node) bool {
		as, ok := n.(*ast.AssignStmt)
		if !ok || as.Tok == token.DEFINE {
			return true
		}
		for _, l := range as.Lhs {
			o, _ := objOf(info, l).(*types.Var)
			if o == nil || breakVars[o] || (o.Pos() >= rs.Pos() && o.Pos() <= rs.End()) {
				continue
			}
			if b, ok := o.Type().Underlying().(*types.Basic); ok && b.Kind() == types.Bool {
				flags[o] = true
			}
		}
		return true
	})
	if len(flags) == 0 {
		return "", token.NoPos, ""
	}
	mentionsBreakVar := func(e ast.Expr) bool {
		found := false
		ast.Inspect(e, func(n ast.Node) bool {
			if id, ok := n.(*ast.Ident); ok && breakVars[info.Uses[id]] {
				found = true
			}
			return !found
		})
		return found
	}
	cf := c.CondFacts(body, info, nil)
	var badName, why string
	var badPos token.Pos
	inspectNoLit(body, func(n ast.Node) bool {
		id, ok := n.(*ast.Ident)
		if !ok || badName != "" || id.Pos() <= rs.End() || !flags[info.Uses[id]] {
			return true
		}
		// a read (not an assignment target)
		if as, ok := c.Parent(id).(*ast.AssignStmt); ok {
			for _, l := range as.Lhs {
				if l == ast.Expr(id) {
					return true
				}
			}
		}
		// conditioned on a break variable: conjoined with it, nested under a condition on it, or reached
		// only after a condition on it was decided
		var child ast.Node = id
		for p := c.Parent(id); p != nil && p != ast.Node(body); child, p = p, c.Parent(p) {
			switch x := p.(type) {
			case *ast.BinaryExpr:
				if x.Op == token.LAND || x.Op == token.LOR {
					other := x.X
					if ast.Node(x.X) == child {
						other = x.Y
					}
					if mentionsBreakVar(other) {
						return true
					}
				}
			case *ast.IfStmt:
				if child != ast.Node(x.Cond) && mentionsBreakVar(x.Cond) {
					return true
				}
			}
		}
		if cf.HoldsAt(id, func(cond ast.Expr, truth bool) bool { return mentionsBreakVar(cond) }) {
			return true
		}
		if len(breakVars) == 0 {
			why = "it is read after the loop although nothing records whether the loop ran to completion"
		} else {
			why = "it is read after the loop without consulting what the breaking path recorded"
		}
		badName, badPos = id.Name, id.Pos()
		return true
	})
	return badName, badPos, why
}

// unsortedAccumulation: the loop appends to a slice declared outside it, that slice is a direct result of
// a return statement, and no call sort.*(S, …) / slices.Sort*(S) dominates that return.
func unsortedAccumulation(c *Ctx, info *types.Info, body *ast.BlockStmt, rs *ast.RangeStmt) (string, token.Pos) {
	var accs []types.Object
	inspectNoLit(rs.Body, func(n ast.Node) bool {
		as, ok := n.(*ast.AssignStmt)
		if !ok || len(as.Lhs) != 1 || len(as.Rhs) != 1 {
			return true
		}
		call, ok := ast.Unparen(as.Rhs[0]).(*ast.CallExpr)
		if !ok || !isBuiltin(info, call, "append") || len(call.Args) < 2 {
			return true
		}
		o, _ := objOf(info, as.Lhs[0]).(*types.Var)
		if o == nil || objOf(info, call.Args[0]) != o || (o.Pos() >= rs.Pos() && o.Pos() <= rs.End()) {
			return true
		}
		accs = append(accs, o)
		return true
	})
	if len(accs) == 0 {
		return "", token.NoPos
	}
	g := c.CFG(body, info)
	for _, o := range accs {
		// error / string accumulations are out of scope (messages)
		if sl, ok := o.Type().Underlying().(*types.Slice); ok {
			if isErrorType(sl.Elem()) {
				continue
			}
		}
		var sorts []ast.Node
		inspectNoLit(body, func(n ast.Node) bool {
			call, ok := n.(*ast.CallExpr)
			if !ok || len(call.Args) == 0 || objOf(info, call.Args[0]) != o {
				return true
			}
			if f := callee(info, call); f != nil && f.Pkg() != nil && (f.Pkg().Path() == "sort" || f.Pkg().Path() == "slices") {
				sorts = append(sorts, call)
			}
			return true
		})
		for _, ret := range g.Returns() {
			if ret.Pos() < rs.End() {
				continue
			}
			direct := false
			for _, r := range ret.Results {
				if objOf(info, r) == o {
					direct = true
				}
			}
			if !direct {
				continue
			}
			sorted := false
			for _, sc := range sorts {
				if sc.Pos() > rs.End() && g.Dominates(sc, ret) {
					sorted = true
				}
			}
			if !sorted {
				return o.Name(), ret.Pos()
			}
		}
	}
	return "", token.NoPos
}
