package main

import (
	"fmt"
	"os"
	"path/filepath"
	"regexp"
	"strconv"
	"strings"
)

// applyPatchOverlay reads a unified diff (git format) and returns repo files with the
// patch applied, in memory. Hunks are located by their old text near the stated line
// (so a patch keeps applying while unrelated lines move). An error means the patch is stale.
func applyPatchOverlay(repo, patchPath string) (map[string][]byte, error) {
	b, err := os.ReadFile(patchPath)
	if err != nil {
		return nil, err
	}
	lines := strings.Split(string(b), "\n")
	out := map[string][]byte{}
	hunkRe := regexp.MustCompile(`^@@ -(\d+)(?:,(\d+))? \+(\d+)(?:,(\d+))? @@`)
	var file string
	var content []string
	flush := func() {
		if file != "" {
			out[filepath.Join(repo, file)] = []byte(strings.Join(content, "\n"))
		}
	}
	offset := 0
	for i := 0; i < len(lines); i++ {
		l := lines[i]
		switch {
		case strings.HasPrefix(l, "+++ "):
			flush()
			file = strings.TrimPrefix(strings.TrimPrefix(l, "+++ "), "b/")
			if file == "/dev/null" {
				return nil, fmt.Errorf("patch deletes a file: not supported")
			}
			src, err := os.ReadFile(filepath.Join(repo, file))
			if err != nil {
				return nil, fmt.Errorf("stale patch: %v", err)
			}
			content = strings.Split(string(src), "\n")
			offset = 0
		case hunkRe.MatchString(l):
			m := hunkRe.FindStringSubmatch(l)
			start, _ := strconv.Atoi(m[1])
			var oldBlock, newBlock []string
			j := i + 1
			for ; j < len(lines); j++ {
				h := lines[j]
				if strings.HasPrefix(h, "@@ ") || strings.HasPrefix(h, "diff --git") || strings.HasPrefix(h, "--- ") {
					break
				}
				if h == `\ No newline at end of file` {
					continue
				}
				if h == "" && j == len(lines)-1 {
					break
				}
				switch {
				case strings.HasPrefix(h, "-"):
					oldBlock = append(oldBlock, h[1:])
				case strings.HasPrefix(h, "+"):
					newBlock = append(newBlock, h[1:])
				default:
					t := strings.TrimPrefix(h, " ")
					oldBlock = append(oldBlock, t)
					newBlock = append(newBlock, t)
				}
			}
			i = j - 1
			// locate oldBlock near start-1+offset
			want := start - 1 + offset
			pos := -1
			for d := 0; d < len(content)+1 && pos < 0; d++ {
				for _, cand := range []int{want - d, want + d} {
					if cand >= 0 && cand+len(oldBlock) <= len(content) && blockEq(content[cand:cand+len(oldBlock)], oldBlock) {
						pos = cand
						break
					}
				}
			}
			if pos < 0 {
				return nil, fmt.Errorf("stale patch: hunk at %s:%d does not match the current source", file, start)
			}
			nc := append([]string{}, content[:pos]...)
			nc = append(nc, newBlock...)
			nc = append(nc, content[pos+len(oldBlock):]...)
			content = nc
			offset += len(newBlock) - len(oldBlock) + (pos - want)
		}
	}
	flush()
	if len(out) == 0 {
		return nil, fmt.Errorf("stale patch: no file sections found")
	}
	return out, nil
}

func blockEq(a, b []string) bool {
	for i := range a {
		if a[i] != b[i] {
			return false
		}
	}
	return true
}
