package main

import (
	"fmt"
	"go/ast"
	"go/token"
	"go/types"
	"sort"
	"strings"

	"golang.org/x/tools/go/cfg"
	"golang.org/x/tools/go/ssa"
)

// Decoders (C17): the entry points fixed by the property and everything they reach inside
// the two codec packages (plus cty.Type.UnmarshalJSON).

var decoderEntries = []struct{ Pkg, Name string }{
	{"cty/json", "Unmarshal"}, {"cty/json", "ImpliedType"}, {"cty/json", "UnmarshalType"},
	{"cty", "Type.UnmarshalJSON"},
	{"cty/msgpack", "Unmarshal"}, {"cty/msgpack", "ImpliedType"},
}

type declRef struct {
	Pkg string
	FD  *ast.FuncDecl
}

func decoderFuncs(rr *RuleRun) []declRef {
	c := rr.Ctx
	installFindFuncDecl(c)
	seen := map[*ast.FuncDecl]bool{}
	var out []declRef
	var visit func(pkg string, fd *ast.FuncDecl)
	visit = func(pkg string, fd *ast.FuncDecl) {
		if fd == nil || fd.Body == nil || seen[fd] || c.IsControl(fd.Pos()) {
			return
		}
		seen[fd] = true
		out = append(out, declRef{pkg, fd})
		info := c.Info(pkg)
		ast.Inspect(fd.Body, func(n ast.Node) bool {
			call, ok := n.(*ast.CallExpr)
			if !ok {
				return true
			}
			f := callee(info, call)
			if f == nil || f.Pkg() == nil {
				return true
			}
			sp := shortPkg(f.Pkg())
			if sp == "cty/json" || sp == "cty/msgpack" || funcKey(f) == "cty.Type.UnmarshalJSON" {
				if cd := findFuncDecl(f); cd != nil {
					visit(sp, cd)
				}
			}
			return true
		})
	}
	for _, e := range decoderEntries {
		fd := rr.MustDecl(e.Pkg, e.Name)
		visit(e.Pkg, fd)
	}
	sort.Slice(out, func(i, j int) bool {
		if out[i].Pkg != out[j].Pkg {
			return out[i].Pkg < out[j].Pkg
		}
		return declName(out[i].FD) < declName(out[j].FD)
	})
	return out
}

func init() {
	register(&Rule{
		ID: "C17.error-checked", Prop: "C17", Floor: 18, Controls: 1,
		Doc: "in every function reachable from a decoder entry point, an error stored in a variable is read (tested, returned, wrapped) on every path before the variable is assigned again or the function returns: no decoding error is dropped by being overwritten",
		Run: runErrorChecked,
	})
	register(&Rule{
		ID: "C17.result-depends-on-type", Prop: "C17", Floor: 14, Controls: 1,
		Doc: "in every type-directed decoder function (a cty.Type / []cty.Type / map[string]cty.Type parameter, results (cty.Value, error)) each successful return is data-dependent on the requested type or control-dependent on a condition that consults it: a value returned before the type was consulted cannot conform to every requested type",
		Run: runResultDependsOnType,
	})
	register(&Rule{
		ID: "C17.length-taint", Prop: "C17", Floor: 3, Controls: 1,
		Doc: "a length read from the input (DecodeArrayLen / DecodeMapLen / DecodeBytesLen / DecodeExtHeader) reaches the size of a make only after a dominating comparison with a constant bound or with the length of a type-derived container that exits (memory must stay within a fixed multiple of the input)",
		Run: runLengthTaint,
	})
	register(&Rule{
		ID: "C17.partial-constructors", Prop: "C17", Also: []string{"C15", "C16", "C18"}, Floor: 5, Controls: 0,
		Doc: "decoder-reachable calls (and those of gocty's to-cty direction) of constructors that panic on data-dependent conditions are guarded: ListVal/SetVal/MapVal by a dominating CanListVal/CanSetVal/CanMapVal exit, ObjectWithOptionalAttrs by a dominating check that every optional name is declared, refinement-builder mutators by a deferred recover that turns the panic into an error",
		Run: runDecoderPartialCtors,
	})
	register(&Rule{
		ID: "C17.object-completion", Prop: "C17", Also: []string{"C15", "C16"}, Floor: 2, Controls: 0,
		Doc: "a decoder that builds an object or tuple value for a requested structural type returns it only after checking that the member count equals the type's (and, for objects decoded by name, that every attribute was seen or filled in)",
		Run: runObjectCompletion,
	})
}

// ---------------------------------------------------------------------------
// C17.error-checked

func isErrorType(t types.Type) bool {
	return t != nil && t.String() == "error"
}

func runErrorChecked(rr *RuleRun) {
	c := rr.Ctx
	refs := decoderFuncs(rr)
	// positive controls live in package cty/json
	for name, fd := range c.Decls("cty/json") {
		if strings.HasPrefix(name, "verifctl") && c.IsControl(fd.Pos()) {
			refs = append(refs, declRef{"cty/json", fd})
		}
	}
	for _, r := range refs {
		info := c.Info(r.Pkg)
		bodies := []*ast.BlockStmt{r.FD.Body}
		ast.Inspect(r.FD.Body, func(n ast.Node) bool {
			if fl, ok := n.(*ast.FuncLit); ok {
				bodies = append(bodies, fl.Body)
			}
			return true
		})
		// named error results are read by a bare return
		namedErr := map[types.Object]bool{}
		if r.FD.Type.Results != nil {
			for _, f := range r.FD.Type.Results.List {
				for _, nm := range f.Names {
					if o := info.Defs[nm]; o != nil && isErrorType(o.Type()) {
						namedErr[o] = true
					}
				}
			}
		}
		nAssign, bad := 0, 0
		for _, body := range bodies {
			g := c.CFG(body, info)
			n, b := errorFlow(rr, c, info, r, g, namedErr)
			nAssign += n
			bad += b
		}
		if nAssign > 0 && bad == 0 {
			rr.OK(r.Pkg+"."+declName(r.FD), r.FD.Pos(), fmt.Sprintf("%d error assignment(s): each is read before being overwritten or dropped", nAssign))
		}
	}
}

type pendErr struct {
	obj types.Object
	pos token.Pos
	src string
}

// errorFlow: forward may-analysis of "error stored and not yet read".
func errorFlow(rr *RuleRun, c *Ctx, info *types.Info, r declRef, g *FuncCFG, namedErr map[types.Object]bool) (assigns, bad int) {
	type state map[types.Object]pendErr
	nb := len(g.G.Blocks)
	in := make([]state, nb)
	in[0] = state{}
	reported := map[token.Pos]bool{}
	report := func(p pendErr, at token.Pos, what string) {
		if reported[p.pos] {
			return
		}
		reported[p.pos] = true
		bad++
		rr.Violation(fmt.Sprintf("%s.%s/%s←%s", r.Pkg, declName(r.FD), p.obj.Name(), p.src), p.pos, fmt.Sprintf("the error from %s stored in %q is %s at %s without having been read: malformed input is accepted silently", p.src, p.obj.Name(), what, c.PosStr(at)))
	}
	readsOf := func(n ast.Node, skipLHS bool) map[types.Object]bool {
		out := map[types.Object]bool{}
		lhs := map[*ast.Ident]bool{}
		if as, ok := n.(*ast.AssignStmt); ok && skipLHS {
			for _, l := range as.Lhs {
				if id, ok := l.(*ast.Ident); ok {
					lhs[id] = true
				}
			}
		}
		ast.Inspect(n, func(x ast.Node) bool {
			if _, ok := x.(*ast.FuncLit); ok {
				// a closure mentioning the variable may read it later: treat as read
				ast.Inspect(x, func(y ast.Node) bool {
					if id, ok := y.(*ast.Ident); ok {
						if o := info.Uses[id]; o != nil {
							out[o] = true
						}
					}
					return true
				})
				return false
			}
			if id, ok := x.(*ast.Ident); ok && !lhs[id] {
				if o := info.Uses[id]; o != nil {
					out[o] = true
				}
			}
			return true
		})
		return out
	}
	errAssigns := func(n ast.Node) []pendErr {
		var out []pendErr
		as, ok := n.(*ast.AssignStmt)
		if !ok || len(as.Rhs) != 1 {
			return nil
		}
		call, ok := ast.Unparen(as.Rhs[0]).(*ast.CallExpr)
		if !ok {
			return nil
		}
		// 'if v, done, err := f(); done { return v, err }': the error comes with a flag that says whether it is
		// meaningful, and the branch on that flag reads it — a correlated pair this analysis does not model
		correlated := false
		if is, ok := c.Parent(as).(*ast.IfStmt); ok && is.Init == ast.Stmt(as) {
			if co := objOf(info, is.Cond); co != nil && !isErrorType(co.Type()) {
				for _, l := range as.Lhs {
					if objOf(info, l) == co {
						correlated = true
					}
				}
			}
		}
		for _, l := range as.Lhs {
			id, ok := l.(*ast.Ident)
			if !ok || id.Name == "_" {
				continue
			}
			o := objOf(info, id)
			if o == nil || !isErrorType(o.Type()) {
				continue
			}
			if correlated {
				readInBody := false
				ast.Inspect(c.Parent(as).(*ast.IfStmt).Body, func(m ast.Node) bool {
					if mid, ok := m.(*ast.Ident); ok && info.Uses[mid] == o {
						readInBody = true
					}
					return true
				})
				if readInBody {
					continue
				}
			}
			src := exprStr(call.Fun)
			out = append(out, pendErr{o, as.Pos(), src})
		}
		return out
	}
	transfer := func(s state, n ast.Node, final bool) state {
		for o := range readsOf(n, true) {
			delete(s, o)
		}
		if ret, ok := n.(*ast.ReturnStmt); ok {
			if len(ret.Results) == 0 {
				for o := range namedErr {
					delete(s, o)
				}
			}
			if final {
				for _, p := range s {
					report(p, ret.Pos(), "dropped by the return")
				}
			}
			return state{}
		}
		for _, p := range errAssigns(n) {
			if old, ok := s[p.obj]; ok && final {
				report(old, p.pos, "overwritten")
			}
			s[p.obj] = p
		}
		return s
	}
	clone := func(s state) state {
		o := state{}
		for k, v := range s {
			o[k] = v
		}
		return o
	}
	run := func(final bool) {
		work := []int32{0}
		inWork := make([]bool, nb)
		inWork[0] = true
		for len(work) > 0 {
			bi := work[0]
			work = work[1:]
			inWork[bi] = false
			s := clone(in[bi])
			for _, n := range g.G.Blocks[bi].Nodes {
				s = transfer(s, n, final)
			}
			if final {
				continue
			}
			for _, succ := range g.G.Blocks[bi].Succs {
				if in[succ.Index] == nil {
					in[succ.Index] = state{}
					if !inWork[succ.Index] {
						work = append(work, succ.Index)
						inWork[succ.Index] = true
					}
				}
				grew := false
				for k, v := range s {
					if _, ok := in[succ.Index][k]; !ok {
						in[succ.Index][k] = v
						grew = true
					}
				}
				if grew && !inWork[succ.Index] {
					work = append(work, succ.Index)
					inWork[succ.Index] = true
				}
			}
		}
	}
	run(false)
	// final pass: report using the fixpoint in-states
	for bi := 0; bi < nb; bi++ {
		if in[bi] == nil {
			continue
		}
		s := clone(in[bi])
		for _, n := range g.G.Blocks[bi].Nodes {
			assigns += len(errAssigns(n))
			s = transfer(s, n, true)
		}
		// falling off the end of the function body with a pending error
		if len(g.G.Blocks[bi].Succs) == 0 {
			hasRet := false
			for _, n := range g.G.Blocks[bi].Nodes {
				if _, ok := n.(*ast.ReturnStmt); ok {
					hasRet = true
				}
			}
			if !hasRet {
				for _, p := range s {
					if !namedErr[p.obj] {
						_ = p
					}
				}
			}
		}
	}
	return
}

// ---------------------------------------------------------------------------
// C17.result-depends-on-type

func isTypeParamType(t types.Type) bool {
	if isCtyType(t) {
		return true
	}
	switch u := t.Underlying().(type) {
	case *types.Slice:
		return isCtyType(u.Elem())
	case *types.Map:
		return isCtyType(u.Elem())
	}
	return false
}

func runResultDependsOnType(rr *RuleRun) {
	c := rr.Ctx
	refs := decoderFuncs(rr)
	for name, fd := range c.Decls("cty/msgpack") {
		if strings.HasPrefix(name, "verifctl") && c.IsControl(fd.Pos()) {
			refs = append(refs, declRef{"cty/msgpack", fd})
		}
	}
	for _, r := range refs {
		info := c.Info(r.Pkg)
		fn, _ := info.Defs[r.FD.Name].(*types.Func)
		if fn == nil {
			continue
		}
		sig := fn.Type().(*types.Signature)
		if sig.Results().Len() != 2 || !isCtyValue(sig.Results().At(0).Type()) || !isErrorType(sig.Results().At(1).Type()) {
			continue
		}
		// T: the type-directing parameters
		dep := map[types.Object]bool{}
		for i := 0; i < sig.Params().Len(); i++ {
			if isTypeParamType(sig.Params().At(i).Type()) {
				if id := paramIdent(r.FD, i); id != nil {
					dep[info.Defs[id]] = true
				}
			}
		}
		if len(dep) == 0 {
			continue
		}
		checkTypeDependence(rr, c, info, r.Pkg+"."+declName(r.FD), r.FD.Body, dep, "the requested type")
	}
}

// checkTypeDependence: every successful (value, nil) return of body is data-dependent on one of the
// objects in dep (closed under local assignments) or control-dependent on a condition mentioning one.
func checkTypeDependence(rr *RuleRun, c *Ctx, info *types.Info, name string, body *ast.BlockStmt, dep map[types.Object]bool, what string) {
	{
		// flow-insensitive closure: a local assigned from an expression mentioning a dependent object is dependent
		for changed := true; changed; {
			changed = false
			inspectNoLit(body, func(n ast.Node) bool {
				mark := func(lhs []ast.Expr, rhs []ast.Expr) {
					m := false
					for _, e := range rhs {
						if mentionsAny(info, e, dep) {
							m = true
						}
					}
					if !m {
						return
					}
					for _, l := range lhs {
						root := l
						for {
							if ix, ok := ast.Unparen(root).(*ast.IndexExpr); ok {
								root = ix.X
								continue
							}
							break
						}
						if o := objOf(info, root); o != nil && !dep[o] {
							if _, isVar := o.(*types.Var); isVar {
								dep[o] = true
								changed = true
							}
						}
					}
				}
				switch x := n.(type) {
				case *ast.AssignStmt:
					mark(x.Lhs, x.Rhs)
				case *ast.ValueSpec:
					var l []ast.Expr
					for _, nm := range x.Names {
						l = append(l, nm)
					}
					mark(l, x.Values)
				case *ast.RangeStmt:
					var l []ast.Expr
					if x.Key != nil {
						l = append(l, x.Key)
					}
					if x.Value != nil {
						l = append(l, x.Value)
					}
					mark(l, []ast.Expr{x.X})
				}
				return true
			})
		}
		g := c.CFG(body, info)
		for _, ret := range g.Returns() {
			if len(ret.Results) != 2 || !isNilIdent(info, ret.Results[1]) {
				continue
			}
			key := fmt.Sprintf("%s/return %s", name, trunc(exprStr(ret.Results[0]), 50))
			if mentionsAny(info, ret.Results[0], dep) {
				rr.OKTrivial(key, ret.Pos(), "the returned value is computed from "+what)
				continue
			}
			if cond := controlDependsOn(g, info, ret, dep); cond != "" {
				rr.OK(key, ret.Pos(), "reached only through one outcome of '"+cond+"', which consults "+what)
				continue
			}
			rr.Violation(key, ret.Pos(), fmt.Sprintf("%s is returned as a successful result although neither the value nor any condition on the way to this return consults %s: it cannot conform to every requested type", exprStr(ret.Results[0]), what))
		}
	}
}

// controlDependsOn: some two-way branch whose condition mentions a dependent object lies on the way
// to ret such that ret is reachable from exactly one of its successors. Returns the condition text.
func controlDependsOn(g *FuncCFG, info *types.Info, ret *ast.ReturnStmt, dep map[types.Object]bool) string {
	l, _, ok := g.locate(ret)
	if !ok {
		return ""
	}
	target := l.b
	reachFrom := func(start *cfg.Block, avoid *cfg.Block) bool {
		seen := map[int32]bool{}
		var dfs func(b *cfg.Block) bool
		dfs = func(b *cfg.Block) bool {
			if b == target {
				return true
			}
			if seen[b.Index] || b == avoid {
				return false
			}
			seen[b.Index] = true
			for _, s := range b.Succs {
				if dfs(s) {
					return true
				}
			}
			return false
		}
		return dfs(start)
	}
	for _, b := range g.G.Blocks {
		cond, ok := g.condOf(b)
		if !ok || !mentionsAny(info, cond, dep) {
			continue
		}
		if !g.Dominates(b.Nodes[len(b.Nodes)-1], ret) {
			continue
		}
		r0, r1 := reachFrom(b.Succs[0], b), reachFrom(b.Succs[1], b)
		if r0 != r1 {
			return exprStr(cond)
		}
	}
	return ""
}

// ---------------------------------------------------------------------------
// C17.length-taint (SSA)

var lengthSources = map[string]bool{"DecodeArrayLen": true, "DecodeMapLen": true, "DecodeBytesLen": true, "DecodeExtHeader": true}

func runLengthTaint(rr *RuleRun) {
	o := rr.Ctx.Own()
	for _, fn := range o.moduleFuncs() {
		pk := ""
		if fn.Pkg != nil {
			pk = shortPkg(fn.Pkg.Pkg)
		}
		if pk != "cty/msgpack" && pk != "cty/json" {
			continue
		}
		// sources in this function
		for _, b := range fn.Blocks {
			for _, in := range b.Instrs {
				call, ok := in.(*ssa.Call)
				if !ok || call.Call.IsInvoke() {
					continue
				}
				callee := call.Call.StaticCallee()
				if callee == nil || callee.Signature.Recv() == nil || !lengthSources[callee.Name()] || !strings.Contains(callee.Signature.Recv().Type().String(), "msgpack") {
					continue
				}
				// the int results
				var srcs []ssa.Value
				if refs := call.Referrers(); refs != nil {
					for _, r := range *refs {
						if ex, ok := r.(*ssa.Extract); ok {
							if bt, ok := ex.Type().Underlying().(*types.Basic); ok && bt.Info()&types.IsInteger != 0 && ex.Type().String() == "int" {
								srcs = append(srcs, ex)
							}
						}
					}
				}
				for _, src := range srcs {
					checkTaintedSizes(rr, o, fn, callee.Name(), src, 0)
				}
			}
		}
	}
}

// checkTaintedSizes follows src through phis, conversions and arithmetic to allocation sizes.
func checkTaintedSizes(rr *RuleRun, o *Own, fn *ssa.Function, srcName string, src ssa.Value, depth int) {
	seen := map[ssa.Value]bool{}
	var derived []ssa.Value
	var walk func(v ssa.Value)
	walk = func(v ssa.Value) {
		if seen[v] {
			return
		}
		seen[v] = true
		derived = append(derived, v)
		refs := v.Referrers()
		if refs == nil {
			return
		}
		for _, r := range *refs {
			switch t := r.(type) {
			case *ssa.Phi:
				walk(t)
			case *ssa.Convert:
				walk(t)
			case *ssa.ChangeType:
				walk(t)
			case *ssa.BinOp:
				switch t.Op {
				case token.ADD, token.MUL, token.SHL:
					walk(t)
				}
			}
		}
	}
	walk(src)
	isDerived := func(v ssa.Value) bool { return seen[v] }
	for _, v := range derived {
		refs := v.Referrers()
		if refs == nil {
			continue
		}
		for _, r := range *refs {
			var what string
			switch t := r.(type) {
			case *ssa.MakeSlice:
				if t.Len == v || t.Cap == v {
					what = "make (slice)"
				}
			case *ssa.MakeMap:
				if t.Reserve == v {
					what = "make (map)"
				}
			case *ssa.Call:
				// helper taking the tainted size: analysed in the callee
				if callee := t.Call.StaticCallee(); callee != nil && inModule(callee) && callee.Blocks != nil && depth < 2 {
					for i, a := range t.Call.Args {
						if a == v && i < len(callee.Params) {
							if how := boundedAt(t.Block(), isDerived); how != "" {
								// the size was bounded before it was handed to the helper
								rr.OK(fmt.Sprintf("%s/%s→%s(arg)", fnKey(fn), srcName, callee.Name()), instrPos(t), "size bounded on every path before the helper is called: "+how)
								continue
							}
							checkTaintedSizes(rr, o, callee, srcName+"→"+callee.Name(), callee.Params[i], depth+1)
						}
					}
				}
				continue
			default:
				continue
			}
			if what == "" {
				continue
			}
			in := r.(ssa.Instruction)
			key := fmt.Sprintf("%s/%s→%s", fnKey(fn), srcName, strings.Fields(what)[0]+strings.Fields(what)[1])
			if how := boundedAt(in.Block(), isDerived); how != "" {
				rr.OK(key, instrPos(in), "size bounded on every path: "+how)
			} else {
				rr.Violation(key, instrPos(in), fmt.Sprintf("a length taken from the input (%s) is used as the size of %s without a bound: a few bytes of input can demand an arbitrarily large allocation", srcName, what))
			}
		}
	}
}

// boundedAt: the block is dominated by the 'bounded' outcome of a comparison of a derived value
// with a constant or with len(x).
func boundedAt(b *ssa.BasicBlock, isDerived func(ssa.Value) bool) string {
	isBoundExpr := func(v ssa.Value) (string, bool) {
		switch t := v.(type) {
		case *ssa.Const:
			return "constant " + t.Value.String(), true
		case *ssa.Call:
			if bi, ok := t.Call.Value.(*ssa.Builtin); ok && bi.Name() == "len" {
				return "len(…) of a container built before the input was read", true
			}
		}
		return "", false
	}
	for d := b; d != nil; d = d.Idom() {
		for p := d.Idom(); p != nil; p = p.Idom() {
			_ = p
			break
		}
		id := d.Idom()
		if id == nil {
			break
		}
		ifi, ok := id.Instrs[len(id.Instrs)-1].(*ssa.If)
		if !ok {
			continue
		}
		cmp, ok := ifi.Cond.(*ssa.BinOp)
		if !ok {
			continue
		}
		var bound string
		var derivedLeft bool
		if isDerived(cmp.X) {
			if s, ok := isBoundExpr(cmp.Y); ok {
				bound, derivedLeft = s, true
			}
		} else if isDerived(cmp.Y) {
			if s, ok := isBoundExpr(cmp.X); ok {
				bound, derivedLeft = s, false
			}
		}
		if bound == "" {
			continue
		}
		// which successor are we under?
		succ := -1
		for i, s := range id.Succs {
			if s == d && len(d.Preds) == 1 {
				succ = i
			}
		}
		if succ < 0 {
			continue
		}
		op := cmp.Op
		if !derivedLeft { // c OP v  ≡  v OP' c
			switch op {
			case token.LSS:
				op = token.GTR
			case token.GTR:
				op = token.LSS
			case token.LEQ:
				op = token.GEQ
			case token.GEQ:
				op = token.LEQ
			}
		}
		// bounded when: (v > c) false, (v >= c) false, (v < c) true, (v <= c) true, (v == c) true, (v != c) false
		bounded := false
		switch op {
		case token.GTR, token.GEQ, token.NEQ:
			bounded = succ == 1
		case token.LSS, token.LEQ, token.EQL:
			bounded = succ == 0
		}
		if bounded {
			return fmt.Sprintf("dominated by the outcome of a comparison with %s", bound)
		}
	}
	return ""
}

// ---------------------------------------------------------------------------
// C17.partial-constructors

func runDecoderPartialCtors(rr *RuleRun) {
	c := rr.Ctx
	canOf := map[string]string{"cty.ListVal": "cty.CanListVal", "cty.SetVal": "cty.CanSetVal", "cty.MapVal": "cty.CanMapVal"}
	builderMutators := map[string]bool{}
	for name := range c.Decls("cty") {
		if strings.HasPrefix(name, "RefinementBuilder.") {
			m := strings.TrimPrefix(name, "RefinementBuilder.")
			if ast.IsExported(m) && m != "NewValue" {
				builderMutators["cty.RefinementBuilder."+m] = true
			}
		}
	}
	funcs := decoderFuncs(rr)
	// gocty's to-cty direction builds collections from caller-supplied Go data in the same way: a shape the bridge
	// cannot represent must come back as an error, not as the constructor's panic
	for _, fd := range c.SortedDecls("cty/gocty") {
		if fd.Body != nil && strings.HasPrefix(fd.Name.Name, "toCty") && !c.IsControl(fd.Pos()) {
			funcs = append(funcs, declRef{"cty/gocty", fd})
		}
	}
	for _, r := range funcs {
		info := c.Info(r.Pkg)
		g := c.CFG(r.FD.Body, info)
		hasRecover := false
		for _, st := range r.FD.Body.List {
			if d, ok := st.(*ast.DeferStmt); ok && deferRecovers(info, d) {
				hasRecover = true
			}
		}
		builderCalls := 0
		var firstBuilder token.Pos
		ast.Inspect(r.FD.Body, func(n ast.Node) bool {
			call, ok := n.(*ast.CallExpr)
			if !ok {
				return true
			}
			k := funcKey(callee(info, call))
			if builderMutators[k] {
				builderCalls++
				if !firstBuilder.IsValid() {
					firstBuilder = call.Pos()
				}
				return true
			}
			if k == "cty.ObjectWithOptionalAttrs" && len(call.Args) == 2 {
				key := fmt.Sprintf("%s.%s/ObjectWithOptionalAttrs", r.Pkg, declName(r.FD))
				if optionalNamesValidated(c, info, r.FD, g, call) {
					rr.OK(key, call.Pos(), "every optional name is checked against the attribute map on the way to the constructor")
				} else {
					rr.Violation(key, call.Pos(), "ObjectWithOptionalAttrs panics when an optional name is not a declared attribute; the names come from the input and are not checked against the attribute map first")
				}
				return true
			}
			can, isCtor := canOf[k]
			if !isCtor || len(call.Args) != 1 {
				return true
			}
			key := fmt.Sprintf("%s.%s/%s(%s)", r.Pkg, declName(r.FD), strings.TrimPrefix(k, "cty."), exprStr(call.Args[0]))
			arg := objOf(info, call.Args[0])
			if arg == nil {
				rr.Assumed(key, call.Pos(), "constructor argument is not a plain variable")
				return true
			}
			spec := &FactSpec{Atom: func(cond ast.Expr, truth bool) []Fact {
				if cl, ok := ast.Unparen(cond).(*ast.CallExpr); ok && isCall(info, cl, can) && len(cl.Args) == 1 && objOf(info, cl.Args[0]) == arg && truth {
					return []Fact{{"homogeneous", objKey(arg)}}
				}
				return nil
			}}
			facts, reach := g.MustFacts(spec).At(call)
			if !reach {
				return true
			}
			if facts.has("homogeneous", objKey(arg)) {
				rr.OK(key, call.Pos(), "dominated by a "+strings.TrimPrefix(can, "cty.")+" exit")
			} else {
				rr.Violation(key, call.Pos(), "the element values were decoded independently (their types can differ under a dynamic element type) and "+strings.TrimPrefix(k, "cty.")+" panics on inconsistent element types; no dominating "+strings.TrimPrefix(can, "cty.")+" exit")
			}
			return true
		})
		if builderCalls > 0 {
			key := fmt.Sprintf("%s.%s/refinement-builder", r.Pkg, declName(r.FD))
			if hasRecover {
				rr.OK(key, firstBuilder, fmt.Sprintf("%d builder call(s) under a deferred recover that reports an error", builderCalls))
			} else {
				rr.Violation(key, firstBuilder, fmt.Sprintf("%d refinement-builder call(s) replay refinements read from the input; the builder panics on contradictory or ill-typed refinements and no deferred recover turns that into an error", builderCalls))
			}
		}
	}
}

// optionalNamesValidated: before the call, a loop over the optional-names argument tests each
// name against the attribute-types argument (comma-ok map lookup) and exits on a miss.
func optionalNamesValidated(c *Ctx, info *types.Info, fd *ast.FuncDecl, g *FuncCFG, call *ast.CallExpr) bool {
	atys, opt := objOf(info, call.Args[0]), objOf(info, call.Args[1])
	if atys == nil || opt == nil {
		return false
	}
	ok := false
	ast.Inspect(fd.Body, func(n ast.Node) bool {
		rs, isR := n.(*ast.RangeStmt)
		if !isR || objOf(info, rs.X) != opt || rs.Value == nil || rs.Pos() > call.Pos() {
			return true
		}
		name := objOf(info, rs.Value)
		ast.Inspect(rs.Body, func(m ast.Node) bool {
			ifs, isIf := m.(*ast.IfStmt)
			if !isIf || ifs.Init == nil {
				return true
			}
			as, isAs := ifs.Init.(*ast.AssignStmt)
			if !isAs || len(as.Lhs) != 2 || len(as.Rhs) != 1 {
				return true
			}
			ix, isIx := ast.Unparen(as.Rhs[0]).(*ast.IndexExpr)
			if !isIx || objOf(info, ix.X) != atys || objOf(info, ix.Index) != name {
				return true
			}
			for _, st := range ifs.Body.List {
				if _, isRet := st.(*ast.ReturnStmt); isRet {
					if g.Dominates(rs.X, call) {
						ok = true
					}
				}
			}
			return true
		})
		return true
	})
	return ok
}

// ---------------------------------------------------------------------------
// C17.object-completion

func runObjectCompletion(rr *RuleRun) {
	c := rr.Ctx
	for _, r := range decoderFuncs(rr) {
		info := c.Info(r.Pkg)
		fn, _ := info.Defs[r.FD.Name].(*types.Func)
		if fn == nil {
			continue
		}
		sig := fn.Type().(*types.Signature)
		var tparam types.Object
		for i := 0; i < sig.Params().Len(); i++ {
			switch u := sig.Params().At(i).Type().Underlying().(type) {
			case *types.Map:
				if isCtyType(u.Elem()) {
					tparam = info.Defs[paramIdent(r.FD, i)]
				}
			case *types.Slice:
				if isCtyType(u.Elem()) {
					tparam = info.Defs[paramIdent(r.FD, i)]
				}
			}
		}
		if tparam == nil || sig.Results().Len() != 2 || !isCtyValue(sig.Results().At(0).Type()) {
			continue
		}
		g := c.CFG(r.FD.Body, info)
		// facts: sized(T) — the number of decoded members was compared with len(T) (equal on this path),
		// or a loop over T filled in every missing member
		spec := &FactSpec{
			Atom: func(cond ast.Expr, truth bool) []Fact {
				be, ok := ast.Unparen(cond).(*ast.BinaryExpr)
				if !ok {
					return nil
				}
				isLenT := func(e ast.Expr) bool {
					cl, ok := ast.Unparen(e).(*ast.CallExpr)
					return ok && isBuiltin(info, cl, "len") && len(cl.Args) == 1 && objOf(info, cl.Args[0]) == tparam
				}
				// for objects decoded by name the count that matters is the number of distinct members
				// collected (len of the value map), not the count announced by the input
				isLenVals := func(e ast.Expr) bool {
					cl, ok := ast.Unparen(e).(*ast.CallExpr)
					if !ok || !isBuiltin(info, cl, "len") || len(cl.Args) != 1 {
						return false
					}
					m, ok := info.TypeOf(cl.Args[0]).Underlying().(*types.Map)
					return ok && isCtyValue(m.Elem())
				}
				other := be.Y
				if isLenT(be.Y) {
					other = be.X
				}
				if (isLenT(be.X) || isLenT(be.Y)) && ((be.Op == token.NEQ && !truth) || (be.Op == token.EQL && truth)) {
					out := []Fact{{"sized", objKey(tparam)}}
					if isLenVals(other) {
						out = append(out, Fact{"sized-distinct", objKey(tparam)})
					}
					return out
				}
				return nil
			},
		}
		// completion loops: for k, aty := range T { if _, ok := vals[k]; !ok { vals[k] = ... } }
		var completions []*ast.RangeStmt
		inspectNoLit(r.FD.Body, func(n ast.Node) bool {
			if rs, ok := n.(*ast.RangeStmt); ok && objOf(info, rs.X) == tparam && rs.Key != nil {
				fills := false
				ast.Inspect(rs.Body, func(m ast.Node) bool {
					if as, ok := m.(*ast.AssignStmt); ok && len(as.Lhs) == 1 {
						if ix, ok := as.Lhs[0].(*ast.IndexExpr); ok && objOf(info, ix.Index) == objOf(info, rs.Key) {
							fills = true
						}
					}
					return true
				})
				if fills {
					completions = append(completions, rs)
				}
			}
			return true
		})
		facts := g.MustFacts(spec)
		for _, ret := range g.Returns() {
			if len(ret.Results) != 2 || !isNilIdent(info, ret.Results[1]) {
				continue
			}
			call, ok := ast.Unparen(ret.Results[0]).(*ast.CallExpr)
			var ctor string
			if ok {
				ctor = funcKey(callee(info, call))
			} else if isPkgVar(info, ret.Results[0], "cty", "EmptyObjectVal", "EmptyTupleVal") {
				ctor = "cty." + exprStr(ret.Results[0])
				ctor = strings.Replace(ctor, "cty.cty.", "cty.", 1)
			}
			switch ctor {
			case "cty.ObjectVal", "cty.TupleVal", "cty.EmptyObjectVal", "cty.EmptyTupleVal":
			default:
				continue
			}
			key := fmt.Sprintf("%s.%s/return %s", r.Pkg, declName(r.FD), trunc(exprStr(ret.Results[0]), 40))
			fs, reach := facts.At(ret)
			if !reach {
				continue
			}
			need := "sized"
			if _, byName := tparam.Type().Underlying().(*types.Map); byName && ok && len(call.Args) == 1 && !isNilIdent(info, call.Args[0]) {
				need = "sized-distinct" // members collected by name: duplicates in the input shrink the set
			}
			if fs.has(need, objKey(tparam)) {
				rr.OK(key, ret.Pos(), "dominated by a check that the member count equals the type's")
				continue
			}
			done := false
			for _, rs := range completions {
				if g.Dominates(rs.X, ret) && rs.End() < ret.Pos() {
					done = true
				}
			}
			if done {
				rr.OK(key, ret.Pos(), "dominated by the loop that fills in every attribute of the type")
				continue
			}
			rr.Violation(key, ret.Pos(), fmt.Sprintf("a structural value is returned without the member count having been compared with the requested type (%s) and without a completion loop over it: an input with too few members yields a value that does not conform", tparam.Name()))
		}
	}
}

// ---------------------------------------------------------------------------
// C17.path-arithmetic

func init() {
	register(&Rule{
		ID: "C17.path-arithmetic", Prop: "C17", Also: []string{"C15", "C16", "C18"}, Floor: 20, Controls: 1,
		Doc: "an expression P[len(P)-1] or P[:len(P)-1] on a path is evaluated only for a P that was extended by append on the way (the variable indexed is the one that was appended to): for the caller's own, possibly empty, path the bound is -1 and the expression panics while reporting an error",
		Run: runPathArithmetic,
	})
}

func runPathArithmetic(rr *RuleRun) {
	c := rr.Ctx
	eachFuncBody(c, []string{"cty/json", "cty/msgpack", "cty/gocty", "cty/convert", "cty"}, func(pkg string, fd *ast.FuncDecl, body *ast.BlockStmt) {
		info := c.Info(pkg)
		type use struct {
			at  ast.Node
			obj types.Object
		}
		var uses []use
		isLenMinus1 := func(e ast.Expr, p types.Object) bool {
			be, ok := ast.Unparen(e).(*ast.BinaryExpr)
			if !ok || be.Op != token.SUB {
				return false
			}
			if v, ok := constInt(info, be.Y); !ok || v != 1 {
				return false
			}
			call, ok := ast.Unparen(be.X).(*ast.CallExpr)
			return ok && isBuiltin(info, call, "len") && len(call.Args) == 1 && objOf(info, call.Args[0]) == p
		}
		inspectNoLit(body, func(n ast.Node) bool {
			switch x := n.(type) {
			case *ast.IndexExpr:
				if p := objOf(info, x.X); p != nil && namedTypeNoPtr(p.Type()) == "cty.Path" && isLenMinus1(x.Index, p) {
					uses = append(uses, use{x, p})
				}
			case *ast.SliceExpr:
				if p := objOf(info, x.X); p != nil && namedTypeNoPtr(p.Type()) == "cty.Path" && x.High != nil && isLenMinus1(x.High, p) {
					uses = append(uses, use{x, p})
				}
			}
			return true
		})
		if len(uses) == 0 {
			return
		}
		g := c.CFG(body, info)
		byObj := map[types.Object]*FactResult{}
		for _, u := range uses {
			fr, ok := byObj[u.obj]
			if !ok {
				p := u.obj
				spec := &FactSpec{
					Atom: func(cond ast.Expr, truth bool) []Fact {
						// len(P) == 0 false, len(P) > 0 / != 0 true: the path is not empty
						be, ok := ast.Unparen(cond).(*ast.BinaryExpr)
						if !ok {
							return nil
						}
						call, ok := ast.Unparen(be.X).(*ast.CallExpr)
						if !ok || !isBuiltin(info, call, "len") || len(call.Args) != 1 || objOf(info, call.Args[0]) != p {
							return nil
						}
						if v, ok := constInt(info, be.Y); ok && v == 0 {
							if (be.Op == token.EQL && !truth) || (be.Op == token.GTR && truth) {
								return []Fact{{"extended", objKey(p)}}
							}
						}
						return nil
					},
					Effects: func(n ast.Node) []Effect {
						var lhs []ast.Expr
						var rhs []ast.Expr
						// storing into an element does not shorten the path
						if as, ok := n.(*ast.AssignStmt); ok {
							for _, l := range as.Lhs {
								if ix, ok := ast.Unparen(l).(*ast.IndexExpr); ok && objOf(info, ix.X) == p {
									return []Effect{{Keep: &Fact{"extended", objKey(p)}}}
								}
							}
						}
						switch s := n.(type) {
						case *ast.AssignStmt:
							lhs, rhs = s.Lhs, s.Rhs
						case *ast.ValueSpec:
							for _, nm := range s.Names {
								lhs = append(lhs, nm)
							}
							rhs = s.Values
						default:
							return nil
						}
						for i := range lhs {
							if i < len(rhs) && objOf(info, lhs[i]) == p {
								if call, ok := ast.Unparen(rhs[i]).(*ast.CallExpr); ok && isBuiltin(info, call, "append") && len(call.Args) >= 2 {
									return []Effect{{Assert: &Fact{"extended", objKey(p)}}}
								}
							}
						}
						return nil
					},
				}
				fr = g.MustFacts(spec)
				byObj[u.obj] = fr
			}
			key := fmt.Sprintf("%s.%s/%s", pkg, declName(fd), trunc(exprStr(u.at.(ast.Expr)), 30))
			fs, ok := fr.At(u.at)
			if !ok {
				continue
			}
			// the definition itself may be the append: path := append(path, nil) defines a new object
			extended := fs.has("extended", objKey(u.obj))
			if !extended {
				if st, idx, rhs := findDefine(info, body, u.obj); st != nil && idx < len(rhs) {
					if call, ok := ast.Unparen(rhs[idx]).(*ast.CallExpr); ok && isBuiltin(info, call, "append") && len(call.Args) >= 2 && g.Dominates(st, u.at) {
						extended = true
					}
				}
			}
			if !extended && (u.obj.Pos() < body.Pos() || u.obj.Pos() > body.End()) {
				// a captured variable: look at the enclosing function at the point where the closure is created
				if fl, ok := c.Parent(body).(*ast.FuncLit); ok {
					if outer := enclosingFuncBody(c, fl); outer != nil {
						og := c.CFG(outer, info)
						p := u.obj
						ospec := &FactSpec{
							Atom: func(ast.Expr, bool) []Fact { return nil },
							Effects: func(n ast.Node) []Effect {
								as, ok := n.(*ast.AssignStmt)
								if !ok {
									return nil
								}
								for i, l := range as.Lhs {
									if ix, ok := ast.Unparen(l).(*ast.IndexExpr); ok && objOf(info, ix.X) == p {
										return []Effect{{Keep: &Fact{"extended", objKey(p)}}}
									}
									if i < len(as.Rhs) && objOf(info, l) == p {
										if call, ok := ast.Unparen(as.Rhs[i]).(*ast.CallExpr); ok && isBuiltin(info, call, "append") && len(call.Args) >= 2 {
											return []Effect{{Assert: &Fact{"extended", objKey(p)}}}
										}
									}
								}
								return nil
							},
						}
						if ofs, ok := og.MustFacts(ospec).At(fl); ok && ofs.has("extended", objKey(p)) {
							extended = true
						}
					}
				}
			}
			if extended {
				rr.OK(key, u.at.Pos(), "the indexed path was extended by append on every path to this point")
			} else {
				rr.Violation(key, u.at.Pos(), fmt.Sprintf("%s is evaluated on a path variable that was not extended by append on the way (it is the caller's path, which is empty at the top level): the bound is -1 and the expression panics", exprStr(u.at.(ast.Expr))))
			}
		}
	})
}
