package main

import (
	"fmt"
	"go/ast"
	"go/constant"
	"go/token"
	"go/types"
	"sort"
	"strings"
)

func init() {
	register(&Rule{
		ID: "C02.index-agrees-with-hasindex", Prop: "C02", Floor: 3, Controls: 0,
		Doc: "for each indexable receiver kind (list, map, tuple) Value.Index rejects (panics on) exactly the key-validation conditions (those computed from the key alone) for which Value.HasIndex answers False, and the list and tuple branches of Index validate the key identically",
		Run: runIndexAgrees,
	})
	register(&Rule{
		ID: "C02.map-lookup-presence", Prop: "C02", Also: []string{"C03"}, Floor: 10, Controls: 1,
		Doc: "every read of a payload map (map[string]interface{}) in package cty that produces a value is either an iteration over that same map, keyed by the attribute names of an object type, a comma-ok lookup, or dominated by a presence test of the same key that exits on absence (a plain lookup of a missing key silently yields a null member)",
		Run: runMapLookupPresence,
	})
	register(&Rule{
		ID: "C01.range-corners", Prop: "C01", Floor: 3, Controls: 0,
		Doc: "interval arithmetic on refined numbers evaluates the operation on all four corner pairs (aMin|aMax × bMin|bMax) and takes both the minimum and the maximum over all four results",
		Run: runRangeCorners,
	})
}

// ---------------------------------------------------------------------------
// C02.index-agrees-with-hasindex

// kindBranch is the body executed for receivers of one kind.
type kindBranch struct {
	Body []ast.Stmt
	List []ast.Expr // the conditions selecting this branch
	At   token.Pos
}

func (k *kindBranch) Pos() token.Pos { return k.At }

// kindClauses finds the branch per receiver kind: a clause of a tagless switch whose
// case tests val.Type().IsXType(), or the body of an `if val.Type().IsXType() {…}`.
func kindClauses(info *types.Info, fd *ast.FuncDecl) map[string]*kindBranch {
	out := map[string]*kindBranch{}
	add := func(e ast.Expr, list []ast.Expr, body []ast.Stmt, at token.Pos) {
		if call, ok := ast.Unparen(e).(*ast.CallExpr); ok {
			if k := kindPredicate(funcKey(callee(info, call))); k != "" {
				if _, dup := out[k]; !dup {
					out[k] = &kindBranch{Body: body, List: list, At: at}
				}
			}
		}
	}
	inspectNoLit(fd.Body, func(n ast.Node) bool {
		switch x := n.(type) {
		case *ast.SwitchStmt:
			if x.Tag != nil {
				return true
			}
			for _, cl := range x.Body.List {
				cc := cl.(*ast.CaseClause)
				for _, e := range cc.List {
					add(e, cc.List, cc.Body, cc.Pos())
				}
			}
		case *ast.IfStmt:
			if x.Init == nil {
				add(x.Cond, []ast.Expr{x.Cond}, x.Body.List, x.Pos())
			}
		}
		return true
	})
	return out
}

// rejections lists, as a sorted set of canonical atomic conditions, the disjuncts of the
// top-level `if COND { <exit> }` statements of a branch whose body is the given kind of
// exit ("panic" or "return False"). A condition `!ok` whose flag comes from a helper
// `x, ok := H(key)` is replaced by the conditions under which H returns false. opaque
// is set when a rejection could not be rendered (the comparison is then partial).
func rejections(c *Ctx, info *types.Info, cc *kindBranch, exit string, recv types.Object) (out []string, opaque bool) {
	// locals computed from the receiver (existence / bounds facts, not key validation)
	recvDep := map[types.Object]bool{recv: true}
	for changed := true; changed; {
		changed = false
		for _, st := range cc.Body {
			ast.Inspect(st, func(n ast.Node) bool {
				as, ok := n.(*ast.AssignStmt)
				if !ok {
					return true
				}
				dep := false
				for _, r := range as.Rhs {
					if mentionsAny(info, r, recvDep) {
						dep = true
					}
				}
				if dep {
					for _, l := range as.Lhs {
						if o := objOf(info, l); o != nil && !recvDep[o] {
							recvDep[o] = true
							changed = true
						}
					}
				}
				return true
			})
		}
	}
	seen := map[string]bool{}
	for _, st := range cc.Body {
		ifs, ok := st.(*ast.IfStmt)
		if !ok || ifs.Else != nil || len(ifs.Body.List) != 1 {
			continue
		}
		matched := false
		switch b := ifs.Body.List[0].(type) {
		case *ast.ExprStmt:
			if call, ok := b.X.(*ast.CallExpr); ok && isBuiltin(info, call, "panic") && exit == "panic" {
				matched = true
			}
		case *ast.ReturnStmt:
			if exit == "false" && len(b.Results) == 1 && isPkgVar(info, b.Results[0], "cty", "False") {
				matched = true
			}
		}
		if matched && !mentionsAny(info, ifs.Cond, recvDep) {
			var scope ast.Node = &ast.BlockStmt{List: cc.Body}
			for _, a := range rejectionAtoms(c, info, scope, ifs.Cond, 0, &opaque) {
				if !seen[a] {
					seen[a] = true
					out = append(out, a)
				}
			}
		}
	}
	sort.Strings(out)
	return out, opaque
}

// rejectionAtoms splits a rejection condition on || and expands helper flags.
func rejectionAtoms(c *Ctx, info *types.Info, scope ast.Node, cond ast.Expr, depth int, opaque *bool) []string {
	cond = ast.Unparen(cond)
	if be, ok := cond.(*ast.BinaryExpr); ok && be.Op == token.LOR {
		return append(rejectionAtoms(c, info, scope, be.X, depth, opaque), rejectionAtoms(c, info, scope, be.Y, depth, opaque)...)
	}
	// !flag / flag == false with flag the last result of a helper call
	var flag types.Object
	if ue, ok := cond.(*ast.UnaryExpr); ok && ue.Op == token.NOT {
		flag = objOf(info, ue.X)
	} else if be, ok := cond.(*ast.BinaryExpr); ok && be.Op == token.EQL && isBoolConst(info, be.Y, false) {
		flag = objOf(info, be.X)
	}
	if v, ok := flag.(*types.Var); ok && !v.IsField() && depth < 3 {
		if atoms, ok := helperFailureAtoms(c, info, scope, v, depth, opaque); ok {
			return atoms
		}
		*opaque = true
		return nil
	}
	return []string{canonExpr(info, cond)}
}

func isBoolConst(info *types.Info, e ast.Expr, want bool) bool {
	tv, ok := info.Types[ast.Unparen(e)]
	return ok && tv.Value != nil && tv.Value.Kind() == constant.Bool && constant.BoolVal(tv.Value) == want
}

// helperFailureAtoms: flag is defined once in scope by `…, flag := H(args)` where H is a
// package function of the shape  { stmts; if C1 { return …, false } …; return …, true }.
// The result is the atoms of C1 ∨ C2 ∨ …
func helperFailureAtoms(c *Ctx, info *types.Info, scope ast.Node, flag *types.Var, depth int, opaque *bool) ([]string, bool) {
	var def *ast.CallExpr
	n := 0
	ast.Inspect(scope, func(x ast.Node) bool {
		as, ok := x.(*ast.AssignStmt)
		if !ok {
			return true
		}
		for i, l := range as.Lhs {
			if objOf(info, l) == types.Object(flag) {
				n++
				if len(as.Rhs) == 1 && i == len(as.Lhs)-1 && len(as.Lhs) >= 2 {
					def, _ = ast.Unparen(as.Rhs[0]).(*ast.CallExpr)
				}
			}
		}
		return true
	})
	if n != 1 || def == nil {
		return nil, false
	}
	h := callee(info, def)
	if h == nil || h.Pkg() == nil || h.Type().(*types.Signature).Recv() != nil {
		return nil, false
	}
	short := strings.TrimPrefix(h.Pkg().Path(), modPath+"/")
	if c.Pkgs[short] == nil {
		return nil, false
	}
	hd := c.Decl(short, h.Name())
	if hd == nil || hd.Body == nil || len(hd.Body.List) == 0 {
		return nil, false
	}
	hinfo := c.Info(short)
	last, ok := hd.Body.List[len(hd.Body.List)-1].(*ast.ReturnStmt)
	if !ok || len(last.Results) < 2 || !isBoolConst(hinfo, last.Results[len(last.Results)-1], true) {
		return nil, false
	}
	var atoms []string
	for _, st := range hd.Body.List[:len(hd.Body.List)-1] {
		hasRet := false
		ast.Inspect(st, func(x ast.Node) bool {
			if _, ok := x.(*ast.ReturnStmt); ok {
				hasRet = true
			}
			if _, ok := x.(*ast.FuncLit); ok {
				return false
			}
			return true
		})
		if !hasRet {
			continue
		}
		ifs, ok := st.(*ast.IfStmt)
		if !ok || ifs.Else != nil || ifs.Init != nil || len(ifs.Body.List) != 1 {
			return nil, false
		}
		ret, ok := ifs.Body.List[0].(*ast.ReturnStmt)
		if !ok || len(ret.Results) < 2 || !isBoolConst(hinfo, ret.Results[len(ret.Results)-1], false) {
			return nil, false
		}
		atoms = append(atoms, rejectionAtoms(c, hinfo, hd.Body, ifs.Cond, depth+1, opaque)...)
	}
	if len(atoms) == 0 {
		return nil, false
	}
	return atoms, true
}

func setMinus(a, b []string) []string {
	in := map[string]bool{}
	for _, x := range b {
		in[x] = true
	}
	var out []string
	for _, x := range a {
		if !in[x] {
			out = append(out, x)
		}
	}
	return out
}

// canonExpr renders an expression with local variables replaced by their names
// (names matter here: both functions call the operands val/key) and literals kept.
func canonExpr(info *types.Info, e ast.Expr) string {
	names := map[types.Object]string{}
	var b strings.Builder
	var walk func(n ast.Node)
	walk = func(n ast.Node) {
		switch x := n.(type) {
		case nil:
		case *ast.Ident:
			if v, ok := info.Uses[x].(*types.Var); ok && !v.IsField() && v.Pkg() != nil && v.Parent() != v.Pkg().Scope() {
				nm, ok := names[v]
				if !ok {
					// parameters and receivers keep their role (their position is the same in both siblings), locals are numbered
					nm = fmt.Sprintf("v%d:%s", len(names)+1, types.TypeString(v.Type(), func(p *types.Package) string { return p.Name() }))
					names[v] = nm
				}
				b.WriteString(nm)
				return
			}
			b.WriteString(x.Name)
		case *ast.BinaryExpr:
			b.WriteString("(")
			walk(x.X)
			b.WriteString(" " + x.Op.String() + " ")
			walk(x.Y)
			b.WriteString(")")
		case *ast.UnaryExpr:
			b.WriteString(x.Op.String())
			walk(x.X)
		case *ast.ParenExpr:
			walk(x.X)
		case *ast.SelectorExpr:
			walk(x.X)
			b.WriteString("." + x.Sel.Name)
		case *ast.CallExpr:
			walk(x.Fun)
			b.WriteString("(")
			for i, a := range x.Args {
				if i > 0 {
					b.WriteString(", ")
				}
				walk(a)
			}
			b.WriteString(")")
		case *ast.BasicLit:
			b.WriteString(x.Value)
		default:
			b.WriteString(exprStr(n.(ast.Expr)))
		}
	}
	walk(e)
	return b.String()
}

func runIndexAgrees(rr *RuleRun) {
	info := rr.Ctx.Info("cty")
	idx, has := rr.MustDecl("cty", "Value.Index"), rr.MustDecl("cty", "Value.HasIndex")
	if idx == nil || has == nil {
		return
	}
	ic, hc := kindClauses(info, idx), kindClauses(info, has)
	for _, k := range []string{"List", "Map", "Tuple"} {
		key := "cty.Value.Index~HasIndex[" + k + "]"
		a, b := ic[k], hc[k]
		if a == nil || b == nil {
			rr.Violation(key, idx.Pos(), fmt.Sprintf("Index and HasIndex do not both have a branch for %s receivers (Index: %v, HasIndex: %v)", k, a != nil, b != nil))
			continue
		}
		ra, oa := rejections(rr.Ctx, info, a, "panic", recvObj(info, idx))
		rb, ob := rejections(rr.Ctx, info, b, "false", recvObj(info, has))
		if oa || ob {
			// one side decides through a helper this rule cannot read: what can be read must still be rejected by the other side
			var miss []string
			if oa && !ob {
				miss = setMinus(ra, rb)
			} else if ob && !oa {
				miss = setMinus(rb, ra)
			}
			if len(miss) > 0 {
				rr.Violation(key, a.Pos(), fmt.Sprintf("for %s receivers Index panics on {%s} but HasIndex answers False on {%s}: an index lookup must succeed exactly when HasIndex is true", k, strings.Join(ra, " ; "), strings.Join(rb, " ; ")))
				continue
			}
			rr.Assumed(key, a.Pos(), "a rejection is decided by a helper whose conditions could not be rendered; the readable conditions agree")
			continue
		}
		if strings.Join(ra, " ;; ") != strings.Join(rb, " ;; ") {
			rr.Violation(key, a.Pos(), fmt.Sprintf("for %s receivers Index panics on {%s} but HasIndex answers False on {%s}: an index lookup must succeed exactly when HasIndex is true", k, strings.Join(ra, " ; "), strings.Join(rb, " ; ")))
			continue
		}
		rr.OK(key, a.Pos(), fmt.Sprintf("same rejected key conditions: {%s}", strings.Join(ra, " ; ")))
	}
	// list and tuple branches of Index validate the key identically
	if l, t := ic["List"], ic["Tuple"]; l != nil && t != nil {
		rl, ol := rejections(rr.Ctx, info, l, "panic", recvObj(info, idx))
		rt, ot := rejections(rr.Ctx, info, t, "panic", recvObj(info, idx))
		key := "cty.Value.Index[List~Tuple]"
		if ol || ot {
			rr.Assumed(key, l.Pos(), "a rejection is decided by a helper whose conditions could not be rendered")
		} else if strings.Join(rl, ";") != strings.Join(rt, ";") {
			rr.Violation(key, l.Pos(), fmt.Sprintf("the list branch rejects {%s}, the tuple branch {%s}", strings.Join(rl, " ; "), strings.Join(rt, " ; ")))
		} else {
			rr.OK(key, l.Pos(), "list and tuple branches reject the same keys")
		}
	}
}

// ---------------------------------------------------------------------------
// C02.map-lookup-presence

func isPayloadMap(t types.Type) bool {
	m, ok := t.Underlying().(*types.Map)
	if !ok {
		return false
	}
	if b, ok := m.Key().Underlying().(*types.Basic); !ok || b.Kind() != types.String {
		return false
	}
	i, ok := m.Elem().Underlying().(*types.Interface)
	return ok && i.Empty()
}

func runMapLookupPresence(rr *RuleRun) {
	c := rr.Ctx
	info := c.Info("cty")
	for _, fd := range c.SortedDecls("cty") {
		var sites []*ast.IndexExpr
		parentOf := map[ast.Node]ast.Node{}
		var stack []ast.Node
		ast.Inspect(fd.Body, func(n ast.Node) bool {
			if n == nil {
				stack = stack[:len(stack)-1]
				return true
			}
			if len(stack) > 0 {
				parentOf[n] = stack[len(stack)-1]
			}
			stack = append(stack, n)
			if ix, ok := n.(*ast.IndexExpr); ok && isPayloadMap(info.TypeOf(ix.X)) {
				sites = append(sites, ix)
			}
			return true
		})
		if len(sites) == 0 {
			continue
		}
		var facts *FactResult
		for _, ix := range sites {
			par := parentOf[ix]
			// writes and comma-ok forms are not value-producing plain reads
			if as, ok := par.(*ast.AssignStmt); ok {
				isLHS := false
				for _, l := range as.Lhs {
					if l == ast.Expr(ix) {
						isLHS = true
					}
				}
				if isLHS {
					continue
				}
				if len(as.Lhs) == 2 && len(as.Rhs) == 1 && as.Rhs[0] == ast.Expr(ix) {
					rr.OKTrivial(siteKey(fd, ix), ix.Pos(), "comma-ok lookup")
					continue
				}
			}
			mapStr, keyObj := exprStr(ix.X), objOf(info, ix.Index)
			key := siteKey(fd, ix)
			if keyObj == nil {
				rr.Assumed(key, ix.Pos(), "key is not a plain variable: "+exprStr(ix.Index))
				continue
			}
			// enclosing range statements binding the key
			how := ""
			for p := parentOf[ix]; p != nil; p = parentOf[p] {
				rs, ok := p.(*ast.RangeStmt)
				if !ok || rs.Key == nil || objOf(info, rs.Key) != keyObj {
					continue
				}
				switch {
				case exprStr(rs.X) == mapStr:
					how = "iteration over the same map"
				case isAttrTypesMap(info.TypeOf(rs.X)):
					how = "key ranges over the attribute names of an object type (" + exprStr(rs.X) + ")"
				case isPayloadMap(info.TypeOf(rs.X)):
					how = "" // key comes from a different payload map: needs a presence test
				}
				break
			}
			if how != "" {
				rr.OK(key, ix.Pos(), how)
				continue
			}
			if facts == nil {
				facts = c.CFG(fd.Body, info).MustFacts(presenceSpec(info, fd))
			}
			fs, ok := facts.At(ix)
			if ok && (fs.has("present", mapStr+"|"+objKey(keyObj)) || fs.has("present", "attr|"+objKey(keyObj))) {
				rr.OK(key, ix.Pos(), "dominated by a presence test of the same key that exits on absence")
				continue
			}
			if why := callerControlledKey(info, fd, keyObj, parentOf, ix); why == "" {
				rr.Assumed(key, ix.Pos(), "no presence test in this function, but the key is not caller-controlled here ("+exprStr(ix.Index)+" comes from internal state): relies on an invariant established elsewhere")
				continue
			}
			rr.Violation(key, ix.Pos(), fmt.Sprintf("%s[%s] is read without a presence test: for a missing key the zero payload is used, i.e. a null member appears where there is none (an index lookup must be rejected exactly when has-index is false; equality must notice differing key sets)", mapStr, exprStr(ix.Index)))
		}
	}
}

// callerControlledKey: the key is a (non-receiver) parameter, is computed only from such
// parameters, or ranges over a different payload map. "" = not established.
func callerControlledKey(info *types.Info, fd *ast.FuncDecl, keyObj types.Object, parentOf map[ast.Node]ast.Node, ix *ast.IndexExpr) string {
	params := map[types.Object]bool{}
	for _, f := range fd.Type.Params.List {
		for _, n := range f.Names {
			if o := info.Defs[n]; o != nil {
				params[o] = true
			}
		}
	}
	if params[keyObj] {
		return "parameter"
	}
	for p := parentOf[ix]; p != nil; p = parentOf[p] {
		if rs, ok := p.(*ast.RangeStmt); ok && rs.Key != nil && objOf(info, rs.Key) == keyObj && isPayloadMap(info.TypeOf(rs.X)) {
			return "ranges over a different map"
		}
	}
	st, idx, rhs := findDefine(info, fd, keyObj)
	if st == nil || countAssigns(info, fd, keyObj) > 0 || len(rhs) == 0 {
		return ""
	}
	e := rhs[0]
	if len(rhs) > idx && len(rhs) > 1 {
		e = rhs[idx]
	}
	onlyParams, any := true, false
	ast.Inspect(e, func(n ast.Node) bool {
		if id, ok := n.(*ast.Ident); ok {
			if v, ok := info.Uses[id].(*types.Var); ok && !v.IsField() {
				if v.Pkg() != nil && v.Parent() == v.Pkg().Scope() {
					return true
				}
				any = true
				if !params[v] {
					onlyParams = false
				}
			}
		}
		return true
	})
	if any && onlyParams {
		return "computed from parameters"
	}
	return ""
}

func siteKey(fd *ast.FuncDecl, ix *ast.IndexExpr) string {
	return "cty." + declName(fd) + "/" + exprStr(ix.X) + "[" + exprStr(ix.Index) + "]"
}

func isAttrTypesMap(t types.Type) bool {
	if t == nil {
		return false
	}
	m, ok := t.Underlying().(*types.Map)
	return ok && isCtyType(m.Elem())
}

// presenceSpec: facts present(<map expr>|<key obj>) from comma-ok lookups, present(attr|<key obj>) from HasAttribute.
func presenceSpec(info *types.Info, root *ast.FuncDecl) *FactSpec {
	atom := func(cond ast.Expr, truth bool) []Fact {
		cond = ast.Unparen(cond)
		if call, ok := cond.(*ast.CallExpr); ok && truth && len(call.Args) == 1 {
			if isCall(info, call, "cty.Type.HasAttribute") {
				if o := objOf(info, call.Args[0]); o != nil {
					return []Fact{{"present", "attr|" + objKey(o)}}
				}
			}
		}
		if id, ok := cond.(*ast.Ident); ok && truth {
			obj := objOf(info, id)
			if obj == nil {
				return nil
			}
			st, idx, rhs := findDefine(info, root, obj)
			if st == nil || idx != 1 || len(rhs) != 1 || countAssigns(info, root, obj) > 0 {
				return nil
			}
			if ix, ok := ast.Unparen(rhs[0]).(*ast.IndexExpr); ok && isPayloadMap(info.TypeOf(ix.X)) {
				if ko := objOf(info, ix.Index); ko != nil {
					return []Fact{{"present", exprStr(ix.X) + "|" + objKey(ko)}}
				}
			}
		}
		return nil
	}
	return &FactSpec{Atom: atom}
}

// ---------------------------------------------------------------------------
// C01.range-corners

func runRangeCorners(rr *RuleRun) {
	info := rr.Ctx.Info("cty")
	fd := rr.MustDecl("cty", "numericRangeArithmetic")
	if fd == nil {
		return
	}
	// bounds: locals defined from <range param>.NumberLowerBound()/NumberUpperBound()
	type bound struct {
		param types.Object
		side  string
	}
	bounds := map[types.Object]bound{}
	corners := map[types.Object][2]bound{} // local := wrapOp(x, y)
	var mostCalls []*ast.CallExpr
	ast.Inspect(fd.Body, func(n ast.Node) bool {
		switch x := n.(type) {
		case *ast.AssignStmt:
			if len(x.Rhs) != 1 || len(x.Lhs) < 1 {
				return true
			}
			call, ok := ast.Unparen(x.Rhs[0]).(*ast.CallExpr)
			if !ok {
				return true
			}
			lo := objOf(info, x.Lhs[0])
			if lo == nil {
				return true
			}
			switch funcKey(callee(info, call)) {
			case "cty.ValueRange.NumberLowerBound", "cty.ValueRange.NumberUpperBound":
				side := "min"
				if strings.HasSuffix(funcKey(callee(info, call)), "UpperBound") {
					side = "max"
				}
				if p := objOf(info, call.Fun.(*ast.SelectorExpr).X); p != nil {
					bounds[lo] = bound{p, side}
				}
			default:
				// a call of a local function value with two bound arguments
				if len(call.Args) == 2 {
					a, b := objOf(info, call.Args[0]), objOf(info, call.Args[1])
					ba, oka := bounds[a]
					bb, okb := bounds[b]
					if oka && okb {
						corners[lo] = [2]bound{ba, bb}
					}
				}
			}
		case *ast.CallExpr:
			if isCall(info, x, "cty.mostNumberValue") {
				mostCalls = append(mostCalls, x)
			}
		}
		return true
	})
	// all four corners
	seen := map[string]types.Object{}
	for o, c := range corners {
		if c[0].param == c[1].param {
			continue
		}
		seen[c[0].side+"×"+c[1].side] = o
	}
	var missing []string
	for _, k := range []string{"min×min", "min×max", "max×min", "max×max"} {
		if seen[k] == nil {
			missing = append(missing, k)
		}
	}
	if len(missing) > 0 {
		rr.Violation("cty.numericRangeArithmetic/corners", fd.Pos(), "the operation is not evaluated on the corner pair(s) "+strings.Join(missing, ", ")+": the extreme of a non-monotone operation (multiplication over negative ranges) can lie on any corner")
	} else {
		rr.OK("cty.numericRangeArithmetic/corners", fd.Pos(), "operation evaluated on all four corner pairs")
	}
	if len(mostCalls) != 2 {
		rr.Violation("cty.numericRangeArithmetic/extremes", fd.Pos(), fmt.Sprintf("expected one minimum and one maximum over the corners, found %d mostNumberValue calls", len(mostCalls)))
		return
	}
	sort.Slice(mostCalls, func(i, j int) bool { return mostCalls[i].Pos() < mostCalls[j].Pos() })
	for i, call := range mostCalls {
		which := []string{"minimum", "maximum"}[i]
		got := map[types.Object]bool{}
		for _, a := range call.Args[1:] {
			if o := objOf(info, a); o != nil {
				got[o] = true
			}
		}
		var miss []string
		for _, k := range []string{"min×min", "min×max", "max×min", "max×max"} {
			if o := seen[k]; o != nil && !got[o] {
				miss = append(miss, k+" ("+o.Name()+")")
			}
		}
		key := "cty.numericRangeArithmetic/" + which
		if len(miss) > 0 {
			rr.Violation(key, call.Pos(), "the "+which+" is not taken over the corner(s) "+strings.Join(miss, ", ")+": the resulting range can exclude a concrete result")
		} else {
			rr.OK(key, call.Pos(), "taken over all four corners")
		}
	}
	_ = token.NoPos
}

func recvObj(info *types.Info, fd *ast.FuncDecl) types.Object {
	if fd.Recv == nil || len(fd.Recv.List) == 0 || len(fd.Recv.List[0].Names) == 0 {
		return nil
	}
	return info.Defs[fd.Recv.List[0].Names[0]]
}

func mentionsAny(info *types.Info, n ast.Node, set map[types.Object]bool) bool {
	found := false
	ast.Inspect(n, func(x ast.Node) bool {
		if id, ok := x.(*ast.Ident); ok {
			if o := info.Uses[id]; o != nil && set[o] {
				found = true
			}
		}
		return !found
	})
	return found
}
