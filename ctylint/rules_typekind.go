package main

import (
	"fmt"
	"go/ast"
	"go/types"
	"sort"
	"strings"
)

// Partial accessors of cty.Type and the kinds they are defined for. Calling one on a type of
// another kind panics ("not a collection type", ...).
var typeREQ = map[string][]string{
	"cty.Type.ElementType":        {"List", "Map", "Set"},
	"cty.Type.AttributeTypes":     {"Object"},
	"cty.Type.AttributeType":      {"Object"},
	"cty.Type.HasAttribute":       {"Object"},
	"cty.Type.AttributeOptional":  {"Object"},
	"cty.Type.OptionalAttributes": {"Object"},
	"cty.Type.TupleElementTypes":  {"Tuple"},
	"cty.Type.TupleElementType":   {"Tuple"},
	"cty.Type.Length":             {"Tuple"},
	"cty.Type.EncapsulatedType":   {"Capsule"},
	"cty.Type.CapsuleOps":         {"Capsule"},
}

func init() {
	register(&Rule{
		ID: "C19.kind-contradiction", Prop: "C19", Also: []string{"C11", "C08", "C13", "C14"}, Floor: 40, Controls: 1,
		Doc: "belief rule: where a function itself tests the kind of a type and then calls a kind-specific accessor of that type (ElementType, AttributeTypes, TupleElementTypes, ...), the kinds its own guards leave possible at the call all lie in the accessor's domain — e.g. after 'list or tuple' a collection-only accessor is a contradiction (it panics for the tuple the guard admitted)",
		Run: runKindContradiction,
	})
}

func runKindContradiction(rr *RuleRun) {
	c := rr.Ctx
	eachFuncBody(c, allPkgs, func(pkg string, fd *ast.FuncDecl, body *ast.BlockStmt) {
		info := c.Info(pkg)
		type site struct {
			call *ast.CallExpr
			subj string
			acc  string
		}
		var sites []site
		inspectNoLit(body, func(n ast.Node) bool {
			call, ok := n.(*ast.CallExpr)
			if !ok {
				return true
			}
			k := funcKey(callee(info, call))
			if _, ok := typeREQ[k]; !ok {
				return true
			}
			se, ok := call.Fun.(*ast.SelectorExpr)
			if !ok {
				return true
			}
			if sk := subjKey(info, se.X); sk != "" {
				sites = append(sites, site{call, sk, k})
			}
			return true
		})
		if len(sites) == 0 {
			return
		}
		// single-assignment type aliases (ty := val.ty / ty := val.Type()) name the same immutable type:
		// facts about either hold for both
		canon := map[string]string{}
		inspectNoLit(body, func(n ast.Node) bool {
			as, ok := n.(*ast.AssignStmt)
			if !ok || len(as.Lhs) != 1 || len(as.Rhs) != 1 || !isCtyType(info.TypeOf(as.Rhs[0])) {
				return true
			}
			lo := objOf(info, as.Lhs[0])
			from := subjKey(info, as.Rhs[0])
			if lo == nil || from == "" || countAssigns(info, body, lo) > 0 {
				return true
			}
			// the source's root must not be reassigned either
			rootName := from
			if i := strings.IndexAny(rootName, ".["); i > 0 {
				rootName = rootName[:i]
			}
			reassigned := false
			inspectNoLit(body, func(m ast.Node) bool {
				if a2, ok := m.(*ast.AssignStmt); ok && a2 != as {
					for _, l := range a2.Lhs {
						if o := objOf(info, l); o != nil && objKey(o) == rootName && a2.Pos() > as.Pos() {
							reassigned = true
						}
					}
				}
				return true
			})
			if !reassigned {
				canon[objKey(lo)] = from
			}
			return true
		})
		cz := func(k string) string {
			for i := 0; i < 4; i++ {
				if to, ok := canon[k]; ok {
					k = to
					continue
				}
				break
			}
			return k
		}
		base := valueFacts(info, body)
		spec := &FactSpec{
			Atom: func(cond ast.Expr, truth bool) []Fact {
				fs := base.Atom(cond, truth)
				for i := range fs {
					fs[i].Subj = cz(fs[i].Subj)
				}
				return fs
			},
			Effects: func(n ast.Node) []Effect {
				es := base.Effects(n)
				var out []Effect
				for _, e := range es {
					if e.CopyTo != "" {
						e.CopyFrom, e.CopyTo = cz(e.CopyFrom), cz(e.CopyTo)
						if e.CopyFrom == e.CopyTo {
							continue
						}
					}
					out = append(out, e)
				}
				return out
			},
		}
		for i := range sites {
			sites[i].subj = cz(sites[i].subj)
		}
		g := c.CFG(body, info)
		runs := map[string]*WorldResult{}
		for _, s := range sites {
			wr, ok := runs[s.subj]
			if !ok {
				// the subject and whatever it is an alias of
				focus := []string{s.subj}
				inspectNoLit(body, func(n ast.Node) bool {
					if as, ok := n.(*ast.AssignStmt); ok && len(as.Lhs) == 1 && len(as.Rhs) == 1 && subjKey(info, as.Lhs[0]) == s.subj {
						if from := subjKey(info, as.Rhs[0]); from != "" {
							focus = append(focus, from)
						}
					}
					return true
				})
				wr = g.WorldsFocused(spec, nil, nil, focus)
				runs[s.subj] = wr
			}
			acc := strings.TrimPrefix(s.acc, "cty.Type.")
			key := fmt.Sprintf("%s.%s/%s(%s)", pkg, declName(fd), acc, displaySubj(s.subj))
			// kind atoms the function tests on this subject
			var tested []string
			for _, a := range wr.atoms {
				if a.Subj == s.subj && strings.HasPrefix(a.Dim, "kind=") {
					tested = append(tested, strings.TrimPrefix(a.Dim, "kind="))
				}
			}
			sort.Strings(tested)
			if len(tested) == 0 {
				rr.OKTrivial(key, s.call.Pos(), "the function does not test the kind of this type itself (caller's obligation)")
				continue
			}
			worlds, reach := wr.at(s.call)
			if !reach || len(worlds) == 0 {
				rr.OKTrivial(key, s.call.Pos(), "unreachable under the function's own guards")
				continue
			}
			allowed := typeREQ[s.acc]
			inDomain := func(k string) bool {
				for _, x := range expandKind(k) {
					ok := false
					for _, a := range allowed {
						if a == x {
							ok = true
						}
					}
					if !ok {
						return false
					}
				}
				return true
			}
			bad := ""
			for w := range worlds {
				// a world is contradictory when it asserts a tested kind outside the domain
				for _, k := range tested {
					v, _ := wr.get(w, atomID{"kind=" + k, s.subj})
					if v && !inDomain(k) && !overlaps(k, allowed) {
						bad = k
					}
				}
			}
			if bad != "" {
				rr.Violation(key, s.call.Pos(), fmt.Sprintf("%s() is defined for %s types only, but the function's own guards let a %s type reach this call (kinds it tests on %s: %s): it panics for exactly the case the guard admitted", acc, strings.Join(allowed, "/"), bad, displaySubj(s.subj), strings.Join(tested, ", ")))
			} else {
				rr.OK(key, s.call.Pos(), fmt.Sprintf("kinds tested on %s (%s) leave only %s types, or nothing established, at the call", displaySubj(s.subj), strings.Join(tested, ", "), strings.Join(allowed, "/")))
			}
		}
	})
}

func overlaps(k string, allowed []string) bool {
	for _, x := range expandKind(k) {
		for _, a := range allowed {
			if a == x {
				return true
			}
		}
	}
	return false
}

var _ = types.Typ
