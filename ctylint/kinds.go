package main

import (
	"go/ast"
	"go/token"
	"go/types"
	"sort"
	"strings"
)

// KIND — which of the ten kinds does a function test on a subject type?

type kindResult struct {
	Kinds    map[string]token.Pos // kind → first position where it is tested
	Residual string               // "panic", "error", "none" for the widest kind switch
	Funcs    []string             // functions visited
}

func (k *kindResult) missing(want []string) []string {
	var out []string
	for _, w := range want {
		if _, ok := k.Kinds[w]; !ok {
			out = append(out, w)
		}
	}
	return out
}

func (k *kindResult) list() string {
	var l []string
	for x := range k.Kinds {
		l = append(l, x)
	}
	sort.Strings(l)
	return strings.Join(l, ",")
}

var implTypeKind = map[string]string{
	"cty.primitiveType": "Primitive", "cty.typeList": "List", "cty.typeMap": "Map", "cty.typeSet": "Set",
	"cty.typeObject": "Object", "cty.typeTuple": "Tuple", "cty.capsuleType": "Capsule", "cty.pseudoTypeDynamic": "Dynamic",
}

var primConstKind = map[string]string{"primitiveTypeBool": "Bool", "primitiveTypeNumber": "Number", "primitiveTypeString": "String"}

// kindsTested analyses fd with the given subject keys (subjKey strings of cty.Type
// expressions, e.g. key(t) for a Type parameter or key(val)+".ty" for a Value).
func kindsTested(c *Ctx, fd *ast.FuncDecl, body ast.Node, subjects []string, depth int, res *kindResult, visited map[*ast.FuncDecl]bool) {
	info := c.InfoFor(fd.Pos())
	if res.Kinds == nil {
		res.Kinds = map[string]token.Pos{}
	}
	if fd != nil {
		if visited[fd] {
			return
		}
		visited[fd] = true
		res.Funcs = append(res.Funcs, c.ShortOf(fd.Pos())+"."+declName(fd))
	}
	subj := map[string]bool{}
	for _, s := range subjects {
		subj[s] = true
	}
	// aliases: x := <subject>
	for changed := true; changed; {
		changed = false
		ast.Inspect(body, func(n ast.Node) bool {
			as, ok := n.(*ast.AssignStmt)
			if !ok {
				return true
			}
			for i := range as.Lhs {
				if len(as.Lhs) != len(as.Rhs) {
					break
				}
				if k := subjKey(info, as.Rhs[i]); k != "" && subj[k] {
					if lk := subjKey(info, as.Lhs[i]); lk != "" && !subj[lk] {
						subj[lk] = true
						changed = true
					}
				}
				// ty := val.Type() with val a Value subject root is covered by subjKey (".ty")
			}
			// raw, _ := val.Unmark(): the unmarked value has the same type
			if len(as.Rhs) == 1 && len(as.Lhs) >= 1 {
				if call, ok := ast.Unparen(as.Rhs[0]).(*ast.CallExpr); ok && isCall(info, call, "cty.Value.Unmark", "cty.Value.UnmarkDeep", "cty.Value.unmarkForce", "cty.Value.UnmarkDeepWithPaths") {
					if se, ok := ast.Unparen(call.Fun).(*ast.SelectorExpr); ok {
						if k := subjKey(info, se.X); k != "" && subj[k+".ty"] {
							if lk := subjKey(info, as.Lhs[0]); lk != "" && !subj[lk+".ty"] {
								subj[lk+".ty"] = true
								changed = true
							}
						}
					}
				}
			}
			return true
		})
	}
	isSubj := func(e ast.Expr) bool {
		k := subjKey(info, e)
		return k != "" && subj[k]
	}
	add := func(kind string, pos token.Pos) {
		for _, k := range expandKind(kind) {
			if _, ok := res.Kinds[k]; !ok {
				res.Kinds[k] = pos
			}
		}
	}
	implSubject := func(e ast.Expr) bool { // S.typeImpl
		se, ok := ast.Unparen(e).(*ast.SelectorExpr)
		return ok && se.Sel.Name == "typeImpl" && isSubj(se.X)
	}
	implVars := map[types.Object]bool{} // impl := t.typeImpl.(type)
	ast.Inspect(body, func(n ast.Node) bool {
		switch x := n.(type) {
		case *ast.CallExpr:
			if se, ok := ast.Unparen(x.Fun).(*ast.SelectorExpr); ok {
				if f := callee(info, x); f != nil {
					if kp := kindPredicate(funcKey(f)); kp != "" && isSubj(se.X) {
						add(kp, x.Pos())
					}
					// t.Equals(cty.X) / cty.X.Equals(t)
					if funcKey(f) == "cty.Type.Equals" && len(x.Args) == 1 {
						if k := kindOfTypeExpr(info, x.Args[0]); k != "" && isSubj(se.X) {
							add(k, x.Pos())
						}
						if k := kindOfTypeExpr(info, se.X); k != "" && isSubj(x.Args[0]) {
							add(k, x.Pos())
						}
					}
				}
			}
			// follow same-module callees that receive the subject
			if depth > 0 {
				if f := callee(info, x); f != nil && strings.HasPrefix(f.Pkg().Path(), modPath) {
					if cd := findFuncDecl(f); cd != nil && cd.Body != nil {
						cinfo := c.InfoFor(cd.Pos())
						var subs []string
						sig := f.Type().(*types.Signature)
						for i, a := range x.Args {
							if i < sig.Params().Len() && isSubj(a) {
								if id := paramIdent(cd, i); id != nil {
									subs = append(subs, objKey(cinfo.Defs[id]))
								}
							}
							// Value argument whose .ty is a subject
							if i < sig.Params().Len() && isCtyValue(info.TypeOf(a)) {
								if k := subjKey(info, a); k != "" && subj[k+".ty"] {
									if id := paramIdent(cd, i); id != nil {
										subs = append(subs, objKey(cinfo.Defs[id])+".ty")
									}
								}
							}
						}
						// method on the subject itself
						if se, ok := ast.Unparen(x.Fun).(*ast.SelectorExpr); ok && sig.Recv() != nil && cd.Recv != nil && len(cd.Recv.List[0].Names) == 1 {
							if isSubj(se.X) {
								subs = append(subs, objKey(cinfo.Defs[cd.Recv.List[0].Names[0]]))
							} else if isCtyValue(info.TypeOf(se.X)) {
								if k := subjKey(info, se.X); k != "" && subj[k+".ty"] {
									subs = append(subs, objKey(cinfo.Defs[cd.Recv.List[0].Names[0]])+".ty")
								}
							}
						}
						if len(subs) > 0 {
							kindsTested(c, cd, cd.Body, subs, depth-1, res, visited)
						}
					}
				}
			}
		case *ast.BinaryExpr:
			if x.Op == token.EQL || x.Op == token.NEQ {
				if k := kindOfTypeExpr(info, x.Y); k != "" && isSubj(x.X) {
					add(k, x.Pos())
				}
				if k := kindOfTypeExpr(info, x.X); k != "" && isSubj(x.Y) {
					add(k, x.Pos())
				}
			}
		case *ast.SwitchStmt:
			if x.Tag != nil && isSubj(x.Tag) {
				for _, cl := range x.Body.List {
					for _, e := range cl.(*ast.CaseClause).List {
						if k := kindOfTypeExpr(info, e); k != "" {
							add(k, e.Pos())
						}
					}
				}
			}
			// switch impl.Kind { case primitiveTypeBool: … }
			if x.Tag != nil {
				if se, ok := ast.Unparen(x.Tag).(*ast.SelectorExpr); ok && se.Sel.Name == "Kind" {
					for _, cl := range x.Body.List {
						for _, e := range cl.(*ast.CaseClause).List {
							if o := objOf(info, e); o != nil {
								if k, ok := primConstKind[o.Name()]; ok {
									add(k, e.Pos())
								}
							}
						}
					}
				}
			}
		case *ast.TypeSwitchStmt:
			var ta *ast.TypeAssertExpr
			switch a := x.Assign.(type) {
			case *ast.AssignStmt:
				ta, _ = a.Rhs[0].(*ast.TypeAssertExpr)
			case *ast.ExprStmt:
				ta, _ = a.X.(*ast.TypeAssertExpr)
			}
			if ta == nil {
				return true
			}
			isImplVar := false
			if id, ok := ast.Unparen(ta.X).(*ast.Ident); ok && implVars[objOf(info, id)] {
				isImplVar = true
			}
			if !implSubject(ta.X) && !isImplVar {
				return true
			}
			for _, cl := range x.Body.List {
				cc := cl.(*ast.CaseClause)
				for _, e := range cc.List {
					if k, ok := implTypeKind[namedType(info.TypeOf(e))]; ok {
						if k == "Primitive" {
							continue // needs the Kind sub-switch
						}
						add(k, e.Pos())
					}
				}
				if o := info.Implicits[cc]; o != nil {
					implVars[o] = true
				}
			}
		case *ast.TypeAssertExpr:
			if x.Type != nil && implSubject(x.X) {
				if k, ok := implTypeKind[namedType(info.TypeOf(x.Type))]; ok && k != "Primitive" {
					add(k, x.Pos())
				}
			}
		}
		return true
	})
	// residual of the widest switch (entry function only)
	if len(visited) > 1 {
		return
	}
	if res.Residual == "" {
		res.Residual = "none"
	}
	// a trailing panic / error return after an if-chain is a residual too
	if bs, ok := body.(*ast.BlockStmt); ok && len(bs.List) > 0 {
		switch last := bs.List[len(bs.List)-1].(type) {
		case *ast.ExprStmt:
			if call, ok := last.X.(*ast.CallExpr); ok && isBuiltin(info, call, "panic") {
				res.Residual = "panic"
			}
		case *ast.ReturnStmt:
			if len(last.Results) > 0 {
				e := last.Results[len(last.Results)-1]
				if t := info.TypeOf(e); t != nil && t.String() == "error" && !isNilIdent(info, e) && res.Residual == "none" {
					res.Residual = "error"
				}
			}
		}
	}
	ast.Inspect(body, func(n ast.Node) bool {
		var clauses []ast.Stmt
		switch x := n.(type) {
		case *ast.SwitchStmt:
			clauses = x.Body.List
		case *ast.TypeSwitchStmt:
			clauses = x.Body.List
		default:
			return true
		}
		if len(clauses) < 4 {
			return true
		}
		for _, cl := range clauses {
			cc := cl.(*ast.CaseClause)
			if cc.List != nil {
				continue
			}
			r := "none"
			for _, st := range cc.Body {
				ast.Inspect(st, func(y ast.Node) bool {
					if call, ok := y.(*ast.CallExpr); ok && isBuiltin(info, call, "panic") {
						r = "panic"
					}
					if ret, ok := y.(*ast.ReturnStmt); ok && len(ret.Results) > 0 && r != "panic" {
						last := ret.Results[len(ret.Results)-1]
						if t := info.TypeOf(last); t != nil && t.String() == "error" && !isNilIdent(info, last) {
							r = "error"
						}
					}
					return true
				})
			}
			if res.Residual == "none" || r == "panic" {
				res.Residual = r
			}
		}
		return true
	})
}

// kindsOf is the convenience entry: function decl + subject parameter(s).
func kindsOf(c *Ctx, fd *ast.FuncDecl, subjects []string, depth int) *kindResult {
	installFindFuncDecl(c)
	res := &kindResult{}
	kindsTested(c, fd, fd.Body, subjects, depth, res, map[*ast.FuncDecl]bool{})
	return res
}

// recvKey / paramKey give subject keys for a declaration's receiver or i-th parameter.
func recvKey(info *types.Info, fd *ast.FuncDecl) string {
	if fd.Recv == nil || len(fd.Recv.List) == 0 || len(fd.Recv.List[0].Names) == 0 {
		return ""
	}
	return objKey(info.Defs[fd.Recv.List[0].Names[0]])
}

func paramKey(info *types.Info, fd *ast.FuncDecl, i int) string {
	id := paramIdent(fd, i)
	if id == nil || info.Defs[id] == nil {
		return ""
	}
	return objKey(info.Defs[id])
}

func paramKeyByName(info *types.Info, fd *ast.FuncDecl, name string) string {
	for _, f := range fd.Type.Params.List {
		for _, n := range f.Names {
			if n.Name == name && info.Defs[n] != nil {
				return objKey(info.Defs[n])
			}
		}
	}
	return ""
}
