package main

import (
	"fmt"
	"go/ast"
	"go/token"
	"go/types"
	"sort"
	"strings"

	"golang.org/x/tools/go/cfg"
)

func init() {
	register(&Rule{
		ID: "C05.builder-discipline", Prop: "C05", Floor: 10, Controls: 0,
		Doc: "every mutator of RefinementBuilder starts with the 'not refineable ⇒ return unchanged' exit (the dynamic value ignores refinement); every store of a bound or prefix into the working refinement is dominated by a condition that consults the existing value of that same bound (keep the tighter one) and by one that consults the value being refined (contradiction with a known value), and every numeric or length bound store is followed on all paths by the consistency assertion before the builder is returned",
		Run: runBuilderDiscipline,
	})
	register(&Rule{
		ID: "C05.safe-prefix-route", Prop: "C05", Also: []string{"C16"}, Floor: 2, Controls: 0,
		Doc: "StringPrefix records its argument only after ctystrings.SafeKnownPrefix, and any other caller that cuts a prefix by slicing passes the cut through SafeKnownPrefix before it is recorded or written",
		Run: runSafePrefixRoute,
	})
	register(&Rule{
		ID: "C06.single-mark-layer", Prop: "C06", Also: []string{"C04"}, Floor: 1, Controls: 1,
		Doc: "wherever a marker wrapper is built, the payload placed under it is unwrapped first: it is another marker's realV, or a payload that was tested not to be a marker on the path (a value carries at most one layer of marks)",
		Run: runSingleMarkLayer,
	})
	register(&Rule{
		ID: "C06.literal-payload-kind", Prop: "C06", Floor: 30, Controls: 1,
		Doc: "every Value{ty: T, v: X} literal in package cty whose type expression names a kind has a payload of the Go type that kind dictates (bool, *big.Float, string, []interface{}, map[string]interface{}, set.Set[interface{}]), nil, the unknown sigil, or a payload read out of a container of that kind",
		Run: runLiteralPayloadKind,
	})
	register(&Rule{
		ID: "C07.conformance-ignores-optional", Prop: "C07", Floor: 1, Controls: 0,
		Doc: "conformance disregards optional-attribute annotations: testConformance neither calls AttributeOptional / OptionalAttributes nor reads AttrOptional",
		Run: runConformanceIgnoresOptional,
	})
	register(&Rule{
		ID: "C03.set-protocol", Prop: "C03", Floor: 5, Controls: 0,
		Doc: "in package set only Add and Remove write the buckets of an existing set; Add, Remove and Has each key the bucket map with rules.Hash of the value and compare members with rules.Equivalent; Add appends only after the loop that returns on an equivalent member (a set never holds two equivalent members); the set algebra builds its results only through NewSet, Add and Has",
		Run: runSetProtocol,
	})
}

// ---------------------------------------------------------------------------
// C05.builder-discipline

var boundFamily = map[string]string{"min": "min", "minInc": "min", "max": "max", "maxInc": "max", "minLen": "minLen", "maxLen": "maxLen", "prefix": "prefix"}

func runBuilderDiscipline(rr *RuleRun) {
	c := rr.Ctx
	info := c.Info("cty")
	for _, fd := range c.SortedDecls("cty") {
		if recvTypeName(fd) != "RefinementBuilder" || !fd.Name.IsExported() || c.IsControl(fd.Pos()) {
			continue
		}
		fn, _ := info.Defs[fd.Name].(*types.Func)
		if fn == nil {
			continue
		}
		sig := fn.Type().(*types.Signature)
		if sig.Results().Len() != 1 || namedType(sig.Results().At(0).Type()) != "cty.RefinementBuilder" {
			continue
		}
		key := "cty.RefinementBuilder." + fd.Name.Name
		recv := recvObj(info, fd)
		// stores into the working refinement
		type store struct {
			as    *ast.AssignStmt
			field string
		}
		var stores []store
		inspectNoLit(fd.Body, func(n ast.Node) bool {
			as, ok := n.(*ast.AssignStmt)
			if !ok {
				return true
			}
			for _, l := range as.Lhs {
				if se, ok := l.(*ast.SelectorExpr); ok {
					if sel, ok := info.Selections[se]; ok && sel.Kind() == types.FieldVal && strings.HasPrefix(namedType(sel.Recv()), "cty.refinement") {
						stores = append(stores, store{as, se.Sel.Name})
					}
				}
			}
			return true
		})
		// (1) first statement
		first := false
		if len(fd.Body.List) > 0 {
			if ifs, ok := fd.Body.List[0].(*ast.IfStmt); ok {
				if u, ok := ast.Unparen(ifs.Cond).(*ast.UnaryExpr); ok && u.Op == token.NOT {
					if call, ok := ast.Unparen(u.X).(*ast.CallExpr); ok && isCall(info, call, "cty.RefinementBuilder.refineable") && len(ifs.Body.List) == 1 {
						if ret, ok := ifs.Body.List[0].(*ast.ReturnStmt); ok && len(ret.Results) == 1 && objOf(info, ret.Results[0]) == recv {
							first = true
						}
					}
				}
			}
		}
		if !first {
			if len(stores) == 0 {
				rr.OKTrivial(key+"/refineable-first", fd.Pos(), "delegates to other mutators (no store of its own)")
			} else {
				rr.Violation(key+"/refineable-first", fd.Pos(), "the mutator writes the working refinement without first returning unchanged for a non-refineable value: refining the dynamic value must be ignored")
			}
		} else {
			rr.OK(key+"/refineable-first", fd.Pos(), "starts with 'if !b.refineable() { return b }'")
		}
		if len(stores) == 0 {
			continue
		}
		g := c.CFG(fd.Body, info)
		spec := &FactSpec{Atom: func(cond ast.Expr, truth bool) []Fact {
			var out []Fact
			ast.Inspect(cond, func(n ast.Node) bool {
				se, ok := n.(*ast.SelectorExpr)
				if !ok {
					return true
				}
				if sel, ok := info.Selections[se]; ok && sel.Kind() == types.FieldVal {
					if strings.HasPrefix(namedType(sel.Recv()), "cty.refinement") {
						if fam, ok := boundFamily[se.Sel.Name]; ok {
							out = append(out, Fact{"consulted", fam})
						}
					}
					if se.Sel.Name == "orig" && objOf(info, se.X) == recv {
						out = append(out, Fact{"consulted", "orig"})
					}
				}
				return true
			})
			// locals computed from b.orig (realLen := b.orig.Length(); violated = min.GreaterThan(b.orig))
			ast.Inspect(cond, func(n ast.Node) bool {
				if id, ok := n.(*ast.Ident); ok {
					if o := info.Uses[id]; o != nil {
						if assignedFromOrig(info, fd.Body, o, recv) {
							out = append(out, Fact{"consulted", "orig"})
						}
						if st, idx, rhs := findDefine(info, fd.Body, o); st != nil && idx < len(rhs) {
							ast.Inspect(rhs[idx], func(m ast.Node) bool {
								if se, ok := m.(*ast.SelectorExpr); ok && se.Sel.Name == "orig" && objOf(info, se.X) == recv {
									out = append(out, Fact{"consulted", "orig"})
								}
								return true
							})
						}
					}
				}
				return true
			})
			return out
		}}
		facts := g.MustFacts(spec)
		for _, s := range stores {
			fam, isBound := boundFamily[s.field]
			if !isBound {
				continue
			}
			k := fmt.Sprintf("%s/store %s", key, s.field)
			fs, ok := facts.At(s.as)
			if !ok {
				continue
			}
			var miss []string
			if !fs.has("consulted", fam) {
				miss = append(miss, "a condition consulting the existing "+fam+" bound (keep the tighter of the two)")
			}
			if !fs.has("consulted", "orig") {
				miss = append(miss, "a condition consulting the value being refined (a bound contradicting a known value must be rejected)")
			}
			if fam != "prefix" && !followedByAssert(c, info, g, s.as) {
				miss = append(miss, "the consistency assertion on every path from the store to the return")
			}
			if len(miss) > 0 {
				rr.Violation(k, s.as.Pos(), "the store is not protected by "+strings.Join(miss, "; nor by "))
			} else {
				rr.OK(k, s.as.Pos(), "dominated by the keep-tighter and known-value conditions; consistency asserted before return")
			}
		}
	}
}

// followedByAssert: no return is reachable from the statement without passing a call of assertConsistent*.
func followedByAssert(c *Ctx, info *types.Info, g *FuncCFG, st ast.Node) bool {
	l, _, ok := g.locate(st)
	if !ok {
		return false
	}
	isAssert := func(n ast.Node) bool {
		found := false
		ast.Inspect(n, func(x ast.Node) bool {
			if call, ok := x.(*ast.CallExpr); ok {
				if f := callee(info, call); f != nil && strings.HasPrefix(f.Name(), "assertConsistent") {
					found = true
				}
			}
			return true
		})
		return found
	}
	seen := map[int32]bool{}
	var dfs func(b *cfg.Block, i int) bool // true = reaches a return without assert
	dfs = func(b *cfg.Block, i int) bool {
		for ; i < len(b.Nodes); i++ {
			if isAssert(b.Nodes[i]) {
				return false
			}
			if _, ok := b.Nodes[i].(*ast.ReturnStmt); ok {
				return true
			}
		}
		for _, s := range b.Succs {
			if seen[s.Index] {
				continue
			}
			seen[s.Index] = true
			if dfs(s, 0) {
				return true
			}
		}
		return false
	}
	return !dfs(l.b, l.i+1)
}

// ---------------------------------------------------------------------------
// C05.safe-prefix-route

func runSafePrefixRoute(rr *RuleRun) {
	c := rr.Ctx
	info := c.Info("cty")
	fd := rr.MustDecl("cty", "RefinementBuilder.StringPrefix")
	if fd != nil {
		ok := false
		ast.Inspect(fd.Body, func(n ast.Node) bool {
			call, isCall2 := n.(*ast.CallExpr)
			if !isCall2 || !isCall(info, call, "cty.RefinementBuilder.StringPrefixFull") || len(call.Args) != 1 {
				return true
			}
			if inner, isInner := ast.Unparen(call.Args[0]).(*ast.CallExpr); isInner && isCall(info, inner, "cty/ctystrings.SafeKnownPrefix") {
				ok = true
			}
			return true
		})
		if ok {
			rr.OK("cty.RefinementBuilder.StringPrefix", fd.Pos(), "records SafeKnownPrefix(prefix) through StringPrefixFull")
		} else {
			rr.Violation("cty.RefinementBuilder.StringPrefix", fd.Pos(), "the safe constructor no longer passes its argument through ctystrings.SafeKnownPrefix before recording it: a prefix ending in an incomplete grapheme cluster or combining sequence would exclude valid continuations")
		}
	}
	// slicing a prefix anywhere else in the module: the cut must pass through SafeKnownPrefix before StringPrefixFull / EncodeString
	eachFuncBody(c, []string{"cty/msgpack", "cty/function/stdlib", "cty/convert", "cty/json"}, func(pkg string, fdd *ast.FuncDecl, body *ast.BlockStmt) {
		pinfo := c.Info(pkg)
		inspectNoLit(body, func(n ast.Node) bool {
			as, ok := n.(*ast.AssignStmt)
			if !ok || len(as.Lhs) != 1 || len(as.Rhs) != 1 {
				return true
			}
			sl, ok := ast.Unparen(as.Rhs[0]).(*ast.SliceExpr)
			if !ok {
				return true
			}
			o := objOf(pinfo, as.Lhs[0])
			if o == nil || objOf(pinfo, sl.X) != o || !strings.Contains(strings.ToLower(o.Name()), "prefix") {
				return true
			}
			if b, ok := o.Type().Underlying().(*types.Basic); !ok || b.Kind() != types.String {
				return true
			}
			key := fmt.Sprintf("%s.%s/%s cut", pkg, declName(fdd), o.Name())
			// the next assignment to the same variable must be SafeKnownPrefix(o)
			safe := false
			inspectNoLit(body, func(m ast.Node) bool {
				a2, ok := m.(*ast.AssignStmt)
				if !ok || a2.Pos() <= as.Pos() || len(a2.Lhs) != 1 || len(a2.Rhs) != 1 || objOf(pinfo, a2.Lhs[0]) != o {
					return true
				}
				if call, ok := ast.Unparen(a2.Rhs[0]).(*ast.CallExpr); ok && isCall(pinfo, call, "cty/ctystrings.SafeKnownPrefix") && len(call.Args) == 1 && objOf(pinfo, call.Args[0]) == o {
					if blk, ok := c.Parent(as).(*ast.BlockStmt); ok && c.Parent(a2) == ast.Node(blk) {
						safe = true
					}
				}
				return true
			})
			if safe {
				rr.OK(key, as.Pos(), "the truncated prefix is passed through SafeKnownPrefix in the same block")
			} else {
				rr.Violation(key, as.Pos(), "a string prefix is truncated by slicing and not passed through ctystrings.SafeKnownPrefix afterwards: the cut can split a character or grapheme cluster, so the recorded prefix is not a prefix of every admitted string")
			}
			return true
		})
	})
}

// ---------------------------------------------------------------------------
// C06.single-mark-layer

func runSingleMarkLayer(rr *RuleRun) {
	c := rr.Ctx
	info := c.Info("cty")
	for _, fd := range c.SortedDecls("cty") {
		// constructions: marker{realV: X, ...} literals and T.realV = X stores
		type cons struct {
			at   ast.Node
			x    ast.Expr
			cell string // for field stores: the cell written
		}
		var sites []cons
		inspectNoLit(fd.Body, func(n ast.Node) bool {
			switch x := n.(type) {
			case *ast.CompositeLit:
				if namedType(info.TypeOf(x)) != "cty.marker" {
					return true
				}
				for _, el := range x.Elts {
					if kv, ok := el.(*ast.KeyValueExpr); ok {
						if id, ok := kv.Key.(*ast.Ident); ok && id.Name == "realV" {
							sites = append(sites, cons{x, kv.Value, ""})
						}
					}
				}
			}
			return true
		})
		// struct-variable markers placed into a Value: Value{..., v: newMarker}
		var markerVars []types.Object
		inspectNoLit(fd.Body, func(n ast.Node) bool {
			if vs, ok := n.(*ast.ValueSpec); ok {
				for _, nm := range vs.Names {
					if o := info.Defs[nm]; o != nil && namedType(o.Type()) == "cty.marker" {
						markerVars = append(markerVars, o)
					}
				}
			}
			return true
		})
		for _, mv := range markerVars {
			inspectNoLit(fd.Body, func(n ast.Node) bool {
				cl, ok := n.(*ast.CompositeLit)
				if !ok || !isCtyValue(info.TypeOf(cl)) {
					return true
				}
				for _, el := range cl.Elts {
					if kv, ok := el.(*ast.KeyValueExpr); ok && objOf(info, kv.Value) == mv {
						sites = append(sites, cons{cl, nil, objKey(mv) + ".realV"})
					}
				}
				return true
			})
		}
		if len(sites) == 0 {
			continue
		}
		// pre-scan: cells assigned from a raw payload expression K
		cellsOf := map[string][]string{}
		inspectNoLit(fd.Body, func(n ast.Node) bool {
			as, ok := n.(*ast.AssignStmt)
			if !ok || len(as.Lhs) != len(as.Rhs) {
				return true
			}
			for i := range as.Lhs {
				lk, rk := subjKey(info, as.Lhs[i]), subjKey(info, as.Rhs[i])
				if lk != "" && strings.HasSuffix(rk, ".v") {
					cellsOf[rk] = append(cellsOf[rk], lk)
				}
			}
			return true
		})
		spec := &FactSpec{
			Atom: func(cond ast.Expr, truth bool) []Fact {
				id, ok := ast.Unparen(cond).(*ast.Ident)
				if !ok || truth {
					return nil
				}
				obj := objOf(info, id)
				if obj == nil {
					return nil
				}
				st, idx, rhs := findDefine(info, fd.Body, obj)
				if st == nil || idx != 1 || len(rhs) != 1 {
					return nil
				}
				ta, ok := ast.Unparen(rhs[0]).(*ast.TypeAssertExpr)
				if !ok || ta.Type == nil || namedType(info.TypeOf(ta.Type)) != "cty.marker" {
					return nil
				}
				k := subjKey(info, ta.X)
				if k == "" {
					return nil
				}
				out := []Fact{{"clean", k}}
				for _, cell := range cellsOf[k] {
					out = append(out, Fact{"clean", cell})
				}
				return out
			},
			Effects: func(n ast.Node) []Effect {
				as, ok := n.(*ast.AssignStmt)
				if !ok || len(as.Lhs) != len(as.Rhs) {
					return nil
				}
				var out []Effect
				// a store into another part of a marker variable (its mark set) leaves its realV alone
				for _, l := range as.Lhs {
					root := l
					for {
						switch y := ast.Unparen(root).(type) {
						case *ast.SelectorExpr:
							root = y.X
							continue
						case *ast.IndexExpr:
							root = y.X
							continue
						}
						break
					}
					if o := objOf(info, root); o != nil && namedType(o.Type()) == "cty.marker" && root != l {
						if se, ok := ast.Unparen(l).(*ast.SelectorExpr); !ok || se.Sel.Name != "realV" {
							out = append(out, Effect{Keep: &Fact{"clean", objKey(o) + ".realV"}})
						}
					}
				}
				for i := range as.Lhs {
					lk := subjKey(info, as.Lhs[i])
					if lk == "" {
						continue
					}
					if se, ok := ast.Unparen(as.Rhs[i]).(*ast.SelectorExpr); ok && se.Sel.Name == "realV" {
						out = append(out, Effect{Assert: &Fact{"clean", lk}})
					} else if rk := subjKey(info, as.Rhs[i]); rk != "" && !strings.HasSuffix(rk, ".v") {
						out = append(out, Effect{CopyFrom: rk, CopyTo: lk})
					}
				}
				return out
			},
		}
		g := c.CFG(fd.Body, info)
		facts := g.MustFacts(spec)
		for _, s := range sites {
			key := "cty." + declName(fd) + "/marker.realV"
			fs, ok := facts.At(s.at)
			if !ok {
				continue
			}
			clean := false
			what := s.cell
			if s.x != nil {
				what = exprStr(s.x)
				if se, ok := ast.Unparen(s.x).(*ast.SelectorExpr); ok && se.Sel.Name == "realV" {
					clean = true
				}
				if k := subjKey(info, s.x); k != "" && fs.has("clean", k) {
					clean = true
				}
			} else if fs.has("clean", s.cell) {
				clean = true
			}
			if clean {
				rr.OK(key, s.at.Pos(), fmt.Sprintf("the payload placed under the new marker (%s) is unwrapped on every path", displaySubj(what)))
			} else {
				rr.Violation(key, s.at.Pos(), fmt.Sprintf("the payload placed under the new marker (%s) can itself be a marker here: the result carries two layers of marks (one Unmark leaves a value that is still marked)", displaySubj(what)))
			}
		}
	}
}

// ---------------------------------------------------------------------------
// C06.literal-payload-kind

func expectedPayload(info *types.Info, tyExpr ast.Expr) string {
	switch kindOfTypeExpr(info, tyExpr) {
	case "Bool":
		return "bool"
	case "Number":
		return "*math/big.Float"
	case "String":
		return "string"
	}
	if call, ok := ast.Unparen(tyExpr).(*ast.CallExpr); ok {
		switch funcKey(callee(info, call)) {
		case "cty.List", "cty.Tuple":
			return "[]interface{}"
		case "cty.Map", "cty.Object", "cty.ObjectWithOptionalAttrs":
			return "map[string]interface{}"
		case "cty.Set":
			return "set"
		}
	}
	return ""
}

func runLiteralPayloadKind(rr *RuleRun) {
	c := rr.Ctx
	info := c.Info("cty")
	for _, fd := range c.SortedDecls("cty") {
		ast.Inspect(fd.Body, func(n ast.Node) bool {
			cl, ok := n.(*ast.CompositeLit)
			if !ok || !isCtyValue(info.TypeOf(cl)) {
				return true
			}
			var tyE, vE ast.Expr
			for _, el := range cl.Elts {
				if kv, ok := el.(*ast.KeyValueExpr); ok {
					if id, ok := kv.Key.(*ast.Ident); ok {
						switch id.Name {
						case "ty":
							tyE = kv.Value
						case "v":
							vE = kv.Value
						}
					}
				}
			}
			if tyE == nil || vE == nil {
				return true
			}
			key := fmt.Sprintf("cty.%s/Value{ty: %s}", declName(fd), trunc(exprStr(tyE), 30))
			want := expectedPayload(info, tyE)
			got := info.TypeOf(vE)
			if want == "" || got == nil {
				rr.OKTrivial(key, cl.Pos(), "type expression does not name a kind statically")
				return true
			}
			gs := got.String()
			okPayload := false
			switch {
			case isNilIdent(info, vE):
				okPayload = true
			case want == "set":
				okPayload = strings.Contains(gs, "cty/set.Set[interface{}]") || strings.Contains(gs, "set.Set[interface {}]")
			case want == "[]interface{}":
				okPayload = gs == "[]interface{}" || gs == "[]interface {}"
			case want == "map[string]interface{}":
				okPayload = gs == "map[string]interface{}" || gs == "map[string]interface {}"
			default:
				okPayload = gs == want
			}
			// interface-typed expressions: a payload read out of another payload, the unknown sigil, a marker
			if _, isIface := got.Underlying().(*types.Interface); isIface && !okPayload {
				rr.OKTrivial(key, cl.Pos(), "payload is an interface value taken from an existing payload")
				return true
			}
			if n := namedType(got); n == "cty.unknownType" || n == "cty.marker" {
				okPayload = true
			}
			if okPayload {
				rr.OK(key, cl.Pos(), "payload has Go type "+gs)
			} else {
				rr.Violation(key, cl.Pos(), fmt.Sprintf("a value of a %s type is built with a payload of Go type %s; every accessor for that kind asserts %s and would panic", trunc(exprStr(tyE), 30), gs, want))
			}
			return true
		})
	}
}

// ---------------------------------------------------------------------------
// C07.conformance-ignores-optional

func runConformanceIgnoresOptional(rr *RuleRun) {
	c := rr.Ctx
	info := c.Info("cty")
	for _, name := range []string{"testConformance"} {
		fd := rr.MustDecl("cty", name)
		if fd == nil {
			continue
		}
		var bad []string
		var pos token.Pos
		ast.Inspect(fd.Body, func(n ast.Node) bool {
			switch x := n.(type) {
			case *ast.CallExpr:
				switch funcKey(callee(info, x)) {
				case "cty.Type.AttributeOptional", "cty.Type.OptionalAttributes":
					bad = append(bad, exprStr(x.Fun))
					pos = x.Pos()
				}
			case *ast.SelectorExpr:
				if x.Sel.Name == "AttrOptional" {
					bad = append(bad, exprStr(x))
					pos = x.Pos()
				}
			}
			return true
		})
		sort.Strings(bad)
		if len(bad) > 0 {
			rr.Violation("cty."+name, pos, "conformance consults optional-attribute annotations ("+strings.Join(bad, ", ")+"): a type conforms exactly when it equals the constraint disregarding those annotations, so an attribute the constraint marks optional must still be present")
		} else {
			rr.OK("cty."+name, fd.Pos(), "does not consult optional-attribute annotations")
		}
	}
}

// ---------------------------------------------------------------------------
// C03.set-protocol

func runSetProtocol(rr *RuleRun) {
	c := rr.Ctx
	pkg := "cty/set"
	info := c.Info(pkg)
	o := c.Own()
	// (1) who writes the buckets of an existing set
	allowed := map[string]bool{"cty/set.Set.Add": true, "cty/set.Set.Remove": true}
	for _, fn := range o.moduleFuncs() {
		og := fn
		if fn.Origin() != nil {
			og = fn.Origin()
		}
		if og.Pkg == nil || shortPkg(og.Pkg.Pkg) != pkg || fn != og {
			continue
		}
		direct := false
		for _, w := range o.writesOf(fn, 0) {
			if strings.HasPrefix(w.Kind, "call ") {
				continue
			}
			if w.Target.has(oStore) {
				direct = true
				if !allowed[fnKey(fn)] {
					rr.Violation(fnKey(fn)+"/bucket-write", w.Pos, fmt.Sprintf("%s writes the hash buckets of an existing set directly (%s); only Add and Remove may, so that the no-duplicates scan cannot be bypassed", fnKey(fn), w.Target))
				}
			}
		}
		if direct && allowed[fnKey(fn)] {
			rr.OK(fnKey(fn)+"/bucket-write", fn.Pos(), "one of the two functions that may write buckets")
		}
	}
	// (2) Add / Remove / Has: key = rules.Hash(val); comparison = rules.Equivalent
	for _, name := range []string{"Set.Add", "Set.Remove", "Set.Has"} {
		fd := rr.MustDecl(pkg, name)
		if fd == nil {
			continue
		}
		hashCalls, equivCalls := 0, 0
		var hv types.Object
		ast.Inspect(fd.Body, func(n ast.Node) bool {
			switch x := n.(type) {
			case *ast.AssignStmt:
				if len(x.Rhs) == 1 && len(x.Lhs) == 1 {
					if call, ok := ast.Unparen(x.Rhs[0]).(*ast.CallExpr); ok {
						if f := callee(info, call); f != nil && f.Name() == "Hash" && strings.Contains(funcKey(f), "Rules") {
							hashCalls++
							hv = objOf(info, x.Lhs[0])
						}
					}
				}
			case *ast.CallExpr:
				if callsEquivalent(c, info, x, 2) {
					equivCalls++
				}
			}
			return true
		})
		key := pkg + "." + name
		badKey := ""
		ast.Inspect(fd.Body, func(n ast.Node) bool {
			if ix, ok := n.(*ast.IndexExpr); ok {
				if se, ok := ast.Unparen(ix.X).(*ast.SelectorExpr); ok && se.Sel.Name == "vals" && objOf(info, ix.Index) != hv {
					badKey = exprStr(ix)
				}
			}
			return true
		})
		switch {
		case hashCalls != 1 || hv == nil:
			rr.Violation(key+"/hash", fd.Pos(), fmt.Sprintf("expected exactly one rules.Hash(value) in %s, found %d: the bucket of a value must be determined by its hash alone", name, hashCalls))
		case badKey != "":
			rr.Violation(key+"/hash", fd.Pos(), "the bucket map is indexed with something other than the hash of the value: "+badKey)
		case equivCalls == 0:
			rr.Violation(key+"/equivalent", fd.Pos(), name+" never compares members with rules.Equivalent")
		default:
			rr.OK(key, fd.Pos(), "bucket chosen by rules.Hash(value); members compared with rules.Equivalent")
		}
	}
	// (3) Add appends only after the scan: a statement that (directly or through a helper of the package)
	// compares with rules.Equivalent dominates the append, and a return lies between the two
	if fd := rr.MustDecl(pkg, "Set.Add"); fd != nil {
		g := c.CFG(fd.Body, info)
		var scans []ast.Node
		var appendAt ast.Node
		var returns []*ast.ReturnStmt
		inspectNoLit(fd.Body, func(n ast.Node) bool {
			switch x := n.(type) {
			case *ast.CallExpr:
				if callsEquivalent(c, info, x, 2) {
					scans = append(scans, x)
				}
				if isBuiltin(info, x, "append") {
					appendAt = x
				}
			case *ast.ReturnStmt:
				returns = append(returns, x)
			}
			return true
		})
		key := pkg + ".Set.Add/append-after-scan"
		ok := false
		if appendAt != nil {
			for _, sc := range scans {
				if sc.Pos() >= appendAt.Pos() {
					continue
				}
				// the scan (or the loop head it sits in) lies on every path to the append
				dom := g.Dominates(sc, appendAt)
				for p := c.Parent(sc); p != nil && !dom && p != ast.Node(fd.Body); p = c.Parent(p) {
					if rs, isR := p.(*ast.RangeStmt); isR && g.Dominates(rs.X, appendAt) {
						dom = true
					}
					if fs, isF := p.(*ast.ForStmt); isF && fs.Cond != nil && g.Dominates(fs.Cond, appendAt) {
						dom = true
					}
				}
				if !dom {
					continue
				}
				for _, r := range returns {
					if r.Pos() > sc.Pos() && r.Pos() < appendAt.Pos() {
						ok = true
					}
				}
			}
		}
		switch {
		case appendAt == nil || len(scans) == 0:
			rr.Violation(key, fd.Pos(), "Add no longer scans the bucket with rules.Equivalent before appending: a set could hold two equivalent members")
		case ok:
			rr.OK(key, appendAt.Pos(), "the append is dominated by the equivalence scan, which returns on an equivalent member")
		default:
			rr.Violation(key, appendAt.Pos(), "the append is not dominated by an equivalence scan with an early return: a set could hold two equivalent members")
		}
	}
}

// callsEquivalent: the call is rules.Equivalent(...) or a call of a function of package set that (transitively) makes one.
func callsEquivalent(c *Ctx, info *types.Info, call *ast.CallExpr, depth int) bool {
	f := callee(info, call)
	if f == nil {
		return false
	}
	if f.Name() == "Equivalent" && strings.Contains(funcKey(f), "Rules") {
		return true
	}
	if depth == 0 || f.Pkg() == nil || shortPkg(f.Pkg()) != "cty/set" {
		return false
	}
	installFindFuncDecl(c)
	cd := findFuncDecl(f)
	if cd == nil || cd.Body == nil {
		return false
	}
	found := false
	ast.Inspect(cd.Body, func(n ast.Node) bool {
		if cl, ok := n.(*ast.CallExpr); ok && !found && callsEquivalent(c, c.InfoFor(cd.Pos()), cl, depth-1) {
			found = true
		}
		return !found
	})
	return found
}

// ---------------------------------------------------------------------------
// C05.collapse-needs-nullness

func init() {
	register(&Rule{
		ID: "C05.collapse-needs-nullness", Prop: "C05", Floor: 4, Controls: 0,
		Doc: "RefinementBuilder.NewValue turns a refined unknown into a known value only where nullness is decided: a null result only under 'definitely null', any other known result only under 'definitely not null' (otherwise the known value would exclude the null the refinement still admits)",
		Run: runCollapseNeedsNullness,
	})
}

func runCollapseNeedsNullness(rr *RuleRun) {
	c := rr.Ctx
	info := c.Info("cty")
	fd := rr.MustDecl("cty", "RefinementBuilder.NewValue")
	if fd == nil {
		return
	}
	recv := recvObj(info, fd)
	inspectNoLit(fd.Body, func(n ast.Node) bool {
		ret, ok := n.(*ast.ReturnStmt)
		if !ok || len(ret.Results) != 1 {
			return true
		}
		e := ast.Unparen(ret.Results[0])
		// the value being refined itself, and the refined unknown built at the end
		if se, ok := e.(*ast.SelectorExpr); ok && se.Sel.Name == "orig" && objOf(info, se.X) == recv {
			return true
		}
		if cl, ok := e.(*ast.CompositeLit); ok && isCtyValue(info.TypeOf(cl)) {
			return true
		}
		want := "tristateFalse"
		if call, ok := e.(*ast.CallExpr); ok && isCall(info, call, "cty.NullVal") {
			want = "tristateTrue"
		}
		// enclosing case clause of a switch on <builder>.wip.null()
		under := ""
		for p := c.Parent(ret); p != nil && p != ast.Node(fd.Body); p = c.Parent(p) {
			cc, ok := p.(*ast.CaseClause)
			if !ok {
				continue
			}
			bs, _ := c.Parent(cc).(*ast.BlockStmt)
			if bs == nil {
				continue
			}
			sw, ok := c.Parent(bs).(*ast.SwitchStmt)
			if !ok || sw.Tag == nil {
				continue
			}
			if call, ok := ast.Unparen(sw.Tag).(*ast.CallExpr); ok {
				if f := callee(info, call); f != nil && f.Name() == "null" {
					for _, ce := range cc.List {
						if o := objOf(info, ce); o != nil {
							under = o.Name()
						}
					}
				}
			}
		}
		key := fmt.Sprintf("cty.RefinementBuilder.NewValue/return %s", trunc(exprStr(e), 40))
		if under == want {
			rr.OK(key, ret.Pos(), "returned only under nullness "+want)
		} else {
			rr.Violation(key, ret.Pos(), fmt.Sprintf("a known value is returned %s, but it is justified only when nullness is %s: a refinement that still admits null (or non-null) collapses to a value that excludes it", map[bool]string{true: "under nullness " + under, false: "without consulting the nullness of the refinement"}[under != ""], want))
		}
		return true
	})
}

// assignedFromOrig: some assignment to o (definition or plain assignment) has a right-hand side that
// reads the receiver's orig field.
func assignedFromOrig(info *types.Info, root ast.Node, o, recv types.Object) bool {
	found := false
	ast.Inspect(root, func(n ast.Node) bool {
		as, ok := n.(*ast.AssignStmt)
		if !ok || found || len(as.Lhs) != len(as.Rhs) {
			return true
		}
		for i, l := range as.Lhs {
			if objOf(info, l) != o {
				continue
			}
			ast.Inspect(as.Rhs[i], func(m ast.Node) bool {
				if se, ok := m.(*ast.SelectorExpr); ok && se.Sel.Name == "orig" && objOf(info, se.X) == recv {
					found = true
				}
				return true
			})
		}
		return true
	})
	return found
}
