package main

import (
	"go/ast"
	"go/token"
	"sort"
	"strings"
)

// Worlds is the relational typestate engine (GUARD): the state at a program
// point is the set of valuations ("worlds") of a small set of boolean atoms —
// K(x) "x is known", N(x) "x is null", M(x) "x is marked", DM(x) "x contains
// marks", WK(x) "x is wholly known", kind=<K>(t). Branch edges keep the worlds
// compatible with the condition, joins take the union. A fact is *established*
// at a node when every world there satisfies it, and *possible* when some does.

type atomID struct{ Dim, Subj string }

type world uint64

type WorldResult struct {
	f     *FuncCFG
	spec  *FactSpec
	atoms []atomID
	idx   map[atomID]int
	in    []map[world]struct{}
	full  bool // false if the atom set had to be pruned
}

const maxAtoms = 18

// factAtom maps a fact to (atom, value).
func factAtom(ft Fact) (atomID, bool, bool) {
	switch ft.Pred {
	case "known":
		return atomID{"K", ft.Subj}, true, true
	case "unknown":
		return atomID{"K", ft.Subj}, false, true
	case "null":
		return atomID{"N", ft.Subj}, true, true
	case "notnull":
		return atomID{"N", ft.Subj}, false, true
	case "unmarked":
		return atomID{"M", ft.Subj}, false, true
	case "marked":
		return atomID{"M", ft.Subj}, true, true
	case "deepunmarked":
		return atomID{"DM", ft.Subj}, false, true
	case "whollyknown":
		return atomID{"WK", ft.Subj}, true, true
	}
	if strings.HasPrefix(ft.Pred, "kind=") {
		return atomID{ft.Pred, ft.Subj}, true, true
	}
	if strings.HasPrefix(ft.Pred, "kind!=") {
		return atomID{"kind=" + strings.TrimPrefix(ft.Pred, "kind!="), ft.Subj}, false, true
	}
	return atomID{}, false, false
}

// Worlds runs the analysis. focus lists subject keys that must be tracked (atoms
// on other subjects are dropped first when there are too many); extra lists facts
// whose atoms must exist; entry restricts the entry worlds.
func (f *FuncCFG) Worlds(spec *FactSpec, extra []Fact, entry []Fact, focus []string) *WorldResult {
	return f.worlds(spec, extra, entry, focus, false)
}

// WorldsFocused tracks only the atoms of the focus subjects (everything else is dropped
// even when it would fit): cheaper, and immune to unrelated predicates in large functions.
func (f *FuncCFG) WorldsFocused(spec *FactSpec, extra []Fact, entry []Fact, focus []string) *WorldResult {
	return f.worlds(spec, extra, entry, focus, true)
}

// WorldsFocusedDims additionally restricts the tracked atoms to the given dimensions
// (K/WK for known-ness, N for nullness, M/DM for marks): the three bits are independent, so a
// question about one of them needs only its own atoms — which keeps long alias chains under the limit.
func (f *FuncCFG) WorldsFocusedDims(spec *FactSpec, extra []Fact, entry []Fact, focus []string, dims []string) *WorldResult {
	f.dimFilter = dims
	defer func() { f.dimFilter = nil }()
	return f.worlds(spec, extra, entry, focus, true)
}

func (f *FuncCFG) worlds(spec *FactSpec, extra []Fact, entry []Fact, focus []string, only bool) *WorldResult {
	r := &WorldResult{f: f, spec: spec, idx: map[atomID]int{}, full: true}
	seen := map[atomID]bool{}
	var atoms []atomID
	addFact := func(ft Fact) {
		if a, _, ok := factAtom(ft); ok && !seen[a] {
			seen[a] = true
			atoms = append(atoms, a)
		}
	}
	for _, ft := range extra {
		addFact(ft)
	}
	for _, ft := range entry {
		addFact(ft)
	}
	for _, ft := range spec.Invariants {
		addFact(ft)
	}
	var copies []Effect
	// conditions and effects anywhere in the body (not in nested literals)
	inspectNoLit(f.Body, func(n ast.Node) bool {
		if e, ok := n.(ast.Expr); ok {
			switch e.(type) {
			case *ast.CallExpr, *ast.Ident, *ast.BinaryExpr:
				for _, ft := range f.condFacts(spec, e, true) {
					addFact(ft)
				}
				for _, ft := range f.condFacts(spec, e, false) {
					addFact(ft)
				}
			}
		}
		if spec.Effects != nil {
			for _, ef := range spec.Effects(n) {
				if ef.Assert != nil {
					addFact(*ef.Assert)
				}
				if ef.ImplyIf != nil && ef.ImplyThen != nil {
					addFact(*ef.ImplyIf)
					addFact(*ef.ImplyThen)
				}
				if ef.CopyTo != "" {
					copies = append(copies, ef)
				}
			}
		}
		return true
	})
	// tagged switch conditions are synthesised per block
	for _, b := range f.G.Blocks {
		if cond, ok := f.condOf(b); ok {
			for _, ft := range f.condFacts(spec, cond, true) {
				addFact(ft)
			}
			for _, ft := range f.condFacts(spec, cond, false) {
				addFact(ft)
			}
		}
	}
	// copies create mirrored atoms (to a fixpoint, copies can chain)
	for changed := true; changed; {
		changed = false
		for _, cp := range copies {
			for _, a := range atoms {
				if a.Subj == cp.CopyFrom || strings.HasPrefix(a.Subj, cp.CopyFrom+".") {
					if a.Subj == cp.CopyFrom+".v" {
						continue
					}
					na := atomID{a.Dim, cp.CopyTo + strings.TrimPrefix(a.Subj, cp.CopyFrom)}
					if !seen[na] {
						seen[na] = true
						atoms = append(atoms, na)
						changed = true
					}
				}
			}
		}
	}
	isFocus := func(a atomID) bool {
		for _, fs := range focus {
			if a.Subj == fs || strings.HasPrefix(a.Subj, fs+".") || strings.HasPrefix(a.Subj, fs+"[") {
				return true
			}
		}
		return false
	}
	if only {
		var keep []atomID
		for _, a := range atoms {
			if !isFocus(a) {
				continue
			}
			if f.dimFilter != nil && !strings.HasPrefix(a.Dim, "kind=") {
				ok := false
				for _, d := range f.dimFilter {
					if a.Dim == d {
						ok = true
					}
				}
				if !ok {
					continue
				}
			}
			keep = append(keep, a)
		}
		atoms = keep
	}
	if len(atoms) > maxAtoms {
		r.full = false
		sort.SliceStable(atoms, func(i, j int) bool { return isFocus(atoms[i]) && !isFocus(atoms[j]) })
		atoms = atoms[:maxAtoms]
	}
	r.atoms = atoms
	for i, a := range atoms {
		r.idx[a] = i
	}

	nb := len(f.G.Blocks)
	r.in = make([]map[world]struct{}, nb)
	init := map[world]struct{}{}
	n := len(atoms)
	for w := world(0); w < world(1)<<uint(n); w++ {
		if !r.consistent(w) {
			continue
		}
		ok := true
		for _, ft := range entry {
			if !r.sat(w, ft) {
				ok = false
				break
			}
		}
		if ok {
			init[w] = struct{}{}
		}
	}
	r.in[0] = init
	work := []int32{0}
	inWork := make([]bool, nb)
	inWork[0] = true
	for len(work) > 0 {
		bi := work[0]
		work = work[1:]
		inWork[bi] = false
		b := f.G.Blocks[bi]
		s := cloneWorlds(r.in[bi])
		for _, nd := range b.Nodes {
			s = r.transfer(s, nd)
		}
		cond, hasCond := f.condOf(b)
		for si, succ := range b.Succs {
			out := s
			if hasCond {
				out = map[world]struct{}{}
				for w := range s {
					if r.compat(cond, si == 0, w) {
						out[w] = struct{}{}
					}
				}
			}
			if r.in[succ.Index] == nil {
				r.in[succ.Index] = map[world]struct{}{}
				// mark reachable even with zero worlds so joins work; re-queue
				if !inWork[succ.Index] {
					work = append(work, succ.Index)
					inWork[succ.Index] = true
				}
			}
			grew := false
			for w := range out {
				if _, ok := r.in[succ.Index][w]; !ok {
					r.in[succ.Index][w] = struct{}{}
					grew = true
				}
			}
			if grew && !inWork[succ.Index] {
				work = append(work, succ.Index)
				inWork[succ.Index] = true
			}
		}
	}
	return r
}

func cloneWorlds(m map[world]struct{}) map[world]struct{} {
	o := make(map[world]struct{}, len(m))
	for k := range m {
		o[k] = struct{}{}
	}
	return o
}

func (r *WorldResult) get(w world, a atomID) (bool, bool) {
	i, ok := r.idx[a]
	if !ok {
		return false, false
	}
	return w&(1<<uint(i)) != 0, true
}

// consistent applies the implications between atoms of one subject.
func (r *WorldResult) consistent(w world) bool {
	for _, ft := range r.spec.Invariants {
		if !r.sat(w, ft) {
			return false
		}
	}
	for i, a := range r.atoms {
		v := w&(1<<uint(i)) != 0
		switch a.Dim {
		case "N": // null ⇒ known
			if v {
				if k, ok := r.get(w, atomID{"K", a.Subj}); ok && !k {
					return false
				}
			}
		case "WK":
			if v {
				if k, ok := r.get(w, atomID{"K", a.Subj}); ok && !k {
					return false
				}
			}
		case "M": // marked ⇒ contains marks
			if v {
				if d, ok := r.get(w, atomID{"DM", a.Subj}); ok && !d {
					return false
				}
			}
		default:
			if strings.HasPrefix(a.Dim, "kind=") && v {
				k := strings.TrimPrefix(a.Dim, "kind=")
				for j, b := range r.atoms {
					if j == i || b.Subj != a.Subj || !strings.HasPrefix(b.Dim, "kind=") {
						continue
					}
					bv := w&(1<<uint(j)) != 0
					bk := strings.TrimPrefix(b.Dim, "kind=")
					sub := kindSubset(k, bk)
					disjoint := kindDisjoint(k, bk)
					if sub && !bv { // k ⊆ bk, k true ⇒ bk true
						return false
					}
					if disjoint && bv {
						return false
					}
				}
			}
		}
	}
	return true
}

func kindSubset(a, b string) bool {
	for _, x := range expandKind(a) {
		found := false
		for _, y := range expandKind(b) {
			if x == y {
				found = true
			}
		}
		if !found {
			return false
		}
	}
	return true
}

func kindDisjoint(a, b string) bool {
	for _, x := range expandKind(a) {
		for _, y := range expandKind(b) {
			if x == y {
				return false
			}
		}
	}
	return true
}

// sat: does world w satisfy fact ft? Facts on untracked atoms are satisfiable.
func (r *WorldResult) sat(w world, ft Fact) bool {
	a, val, ok := factAtom(ft)
	if !ok {
		return true
	}
	v, tracked := r.get(w, a)
	if !tracked {
		return true
	}
	return v == val
}

// compat: can cond evaluate to truth in world w?
func (r *WorldResult) compat(cond ast.Expr, truth bool, w world) bool {
	cond = ast.Unparen(cond)
	switch x := cond.(type) {
	case *ast.UnaryExpr:
		if x.Op == token.NOT {
			return r.compat(x.X, !truth, w)
		}
	case *ast.BinaryExpr:
		switch x.Op {
		case token.LAND:
			if truth {
				return r.compat(x.X, true, w) && r.compat(x.Y, true, w)
			}
			return r.compat(x.X, false, w) || r.compat(x.Y, false, w)
		case token.LOR:
			if truth {
				return r.compat(x.X, true, w) || r.compat(x.Y, true, w)
			}
			return r.compat(x.X, false, w) && r.compat(x.Y, false, w)
		}
	}
	for _, ft := range r.f.condFacts(r.spec, cond, truth) {
		if !r.sat(w, ft) {
			return false
		}
	}
	return true
}

func (r *WorldResult) transfer(s map[world]struct{}, n ast.Node) map[world]struct{} {
	selfCopy := map[string]bool{}
	if r.spec.Effects != nil {
		for _, ef := range r.spec.Effects(n) {
			if ef.CopyTo != "" && ef.CopyTo == ef.CopyFrom {
				selfCopy[ef.CopyTo] = true
			}
		}
	}
	if keys := r.f.assignedKeys(n); len(keys) > 0 {
		var free []int
		for i, a := range r.atoms {
			if selfCopy[a.Subj] && a.Dim != "M" && a.Dim != "DM" {
				continue
			}
			for _, key := range keys {
				if strings.Contains(a.Subj, key) {
					free = append(free, i)
					break
				}
			}
		}
		if len(free) > 0 {
			out := map[world]struct{}{}
			for w := range s {
				r.expand(w, free, 0, out)
			}
			s = out
		}
	}
	if r.spec.Effects == nil {
		return s
	}
	for _, ef := range r.spec.Effects(n) {
		if ef.CopyTo != "" && ef.CopyTo != ef.CopyFrom {
			out := map[world]struct{}{}
			for w := range s {
				nw := w
				for i, a := range r.atoms {
					if a.Subj == ef.CopyFrom || strings.HasPrefix(a.Subj, ef.CopyFrom+".") {
						if ef.DropMarks && (a.Dim == "M" || a.Dim == "DM") {
							continue
						}
						to := atomID{a.Dim, ef.CopyTo + strings.TrimPrefix(a.Subj, ef.CopyFrom)}
						if j, ok := r.idx[to]; ok {
							if w&(1<<uint(i)) != 0 {
								nw |= 1 << uint(j)
							} else {
								nw &^= 1 << uint(j)
							}
						}
					}
				}
				if r.consistent(nw) {
					out[nw] = struct{}{}
				}
			}
			s = out
		}
		if ef.Assert != nil {
			out := map[world]struct{}{}
			for w := range s {
				if r.sat(w, *ef.Assert) {
					out[w] = struct{}{}
				}
			}
			s = out
		}
		if ef.Filter != nil {
			out := map[world]struct{}{}
			for w := range s {
				w := w
				if ef.Filter(func(f Fact) bool { return r.sat(w, f) }) {
					out[w] = struct{}{}
				}
			}
			s = out
		}
		if ef.ImplyIf != nil && ef.ImplyThen != nil {
			if a, _, ok := factAtom(*ef.ImplyIf); ok {
				if _, tracked := r.idx[a]; tracked {
					out := map[world]struct{}{}
					for w := range s {
						if !r.sat(w, *ef.ImplyIf) || r.sat(w, *ef.ImplyThen) {
							out[w] = struct{}{}
						}
					}
					s = out
				}
			}
		}
	}
	return s
}

func (r *WorldResult) expand(w world, free []int, k int, out map[world]struct{}) {
	if k == len(free) {
		if r.consistent(w) {
			out[w] = struct{}{}
		}
		return
	}
	bit := world(1) << uint(free[k])
	r.expand(w|bit, free, k+1, out)
	r.expand(w&^bit, free, k+1, out)
}

// at returns the worlds just before n is evaluated.
func (r *WorldResult) at(n ast.Node) (map[world]struct{}, bool) {
	l, chain, ok := r.f.locate(n)
	if !ok || r.in[l.b.Index] == nil {
		return nil, false
	}
	s := cloneWorlds(r.in[l.b.Index])
	for i := 0; i < l.i; i++ {
		s = r.transfer(s, l.b.Nodes[i])
	}
	for i := 0; i+1 < len(chain); i++ {
		if be, ok := chain[i].(*ast.BinaryExpr); ok && (be.Op == token.LAND || be.Op == token.LOR) && chain[i+1] == ast.Node(be.Y) {
			out := map[world]struct{}{}
			for w := range s {
				if r.compat(be.X, be.Op == token.LAND, w) {
					out[w] = struct{}{}
				}
			}
			s = out
		}
	}
	return s, true
}

// Established: every world reaching n satisfies ft (and ft's atom is tracked).
// reachable=false when no world reaches n.
func (r *WorldResult) Established(n ast.Node, ft Fact) (holds, reachable bool) {
	a, _, ok := factAtom(ft)
	if !ok {
		return false, true
	}
	s, ok2 := r.at(n)
	if !ok2 || len(s) == 0 {
		return false, false
	}
	if _, tracked := r.idx[a]; !tracked {
		return false, true
	}
	for w := range s {
		if !r.sat(w, ft) {
			return false, true
		}
	}
	return true, true
}

// Possible: some world reaching n satisfies ft.
func (r *WorldResult) Possible(n ast.Node, ft Fact) bool {
	s, ok := r.at(n)
	if !ok {
		return false
	}
	for w := range s {
		if r.sat(w, ft) {
			return true
		}
	}
	return false
}

// Describe renders the worlds at n restricted to one subject (for messages).
func (r *WorldResult) Describe(n ast.Node, subj string) string {
	s, ok := r.at(n)
	if !ok {
		return "unreachable"
	}
	set := map[string]bool{}
	for w := range s {
		var parts []string
		for i, a := range r.atoms {
			if a.Subj != subj {
				continue
			}
			v := "0"
			if w&(1<<uint(i)) != 0 {
				v = "1"
			}
			parts = append(parts, a.Dim+"="+v)
		}
		set[strings.Join(parts, " ")] = true
	}
	var l []string
	for k := range set {
		l = append(l, "{"+k+"}")
	}
	sort.Strings(l)
	return strings.Join(l, " ")
}
